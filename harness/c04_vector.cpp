// C04 -- vector operations equal their element-wise definitions for every dense-like vector kind
// (DenseVector, DenseVectorBlocked, TupleVector, PowerVector, nested), for every alias partition of the operands,
// realised as the same object, as shallow clones, as ranged views and (composed kinds) as partially shared vectors.
//
// Oracle: element-wise definition on the flattened data, computed in the harness (long double for sums; a single
// IEEE operation in the data type for the single-rounding element-wise operations). Data is read and written through
// raw pointers collected from the leaf arrays -- FEAT's own copy/set_vec are never used for the oracle.
#include "c04_common.hpp"
#include <map>
#include <kernel/util/random.hpp>
#include <functional>
#include <type_traits>
#include <sstream>

using namespace c04;

namespace
{
  enum Op
  {
    AXPY, SCALE, CPROD, CINV, COPY, COPYFULL, FORMAT, DOT, TDOT, NORM2, NORM2SQR, MAXABS, MINABS, MAXE, MINE,
    CLONE_DEEP, CLONE_WEAK, CLONE_SHALLOW, TO_DV, FROM_DV, FORMAT_RNG, CONV_DV, SELF_CONVERT,
    // DenseVectorBlocked only
    AXPYB, SCALEB, DOTB, TDOTB, NORM2B, NORM2SQRB, MAXABSB, MINABSB, MAXEB, MINEB, CCOPY, CCOPYTO, CONV_FROM_DV, INFLATE,
    NUM_OPS
  };

  struct OpDesc { const char* name; int arity; bool mutates; bool alpha; bool nonempty; bool dvb; };
  const OpDesc ops[NUM_OPS] = {
    {"axpy", 2, true, true, false, false},
    {"scale", 2, true, true, false, false},
    {"component_product", 3, true, false, false, false},
    {"component_invert", 2, true, true, false, false},
    {"copy", 2, true, false, false, false},
    {"copy(full)", 2, true, false, false, false},
    {"format", 1, true, true, false, false},
    {"dot", 2, false, false, false, false},
    {"triple_dot", 3, false, false, false, false},
    {"norm2", 1, false, false, false, false},
    {"norm2sqr", 1, false, false, false, false},
    {"max_abs_element", 1, false, false, true, false},
    {"min_abs_element", 1, false, false, true, false},
    {"max_element", 1, false, false, true, false},
    {"min_element", 1, false, false, true, false},
    {"clone(Deep)", 1, false, false, false, false},
    {"clone(Weak)", 1, false, false, false, false},
    {"clone(Shallow)", 1, false, false, false, false},
    {"DenseVector::copy(V)", 1, false, false, false, false},
    {"DenseVector::copy_inv(V)", 1, true, false, false, false},
    {"format(Random,min,max)", 1, false, true, false, false},
    {"DenseVector::convert(V)", 1, false, false, false, false},
    {"convert(self)", 1, false, false, false, false},
    {"axpy_blocked", 2, true, true, false, true},
    {"scale_blocked", 2, true, true, false, true},
    {"dot_blocked", 2, false, false, false, true},
    {"triple_dot_blocked", 3, false, false, false, true},
    {"norm2_blocked", 1, false, false, false, true},
    {"norm2sqr_blocked", 1, false, false, false, true},
    {"max_abs_element_blocked", 1, false, false, true, true},
    {"min_abs_element_blocked", 1, false, false, true, true},
    {"max_element_blocked", 1, false, false, true, true},
    {"min_element_blocked", 1, false, false, true, true},
    {"component_copy", 1, true, true, false, true},
    {"component_copy_to", 1, false, true, false, true},
    {"DenseVectorBlocked::convert(DenseVector) / DenseVectorBlocked(DenseVector)", 1, false, false, false, true},
    {"DenseVector::inflate_to_blocks", 1, false, false, false, true},
  };

  // how an operand object came into being (pattern "derived objects"): the complete operation set also runs on objects
  // that were move-assigned over a used object, cloned (deep/weak), cloned INTO a used object that shares its old storage
  // with a bystander, or converted from the other floating point type
  enum Deriv { D_NONE = 0, D_MOVE_ASSIGN, D_CLONE_DEEP, D_CLONE_WEAK, D_CLONE_INTO, D_CONVERT, D_CLONE_INTO1, NUM_DERIV };
  const char* deriv_name[NUM_DERIV] = {"fresh", "move-assigned over a used object", "deep clone", "weak clone", "clone(other) into a used object with a storage-sharing bystander", "convert() from the other data type", "one-argument clone(other) into a used object"};

  enum Real { R_PLAIN = 0, R_SHALLOW = 1, R_RANGE = 2, R_PARTIAL = 3, R_WRAP = 4, NUM_REAL = 5 };
  const char* real_name[NUM_REAL] = {"same-object", "shallow-clone", "range-view", "partial(first component shared)", "(size,data*) constructor wrapping the same array"};

  // ------------------------------------------------------------------------------------------------ kinds
  template<typename V> struct Kind;

  template<typename DT, typename IT>
  struct Kind<DenseVector<DT, IT>>
  {
    typedef DenseVector<DT, IT> V;
    static constexpr bool composed = false, ranged = true, blocked = false;
    static constexpr int BS = 1;
    static int num_shapes(bool th) { return th ? 37 : 21; }
    static std::string shape_name(int s) { return "n=" + std::to_string(s); }
    static V make(int s) { return V(Index(s)); }
    static V make_base(int s) { return V(Index(s + 2)); }
    static V view(V& base, int s) { return V(base, Index(s), Index(1)); }
    static V wrap(V& rep, int s) { return V(Index(s), rep.elements()); }
    static bool norm_exact() { return true; }
  };

  template<typename DT, typename IT, int BS_>
  struct Kind<DenseVectorBlocked<DT, IT, BS_>>
  {
    typedef DenseVectorBlocked<DT, IT, BS_> V;
    static constexpr bool composed = false, ranged = true, blocked = true;
    static constexpr int BS = BS_;
    static int num_shapes(bool th) { return th ? 13 : 8; }
    static std::string shape_name(int s) { return "blocks=" + std::to_string(s); }
    static V make(int s) { return V(Index(s)); }
    static V make_base(int s) { return V(Index(s + 2)); }
    static V view(V& base, int s) { return V(base, Index(s), Index(1)); }
    static V wrap(V& rep, int s) { return V(Index(s), rep.template elements<Perspective::pod>()); }
    static bool norm_exact() { return true; }
  };

  template<typename S, int n_>
  struct Kind<PowerVector<S, n_>>
  {
    typedef PowerVector<S, n_> V;
    static constexpr bool composed = true, ranged = false, blocked = false;
    static constexpr int BS = 1;
    static int num_shapes(bool th) { return th ? 10 : 7; }
    static std::string shape_name(int s) { return "sub=" + std::to_string(s); }
    static V make(int s) { return V(Index(s)); }
    static V make_base(int s) { return V(Index(s)); }
    static V view(V&, int s) { return V(Index(s)); }
    static bool norm_exact() { return false; }
  };

  // sizes of a two-component tuple
  static const int tshape[][2] = {{0, 0}, {1, 1}, {2, 1}, {1, 2}, {3, 2}, {0, 2}, {3, 0}, {5, 3}, {4, 4}, {7, 1}, {9, 5}, {6, 7}, {13, 2}, {1, 9}};

  template<typename A, typename B>
  struct Kind<TupleVector<A, B>>
  {
    typedef TupleVector<A, B> V;
    static constexpr bool composed = true, ranged = false, blocked = false;
    static constexpr int BS = 1;
    static int num_shapes(bool th) { return th ? 14 : 10; }
    static std::string shape_name(int s) { return "sizes=(" + std::to_string(tshape[s][0]) + "," + std::to_string(tshape[s][1]) + ")"; }
    static V make(int s) { return V(A(Index(tshape[s][0])), B(Index(tshape[s][1]))); }
    static V make_base(int s) { return make(s); }
    static V view(V&, int s) { return make(s); }
    static bool norm_exact() { return false; }
  };

  template<typename A>
  struct Kind<TupleVector<A>>
  {
    typedef TupleVector<A> V;
    static constexpr bool composed = true, ranged = false, blocked = false;
    static constexpr int BS = 1;
    static int num_shapes(bool th) { return th ? 8 : 6; }
    static std::string shape_name(int s) { return "size=" + std::to_string(s); }
    static V make(int s) { return V(A(Index(s))); }
    static V make_base(int s) { return make(s); }
    static V view(V&, int s) { return make(s); }
    static bool norm_exact() { return false; }
  };

  template<typename T, typename = void> struct HasEq { static constexpr bool value = false; };
  template<typename T> struct HasEq<T, decltype(void(std::declval<const T&>() == std::declval<const T&>()))> { static constexpr bool value = true; };
  template<typename T> struct IsDVB { static constexpr bool value = false; };
  template<typename DT, typename IT, int BS> struct IsDVB<DenseVectorBlocked<DT, IT, BS>> { static constexpr bool value = true; };

  // ------------------------------------------------------------------------------------------------ one case
  template<typename V>
  struct Case
  {
    typedef typename V::DataType DT;
    typedef typename V::IndexType IT;
    typedef Kind<V> K;

    verif::Ctx& c;
    const std::string& kname;
    int op, shape, pj, real, vs, ai;
    int deriv = D_NONE;
    std::vector<std::shared_ptr<void>> store2;                // sources of other types (convert)
    std::vector<std::function<bool()>> bystanders;            // sources / bystanders of derived objects must stay as they were

    std::vector<std::unique_ptr<V>> store;   // owned objects (bases first, so that views die before ... see dtor order below)
    V* o[3] = {nullptr, nullptr, nullptr};
    std::vector<DT*> ptr[3];
    std::vector<DT> pre[3];
    std::vector<std::pair<DT*, DT>> guards;

    Case(verif::Ctx& c_, const std::string& kn, int op_, int shape_, int pj_, int real_, int vs_, int ai_) :
      c(c_), kname(kn), op(op_), shape(shape_), pj(pj_), real(real_), vs(vs_), ai(ai_) {}

    ~Case()
    {
      // views (foreign memory) must be destroyed before their bases: destroy in reverse creation order
      while(!store.empty()) store.pop_back();
    }

    std::string pass_name;
    std::string key(const std::string& what) const
    {
      return kname + "." + ops[op].name + " " + part_name(ops[op].arity, pj) + " " + real_name[real] + ": " + what + pass_name;
    }

    V* add(V&& v) { store.emplace_back(new V(std::move(v))); return store.back().get(); }

    /// fills an object with a marker value and registers the check that it still holds it later
    template<typename W> void mark(W& w, double m)
    {
      typedef typename W::DataType DW;
      auto pp = std::make_shared<std::vector<DW*>>();
      collect(w, *pp);
      for(DW* q : *pp) *q = DW(m);
      bystanders.push_back([pp, m]{ for(DW* q : *pp) if(!(*q == DW(m))) return false; return true; });
    }

    V* make_derived()
    {
      const int other = shape == 0 ? 1 : shape - 1;
      switch(deriv)
      {
      case D_MOVE_ASSIGN:
      {
        V* t = add(K::make(other));
        { std::vector<DT*> q; collect(*t, q); for(DT* x : q) *x = DT(333); }
        *t = K::make(shape);
        return t;
      }
      case D_CLONE_DEEP: case D_CLONE_WEAK:
      {
        V* src = add(K::make(shape)); mark(*src, 555);
        return add(src->clone(deriv == D_CLONE_DEEP ? CloneMode::Deep : CloneMode::Weak));
      }
      case D_CLONE_INTO1:
      {
        V* src = add(K::make(shape)); mark(*src, 555);
        V* t = add(K::make(other));
        t->clone(*src);
        { std::vector<DT*> q; collect(*t, q); bool ok = q.size() == size_t(src->template size<Perspective::pod>()); for(DT* x : q) if(!(*x == DT(555))) ok = false;
          c.check(ok, kname + ".clone(other): values", "one-argument clone(other) did not deliver the source values"); }
        return t;
      }
      case D_CLONE_INTO:
      {
        V* src = add(K::make(shape)); mark(*src, 555);
        V* t = add(K::make(other));
        V* by = add(t->clone(CloneMode::Shallow)); mark(*by, 777);   // shares the arrays t holds now
        t->clone(*src, CloneMode::Deep);
        return t;
      }
      case D_CONVERT:
      {
        typedef typename std::conditional<std::is_same<DT, double>::value, float, double>::type DT2;
        typedef typename V::template ContainerType<DT2, IT> V2;
        auto src = std::make_shared<V2>(Kind<V2>::make(shape));
        store2.push_back(src);
        mark(*src, 555);
        V* t = add(K::make(other));
        { std::vector<DT*> q; collect(*t, q); for(DT* x : q) *x = DT(333); }
        t->convert(*src);
        // the converted object holds the source's values
        { std::vector<DT*> q; collect(*t, q); bool ok = true; for(DT* x : q) if(!(*x == DT(555))) ok = false;
          c.check(ok, kname + ".convert: values", "convert() from the other data type did not deliver the source values"); }
        return t;
      }
      default:
        return add(K::make(shape));
      }
    }

    void build()
    {
      const int ar = ops[op].arity;
      const int* pt = part(ar, pj);
      V* rep[3] = {nullptr, nullptr, nullptr};
      V* base[3] = {nullptr, nullptr, nullptr};
      for(int p = 0; p < ar; ++p)
      {
        const int cl = pt[p];
        if(rep[cl] == nullptr)
        {
          if constexpr(K::ranged)
          {
            if(real == R_RANGE)
            {
              base[cl] = add(K::make_base(shape));
              std::vector<DT*> bp; collect(*base[cl], bp);
              for(DT* q : bp) *q = DT(777);
              // guard entries: one block before, one block after the view
              for(int j = 0; j < K::BS; ++j) { guards.emplace_back(bp[size_t(j)], DT(777)); guards.emplace_back(bp[bp.size() - 1 - size_t(j)], DT(777)); }
              rep[cl] = add(K::view(*base[cl], shape));
              o[p] = rep[cl];
              continue;
            }
          }
          rep[cl] = make_derived();
          o[p] = rep[cl];
        }
        else
        {
          switch(real)
          {
          case R_PLAIN: o[p] = rep[cl]; break;
          case R_SHALLOW: o[p] = add(rep[cl]->clone(CloneMode::Shallow)); break;
          case R_RANGE:
            if constexpr(K::ranged) o[p] = add(K::view(*base[cl], shape));
            break;
          case R_WRAP:
            if constexpr(K::ranged) o[p] = add(K::wrap(*rep[cl], shape));
            break;
          case R_PARTIAL:
            if constexpr(K::composed)
            {
              V t = rep[cl]->clone(CloneMode::Deep);
              t.first() = rep[cl]->first().clone(CloneMode::Shallow);
              o[p] = add(std::move(t));
            }
            break;
          }
        }
      }
      fill_values(0);
    }

    /// writes the operand values position by position (later positions overwrite shared memory), then reads them back
    void fill_values(int shift)
    {
      const int ar = ops[op].arity;
      for(int p = 0; p < ar; ++p)
      {
        ptr[p].clear(); collect(*o[p], ptr[p]);
        for(size_t i = 0; i < ptr[p].size(); ++i)
        {
          LD v = value(vs, p + shift, Index(i), Index(ptr[p].size()));
          if(op == CINV && p == 1 && v == LD(0)) v = LD(0.75);
          *ptr[p][i] = DT(v);
          if(vs == VS_EXTREME)
          {
            // per data type: half the largest finite number, the smallest normal number, denormals, both signs
            typedef std::numeric_limits<DT> NL;
            const DT tbl[6] = {DT(NL::max() / DT(2)), DT(-(NL::max() / DT(2))), NL::min(), DT(-NL::min()), DT(NL::denorm_min() * DT(3)), DT(-(NL::denorm_min() * DT(5)))};
            *ptr[p][i] = tbl[(i + 2 * size_t(p + shift) + (i / 6)) % 6];
          }
        }
      }
      // component_invert must not see zeros through shared memory either
      if(op == CINV) for(size_t i = 0; i < ptr[1].size(); ++i) if(*ptr[1][i] == DT(0)) *ptr[1][i] = DT(0.75);
      for(int p = 0; p < ar; ++p)
      {
        pre[p].resize(ptr[p].size());
        for(size_t i = 0; i < ptr[p].size(); ++i) pre[p][i] = *ptr[p][i];
      }
    }

    static LD eps() { return LD(std::numeric_limits<DT>::epsilon()); }

    /// compares a scalar with its reference: exactly (numeric ==) or within tol
    bool same(DT got, LD ref, bool exact, LD tol) const
    {
      if(exact) return LD(got) == ref;
      LD d = LD(got) - ref; if(d < 0) d = -d;
      return d <= tol;
    }

    void check_operands_after(const std::vector<DT>* exp_r)
    {
      const int ar = ops[op].arity;
      for(int p = 0; p < ar; ++p)
      {
        std::vector<DT*> now; collect(*o[p], now);
        if(!c.check(now == ptr[p], key("arrays moved"), [&]{ return "operand " + std::to_string(p) + ": leaf arrays were reallocated/resized by the operation"; })) return;
        if(p == 0 && exp_r != nullptr) continue; // compared by the caller with the op-specific tolerance
        std::vector<DT> got(now.size());
        bool ok = true; size_t bad = 0;
        for(size_t i = 0; i < now.size(); ++i)
        {
          got[i] = *now[i];
          // an operand entry that shares its memory with the target shows the target's new value
          DT want = pre[p][i];
          if(exp_r != nullptr && now[i] == ptr[0][i]) continue; // verified through operand 0
          if(!(got[i] == want) && ok) { ok = false; bad = i; }
        }
        c.check(ok, key("input operand modified"), [&]{
          return "operand " + std::to_string(p) + " entry " + std::to_string(bad) + " changed from " + fmt(pre[p][bad]) + " to " + fmt(got[bad]) + " although it does not share memory with the target"; });
      }
      bool gok = true;
      for(auto& g : guards) if(!(*g.first == g.second)) gok = false;
      c.check(gok, key("wrote outside the ranged view"), "guard entry of the base vector next to the view was modified");
      bool bok = true;
      for(auto& b : bystanders) if(!b()) bok = false;
      c.check(bok, kname + " " + deriv_name[deriv] + ": source/bystander of the derived operand modified", "the object an operand was cloned/converted from (or a vector sharing the target's previous storage) changed");
    }

    /// pattern "re-invocation": the operation runs twice on the same objects, the second time on the results of the first
    void run()
    {
      build();
      run_pass(0);
      // mutating operations continue on their own results; reductions/observations get NEW operand values written through
      // the raw pointers, so that anything cached by the first invocation is stale
      if(!ops[op].mutates) fill_values(1);
      for(int p = 0; p < ops[op].arity; ++p) for(size_t i = 0; i < ptr[p].size(); ++i) pre[p][i] = *ptr[p][i];
      if(op == CINV) for(DT x : pre[1]) if(x == DT(0) || !(x == x)) return;   // 0/x made a zero denominator through aliasing
      run_pass(1);
    }

    void run_pass(int pass)
    {
      const OpDesc& od = ops[op];
      const int ar = od.arity;
      const Alpha& al = alphas[ai];
      const DT a = DT(al.v);
      const size_t n = ptr[0].size();
      pass_name = pass ? " [2nd invocation on the same objects]" : "";
      const bool exact_in = vs_exact(vs) && (!od.alpha || al.exact);
      const LD e = eps();

      std::vector<DT> exp_r;      // expected target (mutating ops)
      std::vector<LD> ref_r;      // long-double reference where a tolerance is used
      std::vector<LD> tol_r;
      bool r_exact = true;        // compare exp_r with ==

      auto X = [&](int p, size_t i) { return LD(pre[p][i]); };

      switch(op)
      {
      case AXPY:
      {
        o[0]->axpy(*o[1], a);
        r_exact = exact_in;
        exp_r.resize(n); ref_r.resize(n); tol_r.resize(n);
        for(size_t i = 0; i < n; ++i)
        {
          ref_r[i] = X(0, i) + LD(a) * X(1, i);
          tol_r[i] = 4 * e * (std::fabs(X(0, i)) + std::fabs(LD(a) * X(1, i)));
          exp_r[i] = DT(ref_r[i]);
          if(exact_in) c.check(LD(exp_r[i]) == ref_r[i], "harness: alphabet not exact (axpy)", "self-check");
        }
        break;
      }
      case SCALE:
        o[0]->scale(*o[1], a);
        exp_r.resize(n);
        for(size_t i = 0; i < n; ++i) exp_r[i] = pre[1][i] * a;
        break;
      case CPROD:
        o[0]->component_product(*o[1], *o[2]);
        exp_r.resize(n);
        for(size_t i = 0; i < n; ++i) exp_r[i] = pre[1][i] * pre[2][i];
        break;
      case CINV:
        o[0]->component_invert(*o[1], a);
        exp_r.resize(n);
        for(size_t i = 0; i < n; ++i) exp_r[i] = a / pre[1][i];
        break;
      case COPY:
        o[0]->copy(*o[1]);
        exp_r = pre[1];
        break;
      case COPYFULL:
        o[0]->copy(*o[1], true);
        exp_r = pre[1];
        break;
      case FORMAT:
        o[0]->format(a);
        exp_r.assign(n, a);
        break;
      case DOT:
      case TDOT:
      {
        DT got = (op == DOT) ? o[0]->dot(*o[1]) : o[0]->triple_dot(*o[1], *o[2]);
        LD s = 0, b = 0;
        for(size_t i = 0; i < n; ++i)
        {
          LD t = X(0, i) * X(1, i) * (op == TDOT ? X(2, i) : LD(1));
          s += t; b += std::fabs(t);
        }
        if(exact_in) c.check(LD(DT(s)) == s, "harness: alphabet not exact (dot)", "self-check");
        c.check(same(got, s, exact_in, LD(4 * (n + 2)) * e * b), key("wrong value"), [&]{
          return "got " + fmt(got) + " expected " + fmt(double(s)) + (exact_in ? " (exact alphabet)" : " (tolerance)"); });
        break;
      }
      case NORM2:
      case NORM2SQR:
      {
        DT got = (op == NORM2) ? o[0]->norm2() : o[0]->norm2sqr();
        LD s = 0;
        for(size_t i = 0; i < n; ++i) s += X(0, i) * X(0, i);
        if(exact_in) c.check(LD(DT(s)) == s, "harness: alphabet not exact (norm)", "self-check");
        if(op == NORM2)
        {
          // leaf vectors: one correctly rounded sqrt of the exact sum; composed: sum of sqr(sqrt()) of the parts
          const bool ex = exact_in && K::norm_exact();
          LD ref = ex ? LD(std::sqrt(DT(s))) : std::sqrt(s);
          c.check(same(got, ref, ex, LD(4 * (n + 4)) * e * std::sqrt(s)), key("wrong value"), [&]{
            return "got " + fmt(got) + " expected " + fmt(double(ref)); });
        }
        else
        {
          // norm2sqr is sqr(sqrt(sum)) in the leaves: two roundings
          c.check(same(got, s, false, LD(4 * (n + 4)) * e * s), key("wrong value"), [&]{
            return "got " + fmt(got) + " expected " + fmt(double(s)); });
        }
        break;
      }
      case MAXABS: case MINABS: case MAXE: case MINE:
      {
        DT got = op == MAXABS ? o[0]->max_abs_element() : op == MINABS ? o[0]->min_abs_element() : op == MAXE ? o[0]->max_element() : o[0]->min_element();
        DT ref = DT(0);
        for(size_t i = 0; i < n; ++i)
        {
          DT x = pre[0][i];
          if(op == MAXABS || op == MINABS) x = x < DT(0) ? -x : x;
          if(i == 0) ref = x;
          else if(op == MAXABS || op == MAXE) { if(x > ref) ref = x; }
          else { if(x < ref) ref = x; }
        }
        c.check(got == ref, key("wrong value"), [&]{ return "got " + fmt(got) + " expected " + fmt(ref) + " for " + fmtv(pre[0]); });
        break;
      }
      case CLONE_DEEP: case CLONE_WEAK: case CLONE_SHALLOW:
      {
        const CloneMode m = op == CLONE_DEEP ? CloneMode::Deep : op == CLONE_WEAK ? CloneMode::Weak : CloneMode::Shallow;
        {
          V y = o[0]->clone(m);
          std::vector<DT*> yp; collect(y, yp);
          bool sz = yp.size() == n, vals = true, shared = true, distinct = true;
          for(size_t i = 0; i < n && sz; ++i)
          {
            if(!(*yp[i] == pre[0][i])) vals = false;
            if(yp[i] == ptr[0][i]) distinct = false; else shared = false;
          }
          c.check(sz && vals, key("clone differs"), "the clone does not hold the same scalars");
          if constexpr(HasEq<V>::value)
          {
            c.check(y == *o[0], key("operator=="), "a clone does not compare equal to its source");
            if(n > 0 && op != CLONE_SHALLOW)
            {
              DT keep = *yp[n - 1]; *yp[n - 1] = (keep == DT(0)) ? DT(1) : -keep;
              c.check(!(y == *o[0]), key("operator== (inequality)"), "vectors differing in the last entry compare equal");
              *yp[n - 1] = keep;
            }
          }
          if(n > 0)
            c.check(op == CLONE_SHALLOW ? shared : distinct, key("clone memory"), "shallow clone must share, deep/weak clone must not share the value arrays");
          y.format(DT(5));
          for(size_t i = 0; i < n; ++i)
          {
            DT want = (op == CLONE_SHALLOW) ? DT(5) : pre[0][i];
            if(!(*ptr[0][i] == want)) { c.fail(key("clone independence"), "format() of the clone " + std::string(op == CLONE_SHALLOW ? "did not reach" : "changed") + " the original"); break; }
          }
          if(op == CLONE_SHALLOW) for(size_t i = 0; i < n; ++i) pre[0][i] = DT(5);
        }
        break;
      }
      case TO_DV:
      {
        DenseVector<DT, IT> d(Index(n), DT(-9));
        d.copy(*o[0]);
        bool ok = true;
        for(size_t i = 0; i < n; ++i) if(!(d.elements()[i] == pre[0][i])) ok = false;
        c.check(ok, key("flattening differs"), "DenseVector::copy(V) does not deliver the scalars in flattened order");
        break;
      }
      case FROM_DV:
      {
        DenseVector<DT, IT> d{Index(n)};
        exp_r.resize(n);
        for(size_t i = 0; i < n; ++i) { exp_r[i] = DT(value(vs, 1, Index(i))); d.elements()[i] = exp_r[i]; }
        d.copy_inv(*o[0]);
        for(size_t i = 0; i < n; ++i) if(!(d.elements()[i] == exp_r[i])) { c.fail(key("source modified"), "copy_inv changed its source"); break; }
        break;
      }
      case FORMAT_RNG:
      {
        // random fill: every entry lies in [min,max] (the interval varies with the scalar), reproducible for a given seed
        const DT lo = DT(-1) + a, hi = DT(2) + a * a;
        Random rng(Random::SeedType(17 + ai));
        o[0]->format(rng, lo, hi);
        bool ok = true; std::vector<DT> first(n);
        for(size_t i = 0; i < n; ++i) { first[i] = *ptr[0][i]; if(!(first[i] >= lo && first[i] <= hi)) ok = false; }
        c.check(ok, key("value outside [min,max]"), [&]{ return "format(rng," + fmt(lo) + "," + fmt(hi) + ") produced " + fmtv(first); });
        Random rng2(Random::SeedType(17 + ai));
        o[0]->format(rng2, lo, hi);
        bool same_again = true;
        for(size_t i = 0; i < n; ++i) if(!(*ptr[0][i] == first[i])) same_again = false;
        c.check(same_again, key("not reproducible"), "the same seed gave different entries");
        for(size_t i = 0; i < n; ++i) pre[0][i] = *ptr[0][i];
        break;
      }
      case CONV_DV:
      {
        // leaf vectors are taken over (shared memory), composed vectors are flattened into a new array
        DenseVector<DT, IT> d(Index(3), DT(-9));
        d.convert(*o[0]);
        bool ok = (size_t(d.size()) == n);
        for(size_t i = 0; ok && i < n; ++i) if(!(d.elements()[i] == pre[0][i])) ok = false;
        c.check(ok, key("flattening differs"), "DenseVector::convert(V) does not hold the scalars in flattened order");
        if(ok && n > 0)
        {
          const bool shared = (d.elements() == ptr[0][0]);
          c.check(shared == !K::composed, key("convert memory"), "convert() of a leaf vector shares its array, convert() of a composed vector copies");
          d.format(DT(6));
          bool ind = true;
          for(size_t i = 0; i < n; ++i) if(!(*ptr[0][i] == (shared ? DT(6) : pre[0][i]))) ind = false;
          c.check(ind, key("convert independence"), "writing through the converted vector had the wrong effect on the source");
          for(size_t i = 0; i < n; ++i) pre[0][i] = *ptr[0][i];
        }
        break;
      }
      case SELF_CONVERT:
      {
        o[0]->convert(*o[0]);
        std::vector<DT*> now; collect(*o[0], now);
        bool ok = now.size() == n;
        for(size_t i = 0; ok && i < n; ++i) if(!(*now[i] == pre[0][i])) ok = false;
        c.check(ok, key("self-convert lost the data"), "v.convert(v) must leave v as it was");
        ptr[0] = now;
        break;
      }
      default:
        if constexpr(IsDVB<V>::value) run_blocked(a, exact_in, exp_r, ref_r, tol_r, r_exact);
        break;
      }

      if(od.mutates)
      {
        std::vector<DT*> now; collect(*o[0], now);
        if(c.check(now == ptr[0], key("arrays moved"), "target arrays were reallocated"))
        {
          bool ok = true; size_t bad = 0;
          for(size_t i = 0; i < n; ++i)
          {
            DT got = *now[i];
            bool s = r_exact ? (got == exp_r[i]) : same(got, ref_r[i], false, tol_r[i]);
            if(!s && ok) { ok = false; bad = i; }
          }
          c.check(ok, key("wrong element"), [&]{
            std::vector<DT> got(n); for(size_t i = 0; i < n; ++i) got[i] = *now[i];
            return "entry " + std::to_string(bad) + ": got " + fmt(got[bad]) + " expected " + fmt(exp_r[bad]) + "; result " + fmtv(got) + " expected " + fmtv(exp_r) + (r_exact ? " (==)" : " (tolerance)"); });
        }
        check_operands_after(&exp_r);
      }
      else
        check_operands_after(nullptr);

      c.outcome(std::string(od.name) + (exact_in ? " exact" : " tol"));
    }

    // DenseVectorBlocked-only operations
    void run_blocked(DT a, bool exact_in, std::vector<DT>& exp_r, std::vector<LD>& ref_r, std::vector<LD>& tol_r, bool& r_exact)
    {
      if constexpr(IsDVB<V>::value)
      {
        constexpr int BS = K::BS;
        typedef typename V::ValueType VT;
        const size_t n = ptr[0].size();
        const size_t nb = n / size_t(BS);
        const LD e = eps();
        auto X = [&](int p, size_t i) { return LD(pre[p][i]); };
        // block-wise scalar: component j uses the alpha with index ai+j (exactness class of alphas[ai] is kept)
        VT av;
        bool aex = true;
        for(int j = 0; j < BS; ++j)
        {
          int k = alphas[ai].exact ? (ai + j) % 7 : 7 + (ai - 7 + j) % 2;
          av[j] = DT(alphas[k].v);
          aex = aex && alphas[k].exact;
        }
        (void)a;
        switch(op)
        {
        case AXPYB:
          o[0]->axpy_blocked(*o[1], av);
          r_exact = exact_in && aex;
          exp_r.resize(n); ref_r.resize(n); tol_r.resize(n);
          for(size_t i = 0; i < n; ++i)
          {
            LD aj = LD(av[int(i % size_t(BS))]);
            ref_r[i] = X(0, i) + aj * X(1, i);
            tol_r[i] = 4 * e * (std::fabs(X(0, i)) + std::fabs(aj * X(1, i)));
            exp_r[i] = DT(ref_r[i]);
          }
          break;
        case SCALEB:
          o[0]->scale_blocked(*o[1], av);
          exp_r.resize(n);
          for(size_t i = 0; i < n; ++i) exp_r[i] = pre[1][i] * av[int(i % size_t(BS))];
          break;
        case DOTB: case TDOTB: case NORM2B: case NORM2SQRB:
        {
          VT got = op == DOTB ? o[0]->dot_blocked(*o[1]) : op == TDOTB ? o[0]->triple_dot_blocked(*o[1], *o[2]) : op == NORM2B ? o[0]->norm2_blocked() : o[0]->norm2sqr_blocked();
          for(int j = 0; j < BS; ++j)
          {
            LD s = 0, b = 0;
            for(size_t i = 0; i < nb; ++i)
            {
              size_t q = i * size_t(BS) + size_t(j);
              LD t = op == DOTB ? X(0, q) * X(1, q) : op == TDOTB ? X(0, q) * X(1, q) * X(2, q) : X(0, q) * X(0, q);
              s += t; b += std::fabs(t);
            }
            LD ref = s;
            if(op == NORM2B) ref = exact_in ? LD(std::sqrt(DT(s))) : std::sqrt(s);
            LD tol = LD(4 * (nb + 4)) * e * (op == NORM2B ? std::sqrt(b) : b);
            c.check(same(got[j], ref, exact_in, tol), key("wrong value"), [&]{
              return "component " + std::to_string(j) + ": got " + fmt(got[j]) + " expected " + fmt(double(ref)); });
          }
          break;
        }
        case MAXABSB: case MINABSB: case MAXEB: case MINEB:
        {
          VT got = op == MAXABSB ? o[0]->max_abs_element_blocked() : op == MINABSB ? o[0]->min_abs_element_blocked() : op == MAXEB ? o[0]->max_element_blocked() : o[0]->min_element_blocked();
          for(int j = 0; j < BS; ++j)
          {
            DT ref = DT(0);
            for(size_t i = 0; i < nb; ++i)
            {
              DT x = pre[0][i * size_t(BS) + size_t(j)];
              if(op == MAXABSB || op == MINABSB) x = x < DT(0) ? -x : x;
              if(i == 0) ref = x;
              else if(op == MAXABSB || op == MAXEB) { if(x > ref) ref = x; }
              else { if(x < ref) ref = x; }
            }
            c.check(got[j] == ref, key("wrong value"), [&]{
              return "component " + std::to_string(j) + ": got " + fmt(got[j]) + " expected " + fmt(ref) + " for " + fmtv(pre[0]); });
          }
          break;
        }
        case CONV_FROM_DV:
        {
          DenseVector<DT, IT> d{Index(n)};
          for(size_t i = 0; i < n; ++i) d.elements()[i] = DT(value(vs, 1, Index(i)));
          V t(Index(1), DT(3));   // (size, value) constructor; convert() replaces the content
          t.convert(d);
          V u(d);
          bool ok = size_t(t.template size<Perspective::pod>()) == n && size_t(u.template size<Perspective::pod>()) == n && size_t(t.size()) == nb;
          for(size_t i = 0; ok && i < n; ++i) if(!(t.template elements<Perspective::pod>()[i] == d.elements()[i]) || !(u.template elements<Perspective::pod>()[i] == d.elements()[i])) ok = false;
          c.check(ok, key("wrong element"), "the blocked vector made from a DenseVector does not hold its scalars");
          if(ok && n > 0)
          {
            c.check(t.template elements<Perspective::pod>() == d.elements() && u.template elements<Perspective::pod>() == d.elements(), key("convert memory"), "convert(DenseVector) takes the array over (shared)");
            t.format(DT(4));
            bool sh = true; for(size_t i = 0; i < n; ++i) if(!(d.elements()[i] == DT(4))) sh = false;
            c.check(sh, key("convert independence"), "writing through the converted vector did not reach the shared array");
          }
          break;
        }
        case INFLATE:
        {
          DenseVector<DT, IT> d{Index(nb)};
          for(size_t i = 0; i < nb; ++i) d.elements()[i] = DT(value(vs, 1, Index(i)));
          V t = d.template inflate_to_blocks<BS>();
          bool ok = size_t(t.size()) == nb;
          for(size_t i = 0; ok && i < n; ++i) if(!(t.template elements<Perspective::pod>()[i] == d.elements()[i / size_t(BS)])) ok = false;
          c.check(ok, key("wrong element"), "inflate_to_blocks does not fill every block with the scalar entry");
          break;
        }
        case CCOPY: case CCOPYTO:
        {
          const int blk = ai % BS;
          DenseVector<DT, IT> d{Index(nb)};
          std::vector<DT> dv(nb);
          for(size_t i = 0; i < nb; ++i) { dv[i] = DT(value(vs, 1, Index(i))); d.elements()[i] = dv[i]; }
          if(op == CCOPY)
          {
            o[0]->component_copy(d, blk);
            exp_r = pre[0];
            for(size_t i = 0; i < nb; ++i) exp_r[i * size_t(BS) + size_t(blk)] = dv[i];
            for(size_t i = 0; i < nb; ++i) if(!(d.elements()[i] == dv[i])) { c.fail(key("source modified"), "component_copy changed its source"); break; }
          }
          else
          {
            o[0]->component_copy_to(d, blk);
            bool ok = true;
            for(size_t i = 0; i < nb; ++i) if(!(d.elements()[i] == pre[0][i * size_t(BS) + size_t(blk)])) ok = false;
            c.check(ok, key("wrong element"), [&]{ return "component " + std::to_string(blk) + " of " + fmtv(pre[0]) + " was not extracted"; });
          }
          break;
        }
        default: break;
        }
      }
      else
      {
        (void)a; (void)exact_in; (void)exp_r; (void)ref_r; (void)tol_r; (void)r_exact;
      }
    }
  };


  // ------------------------------------------------------------------------------------------------ sparse vectors
  // A sparse vector is a history object: element writes append, reads sort + deduplicate lazily, the arrays grow in
  // steps of min(size,1000). Cases = all operation sequences over {set(i) : i<n} u {S = force sort} up to length n+2.
  template<typename DT, int BS, typename IT = Index> struct SparseSel;
  template<typename DT, typename IT> struct SparseSel<DT, 1, IT>
  {
    typedef SparseVector<DT, IT> SV;
    typedef DT Val;
    static Val mk(const DT* v) { return v[0]; }
    static DT comp(const Val& v, int) { return v; }
    static SV from_arrays(Index n, const std::vector<DT>& vals, const std::vector<Index>& idx)
    {
      DenseVector<DT, IT> e{Index(idx.size())};
      DenseVector<IT, IT> ix{Index(idx.size())};
      for(size_t k = 0; k < idx.size(); ++k) { e.elements()[k] = vals[k]; ix.elements()[k] = IT(idx[k]); }
      return SV(n, e, ix, false);
    }
  };
  template<typename DT, int BS, typename IT> struct SparseSel
  {
    typedef SparseVectorBlocked<DT, IT, BS> SV;
    typedef Tiny::Vector<DT, BS> Val;
    static Val mk(const DT* v) { Val t; for(int j = 0; j < BS; ++j) t[j] = v[j]; return t; }
    static DT comp(const Val& v, int j) { return v[j]; }
    static SV from_arrays(Index n, const std::vector<DT>& vals, const std::vector<Index>& idx)
    {
      DenseVectorBlocked<DT, IT, BS> e{Index(idx.size())};
      DenseVector<IT, IT> ix{Index(idx.size())};
      for(size_t k = 0; k < vals.size(); ++k) e.template elements<Perspective::pod>()[k] = vals[k];
      for(size_t k = 0; k < idx.size(); ++k) ix.elements()[k] = IT(idx[k]);
      return SV(n, e, ix, false);
    }
  };

  template<typename DT, int BS, typename IT = Index>
  void check_sparse_state(verif::Ctx& c, const std::string& kname, const std::string& how, const typename SparseSel<DT, BS, IT>::SV& sv, Index n,
    const std::map<Index, std::vector<DT>>& model)
  {
    typedef SparseSel<DT, BS, IT> S;
    auto key = [&](const std::string& w) { return kname + " " + how + ": " + w; };
    c.check(sv.size() == n, key("size"), "size() changed");
    if(!c.check(sv.used_elements() == Index(model.size()), key("used_elements"), [&]{
      return "used_elements()=" + std::to_string(sv.used_elements()) + " but " + std::to_string(model.size()) + " distinct indices were written"; })) return;
    // arrays: strictly ascending indices, last written value per index
    if(!model.empty())
    {
      const IT* ix = sv.indices();
      const DT* ev = sv.template elements<Perspective::pod>();
      size_t k = 0; bool ok = true;
      for(auto& m : model)
      {
        if(ix[k] != m.first) ok = false;
        for(int j = 0; j < BS; ++j) if(!(ev[k * size_t(BS) + size_t(j)] == m.second[size_t(j)])) ok = false;
        ++k;
      }
      c.check(ok, key("arrays"), "index/value arrays are not the sorted, de-duplicated (last write wins) entry list");
      c.check(sv.sorted() == Index(1), key("sorted flag"), "vector not flagged sorted after a read");
    }
    // element access
    for(Index i = 0; i < n; ++i)
    {
      auto v = sv(i);
      auto it = model.find(i);
      for(int j = 0; j < BS; ++j)
      {
        DT want = it == model.end() ? DT(0) : it->second[size_t(j)];
        if(!(S::comp(v, j) == want)) { c.fail(key("operator()"), "entry " + std::to_string(i) + " reads " + fmt(S::comp(v, j)) + " expected " + fmt(want)); return; }
      }
    }
    // extrema over the stored entries (the kernels read x[0]: not defined without stored entries)
    if(!model.empty())
    {
      DT mx = DT(0), mn = DT(0), mxa = DT(0), mna = DT(0); bool first = true;
      for(auto& m : model) for(DT x : m.second)
      {
        DT ax = x < DT(0) ? -x : x;
        if(first) { mx = mn = x; mxa = mna = ax; first = false; }
        else { if(x > mx) mx = x; if(x < mn) mn = x; if(ax > mxa) mxa = ax; if(ax < mna) mna = ax; }
      }
      c.check(sv.max_element() == mx, key("max_element"), [&]{ return "got " + fmt(sv.max_element()) + " expected " + fmt(mx); });
      c.check(sv.min_element() == mn, key("min_element"), [&]{ return "got " + fmt(sv.min_element()) + " expected " + fmt(mn); });
      c.check(sv.max_abs_element() == mxa, key("max_abs_element"), [&]{ return "got " + fmt(sv.max_abs_element()) + " expected " + fmt(mxa); });
      c.check(sv.min_abs_element() == mna, key("min_abs_element"), [&]{ return "got " + fmt(sv.min_abs_element()) + " expected " + fmt(mna); });
    }
  }

  /// extrema over the stored entries of the model
  template<typename DT>
  void model_extrema(const std::map<Index, std::vector<DT>>& model, DT& mx, DT& mn, DT& mxa, DT& mna)
  {
    mx = mn = mxa = mna = DT(0); bool first = true;
    for(auto& m : model) for(DT x : m.second)
    {
      DT ax = x < DT(0) ? -x : x;
      if(first) { mx = mn = x; mxa = mna = ax; first = false; }
      else { if(x > mx) mx = x; if(x < mn) mn = x; if(ax > mxa) mxa = ax; if(ax < mna) mna = ax; }
    }
  }

  // observations that are performed FIRST on a freshly replayed object (before any other accessor could have sorted /
  // de-duplicated it): the lazily maintained representation must be invisible through every one of them
  enum SObs { O_MAX = 0, O_MIN, O_MAXABS, O_MINABS, O_USED, O_INDICES, O_ELEMENTS, O_SORT, O_CLONE, O_EQ, O_WRITE, O_STREAM, O_FORMAT, O_MOVE, O_GET0 /* + i */ };
  const char* sobs_name[O_GET0] = {"max_element", "min_element", "max_abs_element", "min_abs_element", "used_elements", "indices()", "elements()", "sort()",
    "clone(Deep)", "operator==", "write_out/read_from(binary)", "operator<<", "format", "move"};

  template<typename DT, int BS, typename IT = Index>
  void run_sparse(verif::Ctx& c, const std::string& kname, int shrink = 0)
  {
    typedef SparseSel<DT, BS, IT> S;
    typedef typename S::SV SV;
    typedef std::map<Index, std::vector<DT>> Model;
    // rich alphabet {set(i), S = used_elements(), R = the four reductions} with first-observation replays up to nrich;
    // one more size with the plain alphabet {set(i), S} (longer histories, more reallocations)
    const int nrich = (c.thorough ? 5 : 4) - shrink;
    const int nmax = nrich + 1;
    for(int n = 0; n <= nmax; ++n)
    {
      const bool rich = (n <= nrich);
      const int base = rich ? n + 2 : n + 1;   // digits 0..n-1 = set(i), digit n = S (force sort), digit n+1 = R (reductions)
      const int maxlen = n == 0 ? 2 : n + 2;
      for(int len = 0; len <= maxlen; ++len)
      {
        long total = 1; for(int k = 0; k < len; ++k) total *= base;
        for(long code = 0; code < total; ++code)
        {
          if(!c.want()) continue;
          std::vector<int> seq((size_t)len);
          { long t = code; for(int k = 0; k < len; ++k) { seq[size_t(k)] = int(t % base); t /= base; } }
          c.desc([&]{
            std::string d = kname + " size=" + std::to_string(n) + " history=";
            for(int x : seq) d += (x == n ? std::string("S") : x == n + 1 ? std::string("R") : "set(" + std::to_string(x) + ")") + " ";
            return d; });
          const size_t pool0 = MemoryPool::_pool.size();
          bool realloc_seen = false;
          std::vector<DT> raw_vals; std::vector<Index> raw_idx;
          // replays the history on sv; intermediate observations are part of the history and are checked when 'checked'
          auto replay = [&](SV& sv, Model& model, bool checked)
          {
            int step = 0;
            for(int x : seq)
            {
              if(x == n)
              {
                Index ue = sv.used_elements();   // forces the lazy sort
                if(checked) c.check(ue == Index(model.size()), kname + " history: used_elements after sort", "wrong number of distinct entries after an intermediate sort");
              }
              else if(x == n + 1)
              {
                if(!model.empty())
                {
                  DT mx, mn, mxa, mna; model_extrema(model, mx, mn, mxa, mna);
                  // the order of the four calls rotates with the step so that each of them is the first one somewhere
                  for(int q = 0; q < 4; ++q)
                  {
                    const int w = (q + step) % 4;
                    DT got = w == 0 ? sv.max_element() : w == 1 ? sv.min_element() : w == 2 ? sv.max_abs_element() : sv.min_abs_element();
                    DT want = w == 0 ? mx : w == 1 ? mn : w == 2 ? mxa : mna;
                    if(checked) c.check(got == want, kname + " history: " + sobs_name[w] + " inside a history", [&]{ return "got " + fmt(got) + " expected " + fmt(want) + " (extremum over the stored entries, last write wins)"; });
                  }
                }
              }
              else
              {
                DT v[BS > 0 ? BS : 1];
                for(int j = 0; j < BS; ++j) v[j] = DT(((step + j) % 2 ? -1 : 1) * (LD(1 + (3 * step) % 8) / 4 + LD(8 * j)));   // distinct per step (<= 8 steps), not monotone
                sv(Index(x), S::mk(v));
                model[Index(x)] = std::vector<DT>(v, v + BS);
                if(checked)
                {
                  for(int j = 0; j < BS; ++j) raw_vals.push_back(v[j]);
                  raw_idx.push_back(Index(x));
                  if(sv.allocated_elements() > Index(n)) realloc_seen = true;
                }
              }
              ++step;
            }
          };
          {
            SV sv{Index(n)};
            Model model;
            replay(sv, model, true);
            if(realloc_seen) c.count("sparse_histories_with_reallocation");
            if(raw_idx.size() > model.size()) c.count("sparse_histories_with_duplicates");
            check_sparse_state<DT, BS, IT>(c, kname, "history", sv, Index(n), model);
            // deep clone holds the same data in its own arrays
            {
              SV cl = sv.clone(CloneMode::Deep);
              check_sparse_state<DT, BS, IT>(c, kname, "clone(Deep)", cl, Index(n), model);
              c.check(cl == sv, kname + " clone(Deep): operator==", "a deep clone does not compare equal");
              if(!model.empty()) c.check(cl.indices() != sv.indices() && (const void*)cl.template elements<Perspective::pod>() != (const void*)sv.template elements<Perspective::pod>(), kname + " clone(Deep): memory", "deep clone shares arrays");
            }
            // the array constructor with the same unsorted entry list with duplicates
            if(!raw_idx.empty())
            {
              SV fa = S::from_arrays(Index(n), raw_vals, raw_idx);
              check_sparse_state<DT, BS, IT>(c, kname, "ctor(size,values,indices,unsorted)", fa, Index(n), model);
            }
            // format sets every stored entry
            {
              sv.format(DT(2.5));
              Model m2;
              for(auto& m : model) m2[m.first] = std::vector<DT>(size_t(BS), DT(2.5));
              check_sparse_state<DT, BS, IT>(c, kname, "format", sv, Index(n), m2);
            }
          }
          // ---- first observations: fresh object per observation, the observation is the first call after the history
          if(rich)
          {
            for(int ob = 0; ob < O_GET0 + n; ++ob)
            {
              SV sv{Index(n)};
              Model model;
              replay(sv, model, false);
              const SV& csv = sv;
              const std::string on = ob < O_GET0 ? std::string(sobs_name[ob]) : std::string("operator()(i)");
              const std::string key = kname + " first observation " + on;
              bool post_check = true;
              switch(ob < O_GET0 ? ob : int(O_GET0))
              {
              case O_MAX: case O_MIN: case O_MAXABS: case O_MINABS:
              {
                if(model.empty()) break;    // kernels read x[0]
                DT mx, mn, mxa, mna; model_extrema(model, mx, mn, mxa, mna);
                DT got = ob == O_MAX ? csv.max_element() : ob == O_MIN ? csv.min_element() : ob == O_MAXABS ? csv.max_abs_element() : csv.min_abs_element();
                DT want = ob == O_MAX ? mx : ob == O_MIN ? mn : ob == O_MAXABS ? mxa : mna;
                c.check(got == want, key, [&]{ return "got " + fmt(got) + " expected " + fmt(want) + " (extremum over the stored entries, last write wins; no accessor was called before)"; });
                break;
              }
              case O_USED:
                c.check(csv.used_elements() == Index(model.size()), key, [&]{ return "used_elements()=" + std::to_string(csv.used_elements()) + " expected " + std::to_string(model.size()); });
                break;
              case O_INDICES: case O_ELEMENTS:
              {
                if(model.empty()) break;
                const IT* ix = nullptr; const DT* ev = nullptr;
                if(ob == O_INDICES) { ix = csv.indices(); ev = csv.template elements<Perspective::pod>(); }
                else { ev = csv.template elements<Perspective::pod>(); ix = csv.indices(); }
                size_t k = 0; bool ok = true;
                for(auto& m : model)
                {
                  if(ix[k] != m.first) ok = false;
                  for(int j = 0; j < BS; ++j) if(!(ev[k * size_t(BS) + size_t(j)] == m.second[size_t(j)])) ok = false;
                  ++k;
                }
                c.check(ok, key, "the arrays handed out are not the sorted, de-duplicated entry list");
                break;
              }
              case O_SORT:
                sv.sort();
                c.check(sv._scalar_index.at(1) == Index(model.size()), key, "raw used-element count after sort() differs from the number of distinct indices");
                break;
              case O_CLONE:
              {
                SV cl = csv.clone(CloneMode::Deep);
                check_sparse_state<DT, BS, IT>(c, kname, "first observation clone(Deep) [the clone]", cl, Index(n), model);
                break;
              }
              case O_EQ:
              {
                SV other{Index(n)};
                for(auto& m : model) other(Index(m.first), S::mk(m.second.data()));
                c.check(csv == other, key, "vector does not compare equal to one holding the final entries");
                // a vector differing in one stored value must not compare equal
                if(!model.empty())
                {
                  SV diff{Index(n)};
                  bool firstm = true;
                  for(auto& m : model) { std::vector<DT> t = m.second; if(firstm) { t[0] = t[0] + DT(1); firstm = false; } diff(m.first, S::mk(t.data())); }
                  c.check(!(csv == diff), key + " (inequality)", "vector compares equal to one with a different entry");
                }
                break;
              }
              case O_WRITE:
              {
                std::stringstream ss;
                csv.write_out(FileMode::fm_binary, ss);
                SV rd(FileMode::fm_binary, ss);
                check_sparse_state<DT, BS, IT>(c, kname, "first observation write_out/read_from(binary) [read back]", rd, Index(n), model);
                break;
              }
              case O_STREAM:
              {
                std::ostringstream os; os << csv;
                std::ostringstream ex; ex << "[";
                for(Index i = 0; i < Index(n); ++i) { auto it = model.find(i); for(int j = 0; j < BS; ++j) ex << "  " << stringify(it == model.end() ? DT(0) : it->second[size_t(j)]); }
                ex << "]";
                c.check(os.str() == ex.str(), key, [&]{ return "printed " + os.str() + " expected " + ex.str(); });
                break;
              }
              case O_FORMAT:
              {
                sv.format(DT(2.5));
                Model m2;
                for(auto& m : model) m2[m.first] = std::vector<DT>(size_t(BS), DT(2.5));
                check_sparse_state<DT, BS, IT>(c, kname, "first observation format", sv, Index(n), m2);
                post_check = false;
                break;
              }
              case O_MOVE:
              {
                SV mv(std::move(sv));
                check_sparse_state<DT, BS, IT>(c, kname, "first observation move [the target]", mv, Index(n), model);
                post_check = false;
                break;
              }
              default:
              {
                const Index i = Index(ob - O_GET0);
                auto v = csv(i);
                auto it = model.find(i);
                bool ok = true;
                for(int j = 0; j < BS; ++j) if(!(S::comp(v, j) == (it == model.end() ? DT(0) : it->second[size_t(j)]))) ok = false;
                c.check(ok, key, [&]{ return "entry " + std::to_string(i) + " reads " + fmt(S::comp(v, 0)) + " expected " + fmt(it == model.end() ? DT(0) : it->second[0]); });
                break;
              }
              }
              // the observation must leave a consistent object behind
              if(post_check) check_sparse_state<DT, BS, IT>(c, kname, "after first observation " + on, sv, Index(n), model);
              c.count("sparse_first_observations");
            }
          }
          c.check(MemoryPool::_pool.size() == pool0, kname + ": memory pool entries leaked", "MemoryPool has more live allocations after the case than before");
          c.count("sparse_histories");
          c.outcome(std::string("sparse ") + (len == 0 ? "empty" : rich ? "history+first-observations" : "history"));
          bool any_set = false; for(int x : seq) if(x < n) any_set = true;
          if(any_set) c.nontrivial(verif::Hash().str(kname).pod(n).pod(len).pod(code).get());
        }
      }
    }
  }

  // ------------------------------------------------------------------------------------------------ enumeration
  template<typename V>
  void run_kind(verif::Ctx& c, const std::string& kname)
  {
    typedef Kind<V> K;
    typedef typename V::DataType DT;
    const int nshapes = K::num_shapes(c.thorough);
    for(int op = 0; op < NUM_OPS; ++op)
    {
      const OpDesc& od = ops[op];
      if(od.dvb && !K::blocked) continue;
      for(int shape = 0; shape < nshapes; ++shape)
      {
        // flat size and emptiness of leaves are properties of the shape: compute once (cheap, no FEAT kernel involved)
        Index flat = 0, minleaf = 0;
        {
          V probe = K::make(shape);
          flat = probe.template size<Perspective::pod>();
          minleaf = min_leaf(probe);
        }
        if(od.nonempty && minleaf == 0)
        {
          // counted once (by the worker owning this pseudo-case), not generated
          if(c.want()) { c.desc([&]{ return kname + " " + od.name + " " + K::shape_name(shape) + " (excluded: empty leaf)"; }); c.excluded("min/max(_abs)_element with an empty (leaf) vector: kernels read x[0]"); }
          continue;
        }
        for(int pj = 0; pj < num_parts(od.arity); ++pj)
        {
          for(int real = 0; real < NUM_REAL; ++real)
          {
            const bool alias = part_has_alias(od.arity, pj);
            if(real == R_SHALLOW && !alias) continue;            // identical to same-object when nothing is shared
            if(real == R_PARTIAL && (!alias || !K::composed)) continue;
            if(real == R_WRAP && (!alias || !K::ranged)) continue;
            if(real == R_RANGE && (!K::ranged || flat == 0)) continue; // a ranged view needs size > 0
            if(real == R_RANGE && (op == CLONE_WEAK || op == CLONE_SHALLOW)) continue; // asserted: ranged sources need deep cloning
            if(real == R_RANGE && (op == CONV_DV || op == SELF_CONVERT)) continue;         // asserted: assign/convert is forbidden with ranged sources
            // value sets
            std::vector<int> vss = {VS_DYADIC, VS_ZEROS, VS_SPREAD, VS_ROUND, VS_ROT, VS_NEG, VS_POS, VS_EXTREME};
            // selection operations: every rank permutation of the magnitudes x every sign mask
            const bool selection = (op == MAXABS || op == MINABS || op == MAXE || op == MINE || op == MAXABSB || op == MINABSB || op == MAXEB || op == MINEB);
            const Index maxperm = c.thorough ? 6 : 5;
            if(selection && flat >= 1 && flat <= maxperm && real == R_PLAIN)
              for(int pk = 0; pk < factorial(int(flat)); ++pk) for(int m = 0; m < (1 << flat); ++m) vss.push_back(VS_PERM0 + 256 * pk + m);
            const Index maxmask = c.thorough ? 8 : 6;
            if(flat >= 1 && flat <= maxmask && real != R_RANGE)
              for(int m = 0; m < (1 << flat); ++m) vss.push_back(VS_SIGN0 + m);
            for(int vs : vss)
            {
              // sign masks only matter for the target operand: restrict them to ops that read the target
              if(vs >= VS_SIGN0 && (op == FORMAT_RNG || op == INFLATE || op == CONV_FROM_DV || op == SCALE || op == CPROD || op == CINV || op == COPY || op == COPYFULL || op == FORMAT || op == FROM_DV || op == SCALEB)) continue;
              // extreme magnitudes only where the result is a single IEEE operation or a selection (sums would overflow)
              if(vs == VS_EXTREME && !(op == SCALE || op == CPROD || op == CINV || op == COPY || op == COPYFULL || selection || op == CLONE_DEEP || op == CLONE_WEAK || op == CLONE_SHALLOW
                || op == TO_DV || op == FROM_DV || op == SCALEB || op == CCOPY || op == CCOPYTO || op == CONV_DV || op == SELF_CONVERT || op == CONV_FROM_DV || op == INFLATE)) continue;
              for(int deriv = 0; deriv < NUM_DERIV; ++deriv)
              for(int ai = 0; ai < (od.alpha ? num_alphas : 1); ++ai)
              {
                // derivation is structural: combined with the basic value sets only, not with ranged views
                if(deriv != D_NONE && (real == R_RANGE || vs >= VS_SIGN0 || vs == VS_SPREAD || vs == VS_ROUND || vs == VS_POS)) continue;
                if(deriv != D_NONE && od.alpha && !(ai == 0 || ai == 3 || ai == 7)) continue;
                if((op == CCOPY || op == CCOPYTO) && ai >= K::BS) continue;   // alpha index = component index
                if(op == FORMAT && ai >= 4) continue;
                if(op == FORMAT_RNG && !(ai == 0 || ai == 2 || ai == 4)) continue;
                if(!c.want()) continue;
                c.desc([&]{
                  return kname + " " + od.name + " " + K::shape_name(shape) + " alias=" + part_name(od.arity, pj) + " realisation=" + real_name[real]
                    + " values=" + vs_name(vs) + (od.alpha ? std::string(" alpha#") + alphas[ai].name : std::string()) + " operands=" + deriv_name[deriv]; });
                const size_t pool0 = MemoryPool::_pool.size();
                {
                  Case<V> cs(c, kname, op, shape, pj, real, vs, ai);
                  cs.deriv = deriv;
                  cs.run();
                }
                c.check(MemoryPool::_pool.size() == pool0, kname + "." + od.name + ": memory pool entries leaked", "MemoryPool has more live allocations after the case than before");
                c.count("operations_checked", 2);
                if(deriv != D_NONE) c.count("cases_on_derived_operands");
                if(flat > 0) c.nontrivial(verif::Hash().str(kname).pod(op).pod(shape).pod(pj).pod(real).pod(vs).pod(ai).pod(deriv).get());
                else c.count("empty_vector_cases");
                (void)sizeof(DT);
              }
            }
          }
        }
      }
    }
  }
}

#include "c04_sections.hpp"

int main(int argc, char** argv)
{
  FEAT::Runtime::ScopeGuard guard(argc, argv);
  verif::Spec spec; spec.property = "C04"; spec.harness = "c04_vector";
  spec.rule = "cases = (vector kind, operation, shape, alias partition of the operand tuple, realisation of the aliasing "
    "[same object | shallow clone | ranged views of one base | composed vector sharing only its first component], value set, scalar). "
    "A case is non-trivial iff the flattened length is >= 1; hashed by all enumeration coordinates.";
  spec.bounds_quick = "kinds: DV<double|float> (Index), DV<float,u32>, DVB<double,2|3>, DVB<float,2>, DVB<double,u32,3>, Tuple<DV,DVB2><double|float>, Power<DV,2|3><double>, Power<DVB2,2><float>, Tuple<Power<DV,2>,DV><double>; "
    "additionally: format(Random), DenseVector::convert(V), convert(self), DVB::convert(DV)/DVB(DV), inflate_to_blocks, operator==, (size,data*) wrapping constructor as alias realisation, one-argument clone(other), Power<DV,1> and Tuple<DVB2> on their own, Scatter/GatherAxpy of DV/DVB (all dof maps incl. repeated dofs), permute of DV/DVB/SparseVector/SparseVectorBlocked (all permutations n<=4 x all stored sets), sparse vectors of size 2600 grown to 1000/1001/2001/999 entries in 4 write orders x 17 first observations; DV length 0..20, DVB blocks 0..7, power sub-size 0..6, 10 tuple shapes; 32 operations; all set partitions of 2/3 operands x 2-4 realisations; "
    "value sets dyadic, dyadic-rotated, dyadic+zeros, spread 2^+-26, rounding, all sign masks for flat length <= 6, all (rank permutation x sign mask) for flat length <= 5 in the min/max operations; 9 scalars; "
    "every case runs the operation twice on the same objects; operands also as derived objects (move-assigned, deep/weak clone, clone-into with bystander, convert from the other data type); value sets also all-negative, all-positive, extreme magnitudes (max/2, min normal, denormals) for the single-rounding and selection operations; sparse vectors (SparseVector<double|float|double,u32>, SparseVectorBlocked<double,2>, <float,3>, <float,u32,2>; the u32 kinds one size smaller): size 0..4 all histories over {set(i), S=used_elements, R=four reductions} up to length size+2, each followed on a FRESH replay by every "
    "first observation (4 reductions, used_elements, indices, elements, sort, clone, ==, write/read, <<, format, move, operator()(i) for every i); size 5: all histories over {set(i), S} up to length 7";
  spec.bounds_thorough = "as quick with DV length 0..36, DVB blocks 0..12, sub-size 0..9, 14 tuple shapes, sign masks for flat length <= 8, rank permutations for flat length <= 6, sparse rich histories for size 0..5, plain histories for size 6 (length 8)";
  spec.assumptions = {
    "generic backend (no MKL/CUDA in the build), x86-64 SSE arithmetic without FMA contraction: single element-wise operations are IEEE and compared with ==",
    "== is numeric equality (-0 == +0): the r==x branch of axpy yields r*(1+a) = -0 where r+a*r = +0",
    "excluded: min/max(_abs)_element on vectors with an empty leaf (kernels read x[0]); component_invert with zero denominators; ranged views of length 0 (asserted); overlapping-but-unequal ranges (not permitted by the kernels' pointer test)",
    "norm2sqr is sqr(sqrt(sum)) by design of the leaf vectors, composed norm2 is sqrt of the sum of those: compared with 4(n+4) eps tolerance; leaf norm2 on exact alphabets is compared with == against the correctly rounded sqrt",
    "clone modes Layout/Allocate leave values undefined and are not checked here",
    "outside C04 (anchor code not exercised on purpose): read_from/write_out(file)/serialize/deserialize/checkpoint members of the vector classes (C05), operator<< of the dense vectors and bytes() (printing/statistics), compare_layout (no listed property), the Random-seeded constructors (format(Random,min,max) is covered: range + reproducibility), convert/clone of ranged views (asserted), CUDA/MKL back ends"};
  spec.max_samples = 8;
  if(const char* mr = std::getenv("VERIF_MAX_REPORT")) spec.max_report = size_t(atol(mr));
  return verif::run(spec, argc, argv, [&](verif::Ctx& c) {
    typedef DenseVector<double, Index> DVd;
    typedef DenseVector<float, Index> DVf;
    typedef DenseVectorBlocked<double, Index, 2> DVB2d;
    typedef DenseVectorBlocked<double, Index, 3> DVB3d;
    typedef DenseVectorBlocked<float, Index, 2> DVB2f;
    run_kind<DVd>(c, "DV<double>");
    run_kind<DVf>(c, "DV<float>");
    run_kind<DenseVector<float, unsigned int>>(c, "DV<float,u32>");
    run_kind<DVB2d>(c, "DVB<double,2>");
    run_kind<DVB3d>(c, "DVB<double,3>");
    run_kind<DVB2f>(c, "DVB<float,2>");
    run_kind<DenseVectorBlocked<double, unsigned int, 3>>(c, "DVB<double,u32,3>");
    run_kind<TupleVector<DVd, DVB2d>>(c, "Tuple<DV,DVB2><double>");
    run_kind<TupleVector<DVf, DVB2f>>(c, "Tuple<DV,DVB2><float>");
    run_kind<PowerVector<DVd, 2>>(c, "Power<DV,2><double>");
    run_kind<PowerVector<DVd, 3>>(c, "Power<DV,3><double>");
    run_kind<PowerVector<DVB2f, 2>>(c, "Power<DVB2,2><float>");
    run_kind<TupleVector<PowerVector<DVd, 2>, DVd>>(c, "Tuple<Power<DV,2>,DV><double>");
    // the recursion anchors used on their own
    run_kind<PowerVector<DVd, 1>>(c, "Power<DV,1><double>");
    run_kind<TupleVector<DVB2f>>(c, "Tuple<DVB2><float>");
    run_sparse<double, 1>(c, "SparseVector<double>");
    run_sparse<float, 1>(c, "SparseVector<float>");
    run_sparse<double, 2>(c, "SparseVectorBlocked<double,2>");
    run_sparse<float, 3>(c, "SparseVectorBlocked<float,3>");
    // index type u32 (the duplicate marker of sort() is numeric_limits<IT>::max())
    run_sparse<double, 1, unsigned int>(c, "SparseVector<double,u32>", 1);
    run_sparse<float, 2, unsigned int>(c, "SparseVectorBlocked<float,u32,2>", 1);
    extra_sections(c);
  });
}
