// C16 (misc part): ErrorComputer / function integral jobs, TraceAssembler (boundary mass, boundary functionals, discrete
// surface integral), UnitFilterAssembler, against the harness polynomial integrator (volume and boundary).
#include <c16_core.hpp>
#include <c16_boundary.hpp>

#include <kernel/assembly/asm_traits.hpp>
#include <kernel/assembly/bilinear_operator_assembler.hpp>
#include <kernel/assembly/basic_assembly_jobs.hpp>
#include <kernel/assembly/common_functionals.hpp>
#include <kernel/assembly/common_operators.hpp>
#include <kernel/assembly/domain_assembler.hpp>
#include <kernel/assembly/domain_assembler_helpers.hpp>
#include <kernel/assembly/error_computer.hpp>
#include <kernel/assembly/function_integral_jobs.hpp>
#include <kernel/assembly/symbolic_assembler.hpp>
#include <kernel/assembly/trace_assembler.hpp>
#include <kernel/assembly/unit_filter_assembler.hpp>
#include <kernel/cubature/dynamic_factory.hpp>
#include <kernel/geometry/boundary_factory.hpp>
#include <kernel/geometry/mesh_part.hpp>
#include <kernel/lafem/unit_filter.hpp>
#include <kernel/runtime.hpp>
#include <kernel/space/cro_rav_ran_tur/element.hpp>
#include <kernel/space/lagrange1/element.hpp>
#include <kernel/space/lagrange2/element.hpp>

using namespace FEAT;
using namespace c16;

namespace
{
  struct EL1 { static const char* name() { return "lagrange1"; } template<typename T_> using Space = FEAT::Space::Lagrange1::Element<T_>; static constexpr int pk = 1; static constexpr int deg = 1; static constexpr bool has_hess = false; static constexpr bool nodal = true; };
  struct EL2 { static const char* name() { return "lagrange2"; } template<typename T_> using Space = FEAT::Space::Lagrange2::Element<T_>; static constexpr int pk = 2; static constexpr int deg = 2; static constexpr bool has_hess = true; static constexpr bool nodal = true; };
  struct ECR { static const char* name() { return "cro_rav_ran_tur"; } template<typename T_> using Space = FEAT::Space::CroRavRanTur::Element<T_>; static constexpr int pk = 1; static constexpr int deg = 2; static constexpr bool has_hess = false; static constexpr bool nodal = false; };

  template<typename Shape_, typename El_>
  struct MiscChecker
  {
    static constexpr int D = Shape_::dimension;
    typedef typename MeshCtx<Shape_>::MeshType MeshType;
    typedef Trafo::Standard::Mapping<MeshType> TrafoType;
    typedef typename El_::template Space<TrafoType> SpaceType;
    static constexpr int max_der = El_::has_hess ? 2 : 1;

    verif::Ctx& c;
    MeshCtx<Shape_>& mc;
    std::string kp;
    TrafoType trafo;
    SpaceType space;
    std::vector<Poly<D>> ms;
    std::vector<Vec> vs;

    MiscChecker(verif::Ctx& c_, MeshCtx<Shape_>& mc_) : c(c_), mc(mc_), trafo(*mc_.mesh), space(trafo)
    {
      kp = std::string(ShapeInfo<Shape_>::name()) + " " + El_::name();
      ms = monomials<D>(exps_total_degree<D>(El_::pk));
      vs = interpolate_all(space, ms);
    }

    bool near(double got, LD exact, LD scale, double tol = 1e-9) const { return std::fabs(LD(got) - exact) <= LD(tol) * (scale + std::fabs(exact)) + LD(1e-13); }

    // ------------------------------------------------------------------ error norms and function integrals
    void check_errors()
    {
      const std::string k = kp + " error";
      // the analytic function q (degree 3) and in-space polynomials p: error e = q - p is known exactly
      Poly<D> q(LD(0.25));
      for(int i = 0; i < D; ++i)
      {
        q += Poly<D>::var(i) * LD(0.5 * (i + 1));
        q += Poly<D>::var(i) * Poly<D>::var((i + 1) % D) * LD(0.75);
        q += Poly<D>::var(i) * Poly<D>::var(i) * Poly<D>::var((i + D - 1) % D) * LD(0.125 * (i + 1));
      }
      PolyFunction<D> qf(q);
      const int extra = mc.affine ? 0 : D - 1;
      const String cub = ShapeInfo<Shape_>::is_simplex ? String("auto-degree:6") : String("gauss-legendre:") + stringify(4 + (extra + 1) / 2);
      Cubature::DynamicFactory cf(cub);
      Assembly::DomainAssembler<TrafoType> dom_asm(trafo);
      dom_asm.compile_all_elements();
      // a combined in-space polynomial
      std::vector<std::pair<Poly<D>, Vec>> cand;
      {
        Poly<D> p; Vec v(space.get_num_dofs(), 0.0);
        for(size_t a = 0; a < ms.size(); ++a) { double cf_a = 0.5 + 0.25 * double(a % 3) - 0.125 * double(a); p += ms[a] * LD(cf_a); v.axpy(vs[a], cf_a); }
        cand.emplace_back(p, std::move(v));
      }
      cand.emplace_back(ms.back(), vs.back().clone());
      for(auto& pv : cand)
      {
        const Poly<D>& p = pv.first; const Vec& vec = pv.second;
        for(int which = 0; which < 2; ++which)
        {
          // which 0: function = p itself (error must vanish), 1: function = q
          const Poly<D>& fn = which ? q : p;
          PolyFunction<D> ff(fn);
          Poly<D> e = fn - p;
          Poly<D> g2, h2;
          for(int i = 0; i < D; ++i) { g2 += e.diff(i) * e.diff(i); for(int j = i; j < D; ++j) h2 += e.diff(i).diff(j) * e.diff(i).diff(j); } // H2 semi norm over multi-indices: mixed derivatives once
          LD e0 = mc.integrate(e * e), e1 = mc.integrate(g2), e2 = mc.integrate(h2);
          LD s0 = mc.integrate_abs(fn * fn) + mc.integrate_abs(p * p);
          auto info = Assembly::ScalarErrorComputer<max_der>::compute(vec, ff, space, cf);
          {
            // a second evaluation (same cubature factory object, same vector) gives bitwise the same numbers
            auto info2 = Assembly::ScalarErrorComputer<max_der>::compute(vec, ff, space, cf);
            c.check(info2.norm_h0 == info.norm_h0 && info2.norm_h1 == info.norm_h1 && info2.norm_h2 == info.norm_h2, k + " computer.repeat", "a second error computation gives other numbers");
          }
          c.count("error_evaluations");
          c.check(near(info.norm_h0 * info.norm_h0, e0, s0), k + " computer.h0", [&]{ return "H0 error " + std::to_string(info.norm_h0) + " vs exact " + std::to_string(double(std::sqrt(e0))) + (which ? "" : " (function == FE function)"); });
          c.check(near(info.norm_h1 * info.norm_h1, e1, s0 * 16), k + " computer.h1", [&]{ return "H1 error " + std::to_string(info.norm_h1) + " vs exact " + std::to_string(double(std::sqrt(e1))); });
          if constexpr(max_der >= 2)
            c.check(near(info.norm_h2 * info.norm_h2, e2, s0 * 64), k + " computer.h2", [&]{ return "H2 error " + std::to_string(info.norm_h2) + " vs exact " + std::to_string(double(std::sqrt(e2))); });
          // job route
          auto ji = Assembly::integrate_error_function<max_der>(dom_asm, ff, vec, space, cub);
          c.check(near(ji.norm_h0_sqr, e0, s0), k + " job.h0", [&]{ return "H0^2 error " + std::to_string(ji.norm_h0_sqr) + " vs exact " + std::to_string(double(e0)); });
          c.check(near(ji.norm_h1_sqr, e1, s0 * 16), k + " job.h1", [&]{ return "H1^2 error " + std::to_string(ji.norm_h1_sqr) + " vs exact " + std::to_string(double(e1)); });
          if constexpr(max_der >= 2)
            c.check(near(ji.norm_h2_sqr, e2, s0 * 64), k + " job.h2", [&]{ return "H2^2 error " + std::to_string(ji.norm_h2_sqr) + " vs exact " + std::to_string(double(e2)); });
          // integral of the error itself, up to the sign convention
          LD ie = mc.integrate(e);
          c.check(near(std::fabs(ji.value), std::fabs(ie), mc.integrate_abs(fn) + mc.integrate_abs(p)), k + " job.value", [&]{ return "|integral of the error| " + std::to_string(ji.value) + " vs " + std::to_string(double(ie)); });
        }
        // plain integrals of the analytic and of the discrete function
        {
          Poly<D> g2, h2, gp2, hp2;
          for(int i = 0; i < D; ++i)
          {
            g2 += q.diff(i) * q.diff(i); gp2 += p.diff(i) * p.diff(i);
            for(int j = i; j < D; ++j) { h2 += q.diff(i).diff(j) * q.diff(i).diff(j); hp2 += p.diff(i).diff(j) * p.diff(i).diff(j); }
          }
          auto ai = Assembly::integrate_analytic_function<2, double>(dom_asm, qf, cub);
          LD sq = mc.integrate_abs(q * q);
          c.check(near(ai.value, mc.integrate(q), mc.integrate_abs(q)), k + " analytic.value", [&]{ return "integral " + std::to_string(ai.value) + " vs " + std::to_string(double(mc.integrate(q))); });
          c.check(near(ai.norm_h0_sqr, mc.integrate(q * q), sq), k + " analytic.h0", "wrong L2 norm of the analytic function");
          c.check(near(ai.norm_h1_sqr, mc.integrate(g2), sq * 16), k + " analytic.h1", "wrong H1 semi norm of the analytic function");
          c.check(near(ai.norm_h2_sqr, mc.integrate(h2), sq * 64), k + " analytic.h2", "wrong H2 semi norm of the analytic function");
          for(int i = 0; i < D; ++i)
            c.check(near(ai.grad[i], mc.integrate(q.diff(i)), mc.integrate_abs(q.diff(i))), k + " analytic.grad", "wrong integral of the gradient of the analytic function");
          auto di = Assembly::integrate_discrete_function<max_der>(dom_asm, vec, space, cub);
          LD sp = mc.integrate_abs(p * p);
          c.check(near(di.value, mc.integrate(p), mc.integrate_abs(p)), k + " discrete.value", [&]{ return "integral " + std::to_string(di.value) + " vs " + std::to_string(double(mc.integrate(p))); });
          c.check(near(di.norm_h0_sqr, mc.integrate(p * p), sp), k + " discrete.h0", "wrong L2 norm of the discrete function");
          c.check(near(di.norm_h1_sqr, mc.integrate(gp2), sp * 16), k + " discrete.h1", "wrong H1 semi norm of the discrete function");
          if constexpr(max_der >= 2)
            c.check(near(di.norm_h2_sqr, mc.integrate(hp2), sp * 64), k + " discrete.h2", "wrong H2 semi norm of the discrete function");
        }
      }
    }

    // ------------------------------------------------------------------ boundary: trace assembler and unit filter
    void check_boundary()
    {
      Boundary<Shape_> bd(*mc.mesh);
      if(D == 3 && !bd.planar) { c.count("boundary_checks_skipped_nonplanar_faces"); return; }
      const std::string k = kp + " trace";
      const String cub = ShapeInfo<Shape_>::is_simplex ? String("auto-degree:5") : String("gauss-legendre:3");
      Cubature::DynamicFactory cf(cub);
      Assembly::TraceAssembler<TrafoType> tr(trafo);
      tr.compile_all_facets(false, true);
      // boundary mass matrix
      CSR M;
      Assembly::SymbolicAssembler::assemble_matrix_std1(M, space);
      M.format();
      Assembly::Common::IdentityOperator id;
      tr.assemble_operator_matrix1(M, id, space, cf);
      c.count("trace_matrices");
      for(size_t a = 0; a < ms.size(); ++a) for(size_t b = 0; b < ms.size(); ++b)
      {
        LD sa = 0, ex = bd.integrate(ms[a] * ms[b], &sa), sc = 0;
        LD got = bilinear(M, vs[b], vs[a], &sc);
        if(!(std::fabs(got - ex) <= LD(1e-10) * (sc + sa + LD(1e-30))))
        { c.fail(k + " mass", "v^T M u = " + std::to_string(double(got)) + ", exact boundary integral " + std::to_string(double(ex)) + " for u=[" + ms[a].str() + "] v=[" + ms[b].str() + "]"); return; }
      }
      // boundary functional
      {
        Poly<D> f(LD(1));
        for(int i = 0; i < D; ++i) f += Poly<D>::var(i) * LD(i + 2) * LD(0.25);
        PolyFunction<D> ff(f);
        Assembly::Common::ForceFunctional<PolyFunction<D>> force(ff);
        Vec b(space.get_num_dofs(), 0.0);
        tr.assemble_functional_vector(b, force, space, cf);
        for(size_t a = 0; a < ms.size(); ++a)
        {
          LD sa = 0, ex = bd.integrate(f * ms[a], &sa), got = 0, sc = 0;
          for(Index i = 0; i < b.size(); ++i) { got += LD(b(i)) * LD(vs[a](i)); sc += std::fabs(LD(b(i)) * LD(vs[a](i))); }
          if(!(std::fabs(got - ex) <= LD(1e-10) * (sc + sa + LD(1e-30))))
          { c.fail(k + " functional", "v^T b = " + std::to_string(double(got)) + ", exact boundary integral " + std::to_string(double(ex)) + " for v=[" + ms[a].str() + "]"); return; }
        }
      }
      // surface integral of a discrete function
      for(size_t a = 0; a < ms.size(); ++a)
      {
        LD sa = 0, ex = bd.integrate(ms[a], &sa);
        double got = tr.assemble_discrete_integral(vs[a], space, cf);
        if(!(std::fabs(LD(got) - ex) <= LD(1e-10) * (sa + 1)))
        { c.fail(k + " discrete-integral", "surface integral " + std::to_string(got) + ", exact " + std::to_string(double(ex)) + " for u=[" + ms[a].str() + "]"); return; }
      }

      // unit filter on the whole boundary (nodal spaces: node points from interpolating the coordinate functions)
      if constexpr(El_::nodal)
      {
        const std::string ku = kp + " unit-filter";
        Geometry::BoundaryFactory<MeshType> bfac(*mc.mesh);
        Geometry::MeshPart<MeshType> part(bfac);
        Assembly::UnitFilterAssembler<MeshType> ufa;
        ufa.add_mesh_part(part);
        Poly<D> f(LD(0.5));
        for(int i = 0; i < D; ++i) f += Poly<D>::var(i) * LD(i + 1) + Poly<D>::var(i) * Poly<D>::var((i + 1) % D) * LD(0.25);
        PolyFunction<D> ff(f);
        LAFEM::UnitFilter<double, Index> filter;
        ufa.assemble(filter, space, ff);
        // node points
        std::vector<Vec> xc;
        for(int j = 0; j < D; ++j) { PolyFunction<D> xf(Poly<D>::var(j)); Vec v; Assembly::Interpolator::project(v, xf, space); xc.push_back(std::move(v)); }
        std::map<Index, double> expect;
        for(Index i = 0; i < space.get_num_dofs(); ++i)
        {
          std::array<LD, D> x; for(int j = 0; j < D; ++j) x[(size_t)j] = LD(xc[(size_t)j](i));
          if(bd.contains(x)) expect[i] = double(f.eval(x));
        }
        c.count("unit_filters");
        bool ok = (filter.used_elements() == Index(expect.size()));
        std::string why = "filter has " + std::to_string(filter.used_elements()) + " entries, " + std::to_string(expect.size()) + " node points lie on the boundary";
        if(ok)
        {
          const Index* idx = filter.get_indices(); const double* val = filter.get_values();
          for(Index l = 0; l < filter.used_elements(); ++l)
          {
            auto it = expect.find(idx[l]);
            if(it == expect.end()) { ok = false; why = "dof " + std::to_string(idx[l]) + " is in the filter but its node point is not on the boundary"; break; }
            if(!(std::fabs(val[l] - it->second) <= 1e-12 * (1.0 + std::fabs(it->second)))) { ok = false; why = "dof " + std::to_string(idx[l]) + " has value " + std::to_string(val[l]) + ", function value at the node is " + std::to_string(it->second); break; }
          }
        }
        c.check(ok, ku + " dofs-and-values", [&]{ return why; });
        // re-invocation: the same mesh part added twice, and assembling a second time into the already filled filter,
        // give the same filter
        {
          Assembly::UnitFilterAssembler<MeshType> ufa2;
          ufa2.add_mesh_part(part);
          ufa2.add_mesh_part(part);
          LAFEM::UnitFilter<double, Index> f2;
          ufa2.assemble(f2, space, ff);
          ufa2.assemble(f2, space, ff);
          bool same = (f2.used_elements() == filter.used_elements());
          for(Index l = 0; same && l < f2.used_elements(); ++l) same = (f2.get_indices()[l] == filter.get_indices()[l]) && (f2.get_values()[l] == filter.get_values()[l]);
          c.check(same, ku + " re-assembly", "adding the mesh part twice / assembling twice into the same filter changes the filter");
        }
        // homogeneous version selects the same dofs with value 0
        LAFEM::UnitFilter<double, Index> f0;
        ufa.assemble(f0, space);
        bool ok0 = (f0.used_elements() == Index(expect.size()));
        for(Index l = 0; ok0 && l < f0.used_elements(); ++l) ok0 = expect.count(f0.get_indices()[l]) && f0.get_values()[l] == 0.0;
        c.check(ok0, ku + " homogeneous", "homogeneous unit filter selects other dofs or non-zero values");
      }
    }

    void run()
    {
      check_errors();
      check_boundary();
    }
  };

  template<typename Shape_>
  void enumerate_shape(verif::Ctx& c)
  {
    const std::string sn = ShapeInfo<Shape_>::name();
    auto fam = mesh_family<Shape_>(c.thorough);
    for(size_t im = 0; im < fam.size(); ++im)
    {
      const MeshSpec& ms = fam[im];
      auto one = [&](const char* el, auto fn)
      {
        if(!c.want()) return;
        c.desc([&]{ return sn + " " + el + " mesh " + ms.str(); });
        MeshCtx<Shape_> mc = make_mesh<Shape_>(ms);
        fn(mc);
        c.nontrivial(verif::Hash().str(sn).str(el).str(ms.str()).get());
        c.outcome(sn + " " + el);
        c.count("cases");
      };
      one("L1", [&](MeshCtx<Shape_>& mc) { MiscChecker<Shape_, EL1>(c, mc).run(); });
      one("L2", [&](MeshCtx<Shape_>& mc) { MiscChecker<Shape_, EL2>(c, mc).run(); });
      one("CR", [&](MeshCtx<Shape_>& mc) { MiscChecker<Shape_, ECR>(c, mc).run(); });
    }
  }
}

int main(int argc, char** argv)
{
  Runtime::ScopeGuard guard(argc, argv);
  verif::Spec spec;
  spec.property = "C16";
  spec.harness = "c16_misc";
  spec.rule = "cases = (shape, mesh of the c16 family, element in {Lagrange-1, Lagrange-2, CroRavRanTur}); per case: ScalarErrorComputer and the "
    "ErrorFunctionIntegralJob for an FE function that is the interpolant of an in-space polynomial p against an analytic cubic q: H0/H1/H2 errors == exact "
    "norms of q-p (and == 0 for q=p); integrals/norms of analytic and discrete functions; TraceAssembler boundary mass (v^T M u == exact boundary integral "
    "of u*v for all in-space monomials), boundary force functional, discrete surface integral; UnitFilterAssembler on the full boundary (selected DOFs == "
    "DOFs whose node point lies on a boundary facet by a harness coordinate test, values == function values).";
  spec.bounds_quick = "tria/quad/tetra/hexa, mesh family of c16_core.hpp";
  spec.bounds_thorough = "3D: larger mesh family (2D uses the full family in both tiers)";
  spec.assumptions = {
    "boundary checks in 3D only on meshes whose boundary faces are planar parallelograms/triangles (surface element polynomial)",
    "sign convention of the integral of the error function is not fixed by the documentation: absolute values are compared",
    "H2 semi norm = sum over multi-indices |alpha|=2 (mixed derivatives counted once), as implemented by Tiny::Matrix::norm_hessian_sqr",
    "oracle integrates polynomials only"};
  spec.max_fail_per_worker = 100000;
  return verif::run(spec, argc, argv, [&](verif::Ctx& c) {
    enumerate_shape<Shape::Simplex<2>>(c);
    enumerate_shape<Shape::Hypercube<2>>(c);
    enumerate_shape<Shape::Simplex<3>>(c);
    enumerate_shape<Shape::Hypercube<3>>(c);
  });
}
