// c05_common.hpp -- shared pieces of the C05 harnesses: value fingerprints of LAFEM containers (read through the
// raw arrays, never through the serialisation code under test) and deterministic builders for every container kind.
#pragma once
#include <verif.hpp>
#include <kernel/runtime.hpp>
#include <kernel/util/binary_stream.hpp>
#include <kernel/lafem/dense_vector.hpp>
#include <kernel/lafem/dense_vector_blocked.hpp>
#include <kernel/lafem/sparse_vector.hpp>
#include <kernel/lafem/sparse_vector_blocked.hpp>
#include <kernel/lafem/dense_matrix.hpp>
#include <kernel/lafem/sparse_matrix_csr.hpp>
#include <kernel/lafem/sparse_matrix_bcsr.hpp>
#include <kernel/lafem/sparse_matrix_banded.hpp>
#include <kernel/lafem/sparse_matrix_cscr.hpp>

#include <cmath>
#include <sstream>

namespace c05
{
  using namespace FEAT;
  using namespace FEAT::LAFEM;

  /// value fingerprint of a container: everything a Container consists of, widened to common types
  struct VFP
  {
    std::vector<uint64_t> esz, isz, sidx;
    std::vector<std::vector<long double>> e;
    std::vector<std::vector<uint64_t>> i;
    std::vector<long double> sdt;
    bool operator==(const VFP& o) const
    {
      if(!(esz == o.esz && isz == o.isz && sidx == o.sidx && i == o.i)) return false;
      if(e.size() != o.e.size() || sdt.size() != o.sdt.size()) return false;
      auto same = [](long double a, long double b){ return a == b && std::signbit(a) == std::signbit(b); };
      for(size_t k = 0; k < e.size(); ++k)
      {
        if(e[k].size() != o.e[k].size()) return false;
        for(size_t j = 0; j < e[k].size(); ++j) if(!same(e[k][j], o.e[k][j])) return false;
      }
      for(size_t j = 0; j < sdt.size(); ++j) if(!same(sdt[j], o.sdt[j])) return false;
      return true;
    }
    bool operator!=(const VFP& o) const { return !(*this == o); }
    std::string str() const
    {
      std::ostringstream s;
      s << "sidx=[";
      for(auto v : sidx) s << v << ",";
      s << "] esz=[";
      for(auto v : esz) s << v << ",";
      s << "] isz=[";
      for(auto v : isz) s << v << ",";
      s << "] e=";
      for(auto& a : e) { s << "["; for(auto v : a) s << (double)v << ","; s << "]"; }
      s << " i=";
      for(auto& a : i) { s << "["; for(auto v : a) s << v << ","; s << "]"; }
      if(!sdt.empty()) { s << " sdt=["; for(auto v : sdt) s << (double)v << ","; s << "]"; }
      return s.str();
    }
    uint64_t hash(uint64_t salt) const
    {
      verif::Hash h; h.pod(salt);
      for(auto v : sidx) h.pod(v);
      for(auto v : esz) h.pod(v);
      for(auto v : isz) h.pod(v);
      for(auto& a : e) for(auto v : a) { double d = (double)v; h.pod(d); }
      for(auto& a : i) for(auto v : a) h.pod(v);
      return h.get();
    }
    bool has_data() const
    {
      for(auto v : esz) if(v > 0) return true;
      for(auto v : isz) if(v > 0) return true;
      return false;
    }
  };

  template<typename C_>
  VFP vfp(const C_& c)
  {
    VFP f;
    for(auto v : c.get_elements_size()) f.esz.push_back(uint64_t(v));
    for(auto v : c.get_indices_size()) f.isz.push_back(uint64_t(v));
    for(auto v : c.get_scalar_index()) f.sidx.push_back(uint64_t(v));
    for(auto v : c.get_scalar_dt()) f.sdt.push_back((long double)v);
    for(size_t k = 0; k < c.get_elements().size(); ++k)
    {
      std::vector<long double> a;
      const uint64_t n = k < f.esz.size() ? f.esz[k] : 0;
      for(uint64_t j = 0; j < n; ++j) a.push_back((long double)c.get_elements()[k][j]);
      f.e.push_back(a);
    }
    for(size_t k = 0; k < c.get_indices().size(); ++k)
    {
      std::vector<uint64_t> a;
      const uint64_t n = k < f.isz.size() ? f.isz[k] : 0;
      for(uint64_t j = 0; j < n; ++j) a.push_back(uint64_t(c.get_indices()[k][j]));
      f.i.push_back(a);
    }
    return f;
  }

  /// position coded exact value: k/8 with alternating sign, at most 4 significant decimal digits
  inline double pv(uint64_t k, uint64_t salt = 0)
  {
    const uint64_t m = 1 + (k * 3 + salt * 5) % 23;
    return double(m) * 0.125 * (((k + salt) & 1) ? -1.0 : 1.0);
  }
  /// rounding alphabet (not exactly printable with 7 significant digits)
  inline double rv(uint64_t k)
  {
    static const double a[5] = {0.1, 1.0 / 3.0, 3.14159265358979323846, 1e-3 / 7.0, 1e3 / 3.0};
    return a[k % 5] * ((k & 1) ? -1.0 : 1.0) * double(1 + k / 5);
  }

  /// number of values of the extreme alphabet (both signs of every magnitude)
  const uint64_t NX = 36;
  /// extreme alphabet: largest/smallest normal magnitudes, the boundary between 2- and 3-digit decimal exponents
  /// (incl. values that round up across it when printed with 7 digits), denormals, +-1 and +-0; every value is
  /// exactly representable in the requested type (the float list is returned widened to double)
  template<typename DT_>
  inline double xv(uint64_t k)
  {
    k %= NX;
    const bool neg = (k & 1) != 0;
    double m;
    if(sizeof(DT_) == sizeof(double))
    {
      static const double a[18] = {1.7976931348623157e308 / 2.0, 1e300, 1e100, 9.9999995e99, 9.999999e99, 7.5e99, 1e99, 1e-99, 1.5e-99,
        9.9999995e-100, 7.5e-100, 1e-100, 1e-300, 2.2250738585072014e-308, 1e-310, 4.9406564584124654e-324, 1.0, 0.0};
      m = a[k / 2];
    }
    else
    {
      static const float a[11] = {3.40282347e38f / 2.0f, 1e38f, 1e30f, 1.5e10f, 1e-30f, 1e-37f, 1.17549435e-38f, 1e-40f, 1.4e-45f, 1.0f, 0.0f};
      m = double(a[(k / 2) % 11]);
    }
    return neg ? -m : m;
  }
  /// value at flat position k for alphabet code alph: 0 exact, 1 rounding, >= 2 extreme with offset alph-2
  template<typename DT_>
  inline double aval(int alph, uint64_t k, uint64_t salt)
  {
    if(alph == 0) return pv(k, salt);
    if(alph == 1) return rv(k);
    return xv<DT_>(k + uint64_t(alph - 2));
  }
  inline std::string alph_name(int alph)
  {
    if(alph == 0) return "";
    if(alph == 1) return " (rounding values)";
    return " (extreme values, offset " + std::to_string(alph - 2) + ")";
  }

  template<typename T_, typename IT_>
  DenseVector<T_, IT_> mkdv(const std::vector<double>& v)
  {
    DenseVector<T_, IT_> d(Index(v.size()));
    for(Index i = 0; i < v.size(); ++i) d(i, T_(v[i]));
    return d;
  }
  template<typename T_, typename IT_>
  DenseVector<T_, IT_> mkiv(const std::vector<uint64_t>& v)
  {
    DenseVector<T_, IT_> d(Index(v.size()));
    for(Index i = 0; i < v.size(); ++i) d(i, T_(v[i]));
    return d;
  }

  // ------------------------------------------------------------------------------------------------
  // builders. Every builder takes (variant index v, rounding flag) and returns false when v is out of range.
  // The variant order is "simplest first".

  template<typename DT_, typename IT_>
  struct MakeDV
  {
    typedef DenseVector<DT_, IT_> Type;
    static const char* name() { return "DenseVector"; }
    static Index count(bool thorough) { return thorough ? 19 : 11; }
    static Type make(Index v, int rnd, std::string& d)
    {
      d = "length " + std::to_string(v) + (v == 0 ? " (default ctor)" : "");
      if(v == 0) return Type();
      if(v == 1) { d = "length 0 (size ctor)"; return Type(Index(0)); }
      Type x(v - 1);
      for(Index i = 0; i < v - 1; ++i) x(i, DT_(aval<DT_>(rnd, i, 0)));
      return x;
    }
  };

  template<typename DT_, typename IT_, int BS_>
  struct MakeDVB
  {
    typedef DenseVectorBlocked<DT_, IT_, BS_> Type;
    static const char* name() { return BS_ == 2 ? "DenseVectorBlocked<2>" : "DenseVectorBlocked<3>"; }
    static Index count(bool thorough) { return thorough ? 9 : 6; }
    static Type make(Index v, int rnd, std::string& d)
    {
      d = "blocks " + std::to_string(v);
      if(v == 0) { d = "blocks 0 (default ctor)"; return Type(); }
      if(v == 1) { d = "blocks 0 (size ctor)"; return Type(Index(0)); }
      Type x(v - 1);
      DT_* p = x.template elements<Perspective::pod>();
      for(Index i = 0; i < (v - 1) * Index(BS_); ++i) p[i] = DT_(aval<DT_>(rnd, i, 1));
      return x;
    }
  };

  template<typename DT_, typename IT_>
  struct MakeSV
  {
    typedef SparseVector<DT_, IT_> Type;
    static const char* name() { return "SparseVector"; }
    // v: 0 default, 1 size 0, then for n=1..nmax every subset of {0..n-1} (built through the array ctor; the empty
    // subset through the size ctor), then insertion-built vectors (allocated > used)
    static Index count(bool thorough) { Index nmax = thorough ? 5 : 4; Index c = 2; for(Index n = 1; n <= nmax; ++n) c += (Index(1) << n); return c + 4; }
    static Type make(Index v, int rnd, std::string& d)
    {
      if(v == 0) { d = "default ctor"; return Type(); }
      if(v == 1) { d = "size 0"; return Type(Index(0)); }
      v -= 2;
      for(Index n = 1; n <= 5; ++n)
      {
        if(v < (Index(1) << n))
        {
          std::vector<uint64_t> idx; std::vector<double> val;
          // indices are handed over in descending order (unsorted) for odd masks
          for(Index k = 0; k < n; ++k) if(v & (Index(1) << k)) idx.push_back(k);
          for(Index k = 0; k < idx.size(); ++k) val.push_back(aval<DT_>(rnd, idx[k], 2));
          d = "size " + std::to_string(n) + " mask " + std::to_string(v);
          if(idx.empty()) return Type(n);
          const bool unsorted = (v & 1) && idx.size() > 1;
          if(unsorted) { std::reverse(idx.begin(), idx.end()); std::reverse(val.begin(), val.end()); d += " (given unsorted)"; }
          auto dv = mkdv<DT_, IT_>(val); auto iv = mkiv<IT_, IT_>(idx);
          return Type(n, dv, iv, !unsorted);
        }
        v -= (Index(1) << n);
      }
      // insertion-built: allocated > used; the unused tail of the arrays is initialised by the harness
      {
        const Index n = 6 + v;
        Type x(n);
        for(Index k = 0; k <= v; ++k) x(Index((k * 5 + 1) % n), DT_(aval<DT_>(rnd, k, 3)));
        (void)x.used_elements();
        for(Index k = x.used_elements(); k < x.allocated_elements(); ++k) { x.elements()[k] = DT_(0.5); x.indices()[k] = IT_(0); }
        d = "size " + std::to_string(n) + " built by " + std::to_string(v + 1) + " insertions";
        return x;
      }
    }
  };

  template<typename DT_, typename IT_, int BS_>
  struct MakeSVB
  {
    typedef SparseVectorBlocked<DT_, IT_, BS_> Type;
    static const char* name() { return "SparseVectorBlocked<2>"; }
    static Index count(bool) { Index c = 2; for(Index n = 1; n <= 3; ++n) c += (Index(1) << n); return c; }
    static Type make(Index v, int rnd, std::string& d)
    {
      if(v == 0) { d = "default ctor"; return Type(); }
      if(v == 1) { d = "size 0"; return Type(Index(0)); }
      v -= 2;
      for(Index n = 1; n <= 3; ++n)
      {
        if(v < (Index(1) << n))
        {
          std::vector<uint64_t> idx;
          for(Index k = 0; k < n; ++k) if(v & (Index(1) << k)) idx.push_back(k);
          d = "size " + std::to_string(n) + " mask " + std::to_string(v);
          if(idx.empty()) return Type(n);
          DenseVectorBlocked<DT_, IT_, BS_> dv(Index(idx.size()));
          DT_* p = dv.template elements<Perspective::pod>();
          for(Index k = 0; k < idx.size() * Index(BS_); ++k) p[k] = DT_(aval<DT_>(rnd, k, 4));
          auto iv = mkiv<IT_, IT_>(idx);
          return Type(n, dv, iv, true);
        }
        v -= (Index(1) << n);
      }
      d = "?"; return Type();
    }
  };

  template<typename DT_, typename IT_>
  struct MakeDM
  {
    typedef DenseMatrix<DT_, IT_> Type;
    static const char* name() { return "DenseMatrix"; }
    static Index count(bool thorough) { return thorough ? 17 : 10; }
    static Type make(Index v, int rnd, std::string& d)
    {
      if(v == 0) { d = "default ctor"; return Type(); }
      v -= 1;
      const Index big[7][2] = {{1,4},{4,1},{2,4},{4,2},{3,4},{4,3},{4,4}};
      const Index m = v < 9 ? 1 + v / 3 : big[(v - 9) % 7][0], n = v < 9 ? 1 + v % 3 : big[(v - 9) % 7][1];
      d = std::to_string(m) + "x" + std::to_string(n);
      Type x(m, n);
      for(Index i = 0; i < m; ++i) for(Index j = 0; j < n; ++j) x(i, j, DT_(aval<DT_>(rnd, i * n + j, 5)));
      return x;
    }
  };

  // shapes (m,n) in enumeration order
  inline void shape_of(Index s, Index& m, Index& n) { m = 1 + s / 3; n = 1 + s % 3; }

  template<typename DT_, typename IT_>
  struct MakeCSR
  {
    typedef SparseMatrixCSR<DT_, IT_> Type;
    static const char* name() { return "SparseMatrixCSR"; }
    // v: 0 default; 1..16 entry-free (m,n) in {0..3}^2 via CSR(m,n); 17..25 CSR(m,n,0) with arrays but no entries;
    // then every non-empty pattern of every shape <= 3x3 and of 3x4 (thorough: + 4x3 and 4x4)
    static Index npat(Index m, Index n) { return (Index(1) << (m * n)) - 1; }
    static Index count(bool thorough)
    {
      Index c = 1 + 16 + 9;
      for(Index s = 0; s < 9; ++s) { Index m, n; shape_of(s, m, n); c += npat(m, n); }
      c += 4095;                       // 3x4
      if(thorough) c += 4095 + 65535;  // 4x3, 4x4
      return c;
    }
    static Type from_mask(Index m, Index n, uint64_t mask, int rnd)
    {
      std::vector<uint64_t> rp(m + 1, 0), ci; std::vector<double> va;
      for(Index i = 0; i < m; ++i)
      {
        for(Index j = 0; j < n; ++j) if(mask & (uint64_t(1) << (i * n + j))) { ci.push_back(j); va.push_back(aval<DT_>(rnd, i * n + j, 6)); }
        rp[i + 1] = ci.size();
      }
      auto vci = mkiv<IT_, IT_>(ci); auto vva = mkdv<DT_, IT_>(va); auto vrp = mkiv<IT_, IT_>(rp);
      return Type(m, n, vci, vva, vrp);
    }
    static Type make(Index v, int rnd, std::string& d)
    {
      if(v == 0) { d = "default ctor"; return Type(); }
      v -= 1;
      if(v < 16) { d = "entry-free " + std::to_string(v / 4) + "x" + std::to_string(v % 4) + " (no arrays)"; return Type(v / 4, v % 4); }
      v -= 16;
      if(v < 9)
      {
        Index m, n; shape_of(v, m, n);
        d = std::to_string(m) + "x" + std::to_string(n) + " with arrays but 0 entries";
        Type x(m, n, Index(0));
        for(Index i = 0; i <= m; ++i) x.row_ptr()[i] = IT_(0);
        return x;
      }
      v -= 9;
      for(Index s = 0; s < 9; ++s)
      {
        Index m, n; shape_of(s, m, n);
        if(v < npat(m, n)) { d = std::to_string(m) + "x" + std::to_string(n) + " pattern " + std::to_string(v + 1); return from_mask(m, n, v + 1, rnd); }
        v -= npat(m, n);
      }
      if(v < 4095) { d = "3x4 pattern " + std::to_string(v + 1); return from_mask(3, 4, v + 1, rnd); }
      v -= 4095;
      if(v < 4095) { d = "4x3 pattern " + std::to_string(v + 1); return from_mask(4, 3, v + 1, rnd); }
      v -= 4095;
      d = "4x4 pattern " + std::to_string(v + 1); return from_mask(4, 4, v + 1, rnd);
    }
  };

  template<typename DT_, typename IT_, int BH_, int BW_>
  struct MakeBCSR
  {
    typedef SparseMatrixBCSR<DT_, IT_, BH_, BW_> Type;
    static const char* name() { return BW_ == 2 ? "SparseMatrixBCSR<2,2>" : "SparseMatrixBCSR<2,3>"; }
    // block shapes <= 2x2 (thorough 3x3), all block patterns
    static Index count(bool thorough)
    {
      Index c = 1 + 9;
      const Index mx = thorough ? 3 : 2;
      for(Index m = 1; m <= mx; ++m) for(Index n = 1; n <= mx; ++n) c += (Index(1) << (m * n)) - 1;
      return c;
    }
    static Type make(Index v, int rnd, std::string& d)
    {
      if(v == 0) { d = "default ctor"; return Type(); }
      v -= 1;
      if(v < 9) { d = "entry-free " + std::to_string(v / 3) + "x" + std::to_string(v % 3) + " blocks (no arrays)"; return Type(v / 3, v % 3); }
      v -= 9;
      const Index shapes[9][2] = {{1,1},{1,2},{2,1},{2,2},{1,3},{3,1},{2,3},{3,2},{3,3}};
      for(int s = 0; s < 9; ++s)
      {
        const Index m = shapes[s][0], n = shapes[s][1];
        const Index np = (Index(1) << (m * n)) - 1;
        if(v < np)
        {
          const uint64_t mask = v + 1;
          d = std::to_string(m) + "x" + std::to_string(n) + " blocks pattern " + std::to_string(mask);
          std::vector<uint64_t> rp(m + 1, 0), ci;
          for(Index i = 0; i < m; ++i) { for(Index j = 0; j < n; ++j) if(mask & (uint64_t(1) << (i * n + j))) ci.push_back(j); rp[i + 1] = ci.size(); }
          DenseVector<DT_, IT_> vva(Index(ci.size() * BH_ * BW_));
          for(Index k = 0; k < vva.size(); ++k) vva(k, DT_(aval<DT_>(rnd, k, 7)));
          auto vci = mkiv<IT_, IT_>(ci); auto vrp = mkiv<IT_, IT_>(rp);
          return Type(m, n, vci, vva, vrp);
        }
        v -= np;
      }
      d = "?"; return Type();
    }
  };

  template<typename DT_, typename IT_>
  struct MakeBanded
  {
    typedef SparseMatrixBanded<DT_, IT_> Type;
    static const char* name() { return "SparseMatrixBanded"; }
    static Index nsub(Index m, Index n) { return (Index(1) << (m + n - 1)) - 1; }
    static Index count(bool thorough)
    {
      Index c = 1;
      for(Index s = 0; s < 9; ++s) { Index m, n; shape_of(s, m, n); c += nsub(m, n); }
      if(thorough) c += nsub(4, 4);
      return c;
    }
    static Type make(Index v, int rnd, std::string& d)
    {
      if(v == 0) { d = "default ctor"; return Type(); }
      v -= 1;
      Index m = 4, n = 4;
      for(Index s = 0; s < 9; ++s)
      {
        Index mm, nn; shape_of(s, mm, nn);
        if(v < nsub(mm, nn)) { m = mm; n = nn; break; }
        v -= nsub(mm, nn);
      }
      const uint64_t mask = v + 1;
      std::vector<uint64_t> off;
      for(Index k = 0; k < m + n - 1; ++k) if(mask & (uint64_t(1) << k)) off.push_back(k);
      d = std::to_string(m) + "x" + std::to_string(n) + " offsets mask " + std::to_string(mask);
      std::vector<double> va(m * off.size());
      for(Index k = 0; k < va.size(); ++k) va[k] = aval<DT_>(rnd, k, 8);
      auto vva = mkdv<DT_, IT_>(va); auto vof = mkiv<IT_, IT_>(off);
      return Type(m, n, vva, vof);
    }
  };

  template<typename DT_, typename IT_>
  struct MakeCSCR
  {
    typedef SparseMatrixCSCR<DT_, IT_> Type;
    static const char* name() { return "SparseMatrixCSCR"; }
    // v: 0 default; 1..9 entry-free; then for shapes <= 3x3 (quick <= 2x3): every non-empty used-row subset x every
    // pattern on the used rows with >= 1 entry (rows of the subset may be empty)
    static Index nvar(Index m, Index n)
    {
      Index c = 0;
      for(Index rs = 1; rs < (Index(1) << m); ++rs) { Index k = Index(__builtin_popcountll(rs)); c += (Index(1) << (k * n)) - 1; }
      return c;
    }
    static Index count(bool thorough)
    {
      Index c = 1 + 9;
      for(Index s = 0; s < (thorough ? 9u : 6u); ++s) { Index m, n; shape_of(s, m, n); c += nvar(m, n); }
      return c;
    }
    static Type make(Index v, int rnd, std::string& d)
    {
      if(v == 0) { d = "default ctor"; return Type(); }
      v -= 1;
      if(v < 9) { d = "entry-free " + std::to_string(v / 3) + "x" + std::to_string(v % 3) + " (no arrays)"; return Type(v / 3, v % 3); }
      v -= 9;
      for(Index s = 0; s < 9; ++s)
      {
        Index m, n; shape_of(s, m, n);
        if(v >= nvar(m, n)) { v -= nvar(m, n); continue; }
        for(Index rs = 1; rs < (Index(1) << m); ++rs)
        {
          const Index k = Index(__builtin_popcountll(rs));
          const Index np = (Index(1) << (k * n)) - 1;
          if(v >= np) { v -= np; continue; }
          const uint64_t mask = v + 1;
          std::vector<uint64_t> rn, rp(1, 0), ci; std::vector<double> va;
          Index u = 0;
          for(Index i = 0; i < m; ++i) if(rs & (Index(1) << i))
          {
            rn.push_back(i);
            for(Index j = 0; j < n; ++j) if(mask & (uint64_t(1) << (u * n + j))) { ci.push_back(j); va.push_back(aval<DT_>(rnd, i * n + j, 9)); }
            rp.push_back(ci.size());
            ++u;
          }
          d = std::to_string(m) + "x" + std::to_string(n) + " used rows mask " + std::to_string(rs) + " pattern " + std::to_string(mask);
          auto vci = mkiv<IT_, IT_>(ci); auto vva = mkdv<DT_, IT_>(va); auto vrp = mkiv<IT_, IT_>(rp); auto vrn = mkiv<IT_, IT_>(rn);
          return Type(m, n, vci, vva, vrp, vrn);
        }
      }
      d = "?"; return Type();
    }
  };
} // namespace c05
