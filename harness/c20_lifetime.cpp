// C20 -- container lifetimes are memory-safe: arrays freed exactly once, no leaks.
//
// Engine E3 (histbfs): BFS over histories of lifetime operations on a pool of three container slots. A state
// is the history that reaches it; every transition replays the history on fresh real containers, applies the
// operation, and compares the implementation (pointer classes, MemoryPool::_pool reference counts and byte sizes,
// _foreign_memory flags, _scalar_index, array contents) with a reference model (map array-id -> #owners).
// Built in the asan variant: every array of every live container is read after every step, so a premature
// free / double free / out-of-bounds access aborts the worker and is reported by the runner.
#include <verif.hpp>
#include <kernel/runtime.hpp>
#include <kernel/util/memory_pool.hpp>
#include <kernel/lafem/dense_vector.hpp>
#include <kernel/lafem/dense_vector_blocked.hpp>
#include <kernel/lafem/sparse_vector.hpp>
#include <kernel/lafem/sparse_vector_blocked.hpp>
#include <kernel/lafem/sparse_matrix_csr.hpp>
#include <kernel/lafem/sparse_matrix_bcsr.hpp>
#include <kernel/lafem/sparse_layout.hpp>
#include <kernel/adjacency/graph.hpp>
#include <memory>

using namespace FEAT;
using namespace FEAT::LAFEM;
typedef std::uint64_t u64;
typedef std::uint32_t u32;

// ------------------------------------------------------------------------------------------------ types
enum Kind { K_DV = 0, K_DVB, K_CSR, K_BCSR, K_SV };
enum { T_DV_D64 = 0, T_DV_F64, T_DV_D32, T_DVB_D64, T_CSR_D64, T_CSR_F64, T_CSR_D32, T_BCSR_D64, T_BCSR_F32, T_SV_D64, T_SV_F32, T_N };
template<int N> struct TypeT;
#define C20_T(N, ...) template<> struct TypeT<N> { typedef __VA_ARGS__ type; };
C20_T(T_DV_D64, DenseVector<double, u64>)
C20_T(T_DV_F64, DenseVector<float, u64>)
C20_T(T_DV_D32, DenseVector<double, u32>)
C20_T(T_DVB_D64, DenseVectorBlocked<double, u64, 2>)
C20_T(T_CSR_D64, SparseMatrixCSR<double, u64>)
C20_T(T_CSR_F64, SparseMatrixCSR<float, u64>)
C20_T(T_CSR_D32, SparseMatrixCSR<double, u32>)
C20_T(T_BCSR_D64, SparseMatrixBCSR<double, u64, 2, 2>)
C20_T(T_BCSR_F32, SparseMatrixBCSR<float, u32, 2, 2>)
C20_T(T_SV_D64, SparseVector<double, u64>)
C20_T(T_SV_F32, SparseVector<float, u32>)
static const int t_kind[T_N] = {K_DV, K_DV, K_DV, K_DVB, K_CSR, K_CSR, K_CSR, K_BCSR, K_BCSR, K_SV, K_SV};
static const int t_dt[T_N] = {0, 1, 0, 0, 0, 1, 0, 0, 1, 0, 1};   // 0 double 1 float
static const int t_it[T_N] = {0, 0, 1, 0, 0, 0, 1, 0, 1, 0, 1};   // 0 u64 1 u32
static const char* t_name[T_N] = {"DV<d,u64>", "DV<f,u64>", "DV<d,u32>", "DVB2<d,u64>", "CSR<d,u64>", "CSR<f,u64>", "CSR<d,u32>",
  "BCSR22<d,u64>", "BCSR22<f,u32>", "SV<d,u64>", "SV<f,u32>"};
static int dt_bytes(int t) { return t_dt[t] ? 4 : 8; }
static int it_bytes(int t) { return t_it[t] ? 4 : 8; }
constexpr int c_kind(int t) { return t <= T_DV_D32 ? K_DV : t == T_DVB_D64 ? K_DVB : t <= T_CSR_D32 ? K_CSR : t <= T_BCSR_F32 ? K_BCSR : K_SV; }
constexpr int c_dt(int t) { return (t == T_DV_F64 || t == T_CSR_F64 || t == T_BCSR_F32 || t == T_SV_F32) ? 1 : 0; }
constexpr int c_it(int t) { return (t == T_DV_D32 || t == T_CSR_D32 || t == T_BCSR_F32 || t == T_SV_F32) ? 1 : 0; }

struct Cont { int type = -1; virtual ~Cont() {} };
template<int N> struct ContT : Cont
{
  typename TypeT<N>::type obj;
  template<typename... A> explicit ContT(A&&... a) : obj(std::forward<A>(a)...) { type = N; }
};
typedef std::unique_ptr<Cont> ContP;
template<typename F> void visit(Cont& c, F&& f)
{
  switch(c.type)
  {
#define C20_V(N) case N: f(static_cast<ContT<N>&>(c), std::integral_constant<int, N>()); break;
    C20_V(0) C20_V(1) C20_V(2) C20_V(3) C20_V(4) C20_V(5) C20_V(6) C20_V(7) C20_V(8) C20_V(9) C20_V(10)
  default: abort();
  }
}
template<int N = 0, typename F> void for_type(int t, F&& f)
{
  if constexpr(N < T_N) { if(t == N) f(std::integral_constant<int, N>()); else for_type<N + 1>(t, f); }
}

// ------------------------------------------------------------------------------------------------ operations
enum OpK { O_CREATE = 1, O_CLONE, O_CONVERT, O_MOVE_ASSIGN, O_MOVE_CTOR, O_RANGE, O_LAYOUT, O_LAYOUT_MOVE, O_CLEAR, O_DESTROY, O_FORMAT, O_SHARE_PTR };
struct Op { int k = 0, i = 0, j = 0, a = 0; };
static const char* clone_name[5] = {"Shallow", "Layout", "Weak", "Deep", "Allocate"};
static std::string op_str(const Op& o)
{
  std::ostringstream s;
  switch(o.k)
  {
  case O_CREATE: s << "create(s" << o.j << "," << (o.a == 0 ? "filled" : o.a == 1 ? "empty" : o.a == 2 ? "variant2" : "graph") << ")"; break;
  case O_CLONE: s << "s" << o.j << ".clone(s" << o.i << "," << clone_name[o.a] << ")"; break;
  case O_CONVERT: s << "s" << o.j << ".convert(s" << o.i << ")"; break;
  case O_MOVE_ASSIGN: s << "s" << o.j << "=move(s" << o.i << ")"; break;
  case O_MOVE_CTOR: s << "s" << o.j << "=new T(move(s" << o.i << "))"; break;
  case O_RANGE: s << "s" << o.j << "=range(s" << o.i << "," << (o.a == 0 ? "tail" : "full") << ")"; break;
  case O_LAYOUT: s << "s" << o.j << "=layout(s" << o.i << ")"; break;
  case O_LAYOUT_MOVE: s << "layout(s" << o.j << ")=move(layout(s" << o.i << "))"; break;
  case O_CLEAR: s << "s" << o.i << ".clear()"; break;
  case O_DESTROY: s << "destroy(s" << o.i << ")"; break;
  case O_FORMAT: s << "s" << o.i << (o.a == 0 ? ".format(9)" : ".format()"); break;
  case O_SHARE_PTR: s << "s" << o.j << "=T(size(s" << o.i << "), s" << o.i << ".elements())"; break;
  }
  return s.str();
}
/// key text without slot numbers (stable class of the operation)
static std::string op_class(const Op& o, const int* ty)
{
  std::ostringstream s;
  switch(o.k)
  {
  case O_CREATE: s << "create " << t_name[ty[o.j]] << (o.a == 0 ? " filled" : o.a == 1 ? " empty" : o.a == 3 ? " from a Graph" : t_kind[ty[o.j]] == K_SV ? " from unsorted arrays" : (t_kind[ty[o.j]] == K_DV || t_kind[ty[o.j]] == K_DVB) ? " (size, value)" : " allocating ctor"); break;
  case O_CLONE: s << t_name[ty[o.j]] << ".clone(" << t_name[ty[o.i]] << "," << clone_name[o.a] << ")" << (o.i == o.j ? " self" : ""); break;
  case O_CONVERT: s << t_name[ty[o.j]] << ".convert(" << t_name[ty[o.i]] << ")"; break;
  case O_MOVE_ASSIGN: s << t_name[ty[o.j]] << " move-assign" << (o.i == o.j ? " self" : ""); break;
  case O_MOVE_CTOR: s << t_name[ty[o.j]] << " move-ctor"; break;
  case O_RANGE: s << t_name[ty[o.j]] << " range-ctor " << (o.a == 0 ? "tail" : "full"); break;
  case O_LAYOUT: s << t_name[ty[o.j]] << " from layout of " << t_name[ty[o.i]] << (o.i == o.j ? " self" : ""); break;
  case O_LAYOUT_MOVE: s << "SparseLayout move-assign (" << t_name[ty[o.i]] << ")"; break;
  case O_CLEAR: s << t_name[ty[o.i]] << ".clear()"; break;
  case O_DESTROY: s << "~" << t_name[ty[o.i]]; break;
  case O_FORMAT: s << t_name[ty[o.i]] << (o.a == 0 ? ".format(value)" : ".format() default"); break;
  case O_SHARE_PTR: s << t_name[ty[o.j]] << "(size, data pointer of another vector)"; break;
  }
  return s.str();
}

// ------------------------------------------------------------------------------------------------ reference model
struct ARef { int id = -1; Index off = 0, size = 0; };     // id -1: null pointer (zero sized allocation)
struct MArr { int refs = 0; Index count = 0; int ebytes = 8; std::vector<double> v; bool defined = true; };
struct MSlot
{
  bool present = false; bool foreign = false;
  std::vector<ARef> el, ix;
  std::vector<Index> si;
};
struct MState
{
  MSlot s[3];
  std::map<int, MArr> arr;
  int next_id = 0;
  bool null_share = false;   // the operation would call increase_memory(nullptr)
};
enum Verdict { V_OK = 0, V_EXCLUDED, V_EXPECT_ABORT, V_SUSPECT };

static ARef m_new(MState& M, Index count, int ebytes, const std::vector<double>& v, bool defined)
{
  ARef r; r.size = count;
  if(count == 0) return r;   // allocate_memory(0) returns nullptr and registers nothing
  MArr a; a.refs = 1; a.count = count; a.ebytes = ebytes; a.v = v; a.v.resize(count, 0.0); a.defined = defined;
  r.id = M.next_id++; M.arr[r.id] = a;
  return r;
}
static void m_share(MState& M, const ARef& r) { if(r.id < 0) M.null_share = true; else { auto it = M.arr.find(r.id); if(it != M.arr.end()) it->second.refs++; } }
static void m_unref(MState& M, const ARef& r)
{
  if(r.id < 0) return;
  auto it = M.arr.find(r.id);
  if(it == M.arr.end()) return;
  if(--it->second.refs == 0) M.arr.erase(it);
}
static void m_release_arrays(MState& M, MSlot& s, bool honour_foreign = true)
{
  if(!(honour_foreign && s.foreign)) { for(auto& r : s.el) m_unref(M, r); for(auto& r : s.ix) m_unref(M, r); }
  s.el.clear(); s.ix.clear();
}
static std::vector<double> m_values(const MState& M, const ARef& r)
{
  std::vector<double> v(r.size, 0.0);
  if(r.id < 0) return v;
  auto it = M.arr.find(r.id);
  if(it == M.arr.end()) return v;   // borrowed array already released inside this operation: the history gets excluded
  const MArr& a = it->second;
  for(Index k = 0; k < r.size; ++k) v[k] = a.v[r.off + k];
  return v;
}
static bool m_defined(const MState& M, const ARef& r) { if(r.id < 0) return true; auto it = M.arr.find(r.id); return it == M.arr.end() ? false : it->second.defined; }

static std::vector<Index> default_si(int t)
{
  switch(t_kind[t]) { case K_DV: case K_DVB: return {0}; case K_CSR: case K_BCSR: return {0, 0, 0, 0}; default: return {0, 0, 0, 0, 1}; }
}
static void m_default(MSlot& s, int t) { s = MSlot(); s.present = true; s.si = default_si(t); }

/// Container::assign (dst type td, src type ts)
static void m_assign(MState& M, MSlot& d, int td, const MSlot& s, int ts)
{
  const MSlot src = s;
  m_release_arrays(M, d);
  d.foreign = false;
  d.si = src.si;
  for(const ARef& r : src.el)
  {
    if(t_dt[td] == t_dt[ts]) { m_share(M, r); d.el.push_back(r); }
    else d.el.push_back(m_new(M, r.size, dt_bytes(td), m_values(M, r), m_defined(M, r)));
  }
  for(const ARef& r : src.ix)
  {
    if(t_it[td] == t_it[ts]) { m_share(M, r); d.ix.push_back(r); }
    else d.ix.push_back(m_new(M, r.size, it_bytes(td), m_values(M, r), m_defined(M, r)));
  }
}
/// Container::clone, same type
static void m_clone_same(MState& M, MSlot& d, int t, const MSlot& s, int mode)
{
  const MSlot src = s;
  m_release_arrays(M, d);
  d.foreign = false;
  d.si = src.si;
  const bool fresh_ix = (mode == int(CloneMode::Deep) || mode == int(CloneMode::Allocate));
  for(const ARef& r : src.ix)
  {
    if(fresh_ix) d.ix.push_back(m_new(M, r.size, it_bytes(t), m_values(M, r), mode == int(CloneMode::Deep) && m_defined(M, r)));
    else { m_share(M, r); d.ix.push_back(r); }
  }
  for(const ARef& r : src.el)
  {
    if(mode == int(CloneMode::Shallow)) { m_share(M, r); d.el.push_back(r); }
    else
    {
      const bool copy = (mode == int(CloneMode::Deep) || mode == int(CloneMode::Weak));
      d.el.push_back(m_new(M, r.size, dt_bytes(t), m_values(M, r), copy && m_defined(M, r)));
    }
  }
}
static Index m_size0(const MSlot& s) { return s.si.empty() ? Index(0) : s.si[0]; }

/// applies op to the model; ty = slot types
static Verdict m_apply(MState& M, const Op& o, const int* ty, std::string& why)
{
  M.null_share = false;
  MSlot& si = M.s[o.i]; MSlot& sj = M.s[o.j];
  const int ti = ty[o.i], tj = ty[o.j];
  Verdict v = V_OK;
  switch(o.k)
  {
  case O_CREATE:
  {
    m_default(sj, tj); sj.si.clear();
    const int db = dt_bytes(tj), ib = it_bytes(tj);
    switch(t_kind[tj])
    {
    case K_DV:
      if(o.a == 0) { sj.si = {3}; sj.el.push_back(m_new(M, 3, db, {1, 2, 3}, true)); }
      else if(o.a == 2) { sj.si = {3}; sj.el.push_back(m_new(M, 3, db, {7, 7, 7}, true)); }   // (size, value) constructor
      else sj.si = {0};
      break;
    case K_DVB:
      if(o.a == 0) { sj.si = {2}; sj.el.push_back(m_new(M, 4, db, {1, 2, 3, 4}, true)); }
      else if(o.a == 2) { sj.si = {2}; sj.el.push_back(m_new(M, 4, db, {7, 7, 7, 7}, true)); }
      else sj.si = {0};
      break;
    case K_CSR:
      if(o.a == 0) { sj.si = {4, 2, 2, 3}; sj.el.push_back(m_new(M, 3, db, {1, 2, 3}, true)); sj.ix.push_back(m_new(M, 3, ib, {0, 1, 1}, true)); sj.ix.push_back(m_new(M, 3, ib, {0, 2, 3}, true)); }
      else if(o.a == 2) { sj.si = {4, 2, 2, 3}; sj.ix.push_back(m_new(M, 3, ib, {}, false)); sj.ix.push_back(m_new(M, 3, ib, {}, false)); sj.el.push_back(m_new(M, 3, db, {}, false)); }   // allocating ctor (rows, cols, used)
      else if(o.a == 3) { sj.si = {4, 2, 2, 3}; sj.el.push_back(m_new(M, 3, db, {0, 0, 0}, true)); sj.ix.push_back(m_new(M, 3, ib, {0, 1, 1}, true)); sj.ix.push_back(m_new(M, 3, ib, {0, 2, 3}, true)); }   // ctor(Graph)
      else sj.si = {6, 2, 3, 0};
      break;
    case K_BCSR:
      if(o.a == 0) { sj.si = {2, 1, 2, 1}; sj.el.push_back(m_new(M, 4, db, {1, 2, 3, 4}, true)); sj.ix.push_back(m_new(M, 1, ib, {1}, true)); sj.ix.push_back(m_new(M, 2, ib, {0, 1}, true)); }
      else if(o.a == 2) { sj.si = {2, 1, 2, 1}; sj.ix.push_back(m_new(M, 1, ib, {}, false)); sj.ix.push_back(m_new(M, 2, ib, {}, false)); sj.el.push_back(m_new(M, 4, db, {}, false)); }
      else if(o.a == 3) { sj.si = {2, 1, 2, 1}; sj.el.push_back(m_new(M, 4, db, {0, 0, 0, 0}, true)); sj.ix.push_back(m_new(M, 1, ib, {1}, true)); sj.ix.push_back(m_new(M, 2, ib, {0, 1}, true)); }
      else sj.si = {2, 1, 2, 0};
      break;
    case K_SV:
      if(o.a == 0) { sj.si = {3, 2, 2, 3, 1}; sj.el.push_back(m_new(M, 2, db, {1, 2}, true)); sj.ix.push_back(m_new(M, 2, ib, {0, 2}, true)); }
      else if(o.a == 2) { sj.si = {3, 2, 2, 3, 1}; sj.el.push_back(m_new(M, 2, db, {-2, 0}, true)); sj.ix.push_back(m_new(M, 2, ib, {0, 2}, true)); }  // given as (2:0, 0:-2) unsorted, sorted by the ctor
      else sj.si = {3, 0, 0, 3, 1};
      break;
    }
    break;
  }
  case O_CLONE:
  {
    if(o.i == o.j) { why = "self-clone"; return V_EXPECT_ABORT; }
    if(si.foreign && (o.a != int(CloneMode::Deep) || ti != tj)) { why = "non-deep / converting clone of a ranged source"; return V_EXPECT_ABORT; }
    if(!sj.present) m_default(sj, tj);
    if(ti == tj) m_clone_same(M, sj, tj, si, o.a);
    else
    {
      MSlot tmp; m_default(tmp, tj); tmp.si = {m_size0(si)};
      m_assign(M, tmp, tj, si, ti);
      m_clone_same(M, sj, tj, tmp, o.a);
      m_release_arrays(M, tmp);
    }
    break;
  }
  case O_CONVERT:
  {
    if(o.i == o.j) { why = "self-convert (undocumented)"; return V_EXCLUDED; }
    const int ki = t_kind[ti], kj = t_kind[tj];
    if(ki == kj && ki != K_SV)
    {
      if(si.foreign) { why = "assign from a ranged source"; return V_EXPECT_ABORT; }
      if(!sj.present) m_default(sj, tj);
      m_assign(M, sj, tj, si, ti);
    }
    else if(ki == K_SV)
    {
      // SparseVector::convert = sort() + deep clone; sort() reads _scalar_index[4] of the target
      if(sj.present && sj.si.empty()) v = V_SUSPECT;
      if(!sj.present) m_default(sj, tj);
      if(ti == tj) m_clone_same(M, sj, tj, si, int(CloneMode::Deep));
      else
      {
        MSlot tmp; m_default(tmp, tj); tmp.si = {m_size0(si)};
        m_assign(M, tmp, tj, si, ti);
        m_clone_same(M, sj, tj, tmp, int(CloneMode::Deep));
        m_release_arrays(M, tmp);
      }
    }
    else
    {
      // DenseVector <-> DenseVectorBlocked (same DT/IT): shares the data array
      if(si.foreign) { why = "DV<->DVB convert of a ranged source (no owner to share with)"; return V_EXCLUDED; }
      if(si.si.empty()) { why = "DV<->DVB convert of a moved-from/cleared source"; return V_EXCLUDED; }
      const Index pod = (ki == K_DVB) ? m_size0(si) * 2 : m_size0(si);
      if(kj == K_DVB && pod % 2 != 0) { why = "DVB.convert(DV) with size not a multiple of the block size (asserted)"; return V_EXCLUDED; }
      if(si.el.empty()) v = V_SUSPECT;   // get_elements().at(0) on a vector without arrays
      if(!sj.present) m_default(sj, tj);
      const std::vector<ARef> keep = si.el;
      m_release_arrays(M, sj);
      sj.foreign = false;
      sj.si = {kj == K_DVB ? pod / 2 : pod};
      if(!keep.empty()) { ARef r = keep[0]; r.size = pod; m_share(M, r); sj.el.push_back(r); }
    }
    break;
  }
  case O_MOVE_ASSIGN:
  {
    if(o.i == o.j) break;   // documented no-op
    const MSlot src = si;
    m_release_arrays(M, sj);
    sj.el = src.el; sj.ix = src.ix; sj.si = src.si; sj.foreign = src.foreign;
    si.el.clear(); si.ix.clear(); si.si.clear();
    break;
  }
  case O_MOVE_CTOR:
  {
    const MSlot src = si;
    if(sj.present) m_release_arrays(M, sj);
    sj = src;
    si.el.clear(); si.ix.clear(); si.si.clear();
    break;
  }
  case O_RANGE:
  {
    const Index bs = (t_kind[ti] == K_DVB) ? 2 : 1;
    const Index n = m_size0(si);
    if(si.el.empty() || n == 0) { why = "range of a vector without elements (asserted size>0)"; return V_EXCLUDED; }
    Index off = 0, len = n;
    if(o.a == 0) { if(n < 2) { why = "tail range needs size>=2"; return V_EXCLUDED; } off = 1; len = n - 1; }
    const ARef base = si.el[0];
    sj = MSlot(); sj.present = true; sj.foreign = true; sj.si = {len};
    ARef r; r.id = base.id; r.off = base.off + off * bs; r.size = len * bs;
    sj.el.push_back(r);
    break;
  }
  case O_LAYOUT:
  {
    if(si.si.size() < 4) { why = "layout() of a moved-from/cleared matrix (dimensions unspecified)"; return V_EXCLUDED; }
    const MSlot src = si;
    // temporary layout object holds a reference on every index array
    for(const ARef& r : src.ix) m_share(M, r);
    if(sj.present) m_release_arrays(M, sj, false);
    else { sj = MSlot(); sj.present = true; }
    sj.foreign = false;
    sj.si = src.si;
    for(const ARef& r : src.ix) { m_share(M, r); sj.ix.push_back(r); }
    const Index ue = src.si[3] * (t_kind[tj] == K_BCSR ? 4 : 1);
    sj.el.push_back(m_new(M, ue, dt_bytes(tj), {}, false));
    for(const ARef& r : src.ix) m_unref(M, r);
    break;
  }
  case O_LAYOUT_MOVE:
    if(si.si.size() < 4 || sj.si.size() < 4) { why = "layout() of a moved-from/cleared matrix"; return V_EXCLUDED; }
    break;  // two temporaries, one moved into the other, both destroyed: no effect
  case O_SHARE_PTR:
  {
    // DenseVector(size, data): co-owner of a pool array handed over as a raw pointer
    if(si.foreign) { why = "raw-pointer ctor from a ranged vector (pointer is not a pool chunk)"; return V_EXCLUDED; }
    if(si.el.empty() || si.el[0].id < 0 || m_size0(si) == 0) { why = "raw-pointer ctor from a vector without elements"; return V_EXCLUDED; }
    const MSlot src = si;
    sj = MSlot(); sj.present = true; sj.si = {m_size0(src)};
    m_share(M, src.el[0]); sj.el.push_back(src.el[0]);
    break;
  }
  case O_CLEAR:
    m_release_arrays(M, si); si.si.clear(); si.foreign = false;
    break;
  case O_DESTROY:
    m_release_arrays(M, si); si = MSlot();
    break;
  case O_FORMAT:
    for(const ARef& r : si.el)
    {
      if(r.id < 0 || !M.arr.count(r.id)) continue;
      MArr& a = M.arr[r.id];
      // format() of an owner covers the whole array and makes it defined; a borrower writes its window only
      for(Index k = 0; k < r.size; ++k) a.v[r.off + k] = (o.a == 0 ? 9.0 : 0.0);
      if(r.off == 0 && r.size == a.count) a.defined = true;
    }
    break;
  }
  if(M.null_share) v = V_SUSPECT;
  // borrower rule: a ranged vector must not outlive the array it borrows
  for(int k = 0; k < 3; ++k) if(M.s[k].present && M.s[k].foreign)
    for(const ARef& r : M.s[k].el) if(r.id >= 0 && !M.arr.count(r.id)) { why = "lender's array released while a ranged borrower is alive (documented borrower contract)"; return V_EXCLUDED; }
  return v;
}

/// enumerate candidate operations (legality is decided by m_apply)
static void enumerate_ops(const MState& M, const int* ty, std::vector<Op>& out)
{
  out.clear();
  for(int j = 0; j < 3; ++j) if(!M.s[j].present) { out.push_back(Op{O_CREATE, j, j, 0}); out.push_back(Op{O_CREATE, j, j, 1}); out.push_back(Op{O_CREATE, j, j, 2}); if(t_kind[ty[j]] == K_CSR || t_kind[ty[j]] == K_BCSR) out.push_back(Op{O_CREATE, j, j, 3}); }
  for(int i = 0; i < 3; ++i)
  {
    if(!M.s[i].present) continue;
    for(int j = 0; j < 3; ++j)
    {
      const bool same_kind = t_kind[ty[i]] == t_kind[ty[j]];
      const bool dv_dvb = (t_kind[ty[i]] == K_DV && t_kind[ty[j]] == K_DVB) || (t_kind[ty[i]] == K_DVB && t_kind[ty[j]] == K_DV);
      if(same_kind) for(int mode = 0; mode < 5; ++mode) { if(i == j && mode != int(CloneMode::Weak)) continue; out.push_back(Op{O_CLONE, i, j, mode}); }
      if(same_kind || (dv_dvb && t_dt[ty[i]] == t_dt[ty[j]] && t_it[ty[i]] == t_it[ty[j]])) out.push_back(Op{O_CONVERT, i, j, 0});
      if(ty[i] == ty[j])
      {
        if(M.s[j].present) out.push_back(Op{O_MOVE_ASSIGN, i, j, 0});
        if(i != j) out.push_back(Op{O_MOVE_CTOR, i, j, 0});
        if((t_kind[ty[i]] == K_DV || t_kind[ty[i]] == K_DVB) && i != j && !M.s[j].present) { out.push_back(Op{O_RANGE, i, j, 0}); out.push_back(Op{O_RANGE, i, j, 1}); out.push_back(Op{O_SHARE_PTR, i, j, 0}); }
      }
      if(same_kind && (t_kind[ty[i]] == K_CSR || t_kind[ty[i]] == K_BCSR) && t_it[ty[i]] == t_it[ty[j]])
      {
        out.push_back(Op{O_LAYOUT, i, j, 0});
        if(i < j && M.s[j].present && ty[i] == ty[j]) out.push_back(Op{O_LAYOUT_MOVE, i, j, 0});
      }
    }
    out.push_back(Op{O_CLEAR, i, i, 0});
    out.push_back(Op{O_DESTROY, i, i, 0});
    out.push_back(Op{O_FORMAT, i, i, 0});
    out.push_back(Op{O_FORMAT, i, i, 1});
  }
}

// ------------------------------------------------------------------------------------------------ real pool
struct Pool { ContP s[3]; };

template<typename DT_, typename IT_> void fill_vec(DenseVector<DT_, IT_>& v, std::initializer_list<double> l) { Index k = 0; for(double x : l) v.elements()[k++] = DT_(x); }

template<int N> ContP create_real(int variant)
{
  typedef typename TypeT<N>::type T; typedef typename T::DataType DT; typedef typename T::IndexType IT;
  constexpr int kind = c_kind(N);
  if constexpr(kind == K_DV)
  {
    if(variant == 2) return std::make_unique<ContT<N>>(Index(3), DT(7));
    if(variant != 0) return std::make_unique<ContT<N>>(Index(0));
    auto c = std::make_unique<ContT<N>>(Index(3)); fill_vec(c->obj, {1, 2, 3}); return c;
  }
  else if constexpr(kind == K_DVB)
  {
    if(variant == 2) return std::make_unique<ContT<N>>(Index(2), DT(7));
    if(variant != 0) return std::make_unique<ContT<N>>(Index(0));
    auto c = std::make_unique<ContT<N>>(Index(2));
    DT* p = c->obj.template elements<Perspective::pod>(); for(int k = 0; k < 4; ++k) p[k] = DT(k + 1);
    return c;
  }
  else if constexpr(kind == K_CSR)
  {
    if(variant == 2) return std::make_unique<ContT<N>>(Index(2), Index(2), Index(3));
    if(variant == 3) { const Index dp[3] = {0, 2, 3}, ii[3] = {0, 1, 1}; Adjacency::Graph g(Index(2), Index(2), Index(3), dp, ii); return std::make_unique<ContT<N>>(g); }
    if(variant != 0) return std::make_unique<ContT<N>>(Index(2), Index(3));
    DenseVector<DT, IT> val(3); DenseVector<IT, IT> col(3), rp(3);
    fill_vec(val, {1, 2, 3}); fill_vec(col, {0, 1, 1}); fill_vec(rp, {0, 2, 3});
    return std::make_unique<ContT<N>>(Index(2), Index(2), col, val, rp);
  }
  else if constexpr(kind == K_BCSR)
  {
    if(variant == 2) return std::make_unique<ContT<N>>(Index(1), Index(2), Index(1));
    if(variant == 3) { const Index dp[2] = {0, 1}, ii[1] = {1}; Adjacency::Graph g(Index(1), Index(2), Index(1), dp, ii); return std::make_unique<ContT<N>>(g); }
    if(variant != 0) return std::make_unique<ContT<N>>(Index(1), Index(2));
    DenseVector<DT, IT> val(4); DenseVector<IT, IT> col(1), rp(2);
    fill_vec(val, {1, 2, 3, 4}); fill_vec(col, {1}); fill_vec(rp, {0, 1});
    return std::make_unique<ContT<N>>(Index(1), Index(2), col, val, rp);
  }
  else
  {
    if(variant == 1) return std::make_unique<ContT<N>>(Index(3));
    DenseVector<DT, IT> val(2); DenseVector<IT, IT> idx(2);
    if(variant == 2) { fill_vec(val, {0, -2}); fill_vec(idx, {2, 0}); return std::make_unique<ContT<N>>(Index(3), val, idx, false); }
    fill_vec(val, {1, 2}); fill_vec(idx, {0, 2});
    return std::make_unique<ContT<N>>(Index(3), val, idx);
  }
}
static ContP default_real(int t) { ContP r; for_type(t, [&](auto N) { r = std::make_unique<ContT<decltype(N)::value>>(); }); return r; }

/// when set, same-type clones use the by-value overload `dst = src.clone(mode)`
static bool g_alt = false;
/// executes the real operation
static void apply_real(Pool& P, const Op& o, const int* ty)
{
  switch(o.k)
  {
  case O_CREATE:
    for_type(ty[o.j], [&](auto N) { P.s[o.j] = create_real<decltype(N)::value>(o.a); });
    break;
  case O_CLONE: case O_CONVERT:
    if(!P.s[o.j]) P.s[o.j] = default_real(ty[o.j]);
    visit(*P.s[o.i], [&](auto& src, auto NI)
    {
      visit(*P.s[o.j], [&](auto& dst, auto NJ)
      {
        constexpr int ni = decltype(NI)::value, nj = decltype(NJ)::value;
        if constexpr(c_kind(ni) == c_kind(nj))
        {
          if(o.k == O_CLONE)
          {
            if constexpr(ni == nj) { if(g_alt && o.i != o.j) dst.obj = src.obj.clone(CloneMode(o.a)); else dst.obj.clone(src.obj, CloneMode(o.a)); }
            else dst.obj.clone(src.obj, CloneMode(o.a));
          }
          else dst.obj.convert(src.obj);
        }
        else if constexpr(((c_kind(ni) == K_DV && c_kind(nj) == K_DVB) || (c_kind(ni) == K_DVB && c_kind(nj) == K_DV)) && c_dt(ni) == c_dt(nj) && c_it(ni) == c_it(nj))
        {
          if(o.k == O_CONVERT) dst.obj.convert(src.obj);
        }
      });
    });
    break;
  case O_MOVE_ASSIGN:
    visit(*P.s[o.i], [&](auto& src, auto NI)
    {
      constexpr int ni = decltype(NI)::value;
      auto& dst = static_cast<ContT<ni>&>(*P.s[o.j]);
      dst.obj = std::move(src.obj);
    });
    break;
  case O_MOVE_CTOR:
    visit(*P.s[o.i], [&](auto& src, auto NI)
    {
      constexpr int ni = decltype(NI)::value;
      P.s[o.j].reset();
      P.s[o.j] = std::make_unique<ContT<ni>>(std::move(src.obj));
    });
    break;
  case O_RANGE:
    visit(*P.s[o.i], [&](auto& src, auto NI)
    {
      constexpr int ni = decltype(NI)::value;
      if constexpr(c_kind(ni) == K_DV || c_kind(ni) == K_DVB)
      {
        const Index n = src.obj.size();
        const Index off = (o.a == 0) ? 1 : 0, len = (o.a == 0) ? n - 1 : n;
        P.s[o.j] = std::make_unique<ContT<ni>>(src.obj, len, off);
      }
    });
    break;
  case O_LAYOUT:
    visit(*P.s[o.i], [&](auto& src, auto NI)
    {
      constexpr int ni = decltype(NI)::value;
      if constexpr(c_kind(ni) == K_CSR || c_kind(ni) == K_BCSR)
      {
        for_type(ty[o.j], [&](auto NJ)
        {
          constexpr int nj = decltype(NJ)::value;
          if constexpr(c_kind(nj) == c_kind(ni) && c_it(nj) == c_it(ni))
          {
            if(P.s[o.j]) static_cast<ContT<nj>&>(*P.s[o.j]).obj = src.obj.layout();
            else P.s[o.j] = std::make_unique<ContT<nj>>(src.obj.layout());
          }
        });
      }
    });
    break;
  case O_LAYOUT_MOVE:
    visit(*P.s[o.i], [&](auto& src, auto NI)
    {
      constexpr int ni = decltype(NI)::value;
      if constexpr(c_kind(ni) == K_CSR || c_kind(ni) == K_BCSR)
      {
        auto& dst = static_cast<ContT<ni>&>(*P.s[o.j]);
        auto lj = dst.obj.layout();
        auto li = src.obj.layout();
        lj = std::move(li);
      }
    });
    break;
  case O_CLEAR: visit(*P.s[o.i], [&](auto& x, auto) { x.obj.clear(); }); break;
  case O_DESTROY: P.s[o.i].reset(); break;
  case O_FORMAT: visit(*P.s[o.i], [&](auto& x, auto) { if(o.a == 0) x.obj.format(typename std::remove_reference<decltype(x.obj)>::type::DataType(9)); else x.obj.format(); }); break;
  case O_SHARE_PTR:
    visit(*P.s[o.i], [&](auto& src, auto NI)
    {
      constexpr int ni = decltype(NI)::value;
      if constexpr(c_kind(ni) == K_DV) P.s[o.j] = std::make_unique<ContT<ni>>(src.obj.size(), src.obj.elements());
      else if constexpr(c_kind(ni) == K_DVB) P.s[o.j] = std::make_unique<ContT<ni>>(src.obj.size(), src.obj.template elements<Perspective::pod>());
    });
    break;
  }
}

// ------------------------------------------------------------------------------------------------ observation
struct RArr { const char* p = nullptr; Index size = 0; int ebytes = 8; std::vector<double> v; };
struct RSlot { bool present = false; bool foreign = false; std::vector<Index> si; std::vector<RArr> el, ix; bool sizes_ok = true; size_t n_sdt = 0; };

template<typename DT_, typename IT_> RSlot observe(const Container<DT_, IT_>& c)
{
  RSlot r; r.present = true; r.foreign = c._foreign_memory; r.si = c._scalar_index; r.n_sdt = c._scalar_dt.size();
  r.sizes_ok = c._elements.size() == c._elements_size.size() && c._indices.size() == c._indices_size.size();
  for(size_t k = 0; k < c._elements.size() && k < c._elements_size.size(); ++k)
  {
    RArr a; a.p = reinterpret_cast<const char*>(c._elements[k]); a.size = c._elements_size[k]; a.ebytes = int(sizeof(DT_));
    a.v.resize(a.size);
    for(Index i = 0; i < a.size; ++i) a.v[i] = double(c._elements[k][i]);     // every live array is read (ASan)
    r.el.push_back(std::move(a));
  }
  for(size_t k = 0; k < c._indices.size() && k < c._indices_size.size(); ++k)
  {
    RArr a; a.p = reinterpret_cast<const char*>(c._indices[k]); a.size = c._indices_size[k]; a.ebytes = int(sizeof(IT_));
    a.v.resize(a.size);
    for(Index i = 0; i < a.size; ++i) a.v[i] = double(c._indices[k][i]);
    r.ix.push_back(std::move(a));
  }
  return r;
}
static void observe_pool(Pool& P, RSlot* out)
{
  for(int k = 0; k < 3; ++k) { out[k] = RSlot(); if(P.s[k]) visit(*P.s[k], [&](auto& x, auto) { out[k] = observe(x.obj); }); }
}

struct Harness
{
  verif::Ctx& c;
  int ty[3];
  std::vector<Op> prefix;            // start configuration
  std::set<std::string> reported;
  std::map<std::string, int> abort_confirmed, suspect_passed; std::set<std::string> suspect_died;
  const std::vector<Op>* cur_hist = nullptr; const Op* cur_op = nullptr;
  bool in_child = false;

  Harness(verif::Ctx& cc) : c(cc) {}

  static char* shm()
  {
    static char* p = static_cast<char*>(mmap(nullptr, 65536, PROT_READ | PROT_WRITE, MAP_SHARED | MAP_ANONYMOUS, -1, 0));
    return p;
  }
  std::string hist_text() const
  {
    std::string s;
    for(const Op& o : prefix) s += op_str(o) + "; ";
    s += "| ";
    if(cur_hist) for(const Op& o : *cur_hist) s += op_str(o) + "; ";
    if(cur_op) s += "=> " + op_str(*cur_op);
    return s;
  }
  void fail_once(const std::string& key, const std::string& msg)
  {
    if(in_child)
    {
      std::string line = key + "\t" + msg.substr(0, 1500) + "\n";
      size_t used = strlen(shm());
      if(used + line.size() + 1 < 65536) memcpy(shm() + used, line.c_str(), line.size() + 1);
      return;
    }
    if(reported.insert(key).second) c.fail(key, msg + " | history: " + hist_text());
  }

  /// frees whatever is left in the pool (only after a reported leak) so that the next replay starts clean
  static void scrub_pool()
  {
    while(!MemoryPool::_pool.empty()) { auto it = MemoryPool::_pool.begin(); ::free(it->first); MemoryPool::_pool.erase(it); }
  }

  /// compare implementation with the reference model; returns false on mismatch
  bool compare(Pool& P, const MState& M, const std::string& opc)
  {
    RSlot R[3]; observe_pool(P, R);
    std::map<int, const char*> base; std::map<const char*, int> rbase;
    bool ok = true;
    auto bad = [&](const std::string& what, const std::string& detail) { fail_once(opc + ": " + what, detail); ok = false; };
    for(int k = 0; k < 3 && ok; ++k)
    {
      const MSlot& m = M.s[k]; const RSlot& r = R[k];
      const std::string sl = "slot " + std::to_string(k) + " (" + t_name[ty[k]] + ")";
      if(m.present != r.present) { bad("slot presence differs from the reference", sl); break; }
      if(!m.present) continue;
      if(!r.sizes_ok) { bad("array list and size list disagree", sl); break; }
      if(r.n_sdt != 0) { bad("_scalar_dt not empty (none of these containers has scalar data)", sl); break; }
      if(m.foreign != r.foreign) { bad("_foreign_memory flag differs from the reference", sl + " impl=" + std::to_string(r.foreign)); break; }
      if(m.si != r.si)
      {
        std::string d = sl + " impl=["; for(auto v : r.si) d += std::to_string(v) + ","; d += "] ref=["; for(auto v : m.si) d += std::to_string(v) + ","; d += "]";
        bad("_scalar_index (sizes/dimensions) differs from the reference", d); break;
      }
      if(m.el.size() != r.el.size() || m.ix.size() != r.ix.size()) { bad("number of arrays differs from the reference", sl + " impl el/ix=" + std::to_string(r.el.size()) + "/" + std::to_string(r.ix.size()) + " ref=" + std::to_string(m.el.size()) + "/" + std::to_string(m.ix.size())); break; }
      for(int pass = 0; pass < 2 && ok; ++pass)
      {
        const auto& ma = pass ? m.ix : m.el; const auto& ra = pass ? r.ix : r.el;
        for(size_t a = 0; a < ma.size() && ok; ++a)
        {
          const std::string an = sl + (pass ? " index array " : " data array ") + std::to_string(a);
          if(ma[a].size != ra[a].size) { bad("array size differs from the reference", an + " impl=" + std::to_string(ra[a].size) + " ref=" + std::to_string(ma[a].size)); break; }
          if(ma[a].id < 0) { if(ra[a].p != nullptr) bad("pointer set where the reference has none", an); continue; }
          if(ra[a].p == nullptr) { bad("null pointer where the reference has an array", an); break; }
          const char* b = ra[a].p - ma[a].off * Index(ra[a].ebytes);
          auto it = base.find(ma[a].id);
          if(it == base.end())
          {
            if(rbase.count(b)) { bad("two independent arrays of the reference are one array in the implementation (unexpected sharing)", an); break; }
            base[ma[a].id] = b; rbase[b] = ma[a].id;
          }
          else if(it->second != b) { bad("arrays that must be shared are distinct in the implementation (or a range points elsewhere)", an); break; }
          const MArr& arr = M.arr.at(ma[a].id);
          if(arr.defined)
          {
            for(Index i = 0; i < ma[a].size; ++i) if(ra[a].v[i] != arr.v[ma[a].off + i])
            { bad("array contents differ from the reference", an + " at " + std::to_string(i) + " impl=" + std::to_string(ra[a].v[i]) + " ref=" + std::to_string(arr.v[ma[a].off + i])); break; }
          }
        }
      }
    }
    if(!ok) return false;
    // MemoryPool::_pool == reference map
    const auto& pool = MemoryPool::_pool;
    Index bytes = 0;
    for(const auto& kv : M.arr)
    {
      const MArr& a = kv.second;
      const Index rounded = (a.count % 4 == 0 ? a.count : a.count + (4 - a.count % 4)) * Index(a.ebytes);
      bytes += rounded;
      auto b = base.find(kv.first);
      if(b == base.end()) { bad("reference array without an owner (harness model error)", ""); break; }
      auto it = pool.find(const_cast<char*>(b->second));
      if(it == pool.end()) { bad("array still referenced by a container is missing from MemoryPool::_pool (released too early)", "array " + std::to_string(kv.first)); break; }
      if(it->second.counter != Index(a.refs)) { bad("reference count in MemoryPool::_pool differs from the number of owners", "impl=" + std::to_string(it->second.counter) + " ref=" + std::to_string(a.refs)); break; }
      if(it->second.size != rounded) { bad("byte size in MemoryPool::_pool differs from the reference", "impl=" + std::to_string(it->second.size) + " ref=" + std::to_string(rounded)); break; }
    }
    if(ok && pool.size() != M.arr.size()) bad("MemoryPool::_pool holds chunks no container refers to (leak)", "pool chunks=" + std::to_string(pool.size()) + " reference=" + std::to_string(M.arr.size()));
    if(ok && MemoryPool::allocated_memory() != bytes) bad("allocated_memory() differs from the reference", "");
    return ok;
  }

  /// public accessors (size, used_elements, elements pointer, SparseVector element access incl. its lazy sort) against the
  /// reference; called as the very FIRST access after the operation on alternate transitions, after the raw comparison otherwise
  bool accessors(Pool& P, const MState& M, const std::string& opc)
  {
    bool ok = true;
    for(int k = 0; k < 3 && ok; ++k)
    {
      if(!P.s[k] || !M.s[k].present) continue;
      const MSlot& m = M.s[k];
      visit(*P.s[k], [&](auto& x, auto NK)
      {
        constexpr int nk = decltype(NK)::value; constexpr int kind = c_kind(nk);
        const Index sz = m.si.empty() ? Index(0) : m.si[0];
        if(x.obj.size() != sz) { fail_once(opc + ": size() differs from the reference", "slot " + std::to_string(k)); ok = false; return; }
        if constexpr(kind == K_DV || kind == K_DVB)
        {
          const void* e = x.obj.template elements<Perspective::pod>();
          const void* want = x.obj._elements.empty() ? nullptr : x.obj._elements[0];
          if(e != want) { fail_once(opc + ": elements() does not return the data array", ""); ok = false; }
          if constexpr(kind == K_DV)
          {
            if(!m.el.empty() && m.el[0].id >= 0 && M.arr.count(m.el[0].id) && M.arr.at(m.el[0].id).defined)
              for(Index i = 0; i < sz && ok; ++i) if(double(x.obj(i)) != M.arr.at(m.el[0].id).v[m.el[0].off + i]) { fail_once(opc + ": operator()(i) differs from the reference", "slot " + std::to_string(k)); ok = false; }
          }
        }
        else if constexpr(kind == K_SV)
        {
          if(m.si.size() == 5)
          {
            if(x.obj.used_elements() != m.si[1]) { fail_once(opc + ": used_elements() differs from the reference", ""); ok = false; return; }
            if(!m.el.empty() && m.el[0].id >= 0 && M.arr.count(m.el[0].id) && M.arr.at(m.el[0].id).defined && M.arr.at(m.ix[0].id).defined)
            {
              const MArr& ev = M.arr.at(m.el[0].id); const MArr& iv = M.arr.at(m.ix[0].id);
              for(Index i = 0; i < sz && ok; ++i)
              {
                double want = 0.0; for(Index q = 0; q < m.si[1]; ++q) if(Index(iv.v[q]) == i) want = ev.v[q];
                if(double(x.obj(i)) != want) { fail_once(opc + ": SparseVector operator()(i) differs from the reference", "index " + std::to_string(i)); ok = false; }
              }
            }
          }
        }
        else
        {
          if(m.si.size() >= 4 && (x.obj.rows() != m.si[1] || x.obj.columns() != m.si[2] || x.obj.used_elements() != m.si[3])) { fail_once(opc + ": rows()/columns()/used_elements() differ from the reference", ""); ok = false; }
        }
      });
    }
    c.count("accessor_observations");
    return ok;
  }

  /// write through every slot, observe all slots against the reference, restore
  bool write_probe(Pool& P, const MState& M, const std::string& opc)
  {
    bool ok = true;
    for(int w = 0; w < 3 && ok; ++w)
    {
      if(!P.s[w] || M.s[w].el.empty()) continue;
      MState M2 = M;
      bool any = false;
      for(const ARef& r : M2.s[w].el) if(r.id >= 0) { MArr& a = M2.arr[r.id]; for(Index k = 0; k < r.size; ++k) { a.v[r.off + k] = 64.0 + double(w); } if(r.off == 0 && r.size == a.count) a.defined = true; any = any || r.size > 0; }
      if(!any) continue;
      // save, write, compare, restore
      std::vector<std::vector<double>> saved;
      visit(*P.s[w], [&](auto& x, auto)
      {
        auto& e = x.obj._elements; auto& es = x.obj._elements_size;
        for(size_t k = 0; k < e.size(); ++k) { std::vector<double> s(es[k]); for(Index i = 0; i < es[k]; ++i) { s[i] = double(e[k][i]); e[k][i] = typename std::remove_reference<decltype(e[k][i])>::type(64.0 + double(w)); } saved.push_back(s); }
      });
      RSlot R[3]; observe_pool(P, R);
      for(int k = 0; k < 3 && ok; ++k)
      {
        if(!M2.s[k].present) continue;
        for(size_t a = 0; a < M2.s[k].el.size() && ok; ++a)
        {
          const ARef& r = M2.s[k].el[a];
          if(r.id < 0 || a >= R[k].el.size()) continue;
          const MArr& arr = M2.arr.at(r.id);
          if(!arr.defined) continue;
          for(Index i = 0; i < r.size && i < R[k].el[a].size; ++i) if(R[k].el[a].v[i] != arr.v[r.off + i])
          {
            fail_once(opc + ": a write through one container is (not) visible in another contrary to the reference sharing relation",
              "write through slot " + std::to_string(w) + " observed in slot " + std::to_string(k) + " element " + std::to_string(i));
            ok = false; break;
          }
        }
      }
      visit(*P.s[w], [&](auto& x, auto)
      {
        auto& e = x.obj._elements; auto& es = x.obj._elements_size;
        for(size_t k = 0; k < e.size(); ++k) for(Index i = 0; i < es[k]; ++i) e[k][i] = typename std::remove_reference<decltype(e[k][i])>::type(saved[k][i]);
      });
      c.count("write_probes");
    }
    return ok;
  }

  /// canonical key of the implementation state (addresses replaced by first-occurrence chunk numbers)
  std::string key_of(Pool& P, const MState& M)
  {
    RSlot R[3]; observe_pool(P, R);
    const auto& pool = MemoryPool::_pool;
    std::map<const void*, int> chunk_no;
    std::string k;
    auto put = [&](u64 v) { k.append(reinterpret_cast<const char*>(&v), 8); };
    for(int s = 0; s < 3; ++s)
    {
      put(R[s].present); if(!R[s].present) continue;
      put(R[s].foreign); put(R[s].n_sdt); put(R[s].si.size()); for(auto v : R[s].si) put(v);
      for(int pass = 0; pass < 2; ++pass)
      {
        const auto& ra = pass ? R[s].ix : R[s].el; const auto& ma = pass ? M.s[s].ix : M.s[s].el;
        put(ra.size());
        for(size_t a = 0; a < ra.size(); ++a)
        {
          put(ra[a].size);
          if(ra[a].p == nullptr) { put(~u64(0)); continue; }
          // chunk containing the pointer
          const void* cb = nullptr; u64 off = 0, cnt = 0, csz = 0;
          for(const auto& kv : pool)
          {
            const char* b = static_cast<const char*>(kv.first);
            if(ra[a].p >= b && ra[a].p < b + kv.second.size) { cb = kv.first; off = u64(ra[a].p - b); cnt = kv.second.counter; csz = kv.second.size; }
          }
          if(!cb) { put(~u64(1)); continue; }   // dangling
          auto it = chunk_no.find(cb);
          if(it == chunk_no.end()) it = chunk_no.emplace(cb, int(chunk_no.size())).first;
          put(u64(it->second)); put(off); put(cnt); put(csz);
          const bool defined = (a < ma.size() && ma[a].id >= 0 && M.arr.count(ma[a].id)) ? M.arr.at(ma[a].id).defined : false;
          put(defined);
          if(defined) for(double v : ra[a].v) { u64 w; memcpy(&w, &v, 8); put(w); }
        }
      }
    }
    put(pool.size());
    for(const auto& kv : pool) if(!chunk_no.count(kv.first)) { put(kv.second.size); put(kv.second.counter); }
    return k;
  }

  /// replays prefix+hist on fresh containers and a fresh model
  void replay(const std::vector<Op>& hist, Pool& P, MState& M)
  {
    std::string why;
    for(const Op& o : prefix) { m_apply(M, o, ty, why); apply_real(P, o, ty); }
    for(const Op& o : hist) { m_apply(M, o, ty, why); apply_real(P, o, ty); }
  }
  /// destroys the containers in the given order and checks that the pool is empty afterwards
  bool teardown(Pool& P, const int* order, const std::string& opc)
  {
    for(int k = 0; k < 3; ++k) P.s[order[k]].reset();
    if(!MemoryPool::_pool.empty())
    {
      fail_once(opc + ": MemoryPool not empty after all containers were destroyed (Runtime::finalize would fail)",
        "chunks left=" + std::to_string(MemoryPool::_pool.size()) + " bytes=" + std::to_string(MemoryPool::allocated_memory()));
      scrub_pool();
      return false;
    }
    return true;
  }

  struct Frontier { std::vector<Op> hist; std::string key; };   // key = implementation key (+ tag of a preceding model-level no-op)
  unsigned alt_counter = 0;

  static std::string impl_key(const std::string& k) { const size_t p = k.rfind("|after-noop:"); return (p != std::string::npos && p + 13 == k.size()) ? k.substr(0, p) : k; }
  void run(int max_depth, int abort_leaf_depth)
  {
    static const int fwd[3] = {0, 1, 2};
    static const int orders[6][3] = {{0, 1, 2}, {0, 2, 1}, {1, 0, 2}, {1, 2, 0}, {2, 0, 1}, {2, 1, 0}};
    if(!MemoryPool::_pool.empty()) { fail_once("MemoryPool not empty at the start of a case", ""); scrub_pool(); }
    std::unordered_set<std::string> seen;
    std::vector<Frontier> frontier(1), next;
    {
      Pool P; MState M; cur_hist = &frontier[0].hist; cur_op = nullptr;
      // validate the start configuration step by step
      std::string why; bool ok = true;
      for(const Op& o : prefix)
      {
        if(m_apply(M, o, ty, why) != V_OK) { fail_once("harness: illegal start configuration", why); return; }
        apply_real(P, o, ty);
        ok = compare(P, M, "start: " + op_class(o, ty)) && ok;
      }
      frontier[0].key = key_of(P, M);
      teardown(P, fwd, "start configuration");
      if(!ok) return;
    }
    seen.insert(frontier[0].key);
    c.count("states");
    std::vector<Op> ops;
    for(int depth = 0; depth < max_depth && !frontier.empty(); ++depth)
    {
      next.clear();
      for(const Frontier& fr : frontier)
      {
        if(c.cut()) { c.capped("deadline inside BFS"); return; }
        c.heartbeat();
        cur_hist = &fr.hist; cur_op = nullptr;
        MState M0;
        {
          Pool P; replay(fr.hist, P, M0);
          c.count("replays_checked");
          if(key_of(P, M0) != impl_key(fr.key)) { fail_once("replay of a history reached a different implementation state (nondeterminism)", ""); teardown(P, fwd, "replay"); continue; }
          teardown(P, fwd, "replay");
        }
        enumerate_ops(M0, ty, ops);
        for(const Op& o : ops)
        {
          cur_op = &o;
          MState M2 = M0; std::string why;
          const Verdict v = m_apply(M2, o, ty, why);
          const std::string opc = op_class(o, ty);
          if(v == V_EXCLUDED) { c.excluded(why); continue; }
          if(v == V_EXPECT_ABORT)
          {
            if(depth > abort_leaf_depth || abort_confirmed[opc + why] >= 2) { c.count("expected_abort_leaves_not_repeated"); continue; }
            abort_confirmed[opc + why]++;
            const int sig = c.run_forked([&] { Pool P; MState Mt; replay(fr.hist, P, Mt); apply_real(P, o, ty); });
            c.count("expected_abort_leaves");
            c.count("transitions");
            if(sig != SIGABRT) fail_once(opc + ": forbidden call did not abort (" + why + ")", "child returned " + std::to_string(sig));
            c.outcome("forbidden call aborts");
            continue;
          }
          const std::string skey = M2.null_share ? std::string("sharing a zero-sized (null) array: ") + (o.k == O_CLONE ? "clone" : o.k == O_CONVERT ? "convert" : "layout") + " of " + t_name[ty[o.i]] : opc;
          if(v == V_SUSPECT && suspect_died.count(skey)) { c.count("suspect_transitions_not_repeated_after_crash"); continue; }
          if(v == V_SUSPECT && suspect_passed[skey] < 3)
          {
            // the operation shares a null pointer / reads a missing array: execute and check it in a child first
            shm()[0] = 0;
            const int sig = c.run_forked([&]
            {
              in_child = true;
              Pool P; MState Mt; replay(fr.hist, P, Mt); apply_real(P, o, ty);
              const bool ok = compare(P, M2, opc);
              _exit(ok ? 0 : 7);
            });
            c.count("guarded_transitions");
            if(sig != 0)
            {
              c.count("transitions");
              if(sig == 1007)
              {
                std::istringstream in{std::string(shm())}; std::string line;
                while(std::getline(in, line)) { size_t t = line.find('\t'); if(t != std::string::npos) fail_once(line.substr(0, t), line.substr(t + 1)); }
              }
              else { fail_once(skey + ": dies on a legal history", "operation " + opc + " signal/exit " + std::to_string(sig)); suspect_died.insert(skey); }
              c.outcome("op crashes");
              continue;
            }
            suspect_passed[skey]++;
          }
          Pool P; MState Mr;
          replay(fr.hist, P, Mr);
          ++alt_counter;
          g_alt = (alt_counter & 1) != 0;
          apply_real(P, o, ty);
          g_alt = false;
          c.count("transitions");
          c.count("traces_validated_against_impl");
          const bool first = (alt_counter & 2) != 0;
          bool ok = true;
          if(first) { ok = accessors(P, M2, opc + " [accessors as first access]"); c.count("first_access_observations"); }
          if(ok) ok = compare(P, M2, opc);
          if(ok && !first) ok = accessors(P, M2, opc);
          if(ok) ok = write_probe(P, M2, opc);
          if(!ok)
          {
            // the implementation state is inconsistent: running the destructors could double-free and kill the
            // search, so the containers are abandoned (leaked) and the pool is emptied by hand
            for(int k = 0; k < 3; ++k) (void)P.s[k].release();
            scrub_pool();
            c.outcome("violation");
            continue;
          }
          std::string ky;
          if(ok)
          {
            ky = key_of(P, M2);
            // pattern "hidden state behind the key": an operation that leaves the implementation state unchanged is not
            // pruned at once - the state is explored one more level, tagged with the kind of the no-op that preceded it
            if(ky == impl_key(fr.key)) { ky += std::string("|after-noop:") + char('A' + o.k); c.count("noop_transitions_kept"); }
          }
          ok = teardown(P, fwd, opc) && ok;
          if(!ok) { c.outcome("violation"); continue; }
          if(seen.insert(ky).second)
          {
            c.count("states");
            c.maxi("depth", uint64_t(depth + 1));
            // drain the new state in every destruction order
            for(int q = 1; q < 6; ++q)
            {
              int live = 0; for(int k = 0; k < 3; ++k) live += M2.s[k].present ? 1 : 0;
              if(live < 2 && q > 0) break;
              Pool Pd; MState Md; replay(fr.hist, Pd, Md); apply_real(Pd, o, ty);
              teardown(Pd, orders[q], opc + " then destruction in another order");
              c.count("drain_orders_checked");
            }
            Frontier f2; f2.hist = fr.hist; f2.hist.push_back(o); f2.key = ky; next.push_back(std::move(f2));
            c.outcome(std::string("new state via ") + (o.k == O_CREATE ? "create" : o.k == O_CLONE ? "clone" : o.k == O_CONVERT ? "convert" : o.k == O_MOVE_ASSIGN ? "move-assign" :
              o.k == O_MOVE_CTOR ? "move-ctor" : o.k == O_RANGE ? "range" : o.k == O_LAYOUT ? "layout" : o.k == O_LAYOUT_MOVE ? "layout-move" : o.k == O_CLEAR ? "clear" : o.k == O_DESTROY ? "destroy" : "format"));
          }
          else c.count("transitions_to_known_state");
        }
      }
      frontier.swap(next);
    }
    if(frontier.empty()) c.count("cases_with_closed_state_space");   // no new state at the last level: the search is complete for any depth
  }
};

// ================================================================================================ grown containers
// Sparse vectors that re-allocated at least once (more insertions than min(size,1000)), followed by chains of copy-like
// operations; after every step the size bookkeeping (_elements_size/_indices_size vs allocated_elements() vs the byte size
// MemoryPool holds), the reference counts (one per live holder), the contents (reference: std::map, last insertion wins)
// and, through ASan, every byte of every array are checked; then the last copy is appended to (in place, then past its
// capacity) and everything is destroyed in both orders.
namespace grown
{
  typedef std::map<Index, double> Ref;
  enum { G_DEEP = 0, G_WEAK, G_LAYOUT, G_ALLOCATE, G_SHALLOW, G_CONVERT, G_CONVERT_OTHER, G_DEEP_OTHER, G_WEAK_OTHER, G_MOVE_CTOR, G_MOVE_ASSIGN,
    G_SERIALIZE, G_CLONE_BYVALUE, G_SHALLOW_OTHER, G_NOPS };
  static const char* gop_name[G_NOPS] = {"clone(Deep)", "clone(Weak)", "clone(Layout)", "clone(Allocate)", "clone(Shallow)", "convert(same type)",
    "convert(other DT/IT)", "cross-type clone(Deep)", "cross-type clone(Weak)", "move-ctor", "move-assign", "serialize+deserialize", "clone() by value", "cross-type clone(Shallow)"};
  static bool gop_defined(int op) { return op != G_LAYOUT && op != G_ALLOCATE; }
  static bool gop_moves(int op) { return op == G_MOVE_CTOR || op == G_MOVE_ASSIGN; }

  struct IG
  {
    virtual ~IG() {}
    virtual const char* tname() const = 0;
    virtual std::unique_ptr<IG> derive(int op) = 0;
    virtual void insert(Index idx, double v) = 0;
    virtual void sort_now() = 0;
    virtual bool has_arrays() const = 0;
    virtual Index used_raw() const = 0;
    virtual Index allocated() const = 0;
    virtual Index vsize() const = 0;
    virtual void pointers(std::vector<const void*>& out) const = 0;
    /// returns "" or the class of the first inconsistency; ref == nullptr: contents undefined
    virtual std::string check(const Ref* ref) = 0;
  };

  template<typename T_> struct Traits;
  template<typename DT_, typename IT_> struct Traits<SparseVector<DT_, IT_>>
  {
    static constexpr Index bs = 1;
    static DT_ make(double v) { return DT_(v); }
    static bool same(const DT_* p, double v) { return double(p[0]) == v; }
    static bool is_zero(const DT_& x) { return double(x) == 0.0; }
    static bool equals(const DT_& x, double v) { return double(x) == v; }
  };
  template<typename DT_, typename IT_> struct Traits<SparseVectorBlocked<DT_, IT_, 2>>
  {
    static constexpr Index bs = 2;
    static Tiny::Vector<DT_, 2> make(double v) { Tiny::Vector<DT_, 2> t; t[0] = DT_(v); t[1] = DT_(-v); return t; }
    static bool same(const DT_* p, double v) { return double(p[0]) == v && double(p[1]) == -v; }
    static bool is_zero(const Tiny::Vector<DT_, 2>& x) { return double(x[0]) == 0.0 && double(x[1]) == 0.0; }
    static bool equals(const Tiny::Vector<DT_, 2>& x, double v) { return double(x[0]) == v && double(x[1]) == -v; }
  };

  template<typename T_, typename O_> struct GV : IG
  {
    typedef typename T_::DataType DT; typedef typename T_::IndexType IT; typedef Traits<T_> TR;
    T_ x;
    const char* nm;
    explicit GV(const char* n) : x(), nm(n) {}
    const char* tname() const override { return nm; }
    static const char* other_name(const char* n)
    {
      return !strcmp(n, "SV<d,u64>") ? "SV<f,u32>" : !strcmp(n, "SV<f,u32>") ? "SV<d,u64>" : !strcmp(n, "SVB2<d,u64>") ? "SVB2<f,u32>" : "SVB2<d,u64>";
    }
    std::unique_ptr<IG> derive(int op) override
    {
      auto same = [&] { return std::make_unique<GV<T_, O_>>(nm); };
      auto other = [&] { return std::make_unique<GV<O_, T_>>(other_name(nm)); };
      switch(op)
      {
      case G_DEEP: { auto y = same(); y->x.clone(x, CloneMode::Deep); return y; }
      case G_WEAK: { auto y = same(); y->x.clone(x, CloneMode::Weak); return y; }
      case G_LAYOUT: { auto y = same(); y->x.clone(x, CloneMode::Layout); return y; }
      case G_ALLOCATE: { auto y = same(); y->x.clone(x, CloneMode::Allocate); return y; }
      case G_SHALLOW: { auto y = same(); y->x.clone(x, CloneMode::Shallow); return y; }
      case G_CONVERT: { auto y = same(); y->x.convert(x); return y; }
      case G_CONVERT_OTHER: { auto y = other(); y->x.convert(x); return y; }
      case G_DEEP_OTHER: { auto y = other(); y->x.clone(x, CloneMode::Deep); return y; }
      case G_WEAK_OTHER: { auto y = other(); y->x.clone(x, CloneMode::Weak); return y; }
      case G_SHALLOW_OTHER: { auto y = other(); y->x.clone(x, CloneMode::Shallow); return y; }
      case G_MOVE_CTOR: { auto y = same(); T_ tmp(std::move(x)); y->x = std::move(tmp); return y; }
      case G_MOVE_ASSIGN: { auto y = same(); y->x = T_(Index(10)); y->x(3, TR::make(1.0)); y->x(1, TR::make(2.0)); y->x = std::move(x); return y; }
      case G_SERIALIZE: { auto y = same(); std::vector<char> buf = x.serialize(); y->x = T_(buf); return y; }
      case G_CLONE_BYVALUE: { auto y = same(); y->x = x.clone(); return y; }
      }
      return nullptr;
    }
    void insert(Index idx, double v) override { x(idx, TR::make(v)); }
    void sort_now() override { x.sort(); }
    bool has_arrays() const override { return !x._elements.empty() || !x._indices.empty(); }
    Index used_raw() const override { return x._scalar_index.size() > 1 ? x._scalar_index[1] : 0; }
    Index allocated() const override { return x._scalar_index.size() > 2 ? x._scalar_index[2] : 0; }
    Index vsize() const override { return x._scalar_index.empty() ? 0 : x._scalar_index[0]; }
    void pointers(std::vector<const void*>& out) const override { for(auto p : x._elements) if(p) out.push_back(p); for(auto p : x._indices) if(p) out.push_back(p); }
    std::string check(const Ref* ref) override
    {
      if(!has_arrays()) return (ref && !ref->empty()) ? "container lost its arrays" : "";
      if(x._elements.size() != 1 || x._indices.size() != 1 || x._elements_size.size() != 1 || x._indices_size.size() != 1 || x._scalar_index.size() != 5) return "array lists / _scalar_index malformed";
      const Index es = x._elements_size[0], is = x._indices_size[0], used = x._scalar_index[1], alloc = x._scalar_index[2];
      if(is != alloc || es != alloc * TR::bs) return "_elements_size/_indices_size differ from allocated_elements()";
      if(used > alloc) return "used_elements exceeds allocated_elements";
      auto pe = MemoryPool::_pool.find(x._elements[0]); auto pi = MemoryPool::_pool.find(x._indices[0]);
      if(pe == MemoryPool::_pool.end() || pi == MemoryPool::_pool.end()) return "array not registered in MemoryPool";
      auto r4 = [](Index n) { return n % 4 == 0 ? n : n + 4 - n % 4; };
      if(pe->second.size != r4(es) * sizeof(DT) || pi->second.size != r4(is) * sizeof(IT)) return "MemoryPool allocation size differs from _elements_size/_indices_size";
      // every entry the container claims room for is touched (ASan)
      volatile double sink = 0; for(Index i = 0; i < es; ++i) sink = sink + double(x._elements[0][i]); for(Index i = 0; i < is; ++i) sink = sink + double(x._indices[0][i]);
      if(!ref) return "";
      const Index n = x.used_elements();   // sorts and de-duplicates
      if(n != Index(ref->size())) return "used_elements() differs from the number of distinct inserted indices";
      const IT* ix = x.indices(); const DT* el = x._elements[0];
      Index k = 0;
      for(auto& kv : *ref)
      {
        if(Index(ix[k]) != kv.first) return "indices differ from the inserted ones";
        if(!TR::same(el + k * TR::bs, kv.second)) return "values differ from the inserted ones";
        ++k;
      }
      if(!ref->empty())
      {
        const T_& cx = x;
        auto last = ref->rbegin();
        if(!TR::equals(cx(last->first), last->second)) return "operator()(last index) differs from the inserted value";
        Index absent = 0; while(ref->count(absent)) ++absent;
        if(absent < vsize() && !TR::is_zero(cx(absent))) return "operator()(absent index) is not zero";
      }
      return "";
    }
  };

  struct Live { std::unique_ptr<IG> obj; Ref ref; bool defined; };

  /// fam 0: SparseVector, 1: SparseVectorBlocked<2>; pattern 0 ascending (1500), 1 descending (1100), 2 duplicates (2100 insertions, 1600 distinct)
  static std::unique_ptr<IG> make_source(int fam, int pattern, Ref& ref)
  {
    std::unique_ptr<IG> a;
    if(fam == 0) { auto y = std::make_unique<GV<SparseVector<double, u64>, SparseVector<float, u32>>>("SV<d,u64>"); y->x = SparseVector<double, u64>(Index(4000)); a = std::move(y); }
    else { auto y = std::make_unique<GV<SparseVectorBlocked<double, u64, 2>, SparseVectorBlocked<float, u32, 2>>>("SVB2<d,u64>"); y->x = SparseVectorBlocked<double, u64, 2>(Index(4000)); a = std::move(y); }
    const Index cnt = pattern == 0 ? 1500 : pattern == 1 ? 1100 : 2100;
    for(Index i = 0; i < cnt; ++i)
    {
      const Index idx = pattern == 0 ? 2 * i + 1 : pattern == 1 ? 2999 - 2 * i : (7 * i) % 1600;
      const double v = double(i % 97) + 1.0;
      a->insert(idx, v); ref[idx] = v;
    }
    return a;
  }
  static const char* pattern_name(int p) { return p == 0 ? "1500 ascending insertions" : p == 1 ? "1100 descending insertions" : "2100 insertions with duplicates"; }

  struct Runner
  {
    verif::Ctx& c; std::string desc; std::set<std::string> reported;
    Runner(verif::Ctx& cc, const std::string& d) : c(cc), desc(d) {}
    void fail(const std::string& key, const std::string& msg) { if(reported.insert(key).second) c.fail(key, msg + " | " + desc); }

    bool verify(std::vector<Live>& live, const std::string& stage)
    {
      bool ok = true;
      std::map<const void*, Index> holders;
      for(auto& l : live)
      {
        if(!l.obj) continue;
        const std::string e = l.obj->check(l.defined ? &l.ref : nullptr);
        c.count("grown_object_checks");
        if(!e.empty()) { fail(std::string("grown ") + l.obj->tname() + " " + stage + ": " + e, "used=" + std::to_string(l.obj->used_raw()) + " allocated=" + std::to_string(l.obj->allocated())); ok = false; }
        std::vector<const void*> ps; l.obj->pointers(ps);
        for(auto q : ps) holders[q]++;
      }
      for(auto& kv : holders)
      {
        auto it = MemoryPool::_pool.find(const_cast<void*>(kv.first));
        if(it == MemoryPool::_pool.end()) continue;
        if(it->second.counter != kv.second) { fail("grown vectors " + stage + ": MemoryPool reference count differs from the number of holders", ""); ok = false; }
      }
      if(ok && MemoryPool::_pool.size() != holders.size()) { fail("grown vectors " + stage + ": MemoryPool holds chunks no container refers to", ""); ok = false; }
      return ok;
    }

    void run(int fam, int pattern, bool presort, const std::vector<int>& ops)
    {
      if(!MemoryPool::_pool.empty()) { fail("MemoryPool not empty at the start of a grown-vector chain", ""); return; }
      {
        std::vector<Live> live;
        { Live l; l.defined = true; l.obj = make_source(fam, pattern, l.ref); live.push_back(std::move(l)); }
        if(presort) live[0].obj->sort_now();
        else live[0].defined = false;      // an unsorted source is only checked for its bookkeeping before the first operation (no lazy sort yet)
        bool ok = verify(live, "after growth");
        live[0].defined = true;
        std::string chain;
        for(size_t s = 0; s < ops.size() && ok; ++s)
        {
          Live& cur = live.back();
          if(!cur.obj->has_arrays()) break;
          Live d; d.ref = cur.ref; d.defined = cur.defined && gop_defined(ops[s]);
          d.obj = cur.obj->derive(ops[s]);
          c.count("transitions"); c.count("grown_chain_steps");
          if(gop_moves(ops[s])) { cur.ref.clear(); cur.defined = true; }
          const std::string stage = std::string("after ") + gop_name[ops[s]];
          live.push_back(std::move(d));
          ok = verify(live, stage);
          chain = stage;
        }
        if(ok)
        {
          // append in place to the last copy (index larger than every existing one), then past its capacity
          Live& last = live.back();
          if(last.obj->has_arrays())
          {
            Index mx = 0; for(auto& l : live) for(auto& kv : l.ref) mx = std::max(mx, kv.first);
            Index next = std::max<Index>(mx + 1, 3000);
            last.obj->insert(next, 5.0); last.ref[next] = 5.0; ++next;
            c.count("transitions");
            ok = verify(live, chain + " then one insertion into the copy");
            if(ok)
            {
              const Index room = last.obj->allocated() - last.obj->used_raw();
              for(Index j = 0; j <= room && next < last.obj->vsize(); ++j, ++next) { last.obj->insert(next, double(j % 50) + 2.0); last.ref[next] = double(j % 50) + 2.0; }
              c.count("transitions"); c.count("grown_regrowths");
              ok = verify(live, chain + " then insertions past the capacity of the copy");
            }
          }
        }
        // destruction order alternates
        if(presort) while(!live.empty()) live.pop_back();
        else while(!live.empty()) live.erase(live.begin());
      }
      if(!MemoryPool::_pool.empty())
      {
        fail("grown vectors: MemoryPool not empty after all containers were destroyed", "");
        while(!MemoryPool::_pool.empty()) { auto it = MemoryPool::_pool.begin(); ::free(it->first); MemoryPool::_pool.erase(it); }
      }
    }
  };
} // namespace grown

struct Case { int ty[3]; std::vector<Op> prefix; std::string name; };

int main(int argc, char** argv)
{
  Runtime::ScopeGuard guard(argc, argv);
  verif::Spec spec; spec.property = "C20"; spec.harness = "c20_lifetime";
  spec.rule = "case = (types of the three slots, start configuration of 1-2 created containers); inside a case a BFS over all histories of "
    "create / clone(5 modes, also across DT/IT) / convert(same type, other DT, other IT, DV<->DVB) / move-assign (incl. self) / move-construct / "
    "range-ctor / raw-pointer co-owner ctor / ctor+operator= from layout() / SparseLayout move-assign / clear / destroy / format(value) / format() , deduplicated on the implementation state "
    "(per slot: _foreign_memory, _scalar_index, _scalar_dt, per array chunk class + offset + MemoryPool reference count + size + defined contents; unreferenced chunks; plus a tag when the preceding operation was a no-op for the implementation state, so that no-ops are explored one level further instead of being pruned). "
    "Further cases: grown sparse vectors (SparseVector / SparseVectorBlocked<2> of size 4000 that re-allocated once or twice: 1500 ascending, 1100 descending, "
    "2100 insertions with duplicates) followed by every chain of copy-like operations of the tier's length (5 clone modes, by-value clone, convert same/other DT+IT, cross-type clones, "
    "move-ctor/-assign, serialize+deserialize), then insertion into the last copy in place and past its capacity, destruction in both orders. "
    "Non-trivial = every case (all start with a container that owns arrays); hashed by (types, start) resp. the case description.";
  spec.bounds_quick = "all histories up to depth 4 beyond the start configuration; 3 slots; grown vectors: chains of length 1 (length 2 for SparseVector ascending)";
  spec.bounds_thorough = "all histories up to depth 6 beyond the start configuration (counter cases_with_closed_state_space = cases whose reachable state space closed before the bound, i.e. complete for any depth); 3 slots";
  spec.assumptions = {
    "reference model written in the harness: map array-id -> (#owning containers, element count, contents), op semantics transcribed from the documented clone modes / convert / move / range / layout contracts",
    "borrower contract: a ranged vector (_foreign_memory) holds no reference; histories that release the lender's array while a borrower is alive are excluded and counted",
    "forbidden calls (self-clone, non-deep clone / assign of a ranged source) must abort: executed in a forked child as leaves for the first BFS levels only",
    "excluded: self-convert, DV<->DVB convert of ranged / moved-from sources, layout()/range of moved-from containers, range with size 0",
    "values of arrays after clone(Layout/Allocate) and ctor(layout) are undefined: read (for ASan) but not compared and not part of the state key",
    "public accessors (size, used_elements, rows/columns, elements(), operator()) are compared with the reference after every step, on alternate transitions as the very first access before any raw array is read; alternate same-type clones use the by-value overload",
    "not exercised (out of the property's scope or covered elsewhere): serialisation to streams/files, checkpoint members and SerialConfig (C05; in-memory serialize/deserialize is part of the grown-vector chains), random-fill constructors and MemoryPool::set_memory(rng), deprecated MemoryPool::download/upload/get_element, generic DenseVector::convert(VT_) of meta vectors, linear algebra members, Runtime::abort",
    "Runtime::finalize's leak check is evaluated as MemoryPool::_pool.empty() after destroying all containers at every transition (workers leave through _exit)"
  };
  spec.max_fail_per_worker = 100000;
  if(std::getenv("VERIF_MAX_REPORT")) spec.max_report = size_t(atol(std::getenv("VERIF_MAX_REPORT")));
  return verif::run(spec, argc, argv, [&](verif::Ctx& c)
  {
    std::vector<Case> cases;
    auto add = [&](int a, int b, int d)
    {
      // start A: slot0 filled; start B: slot0 filled + slot1 filled; start C: slot0 filled + slot1 empty variant
      for(int st = 0; st < 3; ++st)
      {
        Case cs; cs.ty[0] = a; cs.ty[1] = b; cs.ty[2] = d;
        cs.prefix.push_back(Op{O_CREATE, 0, 0, 0});
        if(st == 1) cs.prefix.push_back(Op{O_CREATE, 1, 1, 0});
        if(st == 2) cs.prefix.push_back(Op{O_CREATE, 1, 1, 1});
        cs.name = std::string("slots=(") + t_name[a] + "," + t_name[b] + "," + t_name[d] + ") start=" + (st == 0 ? "s0 filled" : st == 1 ? "s0,s1 filled" : "s0 filled, s1 empty");
        cases.push_back(cs);
      }
    };
    add(T_DV_D64, T_DV_D64, T_DV_D64);
    add(T_CSR_D64, T_CSR_D64, T_CSR_D64);
    add(T_DV_D64, T_DV_D64, T_DVB_D64);
    add(T_DV_D64, T_DV_F64, T_DV_D32);
    add(T_CSR_D64, T_CSR_F64, T_CSR_D32);
    add(T_BCSR_D64, T_BCSR_D64, T_BCSR_F32);
    add(T_SV_D64, T_SV_D64, T_SV_F32);
    add(T_DVB_D64, T_DVB_D64, T_DV_D64);
    add(T_DV_D64, T_DV_D64, T_DV_F64);
    add(T_CSR_D64, T_CSR_D64, T_CSR_D32);
    add(T_CSR_D64, T_CSR_D64, T_CSR_F64);
    add(T_BCSR_D64, T_BCSR_D64, T_BCSR_D64);
    add(T_SV_D64, T_SV_D64, T_SV_D64);
    const int depth = c.thorough ? 6 : 4;
    for(const Case& cs : cases)
    {
      if(!c.want()) continue;
      c.desc([&] { return cs.name; });
      Harness H(c);
      for(int k = 0; k < 3; ++k) H.ty[k] = cs.ty[k];
      H.prefix = cs.prefix;
      H.run(depth, 1);
      c.nontrivial(verif::Hash().str(cs.name).get());
      c.count("bfs_cases");
    }
    // grown sparse vectors: case = (family, insertion pattern, source sorted before use?, first operation); inside the case
    // all operation chains of the tier's length that start with that operation
    for(int fam = 0; fam < 2; ++fam) for(int pattern = 0; pattern < 3; ++pattern) for(int presort = 0; presort < 2; ++presort)
      for(int op0 = 0; op0 < grown::G_NOPS; ++op0)
      {
        if(!presort && (op0 == grown::G_WEAK || op0 == grown::G_LAYOUT))
        {
          // a Weak/Layout clone shares the index array: the lazy sort of either vector re-orders the layout of the other
          // ("sharing relatives" in the sense of the property) - not generated for sources with a pending sort
          c.excluded("Weak/Layout clone of a SparseVector with a pending lazy sort (shared index array is re-ordered by either vector)");
          continue;
        }
        if(!c.want()) continue;
        const std::string d = std::string("grown ") + (fam ? "SparseVectorBlocked<2>" : "SparseVector") + "(4000), " + grown::pattern_name(pattern) + (presort ? ", sorted first" : ", unsorted") + ", first op " + grown::gop_name[op0];
        c.desc([&] { return d; });
        grown::Runner R(c, d);
        const int len = c.thorough ? ((fam == 0 && pattern == 0) ? 3 : 2) : ((fam == 0 && pattern == 0) ? 2 : 1);
        std::vector<int> ops(size_t(len), 0); ops[0] = op0;
        // odometer over the remaining positions
        while(true)
        {
          c.heartbeat();
          R.run(fam, pattern, presort != 0, ops);
          c.count("grown_chains");
          int pos = len - 1;
          while(pos >= 1 && ++ops[size_t(pos)] == grown::G_NOPS) { ops[size_t(pos)] = 0; --pos; }
          if(pos < 1) break;
        }
        c.nontrivial(verif::Hash().str(d).get());
        c.count("grown_cases");
      }
  });
}
