// Helpers of the C06 harness: flattening, reference filter models (long double), matrix builders, comparison.
#pragma once
#include "c04_common.hpp"
#include <kernel/lafem/sparse_matrix_csr.hpp>
#include <kernel/lafem/sparse_matrix_bcsr.hpp>
#include <kernel/lafem/unit_filter.hpp>
#include <kernel/lafem/unit_filter_blocked.hpp>
#include <kernel/lafem/slip_filter.hpp>
#include <kernel/lafem/mean_filter.hpp>
#include <kernel/lafem/mean_filter_blocked.hpp>
#include <kernel/lafem/none_filter.hpp>
#include <kernel/lafem/filter_chain.hpp>
#include <kernel/lafem/filter_sequence.hpp>
#include <kernel/lafem/tuple_filter.hpp>
#include <kernel/lafem/power_filter.hpp>
#include <kernel/lafem/vector_mirror.hpp>
#include <kernel/global/filter.hpp>
#include <kernel/global/mean_filter.hpp>
#include <cstring>
#include <map>

namespace c06
{
  using namespace c04;

  enum FOp { F_RHS = 0, F_SOL = 1, F_DEF = 2, F_COR = 3 };
  static const char* fop_name[4] = {"filter_rhs", "filter_sol", "filter_def", "filter_cor"};

  template<typename F, typename V> void apply_op(const F& f, V& v, int op)
  {
    switch(op)
    {
    case F_RHS: f.filter_rhs(v); break;
    case F_SOL: f.filter_sol(v); break;
    case F_DEF: f.filter_def(v); break;
    default: f.filter_cor(v); break;
    }
  }

  static int g_pvmode = 0; // value mode of the prescribed values (see pval)
  static int g_xneg = 0;   // 1: all vector entries negative
  /// vector entry alphabet: position coded dyadic, never equal to a prescribed value (those are >= 8 in magnitude)
  inline LD xval(Index i, int salt = 0)
  {
    const int k = 1 + int((3 * i + Index(salt) + (i * i) % 5) % 9);
    if(g_xneg) return -LD(k) / LD(4);
    return (((i + Index(salt)) % 2) ? -1 : 1) * LD(k) / LD(4);
  }
  /// value mode of the prescribed values: 0 = position coded (|v| >= 8), 1 = exactly 0 / 1 / -1 cycling (early-out values),
  /// 2 = extreme magnitudes of the data type (set per case by the sections that enumerate it)
  /// prescribed (Dirichlet) value of entry i, filter number f
  inline LD pval(Index i, int f = 0)
  {
    if(g_pvmode == 1) { static const int t[3] = {0, 1, -1}; return LD(t[(i + Index(f)) % 3]); }
    return ((i % 2) ? -1 : 1) * (LD(8) + LD(i) / 2 + LD(4 * f));
  }
  /// extreme value table per data type (mode 2)
  template<typename DT> DT pval_dt(Index i, int f = 0)
  {
    if(g_pvmode == 2)
    {
      typedef std::numeric_limits<DT> NL;
      const DT t[5] = {DT(NL::max() / DT(2)), DT(-NL::min()), DT(NL::denorm_min() * DT(3)), DT(-(NL::max() / DT(4))), NL::min()};
      return t[(i + Index(f)) % 5];
    }
    return DT(pval(i, f));
  }

  template<typename V> std::vector<typename V::DataType> flat_of(V& v)
  {
    typedef typename V::DataType DT;
    std::vector<DT*> p; collect(v, p);
    std::vector<DT> r(p.size());
    for(size_t i = 0; i < p.size(); ++i) r[i] = *p[i];
    return r;
  }
  template<typename V> void set_flat(V& v, const std::vector<typename V::DataType>& x)
  {
    typedef typename V::DataType DT;
    std::vector<DT*> p; collect(v, p);
    for(size_t i = 0; i < p.size(); ++i) *p[i] = x[i];
  }
  template<typename DT> bool bits_equal(const DT& a, const DT& b) { return std::memcmp(&a, &b, sizeof(DT)) == 0; }

  /// running reference: value, absolute error bound (0 = must be equal), whether the entry was never written
  struct Ref
  {
    std::vector<LD> v, err;
    std::vector<char> untouched;
    explicit Ref(size_t n = 0) : v(n, 0), err(n, 0), untouched(n, 1) {}
    template<typename DT> static Ref from(const std::vector<DT>& x) { Ref r(x.size()); for(size_t i = 0; i < x.size(); ++i) r.v[i] = LD(x[i]); return r; }
    LD maxabs() const { LD m = 0; for(LD x : v) m = std::max(m, std::fabs(x)); return m; }
    LD maxerr() const { LD m = 0; for(LD x : err) m = std::max(m, x); return m; }
  };

  // -------------------------------------------------------------------------------------- reference filter models
  struct RUnit
  {
    std::map<Index, LD> m;
    void apply(Ref& r, int op) const
    {
      for(auto& e : m) { r.v[e.first] = (op == F_RHS || op == F_SOL) ? e.second : LD(0); r.err[e.first] = 0; r.untouched[e.first] = 0; }
    }
  };

  /// blocked unit filter with optional NaN components (nan = component not constrained when ignore_nans)
  struct RUnitB
  {
    int bs = 2; bool ignore_nans = false;
    std::map<Index, std::vector<LD>> m;      // value per component
    std::map<Index, std::vector<char>> nan;  // NaN flag per component
    void apply(Ref& r, int op) const
    {
      for(auto& e : m) for(int j = 0; j < bs; ++j)
      {
        const bool isn = nan.count(e.first) && nan.at(e.first)[size_t(j)];
        if(isn && ignore_nans) continue;
        size_t q = size_t(e.first) * size_t(bs) + size_t(j);
        r.v[q] = (op == F_RHS || op == F_SOL) ? e.second[size_t(j)] : LD(0); r.err[q] = 0; r.untouched[q] = 0;
      }
    }
  };

  struct RSlip
  {
    int bs = 2;
    std::map<Index, std::vector<LD>> nu;
    std::map<Index, char> exact; // normal with power-of-two squared length and dyadic result
    template<typename DT> void apply(Ref& r, int) const
    {
      const LD eps = LD(std::numeric_limits<DT>::epsilon());
      for(auto& e : nu)
      {
        LD sp = 0, sc = 0, mag = 0, nm = 0;
        for(int j = 0; j < bs; ++j) { size_t q = size_t(e.first) * size_t(bs) + size_t(j); sp += r.v[q] * e.second[size_t(j)]; sc += e.second[size_t(j)] * e.second[size_t(j)]; mag = std::max(mag, std::fabs(r.v[q])); nm = std::max(nm, std::fabs(e.second[size_t(j)])); }
        sp /= sc;
        LD emax = 0; for(int j = 0; j < bs; ++j) emax = std::max(emax, r.err[size_t(e.first) * size_t(bs) + size_t(j)]);
        for(int j = 0; j < bs; ++j)
        {
          size_t q = size_t(e.first) * size_t(bs) + size_t(j);
          r.v[q] -= sp * e.second[size_t(j)];
          r.untouched[q] = 0;
          const bool ex = exact.count(e.first) && exact.at(e.first) && emax == 0;
          r.err[q] = ex ? LD(0) : (emax * LD(1 + bs) + 16 * LD(bs + 2) * eps * (mag + std::fabs(sp) * nm));
        }
      }
    }
  };

  /// (weighted) mean filter on a scalar vector; blocked = component-wise with stride
  struct RMean
  {
    std::vector<LD> prim, dual, freq; // freq empty = unweighted
    LD vol = 0, sol_mean = 0;
    bool empty = false, global_flavour = false, exact = false;
    int stride = 1, comp = 0;   // acts on entries comp, comp+stride, ...
    template<typename DT> void apply(Ref& r, int op) const
    {
      if(empty) return;
      const LD eps = LD(std::numeric_limits<DT>::epsilon());
      const size_t n = prim.size();
      const bool use_prim_dot = (op == F_RHS || op == F_DEF);
      LD dot = 0, bound = 0, mag = 0, emax = 0, wmax = 0;
      for(size_t i = 0; i < n; ++i)
      {
        size_t q = i * size_t(stride) + size_t(comp);
        LD f = freq.empty() ? LD(1) : freq[i];
        LD w = use_prim_dot ? prim[i] : dual[i];
        dot += f * r.v[q] * w; bound += std::fabs(f * r.v[q] * w); mag = std::max(mag, std::fabs(r.v[q])); emax = std::max(emax, r.err[q]);
        wmax = std::max(wmax, std::max(std::fabs(prim[i]), std::fabs(dual[i])));
      }
      LD alpha;
      if(op == F_SOL && !global_flavour) alpha = sol_mean - dot / vol; else alpha = -dot / vol;
      for(size_t i = 0; i < n; ++i)
      {
        size_t q = i * size_t(stride) + size_t(comp);
        LD d = use_prim_dot ? dual[i] : prim[i];
        r.v[q] += alpha * d;
        r.untouched[q] = 0;
        const bool ex = exact && emax == 0;
        r.err[q] = ex ? LD(0) : ((emax * LD(n + 1) * wmax * wmax / vol + emax) + 16 * LD(n + 2) * eps * (mag + (bound / vol + std::fabs(sol_mean)) * wmax));
      }
    }
    /// the functional that must vanish (resp. equal sol_mean) after op; returns value and a tolerance scale
    LD functional(const std::vector<LD>& y, int op, LD& scale) const
    {
      const bool use_prim_dot = (op == F_RHS || op == F_DEF);
      LD dot = 0; scale = 0;
      for(size_t i = 0; i < prim.size(); ++i)
      {
        size_t q = i * size_t(stride) + size_t(comp);
        LD f = freq.empty() ? LD(1) : freq[i];
        LD w = use_prim_dot ? prim[i] : dual[i];
        dot += f * y[q] * w; scale += std::fabs(f * y[q] * w);
      }
      if(op == F_SOL && !global_flavour) { scale = scale / vol + std::fabs(sol_mean); return dot / vol - sol_mean; }
      return dot;
    }
  };

  inline bool is_pow2(LD x) { if(!(x > 0)) return false; int e; LD m = std::frexp(x, &e); return m == LD(0.5); }

  // -------------------------------------------------------------------------------------- comparison with a Ref
  /// compares the flattened FEAT result y with the reference; x = input (for the bitwise "untouched" check)
  template<typename DT>
  bool compare(verif::Ctx& c, const std::string& key, const std::vector<DT>& x, const std::vector<DT>& y, const Ref& r)
  {
    bool ok = true;
    if(!c.check(y.size() == r.v.size() && x.size() == y.size(), key + ": size", "vector length changed")) return false;
    for(size_t i = 0; i < y.size(); ++i)
    {
      if(r.untouched[i])
      {
        if(!bits_equal(x[i], y[i])) { ok = false; c.fail(key + ": unconstrained entry modified", "entry " + std::to_string(i) + " changed from " + fmt(x[i]) + " to " + fmt(y[i]) + "; result " + fmtv(y)); break; }
      }
      else
      {
        LD d = std::fabs(LD(y[i]) - r.v[i]);
        const bool good = (r.err[i] == 0) ? (LD(y[i]) == r.v[i]) : (d <= r.err[i]);
        if(!good) { ok = false; c.fail(key + (r.err[i] == 0 ? ": constrained entry not exact" : ": entry outside rounding tolerance"),
          "entry " + std::to_string(i) + " is " + fmt(y[i]) + " expected " + fmt(double(r.v[i])) + "; input " + fmtv(x) + " result " + fmtv(y)); break; }
      }
    }
    return ok;
  }

  /// second application: nothing changes beyond the tolerance of the reference (bitwise where err == 0 or untouched)
  template<typename DT>
  bool compare_idem(verif::Ctx& c, const std::string& key, const std::vector<DT>& y1, const std::vector<DT>& y2, const Ref& r)
  {
    for(size_t i = 0; i < y1.size(); ++i)
    {
      const bool good = (r.err[i] == 0) ? (y1[i] == y2[i]) : (std::fabs(LD(y1[i]) - LD(y2[i])) <= 2 * r.err[i]);
      if(!good) { c.fail(key + ": not idempotent", "entry " + std::to_string(i) + " was " + fmt(y1[i]) + " after the first and " + fmt(y2[i]) + " after the second application"); return false; }
    }
    return true;
  }

  // -------------------------------------------------------------------------------------- matrices
  /// CSR matrix with the given 0/1 pattern (bit i*m+j), values position coded
  template<typename DT, typename IT = Index>
  SparseMatrixCSR<DT, IT> make_csr(int n, int m, unsigned pattern, int salt = 0)
  {
    Index nnz = 0; for(int b = 0; b < n * m; ++b) if((pattern >> b) & 1u) ++nnz;
    SparseMatrixCSR<DT, IT> a(Index(n), Index(m), nnz);
    IT k = 0;
    a.row_ptr()[0] = 0;
    for(int i = 0; i < n; ++i)
    {
      for(int j = 0; j < m; ++j) if((pattern >> (i * m + j)) & 1u)
      {
        a.col_ind()[k] = IT(j);
        a.val()[k] = DT(((i + j + salt) % 2 ? -1 : 1) * LD(2 + ((3 * i + 5 * j + salt) % 7)) / LD(2));
        ++k;
      }
      a.row_ptr()[i + 1] = k;
    }
    return a;
  }

  template<typename DT, int BH, int BW>
  SparseMatrixBCSR<DT, Index, BH, BW> make_bcsr(int n, int m, unsigned pattern, int salt = 0)
  {
    Index nnz = 0; for(int b = 0; b < n * m; ++b) if((pattern >> b) & 1u) ++nnz;
    SparseMatrixBCSR<DT, Index, BH, BW> a(Index(n), Index(m), nnz);
    Index k = 0;
    a.row_ptr()[0] = 0;
    for(int i = 0; i < n; ++i)
    {
      for(int j = 0; j < m; ++j) if((pattern >> (i * m + j)) & 1u)
      {
        a.col_ind()[k] = Index(j);
        for(int p = 0; p < BH; ++p) for(int q = 0; q < BW; ++q)
          a.val()[k][p][q] = DT(((i + j + p + salt) % 2 ? -1 : 1) * LD(2 + ((3 * i + 5 * j + 7 * p + 11 * q + salt) % 13)) / LD(2));
        ++k;
      }
      a.row_ptr()[i + 1] = k;
    }
    return a;
  }

  template<typename DT, typename IT> const DT* pod_val(const SparseMatrixCSR<DT, IT>& a) { return a.val(); }
  template<typename DT, typename IT, int BH, int BW> const DT* pod_val(const SparseMatrixBCSR<DT, IT, BH, BW>& a) { return a.template val<Perspective::pod>(); }

  template<typename M> struct MatSnap
  {
    std::vector<typename M::DataType> val; std::vector<typename M::IndexType> rp, ci; Index rows, cols, used;
    explicit MatSnap(const M& a) : rows(a.rows()), cols(a.columns()), used(a.used_elements())
    {
      const Index nv = a.template used_elements<Perspective::pod>();
      const typename M::DataType* v = pod_val(a);
      if(nv > 0) val.assign(v, v + nv);
      if(a.row_ptr() != nullptr) rp.assign(a.row_ptr(), a.row_ptr() + rows + 1);
      if(used > 0) ci.assign(a.col_ind(), a.col_ind() + used);
    }
  };
} // namespace c06
