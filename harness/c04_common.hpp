// Shared helpers of the C04 harnesses (c04_vector, c04_sparse): flattening of every dense-like vector kind by raw
// pointers (independent of FEAT's own set_vec/copy), the value alphabets, alias partitions.
#pragma once
#include <verif.hpp>
#include <kernel/runtime.hpp>
#include <kernel/util/memory_pool.hpp>
#include <kernel/lafem/dense_vector.hpp>
#include <kernel/lafem/dense_vector_blocked.hpp>
#include <kernel/lafem/sparse_vector.hpp>
#include <kernel/lafem/sparse_vector_blocked.hpp>
#include <kernel/lafem/tuple_vector.hpp>
#include <kernel/lafem/power_vector.hpp>
#include <cmath>
#include <limits>
#include <memory>
#include <string>
#include <vector>

namespace c04
{
  using namespace FEAT;
  using namespace FEAT::LAFEM;
  typedef long double LD;

  // ------------------------------------------------------------------------------------------------ flatten
  template<typename DT, typename IT>
  void collect(DenseVector<DT, IT>& v, std::vector<DT*>& p)
  {
    DT* e = v.elements();
    for(Index i = 0; i < v.size(); ++i) p.push_back(e + i);
  }
  template<typename DT, typename IT, int BS>
  void collect(DenseVectorBlocked<DT, IT, BS>& v, std::vector<DT*>& p)
  {
    DT* e = v.template elements<Perspective::pod>();
    const Index n = v.template size<Perspective::pod>();
    for(Index i = 0; i < n; ++i) p.push_back(e + i);
  }
  template<typename S, int n, typename DT> void collect(PowerVector<S, n>& v, std::vector<DT*>& p);
  template<typename S, typename DT> void collect(PowerVector<S, 1>& v, std::vector<DT*>& p);
  template<typename F, typename DT> void collect(TupleVector<F>& v, std::vector<DT*>& p);
  template<typename F, typename R0, typename... R, typename DT> void collect(TupleVector<F, R0, R...>& v, std::vector<DT*>& p);

  template<typename S, typename DT> void collect(PowerVector<S, 1>& v, std::vector<DT*>& p) { collect(v.first(), p); }
  template<typename S, int n, typename DT> void collect(PowerVector<S, n>& v, std::vector<DT*>& p) { collect(v.first(), p); collect(v.rest(), p); }
  template<typename F, typename DT> void collect(TupleVector<F>& v, std::vector<DT*>& p) { collect(v.first(), p); }
  template<typename F, typename R0, typename... R, typename DT> void collect(TupleVector<F, R0, R...>& v, std::vector<DT*>& p) { collect(v.first(), p); collect(v.rest(), p); }

  // smallest leaf component size (min/max kernels read x[0] of every leaf)
  template<typename DT, typename IT> Index min_leaf(const DenseVector<DT, IT>& v) { return v.size(); }
  template<typename DT, typename IT, int BS> Index min_leaf(const DenseVectorBlocked<DT, IT, BS>& v) { return v.template size<Perspective::pod>(); }
  template<typename S> Index min_leaf(const PowerVector<S, 1>& v) { return min_leaf(v.first()); }
  template<typename S, int n> Index min_leaf(const PowerVector<S, n>& v) { return std::min(min_leaf(v.first()), min_leaf(v.rest())); }
  template<typename F> Index min_leaf(const TupleVector<F>& v) { return min_leaf(v.first()); }
  template<typename F, typename R0, typename... R> Index min_leaf(const TupleVector<F, R0, R...>& v) { return std::min(min_leaf(v.first()), min_leaf(v.rest())); }

  // number of leaves
  template<typename DT, typename IT> int leaves(const DenseVector<DT, IT>&) { return 1; }
  template<typename DT, typename IT, int BS> int leaves(const DenseVectorBlocked<DT, IT, BS>&) { return 1; }
  template<typename S> int leaves(const PowerVector<S, 1>& v) { return leaves(v.first()); }
  template<typename S, int n> int leaves(const PowerVector<S, n>& v) { return leaves(v.first()) + leaves(v.rest()); }
  template<typename F> int leaves(const TupleVector<F>& v) { return leaves(v.first()); }
  template<typename F, typename R0, typename... R> int leaves(const TupleVector<F, R0, R...>& v) { return leaves(v.first()) + leaves(v.rest()); }

  // ------------------------------------------------------------------------------------------------ alphabets
  // value sets: all values are exactly representable in float
  enum { VS_DYADIC = 0, VS_ZEROS = 1, VS_SPREAD = 2, VS_ROUND = 3, VS_ROT = 4, VS_NEG = 5, VS_POS = 6, VS_EXTREME = 7 /* filled per data type by the harness */, VS_SIGN0 = 8 /* + mask (< 256) */, VS_PERM0 = 1000 /* + 256*perm + mask */ };

  inline bool vs_exact(int vs) { return vs == VS_DYADIC || vs == VS_ZEROS || vs == VS_ROT || vs == VS_NEG || vs == VS_POS || vs >= VS_SIGN0; }

  /// k-th permutation (factorial number system) of 0..n-1
  inline std::vector<int> nth_perm(int n, int k)
  {
    std::vector<int> pool, out;
    for(int i = 0; i < n; ++i) pool.push_back(i);
    int f = 1; for(int i = 2; i < n; ++i) f *= i;   // (n-1)!
    for(int i = n; i >= 1; --i)
    {
      int q = (f > 0) ? k / f : 0; k = (f > 0) ? k % f : 0;
      out.push_back(pool[size_t(q)]); pool.erase(pool.begin() + q);
      if(i > 1) f /= (i - 1);
    }
    return out;
  }
  inline int factorial(int n) { int f = 1; for(int i = 2; i <= n; ++i) f *= i; return f; }

  inline std::string vs_name(int vs)
  {
    switch(vs)
    {
    case VS_DYADIC: return "dyadic";
    case VS_ZEROS: return "dyadic+zeros";
    case VS_SPREAD: return "spread2^26";
    case VS_ROUND: return "rounding";
    case VS_ROT: return "dyadic-rotated";
    case VS_NEG: return "all-negative";
    case VS_POS: return "all-positive";
    case VS_EXTREME: return "extreme magnitudes (max/2, min normal, denormals, both signs)";
    default:
      if(vs >= VS_PERM0) return "rank-perm" + std::to_string((vs - VS_PERM0) / 256) + "/signmask" + std::to_string((vs - VS_PERM0) % 256);
      return "signmask" + std::to_string(vs - VS_SIGN0);
    }
  }

  /// value of entry i of operand position p (n = flattened length, needed by the rank-permutation sets only)
  inline LD value(int vs, int p, Index i, Index n = 0)
  {
    if(vs >= VS_PERM0)
    {
      // the magnitudes of the target are a permutation of 1/4..n/4 (every position of the extremum occurs), all sign masks
      const int id = vs - VS_PERM0, mask = id % 256, pk = id / 256;
      if(p == 0 && n > 0 && n <= 8)
      {
        std::vector<int> pm = nth_perm(int(n), pk);
        return (((mask >> i) & 1) ? -1 : 1) * LD(1 + pm[size_t(i)]) / LD(4);
      }
      vs = VS_DYADIC;
    }
    const int k = (vs == VS_ROT) ? 1 + int((7 * i + 3 * Index(p) + 6) % 11) : 1 + int((3 * i + 5 * Index(p) + (i * i) % 7 + 4) % 11);       // 1..11
    LD mag = LD(k) / LD(4);
    int sgn = ((i + Index(p)) % 2 == 0) ? 1 : -1;
    if((i % 5) == 3) sgn = -sgn;
    switch(vs)
    {
    case VS_DYADIC:
      return sgn * mag;
    case VS_ROT:
      return -sgn * mag;
    case VS_NEG:
      return -mag;
    case VS_POS:
    case VS_EXTREME:
      return mag;
    case VS_ZEROS:
      return ((i + 2 * Index(p)) % 3 == 0) ? LD(0) : sgn * mag;
    case VS_SPREAD:
    {
      const int e = int((i + Index(p)) % 3) - 1; // -1,0,1
      return sgn * std::ldexp(mag, 26 * e);
    }
    case VS_ROUND:
    {
      static const double tbl[5] = {0.1, 1.0 / 3.0, 3.14159265358979323846, 1e-3, 1e3};
      // make it representable in float so that float and double kinds see the same operand
      return sgn * LD(float(tbl[(i + 2 * Index(p)) % 5]));
    }
    default:
    {
      const unsigned mask = unsigned(vs - VS_SIGN0);
      // the mask prescribes the signs of the target (p==0); other operands keep the standard signs
      if(p == 0 && i < 16) sgn = ((mask >> i) & 1u) ? -1 : 1;
      return sgn * mag;
    }
    }
  }

  struct Alpha { double v; bool exact; const char* name; };
  static const Alpha alphas[] = {
    {1.0, true, "1"}, {0.0, true, "0"}, {-1.0, true, "-1"}, {0.5, true, "1/2"}, {2.0, true, "2"}, {-0.25, true, "-1/4"}, {3.0, true, "3"},
    {0.3, false, "0.3"}, {1e-20, false, "1e-20"}};
  static const int num_alphas = int(sizeof(alphas) / sizeof(alphas[0]));

  // restricted growth strings = set partitions of k operand positions
  static const int part1[1][3] = {{0, 0, 0}};
  static const int part2[2][3] = {{0, 1, 0}, {0, 0, 0}};
  static const int part3[5][3] = {{0, 1, 2}, {0, 0, 1}, {0, 1, 0}, {0, 1, 1}, {0, 0, 0}};
  inline int num_parts(int arity) { return arity == 1 ? 1 : arity == 2 ? 2 : 5; }
  inline const int* part(int arity, int j) { return arity == 1 ? part1[j] : arity == 2 ? part2[j] : part3[j]; }
  inline std::string part_name(int arity, int j)
  {
    static const char* n2[2] = {"r|x", "r=x"};
    static const char* n3[5] = {"r|x|y", "r=x|y", "r=y|x", "r|x=y", "r=x=y"};
    return arity == 1 ? "-" : arity == 2 ? n2[j] : n3[j];
  }
  inline bool part_has_alias(int arity, int j) { return arity >= 2 && j > 0; }

  template<typename DT> std::string fmt(DT x)
  {
    char b[64];
    snprintf(b, sizeof b, "%.9g", double(x));
    return b;
  }
  template<typename DT> std::string fmtv(const std::vector<DT>& v)
  {
    std::string s = "[";
    for(size_t i = 0; i < v.size(); ++i) { if(i) s += " "; s += fmt(v[i]); }
    return s + "]";
  }
} // namespace c04
