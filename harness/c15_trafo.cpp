// C15 (trafo part): Trafo::Standard evaluators (cells and sub-dimensional entities) and Trafo::InverseMapping on the
// enumerated tiny meshes of c15_mesh.hpp. Oracles: the harness' own multilinear/affine map as long double polynomials
// (c15_mesh.hpp CellGeom), an independent volume formula (shoelace / tetrahedron / divergence theorem with bilinear
// faces), harness Gauss-Legendre points.
#include <c15_mesh.hpp>
#include <verif.hpp>

#include <kernel/geometry/mesh_atlas.hpp>
#include <kernel/geometry/mesh_file_reader.hpp>
#include <kernel/geometry/mesh_node.hpp>
#include <kernel/runtime.hpp>
#include <kernel/trafo/inverse_mapping.hpp>
#include <kernel/trafo/standard/mapping.hpp>

#include <dirent.h>
#include <fstream>
#include <sstream>

using namespace FEAT;
using namespace c15;

namespace
{
  template<int D>
  std::string pt_str(const std::array<LD, D>& p)
  {
    std::ostringstream o; o << "(";
    for(int j = 0; j < D; ++j) o << (j ? "," : "") << double(p[(size_t)j]);
    o << ")"; return o.str();
  }

  bool close(double a, LD b, LD scale, double tol = 1e-13)
  {
    return std::fabs(LD(a) - b) <= LD(tol) * (scale + std::fabs(b) + 1);
  }

  /// harness map of a sub-entity: vertex coordinates (world dim W) -> polynomials in the entity's reference coordinates
  template<typename FaceShape_, int W>
  std::array<Poly<FaceShape_::dimension>, W> entity_map(const std::vector<std::array<LD, W>>& xv)
  {
    constexpr int d = FaceShape_::dimension;
    typedef ShapeInfo<FaceShape_> SI;
    std::array<Poly<d>, W> F;
    for(int c = 0; c < W; ++c)
    {
      Poly<d> p;
      if constexpr(SI::is_simplex)
      {
        p = Poly<d>(xv[0][(size_t)c]);
        for(int j = 0; j < d; ++j) p += Poly<d>::var(j) * (xv[(size_t)(j + 1)][(size_t)c] - xv[0][(size_t)c]);
      }
      else
      {
        for(int v = 0; v < SI::NV; ++v)
        {
          Poly<d> s(xv[(size_t)v][(size_t)c]);
          for(int j = 0; j < d; ++j) s = s * (Poly<d>(LD(0.5)) + Poly<d>::var(j) * (SI::ref_coord(v, j) * LD(0.5)));
          p += s;
        }
      }
      F[(size_t)c] = p;
    }
    return F;
  }

  /// Gauss-Legendre points/weights on [-1,1] (3 points, exact to degree 5)
  const LD gl3_x[3] = {-std::sqrt(LD(3) / LD(5)), LD(0), std::sqrt(LD(3) / LD(5))};
  const LD gl3_w[3] = {LD(5) / LD(9), LD(8) / LD(9), LD(5) / LD(9)};

  // ------------------------------------------------------------------------------------------------------------------
  template<typename Shape_>
  struct TrafoChecker
  {
    static constexpr int D = Shape_::dimension;
    typedef ShapeInfo<Shape_> SI;
    typedef Geometry::ConformalMesh<Shape_, D, double> MeshType;
    typedef Trafo::Standard::Mapping<MeshType> TrafoType;
    typedef typename TrafoType::template Evaluator<Shape_, double>::Type TrafoEvaluator;
    static constexpr TrafoTags all_tags = TrafoTags::dom_point | TrafoTags::img_point | TrafoTags::jac_mat | TrafoTags::jac_inv
      | TrafoTags::jac_det | TrafoTags::hess_ten | TrafoTags::hess_inv;
    typedef typename TrafoEvaluator::template ConfigTraits<all_tags>::EvalDataType TrafoData;

    verif::Ctx& c;
    const MeshData<Shape_>& md;
    std::string kp;
    int inv_lattice = 5;
    bool strict_newton = true;
    std::string ksuffix; // appended to the inverse-mapping keys (geometry class)

    TrafoChecker(verif::Ctx& c_, const MeshData<Shape_>& md_) : c(c_), md(md_) { kp = std::string("trafo/") + SI::name(); }

    /// checks on an existing FEAT mesh (shipped mesh files): cell evaluator and inverse mapping
    void run_on_mesh(MeshType& mesh)
    {
      TrafoType trafo(mesh);
      std::vector<CellGeom<Shape_>> geoms;
      const auto& vs = mesh.get_vertex_set();
      const auto& vc = mesh.template get_index_set<D, 0>();
      for(Index k = 0; k < mesh.get_num_entities(D); ++k)
      {
        std::array<std::array<LD, D>, SI::NV> x;
        for(int i = 0; i < SI::NV; ++i) for(int j = 0; j < D; ++j) x[(size_t)i][(size_t)j] = LD(vs[vc(k, i)][j]);
        geoms.emplace_back(x);
      }
      check_cells(trafo, geoms);
      check_reuse_and_configs(trafo, Index(geoms.size()));
      inv_lattice = 3;
      strict_newton = false;
      check_inverse(trafo, geoms);
    }

    void run()
    {
      DataFactory<Shape_> fac(md);
      MeshType mesh(fac);
      TrafoType trafo(mesh);
      std::vector<CellGeom<Shape_>> geoms;
      for(Index k = 0; k < Index(md.cells.size()); ++k) geoms.emplace_back(md, k);
      check_cells(trafo, geoms);
      if constexpr(D >= 2) check_entities<1>(trafo);
      if constexpr(D >= 3) check_entities<2>(trafo);
      check_inverse(trafo, geoms);
      check_reuse_and_configs(trafo, Index(geoms.size()));
      check_inverse_orders(trafo, geoms);
    }

    /// one trafo evaluator reused over the cells in non-natural orders == fresh evaluator per cell (bitwise); evaluation
    /// with a single tag (jac_det only, jac_inv only, hess_inv only: the first and only request) == full evaluation
    void check_reuse_and_configs(const TrafoType& trafo, Index ncells)
    {
      const auto pts = ref_lattice<Shape_>(3);
      auto snap = [&](TrafoEvaluator& te, std::vector<double>& out)
      {
        TrafoData td; out.clear();
        for(auto& xi : pts)
        {
          typename TrafoEvaluator::DomainPointType p; for(int j = 0; j < D; ++j) p[j] = double(xi[(size_t)j]);
          te(td, p);
          out.push_back(td.jac_det);
          for(int i = 0; i < D; ++i) { out.push_back(td.img_point[i]); for(int j = 0; j < D; ++j) { out.push_back(td.jac_mat[i][j]); out.push_back(td.jac_inv[i][j]); for(int l = 0; l < D; ++l) { out.push_back(td.hess_ten(i, j, l)); out.push_back(td.hess_inv(i, j, l)); } } }
        }
        out.push_back(te.volume());
      };
      std::vector<std::vector<double>> fresh((size_t)ncells);
      for(Index k = 0; k < ncells; ++k) { TrafoEvaluator te(trafo); te.prepare(k); snap(te, fresh[(size_t)k]); te.finish(); }
      std::vector<Index> order;
      for(Index k = ncells; k > 0; --k) order.push_back(k - 1);
      for(Index k = 0; k < ncells; ++k) { order.push_back(k); order.push_back(k); }
      for(Index k = 0; k < ncells; ++k) order.push_back((k * 7 + ncells / 2) % ncells);
      TrafoEvaluator te(trafo);
      std::vector<double> got;
      for(Index k : order)
      {
        te.prepare(k); snap(te, got); te.finish();
        c.count("reuse_cell_visits");
        if(got != fresh[(size_t)k]) { c.fail(kp + " reuse.evaluator", "trafo evaluator reused on cell " + std::to_string(k) + " differs from a fresh evaluator"); return; }
      }
      // single-tag configurations on the first and the last cell
      for(Index k : {Index(0), ncells - 1})
      {
        TrafoEvaluator tf(trafo), t1(trafo);
        tf.prepare(k); t1.prepare(k);
        TrafoData full;
        typename TrafoEvaluator::template ConfigTraits<TrafoTags::jac_det>::EvalDataType d_det;
        typename TrafoEvaluator::template ConfigTraits<TrafoTags::jac_inv>::EvalDataType d_inv;
        typename TrafoEvaluator::template ConfigTraits<TrafoTags::hess_inv>::EvalDataType d_hinv;
        typename TrafoEvaluator::template ConfigTraits<TrafoTags::img_point>::EvalDataType d_img;
        for(auto& xi : pts)
        {
          typename TrafoEvaluator::DomainPointType p; for(int j = 0; j < D; ++j) p[j] = double(xi[(size_t)j]);
          tf(full, p);
          t1(d_hinv, p); t1(d_det, p); t1(d_inv, p); t1(d_img, p);
          c.count("config_subset_points");
          bool ok = (d_det.jac_det == full.jac_det);
          for(int i = 0; i < D; ++i) { ok = ok && (d_img.img_point[i] == full.img_point[i]); for(int j = 0; j < D; ++j) { ok = ok && (d_inv.jac_inv[i][j] == full.jac_inv[i][j]); for(int l = 0; l < D; ++l) ok = ok && (d_hinv.hess_inv(i, j, l) == full.hess_inv(i, j, l)); } }
          if(!ok) { c.fail(kp + " config.single-tag", "evaluation with a single trafo tag differs from the full evaluation on cell " + std::to_string(k) + " xi=" + pt_str<D>(xi)); t1.finish(); tf.finish(); return; }
        }
        t1.finish(); tf.finish();
      }
    }

    /// one InverseMapping object queried in reversed / repeated order returns what it returned in natural order
    void check_inverse_orders(const TrafoType& trafo, const std::vector<CellGeom<Shape_>>& geoms)
    {
      Trafo::InverseMapping<TrafoType, double> inv(trafo);
      typedef typename Trafo::InverseMapping<TrafoType, double>::ImagePointType IP;
      std::vector<IP> qs;
      const auto lattice = ref_lattice<Shape_>(3);
      for(auto& g : geoms) for(auto& xi : lattice) { auto x = g.map(xi); IP p; for(int j = 0; j < D; ++j) p[j] = double(x[(size_t)j]); qs.push_back(p); }
      auto flat = [&](const IP& p, std::vector<double>& out)
      {
        out.clear();
        auto r = inv.unmap_point(p, true);
        for(size_t q = 0; q < r.cells.size(); ++q) { out.push_back(double(r.cells[q])); for(int j = 0; j < D; ++j) out.push_back(r.dom_points[q][j]); }
      };
      std::vector<std::vector<double>> ref(qs.size());
      for(size_t i = 0; i < qs.size(); ++i) flat(qs[i], ref[i]);
      // overload with an explicit candidate cell list: all cells (in reversed order) must give the same (cell, point)
      // pairs as the bounding box search; an empty list and a list without the containing cells give an empty result
      {
        std::vector<Index> all, none;
        for(Index k = Index(geoms.size()); k > 0; --k) all.push_back(k - 1);
        for(size_t i = 0; i < qs.size(); ++i)
        {
          auto r0 = inv.unmap_point(qs[i], true);
          auto r1 = inv.unmap_point(qs[i], all, true);
          auto r2 = inv.unmap_point(qs[i], none, true);
          c.count("inverse_candidate_list_queries");
          std::map<Index, std::vector<double>> m0, m1;
          for(size_t q = 0; q < r0.size(); ++q) for(int j = 0; j < D; ++j) m0[r0.cells[q]].push_back(r0.dom_points[q][j]);
          for(size_t q = 0; q < r1.size(); ++q) for(int j = 0; j < D; ++j) m1[r1.cells[q]].push_back(r1.dom_points[q][j]);
          bool ok = (m0 == m1) && r2.empty() && (r2.size() == 0) && (r0.empty() == (r0.size() == 0)) && (r1.size() == r1.cells.size());
          for(int j = 0; j < D; ++j) ok = ok && (r1.img_point[j] == qs[i][j]);
          // a candidate list made of the cells that do NOT contain the point
          std::vector<Index> others;
          for(Index k = 0; k < Index(geoms.size()); ++k) if(!m0.count(k)) others.push_back(k);
          auto r3 = inv.unmap_point(qs[i], others, true);
          ok = ok && r3.empty();
          if(!ok) { c.fail(kp + " inverse.candidate-list", "unmap_point with an explicit candidate cell list disagrees with the bounding box search"); return; }
        }
      }
      std::vector<double> got;
      for(size_t i = qs.size(); i > 0; --i)
      {
        flat(qs[i - 1], got); c.count("inverse_order_queries");
        if(got != ref[i - 1]) { c.fail(kp + " inverse.order", "unmap_point depends on the order of the queries"); return; }
        flat(qs[i - 1], got);
        if(got != ref[i - 1]) { c.fail(kp + " inverse.repeat", "unmap_point gives another answer when asked twice"); return; }
      }
    }

    // ---------------------------------------------------------------- cell evaluator
    void check_cells(const TrafoType& trafo, const std::vector<CellGeom<Shape_>>& geoms)
    {
      TrafoEvaluator te(trafo);
      TrafoData td;
      const auto lattice = ref_lattice<Shape_>(4);
      for(Index k = 0; k < Index(geoms.size()); ++k)
      {
        const CellGeom<Shape_>& g = geoms[k];
        te.prepare(k);
        for(auto& xi : lattice)
        {
          typename TrafoEvaluator::DomainPointType p;
          for(int j = 0; j < D; ++j) p[j] = double(xi[(size_t)j]);
          te(td, p);
          c.count("trafo_points");
          auto x = g.map(xi);
          LD J[D][D], R[D][D];
          g.jac(xi, J);
          LD sc = 0;
          for(int i = 0; i < D; ++i) for(int v = 0; v < SI::NV; ++v) sc = std::max(sc, std::fabs(g.xv[(size_t)v][(size_t)i]));
          for(int i = 0; i < D; ++i)
            if(!close(td.img_point[i], x[(size_t)i], sc)) { c.fail(kp + " map_point", "cell " + std::to_string(k) + " xi=" + pt_str<D>(xi) + " comp " + std::to_string(i) + ": " + std::to_string(td.img_point[i]) + " vs " + std::to_string(double(x[(size_t)i]))); te.finish(); return; }
          for(int i = 0; i < D; ++i) for(int j = 0; j < D; ++j)
            if(!close(td.jac_mat[i][j], J[i][j], sc)) { c.fail(kp + " jac_mat", "cell " + std::to_string(k) + " xi=" + pt_str<D>(xi) + " entry " + std::to_string(i) + std::to_string(j) + ": " + std::to_string(td.jac_mat[i][j]) + " vs " + std::to_string(double(J[i][j]))); te.finish(); return; }
          // jac_mat against central differences of FEAT's own map_point (exact for multilinear maps up to rounding)
          for(int j = 0; j < D; ++j)
          {
            const double h = 1.0 / 64.0;
            typename TrafoEvaluator::DomainPointType pp = p, pm = p;
            pp[j] += h; pm[j] -= h;
            typename TrafoEvaluator::ImagePointType xp, xm;
            te.map_point(xp, pp); te.map_point(xm, pm);
            for(int i = 0; i < D; ++i)
              if(!close((xp[i] - xm[i]) / (2 * h), LD(td.jac_mat[i][j]), sc * 64, 1e-13)) { c.fail(kp + " jac_mat-vs-map_point", "cell " + std::to_string(k) + " xi=" + pt_str<D>(xi)); te.finish(); return; }
          }
          LD det = g.det.eval(xi);
          if(!close(td.jac_det, std::fabs(det), sc * sc * sc)) { c.fail(kp + " jac_det", "cell " + std::to_string(k) + " xi=" + pt_str<D>(xi) + ": " + std::to_string(td.jac_det) + " vs |" + std::to_string(double(det)) + "|"); te.finish(); return; }
          CellGeom<Shape_>::invert(J, R);
          LD rs = 0; for(int i = 0; i < D; ++i) for(int j = 0; j < D; ++j) rs = std::max(rs, std::fabs(R[i][j]));
          for(int i = 0; i < D; ++i) for(int j = 0; j < D; ++j)
            if(!close(td.jac_inv[i][j], R[i][j], rs, 1e-12)) { c.fail(kp + " jac_inv", "cell " + std::to_string(k) + " xi=" + pt_str<D>(xi) + " entry " + std::to_string(i) + std::to_string(j)); te.finish(); return; }
          // second derivatives of the map and of its inverse
          LD H[D][D][D];
          for(int i = 0; i < D; ++i) for(int a = 0; a < D; ++a) for(int b = 0; b < D; ++b)
          {
            H[i][a][b] = g.dF[(size_t)i][(size_t)a].diff(b).eval(xi);
            if(!close(td.hess_ten(i, a, b), H[i][a][b], sc)) { c.fail(kp + " hess_ten", "cell " + std::to_string(k) + " xi=" + pt_str<D>(xi) + " entry " + std::to_string(i) + std::to_string(a) + std::to_string(b) + ": " + std::to_string(td.hess_ten(i, a, b)) + " vs " + std::to_string(double(H[i][a][b]))); te.finish(); return; }
          }
          for(int hh = 0; hh < D; ++hh) for(int i = 0; i < D; ++i) for(int j = 0; j < D; ++j)
          {
            // D^2 G_h,ij = - sum_l G_hl sum_mn F_l,mn G_mi G_nj
            LD s = 0;
            for(int l = 0; l < D; ++l) for(int m = 0; m < D; ++m) for(int n = 0; n < D; ++n) s -= R[hh][l] * H[l][m][n] * R[m][i] * R[n][j];
            if(!close(td.hess_inv(hh, i, j), s, rs * rs * rs * sc, 1e-11)) { c.fail(kp + " hess_inv", "cell " + std::to_string(k) + " xi=" + pt_str<D>(xi) + " entry " + std::to_string(hh) + std::to_string(i) + std::to_string(j) + ": " + std::to_string(td.hess_inv(hh, i, j)) + " vs " + std::to_string(double(s))); te.finish(); return; }
          }
        }
        // integral of jac_det (harness cubature, FEAT determinant) == independent volume == volume()
        {
          LD vol = 0;
          if constexpr(SI::is_simplex)
          {
            typename TrafoEvaluator::DomainPointType p;
            for(int j = 0; j < D; ++j) p[j] = 1.0 / double(D + 1);
            te(td, p);
            vol = LD(td.jac_det) / factorial(D);
          }
          else
          {
            int n = 1; for(int j = 0; j < D; ++j) n *= 3;
            for(int q = 0; q < n; ++q)
            {
              typename TrafoEvaluator::DomainPointType p; LD w = 1; int t = q;
              for(int j = 0; j < D; ++j) { p[j] = double(gl3_x[t % 3]); w *= gl3_w[t % 3]; t /= 3; }
              te(td, p);
              vol += w * LD(td.jac_det);
            }
          }
          LD vi = g.volume_independent();
          c.count("volumes");
          c.check(std::fabs(vol - vi) <= LD(1e-12) * (vi + 1), kp + " volume.cubature", [&]{ return "cell " + std::to_string(k) + ": integral of jac_det " + std::to_string(double(vol)) + " vs volume " + std::to_string(double(vi)); });
          c.check(std::fabs(LD(te.volume()) - vi) <= LD(1e-12) * (vi + 1), kp + " volume.function", [&]{ return "cell " + std::to_string(k) + ": volume() " + std::to_string(te.volume()) + " vs " + std::to_string(double(vi)); });
          // self check of the harness: polynomial integrator agrees with the independent formula
          c.check(std::fabs(g.integrate(Poly<D>(LD(1))) - vi) <= LD(1e-15) * (vi + 1), kp + " harness.volume-selfcheck", "harness polynomial integrator disagrees with the independent volume formula (machinery)");
        }
        // directed mesh width: "the cell width along a normalised ray". On an affine cell (paralleloid / simplex) the
        // width along the direction of an edge is the length of that edge; it does not depend on the sign of the ray.
        if(g.affine)
        {
          if constexpr(D >= 2)
          {
            for(int e = 0; e < num_local_faces<Shape_>(1); ++e)
            {
              auto lv = local_face_vertices<Shape_>(1, e);
              LD len = 0; typename TrafoEvaluator::ImagePointType ray;
              for(int j = 0; j < D; ++j) { LD dd = g.xv[(size_t)lv[1]][(size_t)j] - g.xv[(size_t)lv[0]][(size_t)j]; len += dd * dd; }
              len = std::sqrt(len);
              for(int j = 0; j < D; ++j) ray[j] = double((g.xv[(size_t)lv[1]][(size_t)j] - g.xv[(size_t)lv[0]][(size_t)j]) / len);
              double w1 = te.width_directed(ray);
              typename TrafoEvaluator::ImagePointType nray = ray; for(int j = 0; j < D; ++j) nray[j] = -ray[j];
              double w2 = te.width_directed(nray);
              c.count("width_checks");
              c.check(std::fabs(LD(w1) - len) <= LD(1e-12) * (1 + len) && w1 == w2, kp + " width_directed", [&]{ return "cell " + std::to_string(k) + " edge " + std::to_string(e) + ": width along the edge direction " + std::to_string(w1) + " (negated ray " + std::to_string(w2) + "), edge length " + std::to_string(double(len)); });
            }
          }
          else
          {
            typename TrafoEvaluator::ImagePointType ray; ray[0] = 1.0;
            c.check(std::fabs(LD(te.width_directed(ray)) - g.volume_independent()) <= LD(1e-13) * (1 + g.volume_independent()), kp + " width_directed", "1D width differs from the interval length");
          }
        }
        te.finish();
      }
    }

    // ---------------------------------------------------------------- sub-dimensional evaluators
    template<int fd_>
    void check_entities(const TrafoType& trafo)
    {
      typedef typename Shape::FaceTraits<Shape_, fd_>::ShapeType FaceShape;
      typedef typename TrafoType::template Evaluator<FaceShape, double>::Type FaceEvaluator;
      static constexpr TrafoTags tags = TrafoTags::dom_point | TrafoTags::img_point | TrafoTags::jac_mat | TrafoTags::jac_det | TrafoTags::hess_ten;
      typename FaceEvaluator::template ConfigTraits<tags>::EvalDataType td;
      FaceEvaluator fe(trafo);
      const auto lattice = ref_lattice<FaceShape>(3);
      for(Index e = 0; e < md.num_entities(fd_); ++e)
      {
        std::vector<std::array<LD, D>> xv;
        LD sc = 0;
        for(Index v : md.entity_vertices(fd_, e))
        {
          std::array<LD, D> x;
          for(int j = 0; j < D; ++j) { x[(size_t)j] = LD(md.vtx[v][(size_t)j]); sc = std::max(sc, std::fabs(x[(size_t)j])); }
          xv.push_back(x);
        }
        auto F = entity_map<FaceShape, D>(xv);
        fe.prepare(e);
        for(auto& xi : lattice)
        {
          typename FaceEvaluator::DomainPointType p;
          for(int j = 0; j < fd_; ++j) p[j] = double(xi[(size_t)j]);
          fe(td, p);
          c.count("entity_points");
          LD J[D][fd_];
          for(int i = 0; i < D; ++i)
          {
            if(!close(td.img_point[i], F[(size_t)i].eval(xi), sc)) { c.fail(kp + " entity" + std::to_string(fd_) + ".map_point", "entity " + std::to_string(e) + " xi=" + pt_str<fd_>(xi)); fe.finish(); return; }
            for(int j = 0; j < fd_; ++j)
            {
              J[i][j] = F[(size_t)i].diff(j).eval(xi);
              if(!close(td.jac_mat[i][j], J[i][j], sc)) { c.fail(kp + " entity" + std::to_string(fd_) + ".jac_mat", "entity " + std::to_string(e) + " xi=" + pt_str<fd_>(xi)); fe.finish(); return; }
              for(int l = 0; l < fd_; ++l)
                if(!close(td.hess_ten(i, j, l), F[(size_t)i].diff(j).diff(l).eval(xi), sc)) { c.fail(kp + " entity" + std::to_string(fd_) + ".hess_ten", "entity " + std::to_string(e) + " xi=" + pt_str<fd_>(xi)); fe.finish(); return; }
            }
          }
          // surface element sqrt(det(J^T J))
          LD G[fd_][fd_];
          for(int a = 0; a < fd_; ++a) for(int b = 0; b < fd_; ++b) { G[a][b] = 0; for(int i = 0; i < D; ++i) G[a][b] += J[i][a] * J[i][b]; }
          LD dg = (fd_ == 1) ? G[0][0] : (G[0][0] * G[fd_ - 1][fd_ - 1] - G[0][fd_ - 1] * G[fd_ - 1][0]);
          if(!close(td.jac_det, std::sqrt(dg), sc * sc)) { c.fail(kp + " entity" + std::to_string(fd_) + ".jac_det", "entity " + std::to_string(e) + " xi=" + pt_str<fd_>(xi) + ": " + std::to_string(td.jac_det) + " vs " + std::to_string(double(std::sqrt(dg)))); fe.finish(); return; }
        }
        fe.finish();
      }
    }

    // ---------------------------------------------------------------- inverse mapping
    void check_inverse(const TrafoType& trafo, const std::vector<CellGeom<Shape_>>& geoms)
    {
      Trafo::InverseMapping<TrafoType, double> inv(trafo);
      const auto lattice = ref_lattice<Shape_>(inv_lattice);
      for(Index k = 0; k < Index(geoms.size()); ++k)
      {
        for(int mode = 0; mode < 2; ++mode) // 0: lattice points of the cell; 1: points pushed outside the reference cell
        {
          for(auto& xi0 : lattice)
          {
            std::array<LD, D> xi = xi0;
            if(mode == 1)
            {
              // scale away from the centre by 3/2: outside for boundary lattice points, inside otherwise
              for(int j = 0; j < D; ++j) { LD ctr = SI::is_simplex ? LD(1) / LD(D + 1) : LD(0); xi[(size_t)j] = ctr + (xi0[(size_t)j] - ctr) * LD(1.5); }
            }
            auto x = geoms[k].map(xi);
            typename Trafo::InverseMapping<TrafoType, double>::ImagePointType xp;
            for(int j = 0; j < D; ++j) xp[j] = double(x[(size_t)j]);
            // expected cells by the harness inverse
            std::vector<Index> exp_cells; std::vector<std::array<LD, D>> exp_pts;
            bool band = false;
            for(Index l = 0; l < Index(geoms.size()); ++l)
            {
              std::array<LD, D> eta;
              std::array<LD, D> xr; for(int j = 0; j < D; ++j) xr[(size_t)j] = LD(xp[j]);
              // cheap rejection: outside the (5% enlarged) bounding box of the vertices
              {
                bool out = false;
                for(int j = 0; j < D && !out; ++j)
                {
                  LD lo = geoms[l].xv[0][(size_t)j], hi = lo;
                  for(int v = 1; v < SI::NV; ++v) { lo = std::min(lo, geoms[l].xv[(size_t)v][(size_t)j]); hi = std::max(hi, geoms[l].xv[(size_t)v][(size_t)j]); }
                  LD ex = LD(0.05) * (hi - lo);
                  out = (xr[(size_t)j] < lo - ex) || (xr[(size_t)j] > hi + ex);
                }
                if(out) continue;
              }
              if(!geoms[l].unmap(xr, eta)) continue;
              if(geoms[l].on_ref(eta, LD(1e-9))) { exp_cells.push_back(l); exp_pts.push_back(eta); }
              else if(geoms[l].on_ref(eta, LD(2e-4))) band = true;
            }
            if(band) { c.count("inverse_points_in_tolerance_band_skipped"); continue; }
            c.count("inverse_points");
            bool threw = false;
            Trafo::InverseMappingData<double, D, D> res;
            if(strict_newton)
            {
              // well-shaped tiny meshes: the Newton iteration has to converge on every candidate cell
              try { res = inv.unmap_point(xp); }
              catch(const Trafo::InverseMappingError&) { threw = true; }
              if(threw)
              {
                c.fail(kp + " inverse.throw" + ksuffix, "unmap_point threw InverseMappingError for x=" + pt_str<D>(x) + " (image of xi=" + pt_str<D>(xi) + " of cell " + std::to_string(k) + ")");
                return;
              }
            }
            else
            {
              // arbitrary meshes: failures on candidate cells that do not contain the point are documented behaviour
              res = inv.unmap_point(xp, true);
            }
            std::vector<Index> got(res.cells.begin(), res.cells.end());
            // (i) soundness: every returned (cell, reference point) maps onto x and lies on the reference cell
            //     (within InverseMapping's documented domain tolerance 1e-4)
            for(size_t q = 0; q < got.size(); ++q)
            {
              std::array<LD, D> eta;
              for(int j = 0; j < D; ++j) eta[(size_t)j] = LD(res.dom_points[q][j]);
              auto xb = geoms[got[q]].map(eta);
              LD dist = 0, mag = 1;
              for(int j = 0; j < D; ++j) { dist = std::max(dist, std::fabs(xb[(size_t)j] - x[(size_t)j])); mag = std::max(mag, std::fabs(x[(size_t)j])); }
              if(!(dist <= LD(1e-9) * mag) || !geoms[got[q]].on_ref(eta, LD(1.0001e-4)))
              {
                c.fail(kp + " inverse.unsound" + ksuffix, "x=" + pt_str<D>(x) + ": returned cell " + std::to_string(got[q]) + " with reference point " + pt_str<D>(eta) + " which maps to " + pt_str<D>(xb));
                return;
              }
            }
            // (ii) completeness: every cell in which the harness inverse finds x is returned, with the same point
            for(size_t e = 0; e < exp_cells.size(); ++e)
            {
              size_t q = 0;
              while(q < got.size() && got[q] != exp_cells[e]) ++q;
              if(q == got.size())
              {
                std::string a;
                for(Index l : got) a += std::to_string(l) + " ";
                c.fail(kp + " inverse.cells" + ksuffix, "x=" + pt_str<D>(x) + ": lies in cell " + std::to_string(exp_cells[e]) + " at " + pt_str<D>(exp_pts[e]) + ", unmap_point returned cells [" + a + "]");
                return;
              }
              // where the map is locally injective the reference points agree
              bool agree = true;
              for(int j = 0; j < D; ++j) agree = agree && (std::fabs(LD(res.dom_points[q][j]) - exp_pts[e][(size_t)j]) <= LD(1e-8));
              if(!agree && strict_newton)
              {
                c.fail(kp + " inverse.point" + ksuffix, "x=" + pt_str<D>(x) + " cell " + std::to_string(got[q]) + ": reference point differs from the harness inverse " + pt_str<D>(exp_pts[e]));
                return;
              }
            }
            // (iii) no spurious cells on the tiny well-shaped meshes
            if(strict_newton && got.size() != exp_cells.size())
            {
              c.fail(kp + " inverse.extra-cells" + ksuffix, "x=" + pt_str<D>(x) + ": unmap_point returned " + std::to_string(got.size()) + " cells, the point lies in " + std::to_string(exp_cells.size()));
              return;
            }
            if(mode == 0)
              c.check(std::find(got.begin(), got.end(), k) != got.end(), kp + " inverse.roundtrip" + ksuffix, [&]{ return "x = map(xi) of cell " + std::to_string(k) + " is not found in that cell, xi=" + pt_str<D>(xi); });
          }
        }
      }
    }
  };

  template<typename Shape_>
  void enumerate_shape(verif::Ctx& c)
  {
    typedef ShapeInfo<Shape_> SI;
    constexpr int D = SI::D;
    const bool simplex = SI::is_simplex;
    const std::string fam = std::string("trafo/") + SI::name();
    std::vector<int> geos = simplex ? std::vector<int>{0, 1, 2, 5} : std::vector<int>{0, 1, 2, 3, 4, 5};
    const int nsym = SI::num_sym();
    for(int geo : geos)
      for(int g = 0; g < nsym; ++g)
        for(int t = 0; t < (D >= 2 ? 2 : 1); ++t)
        {
          if(!c.want()) continue;
          Twist tw; tw.edge_mode = t; if(D >= 3 && t) { tw.face_mode = 1; tw.face_code = 3; }
          MeshData<Shape_> md = make_one_cell<Shape_>(g, geo, tw);
          c.desc([&]{ return fam + " " + md.desc; });
          { TrafoChecker<Shape_> chk(c, md); if(geo == 5) chk.ksuffix = " far+large"; chk.run(); }
          if(g || geo || t) c.nontrivial(verif::Hash().str(fam).pod(md.hash()).get());
          c.outcome(fam); c.count("cases_1cell");
        }
    for(int geo : geos)
    {
      if(geo == 2 && !c.thorough) continue;
      for(int gA = 0; gA < nsym; ++gA)
        for(int gB = 0; gB < nsym; ++gB)
        {
          if(D == 3 && !c.thorough && gA != 0 && gB != 0 && gA != gB) continue;
          if(!c.want()) continue;
          MeshData<Shape_> md = make_two_cell<Shape_>(gA, gB, geo, Twist());
          c.desc([&]{ return fam + " " + md.desc; });
          { TrafoChecker<Shape_> chk(c, md); if(geo == 5) chk.ksuffix = " far+large"; chk.run(); }
          c.nontrivial(verif::Hash().str(fam).pod(md.hash()).get());
          c.outcome(fam); c.count("cases_2cell");
        }
    }
  }
}

namespace
{
  std::vector<std::string> list_mesh_files(const std::string& dir)
  {
    std::vector<std::string> r;
    DIR* d = opendir(dir.c_str());
    if(!d) return r;
    while(dirent* e = readdir(d))
    {
      std::string n = e->d_name;
      if(n.size() > 4 && n.substr(n.size() - 4) == ".xml") r.push_back(n);
    }
    closedir(d);
    std::sort(r.begin(), r.end());
    return r;
  }

  template<typename Shape_>
  void shipped_mesh_case(verif::Ctx& c, Geometry::MeshFileReader& reader, const std::string& name)
  {
    typedef Geometry::ConformalMesh<Shape_, Shape_::dimension, double> MeshType;
    Geometry::MeshAtlas<MeshType> atlas;
    std::unique_ptr<Geometry::RootMeshNode<MeshType>> node;
    try { node = reader.parse(atlas, nullptr); }
    catch(const std::exception&) { c.count("shipped_not_standalone_skipped"); return; } // needs a separate chart file
    MeshType* mesh = node->get_mesh();
    if(mesh == nullptr) { c.count("shipped_without_root_mesh"); return; }
    if(mesh->get_num_entities(Shape_::dimension) > 2000) { c.count("shipped_too_large_skipped"); return; }
    MeshData<Shape_> dummy;
    TrafoChecker<Shape_> chk(c, dummy);
    chk.kp = "trafo/shipped:" + name;
    chk.run_on_mesh(*mesh);
    c.count("cases_shipped");
    c.count("shipped_cells", mesh->get_num_entities(Shape_::dimension));
    c.nontrivial(verif::Hash().str(name).get());
  }
}

int main(int argc, char** argv)
{
  Runtime::ScopeGuard guard(argc, argv);
  verif::Spec spec;
  spec.property = "C15";
  spec.harness = "c15_trafo";
  spec.rule = "cases = (shape, tiny mesh): 1-cell meshes in every local numbering x 5 geometries x {canonical, reversed} entity orientation, 2-cell meshes "
    "in pairs of local numberings; per case: map_point/jac_mat/jac_det/jac_inv/hess_ten/hess_inv at a 4^d lattice against the harness polynomials, "
    "jac_mat against differences of map_point, integral of jac_det and volume() against an independent volume formula, edge/face evaluators "
    "(map, Jacobian, surface element), InverseMapping::unmap_point(map(xi)) for a 5^d lattice and for points pushed outside the cell (set of cells and "
    "reference points must equal the harness Newton inverse). Non-trivial = not the canonical reference cell.";
  spec.max_fail_per_worker = 1000000;
  spec.bounds_quick = "line/tria/quad/tetra/hexa; 2-cell: all pairs in 1D/2D, star+diagonal pairs in 3D";
  spec.bounds_thorough = "all pairs of numberings in 3D as well (tetra 576, hexa 2304 per geometry)";
  spec.assumptions = {
    "standard trafo = multilinear (hypercube) / affine (simplex) interpolation of the cell vertices in FEAT's reference numbering (definition)",
    "points whose harness pre-image lies in the band (1e-9, 2e-4) outside a reference cell are skipped: InverseMapping's domain tolerance 1e-4 makes the expected answer ambiguous there",
    "isoparametric trafo: see c15_isoparam",
    "not exercised (outside the statement of C15): Tiny algebra functions that no trafo/space evaluator calls, the CUDA variants of the evaluation helpers, the text of InverseMappingError, virtual destructors; width_directed is checked on affine cells along their edges only (definition: edge length)"};
  const char* vr = std::getenv("VERIF_REPO");
  const std::string mesh_dir = std::string(vr ? vr : "/repo") + "/data/meshes";
  const std::vector<std::string> mesh_files = list_mesh_files(mesh_dir);
  return verif::run(spec, argc, argv, [&](verif::Ctx& c) {
    enumerate_shape<Shape::Hypercube<1>>(c);
    enumerate_shape<Shape::Simplex<2>>(c);
    enumerate_shape<Shape::Hypercube<2>>(c);
    enumerate_shape<Shape::Simplex<3>>(c);
    enumerate_shape<Shape::Hypercube<3>>(c);
    // every shipped mesh file with at most 2000 cells (standard trafo on the root mesh)
    for(const std::string& name : mesh_files)
    {
      if(!c.want()) continue;
      c.desc([&]{ return "shipped mesh " + name; });
      std::ifstream ifs(mesh_dir + "/" + name);
      if(!ifs.good()) { c.fail("trafo/shipped:" + name + " open", "cannot open mesh file (machinery)"); continue; }
      Geometry::MeshFileReader reader(ifs);
      reader.read_root_markup();
      const std::string mt = reader.get_meshtype_string();
      c.outcome("shipped " + mt);
      if(mt == "conformal:hypercube:2:2") shipped_mesh_case<Shape::Hypercube<2>>(c, reader, name);
      else if(mt == "conformal:hypercube:3:3") shipped_mesh_case<Shape::Hypercube<3>>(c, reader, name);
      else if(mt == "conformal:simplex:2:2") shipped_mesh_case<Shape::Simplex<2>>(c, reader, name);
      else if(mt == "conformal:simplex:3:3") shipped_mesh_case<Shape::Simplex<3>>(c, reader, name);
      else c.count("shipped_other_type_skipped");
    }
  });
}
