// C10 -- refined meshes are conforming and every mesh part follows its parent entities.
//
// Bounded-exhaustive enumeration of small meshes in every local numbering (cell symmetry groups), explicit edge/face
// orientations, vertex stars, structured blocks, mesh permutations and every shipped mesh file; each is refined
// 1..3 times through the real RootMeshNode::refine_unique path together with attached mesh parts of every kind.
// Oracles are table-free (see c10_meshlib.hpp): every fine entity is located geometrically inside its coarse
// carrier entity, exact integer volumes, sub-entity consistency against the reference cell definition.
#include <verif.hpp>
#include <kernel/runtime.hpp>
#include <kernel/geometry/mesh_node.hpp>
#include <kernel/geometry/mesh_atlas.hpp>
#include <kernel/geometry/mesh_file_reader.hpp>
#include <kernel/geometry/boundary_factory.hpp>
#include <kernel/geometry/patch_meshpart_factory.hpp>
#include <kernel/geometry/intern/face_index_mapping.hpp>
#include <kernel/util/dist.hpp>
#include <c10_meshlib.hpp>

#include <csignal>
#include <dirent.h>
#include <fstream>

using namespace FEAT;
using namespace FEAT::Geometry;

namespace
{
  struct Opts
  {
    int depth = 2;
    int qbits = 0;          // lattice of the level-0 coordinates
    int part_variant = -1;  // <0: no generated parts
    int perm_strategy = 0;  // PermutationStrategy as int, 0 = none; 1 (other) = custom permutation through set_permutation
    int custom_perm = 0;    // for perm_strategy 1: 0 all dimensions reversed, 1 cells only, 2 vertices only
    bool adapt_check = false;
    bool coverage = false;
    std::string shape;
    std::string file;       // non-empty: shipped mesh file name
  };

  // coverage: relative orientation of every listed sub-entity w.r.t. the local face of its cell, as a permutation string
  void coverage(verif::Ctx& c, const vm::PTopo& t, const std::string& shape)
  {
    for(int d = 2; d <= t.dim; ++d) for(int f = 1; f < d; ++f)
    {
      const vm::RefCell& rc = vm::refcell(t.simplex, d);
      for(Index e = 0; e < t.n[d]; ++e) for(int j = 0; j < t.cnt(d, f); ++j)
      {
        const Index* fv = t.tup(f, 0, t.tup(d, f, e)[j]);
        std::string p;
        for(int k = 0; k < t.cnt(f, 0); ++k)
        {
          const Index want = t.tup(d, 0, e)[rc.faces[f][size_t(j)][size_t(k)]];
          for(int q = 0; q < t.cnt(f, 0); ++q) if(fv[q] == want) p += char('0' + q);
        }
        c.count("cov." + shape + ".<" + std::to_string(d) + "," + std::to_string(f) + ">.face" + std::to_string(j) + ".orient" + p);
      }
    }
  }

  template<typename Shape_>
  struct Runner
  {
    typedef ConformalMesh<Shape_, Shape_::dimension, double> MeshType;
    typedef MeshPart<MeshType> PartType;
    typedef RootMeshNode<MeshType> NodeType;
    static constexpr int dim = Shape_::dimension;

    static void flush(verif::Ctx& c, vm::Rep& r, const std::string& prefix)
    {
      for(auto& x : r.f) c.fail(prefix + x.first, x.second);
      r.f.clear();
    }

    /// non-monotone target orders for parts without topology: reversed / rotated / odd-first, depending on the variant
    static void scramble(vm::PartSpec& ps, int v)
    {
      for(int d = 0; d <= dim; ++d)
      {
        std::vector<Index>& t = ps.trg[d];
        if(t.size() < 2) continue;
        switch((v + d) % 4)
        {
        case 1: std::reverse(t.begin(), t.end()); break;
        case 2: std::rotate(t.begin(), t.begin() + std::ptrdiff_t(t.size() / 2), t.end()); break;
        case 3: { std::vector<Index> o; for(size_t i = 1; i < t.size(); i += 2) o.push_back(t[i]); for(size_t i = 0; i < t.size(); i += 2) o.push_back(t[i]); t = o; } break;
        default: break;
        }
      }
    }

    /// attaches the generated mesh parts
    static void attach_parts(NodeType& node, const vm::PMesh& M, const vm::TopoInfo& ti, const Opts& o, verif::Ctx& c)
    {
      const int v = o.part_variant;
      const int fd = dim - 1;
      std::vector<Index> bf;
      for(Index f = 0; f < M.n[fd]; ++f) if(ti.facet_adj[size_t(f)] == 1) bf.push_back(f);
      // halo and patch mesh parts of the node (RootMeshNode::add_halo / add_patch): refined and permuted alongside
      {
        vm::PartSpec h1; for(size_t i = 0; i < bf.size(); ++i) if(((v + int(i)) % 3) == 0) h1.trg[fd].push_back(bf[i]);
        if(h1.trg[fd].empty()) h1.trg[fd].push_back(bf[0]);
        vm::close_part(M, h1); scramble(h1, v + 3);
        node.add_halo(3, vm::build_part<MeshType>(h1, M, o.qbits + 3 * o.depth));
        vm::PartSpec h2; h2.trg[0].push_back(Index(v) % M.n[0]);
        node.add_halo(7, vm::build_part<MeshType>(h2, M, o.qbits + 3 * o.depth));
        vm::PartSpec pp; for(Index i = Index(v % 2); i < M.n[dim]; i += 2) pp.trg[dim].push_back(i);
        if(pp.trg[dim].empty()) pp.trg[dim].push_back(0);
        vm::close_part(M, pp);
        node.add_patch(2, vm::build_part<MeshType>(pp, M, o.qbits + 3 * o.depth));
      }
      // boundary part from the BoundaryFactory
      {
        BoundaryFactory<MeshType> bfac(*node.get_mesh());
        auto* bn = node.add_mesh_part("bnd", bfac.make_unique());
        // nested part: every second vertex and facet of the boundary part (indices into the boundary part)
        vm::PartSpec ns; ns.name = "nest";
        const PartType& bp = *bn->get_mesh();
        for(Index i = Index(v & 1); i < bp.get_num_entities(0); i += 2) ns.trg[0].push_back(i);
        for(Index i = Index((v >> 1) & 1); i < bp.get_num_entities(fd); i += 2) ns.trg[fd].push_back(i);
        bn->add_mesh_part("nest", vm::build_part<MeshType>(ns, M, o.qbits + 3 * o.depth));
      }
      // subset of the boundary facets, closed
      {
        vm::PartSpec ps; ps.name = "sub";
        for(size_t i = 0; i < bf.size(); ++i) if(((v * 7 + int(i) * 3) % 5) < 2) ps.trg[fd].push_back(bf[i]);
        if(ps.trg[fd].empty()) ps.trg[fd].push_back(bf[size_t(v) % bf.size()]);
        vm::close_part(M, ps);
        scramble(ps, v);
        node.add_mesh_part(ps.name, vm::build_part<MeshType>(ps, M, o.qbits + 3 * o.depth));
      }
      // not closed: some facets (interior ones too), some vertices, some edges, one cell
      {
        vm::PartSpec ps; ps.name = "raw";
        for(Index f = Index(v % 3); f < M.n[fd]; f += 3) ps.trg[fd].push_back(f);
        for(Index i = Index(v % 2); i < M.n[0]; i += 4) ps.trg[0].push_back(i);
        if(dim == 3) for(Index i = Index(v % 5); i < M.n[1]; i += 5) ps.trg[1].push_back(i);
        ps.trg[dim].push_back(Index(v) % M.n[dim]);
        if(fd == 0) { std::set<Index> s(ps.trg[0].begin(), ps.trg[0].end()); ps.trg[0].assign(s.begin(), s.end()); }
        scramble(ps, v + 1);
        node.add_mesh_part(ps.name, vm::build_part<MeshType>(ps, M, o.qbits + 3 * o.depth));
      }
      // cells with closure
      {
        vm::PartSpec ps; ps.name = "cells";
        for(Index i = 0; i < M.n[dim]; ++i) if(((Index(v) + i) % 3) != 1 || M.n[dim] == 1) ps.trg[dim].push_back(i);
        if(ps.trg[dim].empty()) ps.trg[dim].push_back(0);
        vm::close_part(M, ps);
        scramble(ps, v + 2);
        node.add_mesh_part(ps.name, vm::build_part<MeshType>(ps, M, o.qbits + 3 * o.depth));
      }
      // facets with own topology (both boundary and interior facets)
      if(dim >= 2)
      {
        std::vector<Index> top;
        for(Index f = 0; f < M.n[fd]; ++f) if(((Index(v) * 5 + f * 2) % 7) < 4) top.push_back(f);
        if(top.empty()) top.push_back(0);
        vm::PartSpec ps = vm::topo_part(M, ti, top, fd, v, "topo");
        node.add_mesh_part(ps.name, vm::build_part<MeshType>(ps, M, o.qbits + 3 * o.depth));
      }
      // 2D: cells with own topology; 3D: not implemented in FEAT (StandardTargetRefiner aborts) -> excluded
      if(dim <= 2)
      {
        std::vector<Index> top;
        for(Index i = 0; i < M.n[dim]; ++i) if(((Index(v) + i) % 4) != 3) top.push_back(i);
        if(top.empty()) top.push_back(0);
        vm::PartSpec ps = vm::topo_part(M, ti, top, dim, v + 1, "topocells");
        node.add_mesh_part(ps.name, vm::build_part<MeshType>(ps, M, o.qbits + 3 * o.depth));
      }
      else c.excluded("3D mesh part with topology containing cells (documented as not implemented)");
      // 2D: one closed boundary loop as a 1D part with own topology whose first vertex is doubled (parametrised closed curve)
      if(dim == 2 && !bf.empty())
      {
        std::map<Index, std::vector<Index>> at; // boundary vertex -> boundary edges
        for(Index e : bf) for(int j = 0; j < 2; ++j) at[M.tup(1, 0, e)[j]].push_back(e);
        bool simple = true; for(auto& x : at) if(x.second.size() != 2) simple = false;
        if(simple)
        {
          vm::PartSpec ps; ps.name = "loop"; ps.topo = true; ps.attr = true;
          Index e = bf[size_t(v) % bf.size()], v0 = M.tup(1, 0, e)[v & 1], cur = v0;
          do
          {
            const Index nxt = (M.tup(1, 0, e)[0] == cur) ? M.tup(1, 0, e)[1] : M.tup(1, 0, e)[0];
            const Index li = Index(ps.trg[0].size());
            ps.trg[0].push_back(cur); ps.trg[1].push_back(e);
            if((v >> 1) & 1) ps.ents[1].push_back({li, li + 1}); else ps.ents[1].push_back({li + 1, li});
            cur = nxt;
            e = (at[cur][0] == e) ? at[cur][1] : at[cur][0];
          } while(cur != v0);
          ps.trg[0].push_back(v0); // the doubled vertex closes the curve
          auto part = vm::build_part<MeshType>(ps, M, o.qbits + 3 * o.depth);
          typedef typename PartType::AttributeSetType AS;
          std::unique_ptr<AS> as(new AS(Index(ps.trg[0].size()), 1));
          for(Index i = 0; i < Index(ps.trg[0].size()); ++i) (*as)(i, 0) = double(i);
          part->add_attribute(std::move(as), "param");
          node.add_mesh_part(ps.name, std::move(part));
        }
      }
    }

    /// rename / remove operations of the node: the remaining parts and halos must be exactly the old ones under their new keys
    static bool node_api_history(verif::Ctx& c, NodeType& node, std::map<std::string, vm::PPart>& PC, int v)
    {
      std::map<std::string, vm::PPart> want = PC;
      auto mv = [&](const std::string& a, const std::string& b) {
        std::map<std::string, vm::PPart> w2;
        for(auto& x : want) { std::string k = x.first; if(k == a) k = b; else if(k.compare(0, a.size() + 1, a + "/") == 0) k = b + k.substr(a.size()); w2[k] = x.second; }
        want = w2; };
      bool ok = true;
      switch(v % 5)
      {
      case 1:
        node.rename_mesh_parts({{"sub", "zz_sub"}, {"raw", "aa_raw"}, {"does-not-exist", "x"}});
        mv("sub", "zz_sub"); mv("raw", "aa_raw");
        ok = c.check(node.find_mesh_part("sub") == nullptr && node.find_mesh_part("zz_sub") != nullptr, "node.rename_mesh_parts", "renamed part not found under its new name") && ok;
        c.count("node_api.rename_mesh_parts");
        break;
      case 2:
        ok = c.check(node.remove_mesh_part("raw"), "node.remove_mesh_part", "remove_mesh_part of an existing part returned false") && ok;
        ok = c.check(!node.remove_mesh_part("raw") && !node.remove_mesh_part("nope"), "node.remove_mesh_part", "remove_mesh_part of a missing part returned true") && ok;
        want.erase("raw");
        c.count("node_api.remove_mesh_part");
        break;
      case 3:
        if((v / 5) % 2 == 0)
        {
          node.rename_halos({{3, 11}, {7, 5}, {99, 1}});
          mv("halo:3", "halo:11"); mv("halo:7", "halo:5");
          ok = c.check(node.get_halo(3) == nullptr && node.get_halo(11) != nullptr && node.get_halo(5) != nullptr && node.get_halo(1) == nullptr, "node.rename_halos", "halos not found under their new ranks") && ok;
        }
        else
        {
          node.rename_halos({{3, 11}, {99, 1}}); // halo 7 keeps its rank
          mv("halo:3", "halo:11");
          ok = c.check(node.get_halo(3) == nullptr && node.get_halo(11) != nullptr && node.get_halo(7) != nullptr, "node.rename_halos", "halos not found under their (new) ranks") && ok;
        }
        c.count("node_api.rename_halos");
        break;
      case 4:
        node.rename_mesh_parts(std::map<String, String>());
        node.rename_halos(std::map<int, int>());
        break;
      default: break;
      }
      std::map<std::string, vm::PPart> now;
      collect_parts(node, now);
      std::string d = vm::diff_parts(want, now);
      ok = c.check(d.empty(), "node.api-history", [&]{ return "after rename/remove (variant " + vm::str(v % 5) + ") the node's parts are not the old ones under the new names: " + d; }) && ok;
      PC = now;
      return ok;
    }

    /// MeshPart / ConformalMesh members that the refinement path itself does not touch
    static bool lvl0_part_api(verif::Ctx& c, NodeType& node, const vm::PMesh& M, const Opts& o)
    {
      bool ok = true;
      const int v = o.part_variant;
      // MeshPart::clone(other) into an existing part of different size and kind; Factory::make()
      {
        const PartType* src = node.find_mesh_part((v & 1) ? "topo" : "bnd");
        if(src == nullptr) src = node.find_mesh_part("bnd");
        if(src != nullptr)
        {
          Index ne[4] = {1, 0, 0, 0};
          PartType dst(ne, (v & 2) != 0);
          dst.clone(*src);
          vm::PPart A, B; vm::extract_part(A, *src); vm::extract_part(B, dst);
          std::string d = vm::diff_part(A, B);
          ok = c.check(d.empty(), "part.clone-into", [&]{ return "MeshPart::clone(other) into an existing part differs from the source: " + d; }) && ok;
          PartType dst2 = src->clone();
          vm::PPart B2; vm::extract_part(B2, dst2);
          d = vm::diff_part(A, B2);
          ok = c.check(d.empty(), "part.clone", [&]{ return "MeshPart::clone() differs from the source: " + d; }) && ok;
        }
        BoundaryFactory<MeshType> bfac(*node.get_mesh());
        PartType b1 = bfac.make();
        std::unique_ptr<PartType> b2 = bfac.make_unique();
        vm::PPart A, B; vm::extract_part(A, b1); vm::extract_part(B, *b2);
        ok = c.check(vm::diff_part(A, B).empty(), "factory.make", "Factory::make() and make_unique() produce different parts") && ok;
      }
      // deduct_target_sets_from_bottom: an entity belongs to the part iff all its facets do (starting from a vertex set);
      // deduct_target_sets_from_top: all sub-entities of the listed cells
      {
        std::set<Index> in[4];
        for(Index i = 0; i < M.n[0]; ++i) if(((i * 3 + Index(v)) % 4) != 0) in[0].insert(i);
        Index ne[4] = {Index(in[0].size()), 0, 0, 0};
        PartType pb(ne, false);
        { Index k = 0; for(Index x : in[0]) pb.template get_target_set<0>()[k++] = x; }
        pb.template deduct_target_sets_from_bottom<0>(node.get_mesh()->get_index_set_holder());
        for(int d = 1; d <= dim; ++d) for(Index e = 0; e < M.n[d]; ++e)
        {
          bool all = true;
          for(int j = 0; j < M.cnt(d, d - 1); ++j) if(!in[d - 1].count(d == 1 ? M.tup(1, 0, e)[j] : M.tup(d, d - 1, e)[j])) all = false;
          if(all) in[d].insert(e);
        }
        vm::PPart PB; vm::extract_part(PB, pb);
        for(int d = 0; d <= dim; ++d)
        {
          std::set<Index> have(PB.trg[d].begin(), PB.trg[d].end());
          ok = c.check(have == in[d] && have.size() == PB.trg[d].size() && PB.n[d] == Index(have.size()), "part.deduct_from_bottom.dim" + vm::str(d),
            [&]{ return "deduct_target_sets_from_bottom lists " + vm::str(PB.trg[d].size()) + " entities of dim " + vm::str(d) + " (reported " + vm::str(PB.n[d]) + "), entities whose facets all belong to the part: " + vm::str(in[d].size()); }) && ok;
        }
        vm::PartSpec ps; for(Index i = Index(v % 3); i < M.n[dim]; i += 3) ps.trg[dim].push_back(i);
        if(ps.trg[dim].empty()) ps.trg[dim].push_back(0);
        Index nt[4] = {0, 0, 0, 0}; nt[dim] = Index(ps.trg[dim].size());
        PartType pt(nt, false);
        for(size_t i = 0; i < ps.trg[dim].size(); ++i) pt.template get_target_set<dim>()[Index(i)] = ps.trg[dim][i];
        pt.template deduct_target_sets_from_top<dim>(node.get_mesh()->get_index_set_holder());
        vm::close_part(M, ps);
        vm::PPart PT; vm::extract_part(PT, pt);
        for(int d = 0; d < dim; ++d)
        {
          std::set<Index> have(PT.trg[d].begin(), PT.trg[d].end()), want(ps.trg[d].begin(), ps.trg[d].end());
          ok = c.check(have == want && have.size() == PT.trg[d].size() && PT.n[d] == Index(have.size()), "part.deduct_from_top.dim" + vm::str(d),
            [&]{ return "deduct_target_sets_from_top lists " + vm::str(PT.trg[d].size()) + " entities of dim " + vm::str(d) + ", the closure of the cells has " + vm::str(want.size()); }) && ok;
        }
      }
      // ConformalMesh: clone(other) into an existing mesh, move assignment, trivial getters
      {
        const MeshType& m = *node.get_mesh();
        Index ne[4] = {1, 1, 1, 1};
        MeshType m2(ne);
        m2.clone(m);
        MeshType m3(ne);
        m3 = std::move(m2);
        vm::PMesh A; std::string err; vm::extract_mesh(A, m3, o.qbits + 3 * o.depth, &err);
        std::string d = vm::diff_mesh(M, A);
        ok = c.check(d.empty(), "mesh.clone-into+move-assign", [&]{ return "ConformalMesh::clone(other) followed by move assignment differs from the source: " + d; }) && ok;
        ok = c.check(m3.get_num_vertices() == M.n[0] && m3.get_num_elements() == M.n[dim] && m3.is_permuted() == m.is_permuted(), "mesh.getters", "get_num_vertices/get_num_elements/is_permuted wrong on the moved clone") && ok;
      }
      c.count("part_api_checked");
      return ok;
    }

    /// composes a nested part with its parent part
    static vm::PPart compose(const vm::PPart& child, const vm::PPart& parent)
    {
      vm::PPart p = child;
      for(int d = 0; d <= dim; ++d) for(auto& x : p.trg[d]) x = (x < parent.trg[d].size()) ? parent.trg[d][size_t(x)] : vm::NIL;
      return p;
    }

    static void collect_parts(const NodeType& node, std::map<std::string, vm::PPart>& out)
    {
      for(const auto& nm : node.get_mesh_part_names())
      {
        const auto* pn = node.find_mesh_part_node(nm);
        if(pn == nullptr || pn->get_mesh() == nullptr) continue;
        vm::PPart p; vm::extract_part(p, *pn->get_mesh());
        for(const auto& cn : pn->get_mesh_part_names())
        {
          const auto* cp = pn->find_mesh_part(cn);
          if(cp == nullptr) continue;
          vm::PPart q; vm::extract_part(q, *cp);
          out[nm + "/" + cn] = compose(q, p);
        }
        out[nm] = std::move(p);
      }
      for(const auto& h : node.get_halo_map()) if(h.second) { vm::PPart p; vm::extract_part(p, *h.second); out["halo:" + std::to_string(h.first)] = std::move(p); }
      for(const auto& h : node.get_patch_map()) if(h.second) { vm::PPart p; vm::extract_part(p, *h.second); out["patch:" + std::to_string(h.first)] = std::move(p); }
    }

    static void check_attr(const vm::PMesh& F, const vm::PPart& P, int qtot, vm::Rep& r, const std::string& w)
    {
      auto it = P.attr.find("coord");
      if(it == P.attr.end()) { if(P.has_topo) r.fail(w + ".attribute-lost", "attribute 'coord' missing after refinement"); return; }
      const int ad = P.attr_dim.at("coord");
      if(it->second.size() != size_t(P.n[0]) * size_t(ad)) { r.fail(w + ".attribute-size", "attribute has " + vm::str(it->second.size() / size_t(ad)) + " values for " + vm::str(P.n[0]) + " vertices"); return; }
      for(Index i = 0; i < P.n[0]; ++i) for(int j = 0; j < ad; ++j)
      {
        const double want = std::ldexp(double(F.vtx[size_t(P.trg[0][size_t(i)])][size_t(j)]), -qtot);
        if(it->second[size_t(i) * size_t(ad) + size_t(j)] != want)
        { r.fail(w + ".attribute-value", "part vertex #" + vm::str(i) + " attribute component " + vm::str(j) + " = " + vm::str(it->second[size_t(i) * size_t(ad) + size_t(j)]) + ", coordinate of its target vertex is " + vm::str(want)); return; }
      }
    }

    /// curve parameter of the closed loop part: equidistant values, every part edge joins consecutive values
    static void check_param(const vm::PPart& P, vm::Rep& r, const std::string& w)
    {
      auto it = P.attr.find("param");
      if(it == P.attr.end()) { r.fail(w + ".param-lost", "attribute 'param' missing after refinement"); return; }
      const std::vector<double>& a = it->second;
      if(a.size() != size_t(P.n[0]) || a.size() < 2) { r.fail(w + ".param-size", "attribute 'param' has wrong size"); return; }
      std::vector<double> sv(a); std::sort(sv.begin(), sv.end());
      const double h = (sv.back() - sv.front()) / double(sv.size() - 1);
      for(size_t i = 0; i + 1 < sv.size(); ++i) if(sv[i + 1] - sv[i] != h) { r.fail(w + ".param-values", "curve parameters are not equidistant after refinement"); return; }
      if(sv.front() != 0.0 || sv.back() != std::floor(sv.back())) r.fail(w + ".param-range", "curve parameter range changed");
      for(Index e = 0; e < P.n[1]; ++e)
      {
        const double d = a[size_t(P.topo.tup(1, 0, e)[0])] - a[size_t(P.topo.tup(1, 0, e)[1])];
        if(std::fabs(d) != h) { r.fail(w + ".param-edge", "part edge #" + vm::str(e) + " joins vertices with parameters " + vm::str(a[size_t(P.topo.tup(1, 0, e)[0])]) + " and " + vm::str(a[size_t(P.topo.tup(1, 0, e)[1])])); return; }
      }
    }

    /// the main pipeline: node is refined o.depth times; every level is checked against its predecessor
    static void run_node(verif::Ctx& c, std::unique_ptr<NodeType> node, const Opts& o)
    {
      const int qtot = o.qbits + 3 * o.depth;
      vm::PMesh C; std::string err;
      if(!vm::extract_mesh(C, *node->get_mesh(), qtot, &err)) { c.fail("harness.input-lattice", err); return; }
      vm::Rep r;
      vm::TopoInfo ti0;
      vm::check_topology(C, r, "input", &ti0);
      for(Index cell = 0; cell < C.n[dim] && r.ok(); ++cell) { int s = 0; vm::cell_volume(C, cell, &s); if(s == 0) r.fail("harness.input-degenerate", "input cell " + vm::str(cell) + " is degenerate"); }
      if(!r.ok() && !o.file.empty())
      {
        // a shipped data file that is not a valid conforming mesh is outside the quantifier of the property
        c.excluded("shipped mesh file is not a valid conforming mesh (" + r.f[0].first + "): " + o.file);
        c.outcome("input file invalid");
        return;
      }
      if(!r.ok()) { flush(c, r, "input:"); return; }
      if(o.coverage) coverage(c, C, o.shape);
      if(o.part_variant >= 0) attach_parts(*node, C, ti0, o, c);
      std::map<std::string, vm::PPart> PC;
      collect_parts(*node, PC);
      for(auto& p : PC) { r.ctx = "level 0 part " + p.first; vm::check_part_valid(C, p.second, r, "part[" + part_class(p.first) + "].input"); }
      if(!r.ok()) { flush(c, r, "harness."); return; }
      if(o.part_variant >= 0 && !node_api_history(c, *node, PC, o.part_variant)) return;
      if(o.part_variant >= 0 && lvl0_part_api(c, *node, C, o) == false) return;

      // optional mesh permutation: same geometric entities afterwards
      if(o.perm_strategy != 0)
      {
        if(o.perm_strategy == int(PermutationStrategy::other))
        {
          // custom permutation through MeshPermutation::create_other + create_inverse_permutations + set_permutation
          MeshPermutation<Shape_> mp;
          {
            Index wrong[4] = {C.n[0] + 1, C.n[1], C.n[2], C.n[3]};
            auto& pa = mp.create_other();
            for(int d = 0; d <= dim; ++d)
            {
              if(o.custom_perm == 1 && d != dim) continue;
              if(o.custom_perm == 2 && d != 0) continue;
              std::vector<Index> pv(size_t(C.n[d]));
              for(Index i = 0; i < C.n[d]; ++i) pv[size_t(i)] = (o.custom_perm == 1) ? (i + 1) % C.n[d] : C.n[d] - 1 - i;
              pa.at(size_t(d)) = Adjacency::Permutation(C.n[d], Adjacency::Permutation::ConstrType::perm, pv.data());
            }
            mp.create_inverse_permutations();
            c.check(mp.validate_sizes(C.n) == 0, "perm.validate_sizes", "validate_sizes rejects a permutation of the right sizes");
            if(o.custom_perm != 1) c.check(mp.validate_sizes(wrong) == 1, "perm.validate_sizes", [&]{ return "validate_sizes = " + vm::str(mp.validate_sizes(wrong)) + " for a vertex permutation of the wrong size, expected 1"; });
          }
          node->set_permutation(std::move(mp));
          c.count("custom_permutations");
        }
        else
          node->create_permutation(static_cast<PermutationStrategy>(o.perm_strategy));
        vm::PMesh Cp;
        if(!vm::extract_mesh(Cp, *node->get_mesh(), qtot, &err)) { c.fail("perm.lattice", err); return; }
        std::map<std::string, vm::PPart> PP;
        collect_parts(*node, PP);
        r.ctx = "after create_permutation(" + vm::str(o.perm_strategy) + ")";
        check_same_geometry(C, Cp, PC, PP, r);
        check_perm_definition(*node->get_mesh(), C, Cp, o, r);
        c.count("permutations_checked");
        if(!r.ok()) { for(auto& x : r.f) c.fail(x.first.compare(0, 15, "MeshPermutation") == 0 ? x.first : "perm." + x.first, x.second); r.f.clear(); return; }
        C = std::move(Cp); PC = std::move(PP);
      }

      for(int lvl = 1; lvl <= o.depth; ++lvl)
      {
        std::unique_ptr<NodeType> fine = node->refine_unique(AdaptMode::none);
        vm::PMesh F;
        r.ctx = "level " + vm::str(lvl - 1) + "->" + vm::str(lvl);
        if(!vm::extract_mesh(F, *fine->get_mesh(), qtot, &err)) { c.fail("vertex.lattice", r.ctx + ": " + err); return; }
        // the refined-from node must be untouched (snapshot taken before the refinement)
        {
          vm::PMesh C2; std::map<std::string, vm::PPart> PC2;
          vm::extract_mesh(C2, *node->get_mesh(), qtot, &err); collect_parts(*node, PC2);
          std::string d = vm::diff_mesh(C, C2); if(d.empty()) d = vm::diff_parts(PC, PC2);
          if(!d.empty()) { c.fail("input-modified", r.ctx + ": refine_unique changed its (const) source node: " + d); return; }
        }
        vm::RefineInfo ri;
        vm::check_refinement(C, F, r, ri);
        c.count("refinements_checked");
        c.count("fine_cells_checked", F.n[dim]);
        if(!r.ok()) { flush(c, r, ""); return; }
        // mesh parts refined alongside
        std::map<std::string, vm::PPart> PF;
        collect_parts(*fine, PF);
        for(auto& p : PC)
        {
          auto it = PF.find(p.first);
          const std::string w = "part[" + part_class(p.first) + "]";
          if(it == PF.end()) { r.fail(w + ".lost", "mesh part '" + p.first + "' missing in the refined node"); continue; }
          r.ctx = "level " + vm::str(lvl - 1) + "->" + vm::str(lvl) + " part '" + p.first + "'";
          vm::check_part_refinement(C, F, ri, p.second, it->second, r, w);
          if(p.second.attr.count("coord")) check_attr(F, it->second, qtot, r, w);
          if(p.first == "loop") check_param(it->second, r, w);
          c.count("part_refinements_checked");
        }
        // re-invocation and derived objects (first level): a second refinement of the same node, the refinement of a
        // clone of the node, and StandardRefinery on a cloned + moved bare mesh must all reproduce the first result
        if(lvl == 1)
        {
          r.ctx = "level 0->1";
          auto cmp = [&](const NodeType& other, const std::string& key, const std::string& what)
          {
            vm::PMesh F2; std::map<std::string, vm::PPart> PF2;
            vm::extract_mesh(F2, *other.get_mesh(), qtot, &err); collect_parts(other, PF2);
            std::string d = vm::diff_mesh(F, F2); if(d.empty()) d = vm::diff_parts(PF, PF2);
            if(!d.empty()) r.fail(key, what + " differs from the first refinement: " + d);
          };
          { std::unique_ptr<NodeType> again = node->refine_unique(AdaptMode::none); cmp(*again, "reinvoke.refine", "second refine_unique of the same node"); }
          std::unique_ptr<NodeType> cl = node->clone_unique();
          {
            vm::PMesh Cc; std::map<std::string, vm::PPart> PCc;
            vm::extract_mesh(Cc, *cl->get_mesh(), qtot, &err); collect_parts(*cl, PCc);
            std::string d = vm::diff_mesh(C, Cc); if(d.empty()) d = vm::diff_parts(PC, PCc);
            if(!d.empty()) r.fail("clone.node", "clone_unique() of the node differs from the node: " + d);
            const auto& n1 = node->get_mesh()->get_neighbors(); const auto& n2 = cl->get_mesh()->get_neighbors();
            bool nbs = (n1.get_num_entities() == n2.get_num_entities());
            for(Index i = 0; nbs && i < n1.get_num_entities(); ++i) for(int j = 0; j < n1.num_indices; ++j) if(n1(i, j) != n2(i, j)) nbs = false;
            if(!nbs) r.fail("clone.neighbors", "clone_unique() lost the neighbour information");
          }
          std::unique_ptr<NodeType> clf = cl->refine_unique(AdaptMode::none);
          cmp(*clf, "clone.refine", "refinement of the cloned node");
          {
            MeshType mc = node->get_mesh()->clone();
            StandardRefinery<MeshType> rf(mc);
            MeshType mf = rf.make();
            MeshType mm(std::move(mf));
            vm::PMesh F3; vm::extract_mesh(F3, mm, qtot, &err);
            std::string d = vm::diff_mesh(F, F3);
            if(!d.empty()) r.fail("clone.mesh", "StandardRefinery on a cloned mesh + move construction differs: " + d);
          }
          c.count("reinvocations_checked");
          if(!r.ok()) { flush(c, r, ""); return; }
          // odd variants continue on the derived object
          if(o.part_variant >= 0 && (o.part_variant & 1)) fine = std::move(clf);
        }
        // computed boundary == facets with one adjacent cell
        {
          r.ctx = "level " + vm::str(lvl) + " BoundaryFactory";
          BoundaryFactory<MeshType> bfac(*fine->get_mesh());
          PartType bp(bfac);
          vm::PPart B; vm::extract_part(B, bp);
          vm::check_boundary_part(F, ri.tf, B, r, "boundary");
          // masked variants: some boundary and interior facets masked one by one, the refined "sub" part masked as a whole
          const int fd = dim - 1;
          std::vector<char> mask(size_t(F.n[fd]), 0);
          MaskedBoundaryFactory<MeshType> mf(*fine->get_mesh());
          GlobalMaskedBoundaryFactory<MeshType> gf(*fine->get_mesh());
          for(Index f = 0; f < F.n[fd]; ++f) if(((f + Index(lvl) + Index(o.part_variant + 1)) % 3) == 0) { mf.add_mask_facet(f); gf.add_mask_facet(f); mask[size_t(f)] = 1; }
          for(const char* nm : {"sub", "zz_sub"})
          {
            const PartType* sp = fine->find_mesh_part(nm);
            if(sp == nullptr) continue;
            mf.add_mask_meshpart(*sp); gf.add_mask_meshpart(*sp);
            const auto& ts = sp->template get_target_set<dim - 1>();
            for(Index i = 0; i < ts.get_num_entities(); ++i) mask[size_t(ts[i])] = 1;
          }
          mf.compile();
          PartType mpart(mf);
          vm::PPart MB; vm::extract_part(MB, mpart);
          r.ctx = "level " + vm::str(lvl) + " MaskedBoundaryFactory";
          vm::check_boundary_part(F, ri.tf, MB, r, "boundary.masked", &mask);
          Dist::Comm comm = Dist::Comm::world();
          gf.compile(comm);
          PartType gpart(gf);
          vm::PPart GB; vm::extract_part(GB, gpart);
          r.ctx = "level " + vm::str(lvl) + " GlobalMaskedBoundaryFactory (no halos)";
          vm::check_boundary_part(F, ri.tf, GB, r, "boundary.globalmasked", &mask);
          c.count("masked_boundaries_checked");
        }
        // neighbour information
        {
          r.ctx = "level " + vm::str(lvl) + " neighbors";
          const auto& nb = fine->get_mesh()->get_neighbors();
          const auto& fc = fine->get_mesh()->template get_index_set<dim, dim - 1>();
          if(nb.get_num_entities() != F.n[dim]) r.fail("neighbors.size", "neighbor set has wrong size");
          else for(Index i = 0; i < F.n[dim]; ++i) for(int j = 0; j < nb.num_indices; ++j)
          {
            const auto& a = ri.tf.facet_cells[size_t(fc(i, j))];
            const Index want = (a[0] == i) ? a[1] : a[0];
            if(nb(i, j) != want) { r.fail("neighbors.value", "neighbor of cell " + vm::str(i) + " across local facet " + vm::str(j) + " is " + vm::str(nb(i, j)) + ", expected " + vm::str(want)); break; }
          }
        }
        // recomputation of all index sets from the vertices-at-cell list only
        {
          r.ctx = "level " + vm::str(lvl) + " IndexCalculator recomputation";
          Index ne[4] = {F.n[0], 0, 0, 0}; ne[dim] = F.n[dim];
          MeshType m2(ne);
          auto& is = m2.template get_index_set<dim, 0>();
          const auto& is0 = fine->get_mesh()->template get_index_set<dim, 0>();
          for(Index i = 0; i < F.n[dim]; ++i) for(int j = 0; j < is.num_indices; ++j) is(i, j) = is0(i, j);
          if constexpr(dim >= 2) vm::deduct_topology(m2, use_flipper);
          vm::PTopo T2; Index n2[4] = {0, 0, 0, 0};
          for(int d = 0; d <= dim; ++d) n2[d] = m2.get_num_entities(d);
          vm::extract_topo<Shape_>(T2, m2.get_index_set_holder(), n2);
          vm::TopoInfo t2;
          {
            vm::Rep r2; r2.ctx = r.ctx; r2.cap = 1000;
            vm::check_topology(T2, r2, "recompute", &t2);
            bool only21 = !r2.ok();
            for(auto& x : r2.f) if(x.first != "recompute.subentity<2,1>") only21 = false;
            if(only21 && vm::ShapeInfo<Shape_>::simplex && dim == 3)
              r.fail("tetra deduct_topology_from_top: flipped boundary triangle keeps stale <2,1> (CongruencyMapping<Simplex<2>,1>::flip)", r2.f[0].second);
            else for(auto& x : r2.f) r.fail(x.first, x.second.substr(x.second.find(": ") + 2));
          }
          for(int d = 1; d < dim; ++d)
          {
            if(T2.n[d] != F.n[d]) r.fail("recompute.count", "IndexCalculator finds " + vm::str(T2.n[d]) + " entities of dim " + vm::str(d) + ", refined mesh has " + vm::str(F.n[d]));
            else for(auto& e : t2.ent[d]) if(!ri.tf.ent[d].count(e.first)) { r.fail("recompute.entity", "IndexCalculator entity " + vm::keystr(e.first) + " of dim " + vm::str(d) + " does not exist in the refined mesh"); break; }
          }
        }
        if(!r.ok()) { flush(c, r, ""); return; }
        // chart adaption must not touch the topology nor vertices outside chart-linked parts
        if(o.adapt_check && lvl == 1)
        {
          r.ctx = "level 1 adapt";
          std::unique_ptr<NodeType> fa = node->refine_unique(AdaptMode::chart);
          check_adapt(*fine, *fa, r);
          {
            // adapt_by_name for every part in name order must reproduce adapt(): returns true exactly for chart-linked non-null parts
            std::unique_ptr<NodeType> fb = node->refine_unique(AdaptMode::none);
            for(const auto& nm : fb->get_mesh_part_names())
            {
              const bool want = (fb->find_mesh_part(nm) != nullptr) && (fb->find_mesh_part_chart(nm) != nullptr);
              if(fb->adapt_by_name(nm, (nm.size() & 1) != 0) != want) r.fail("adapt_by_name.result", "adapt_by_name('" + nm + "') returned " + (want ? "false" : "true"));
            }
            if(fb->adapt_by_name("no such part")) r.fail("adapt_by_name.result", "adapt_by_name of a missing part returned true");
            const auto& va = fa->get_mesh()->get_vertex_set(); const auto& vb = fb->get_mesh()->get_vertex_set();
            for(Index i = 0; i < va.get_num_vertices(); ++i) for(int j = 0; j < MeshType::world_dim; ++j)
              if(!(va[i][j] == vb[i][j])) { r.fail("adapt_by_name.coords", "vertex " + vm::str(i) + " differs between adapt() and the sequence of adapt_by_name() calls"); i = va.get_num_vertices() - 1; break; }
          }
          c.count("adapt_checked");
          if(!r.ok()) { flush(c, r, ""); return; }
        }
        node = std::move(fine);
        C = std::move(F);
        PC = std::move(PF);
      }
      c.outcome("ok depth=" + std::to_string(o.depth));
    }

    static std::string part_class(const std::string& name)
    {
      std::string n = name;
      if(n.compare(0, 3, "zz_") == 0 || n.compare(0, 3, "aa_") == 0) n = n.substr(3);
      if(n == "bnd" || n == "sub" || n == "raw" || n == "cells" || n == "topo" || n == "topocells" || n == "loop" || n == "bnd/nest") return n;
      if(n.compare(0, 5, "halo:") == 0) return "halo";
      if(n.compare(0, 6, "patch:") == 0) return "patch";
      return "file";
    }

    /// geometric key of an entity: sorted list of vertex coordinates
    static std::vector<std::array<vm::i64, 3>> geo_key(const vm::PMesh& M, int d, Index e)
    {
      std::vector<std::array<vm::i64, 3>> k;
      if(d == 0) k.push_back(M.vtx[size_t(e)]);
      else for(int j = 0; j < M.cnt(d, 0); ++j) k.push_back(M.vtx[size_t(M.tup(d, 0, e)[j])]);
      std::sort(k.begin(), k.end());
      return k;
    }

    static void check_same_geometry(const vm::PMesh& A, const vm::PMesh& B, const std::map<std::string, vm::PPart>& PA, const std::map<std::string, vm::PPart>& PB, vm::Rep& r)
    {
      vm::TopoInfo tb;
      vm::check_topology(B, r, "topology", &tb);
      for(int d = 0; d <= dim; ++d)
      {
        if(A.n[d] != B.n[d]) { r.fail("count", "entity count of dim " + vm::str(d) + " changed"); return; }
        std::set<std::vector<std::array<vm::i64, 3>>> sa, sb;
        for(Index e = 0; e < A.n[d]; ++e) { sa.insert(geo_key(A, d, e)); sb.insert(geo_key(B, d, e)); }
        if(sa != sb) r.fail("entities.dim" + vm::str(d), "the permuted mesh does not consist of the same geometric entities of dim " + vm::str(d));
      }
      {
        std::map<std::vector<std::array<vm::i64, 3>>, int> sg;
        for(Index cell = 0; cell < A.n[dim]; ++cell) { int s = 0; vm::cell_volume(A, cell, &s); sg[geo_key(A, dim, cell)] = s; }
        for(Index cell = 0; cell < B.n[dim]; ++cell)
        {
          int s = 0; vm::cell_volume(B, cell, &s);
          auto it = sg.find(geo_key(B, dim, cell));
          if(it != sg.end() && it->second != s) { r.fail("orientation", "cell " + vm::str(cell) + " changed its orientation sign from " + vm::str(it->second) + " to " + vm::str(s)); break; }
        }
      }
      for(auto& p : PA)
      {
        auto it = PB.find(p.first);
        if(it == PB.end()) { r.fail("part.lost", "part " + p.first + " lost"); continue; }
        for(int d = 0; d <= dim; ++d)
        {
          if(p.second.trg[d].size() != it->second.trg[d].size()) { r.fail("part.size", "part " + p.first + " changed size"); continue; }
          for(size_t i = 0; i < p.second.trg[d].size(); ++i)
          {
            if(it->second.trg[d][i] >= B.n[d]) { r.fail("part.bound", "part " + p.first + " target out of range"); break; }
            if(geo_key(A, d, p.second.trg[d][i]) != geo_key(B, d, it->second.trg[d][i]))
            { r.fail("part.target.dim" + vm::str(d), "part '" + p.first + "' entity #" + vm::str(i) + " of dim " + vm::str(d) + " points at a different geometric entity after the permutation"); break; }
          }
        }
        vm::check_part_valid(B, it->second, r, "part[" + part_class(p.first) + "]");
      }
    }

    /// the stored permutation arrays, colouring and layering against their definitions
    static void check_perm_definition(const MeshType& mesh, const vm::PMesh& A, const vm::PMesh& B, const Opts& o, vm::Rep& r)
    {
      const auto& mp = mesh.get_mesh_permutation();
      if(!mesh.is_permuted() || mp.empty()) { r.fail("definition.flag", "mesh does not report a permutation"); return; }
      if(int(mp.get_strategy()) != o.perm_strategy) r.fail("definition.strategy", "get_strategy() = " + vm::str(int(mp.get_strategy())) + ", requested " + vm::str(o.perm_strategy));
      Index n[4] = {B.n[0], B.n[1], B.n[2], B.n[3]};
      if(mp.validate_sizes(n) != 0) r.fail("definition.sizes", "validate_sizes reports " + vm::str(mp.validate_sizes(n)));
      for(int d = 0; d <= dim; ++d)
      {
        const Adjacency::Permutation& p = mp.get_perm(d); const Adjacency::Permutation& q = mp.get_inv_perm(d);
        if(p.empty() != q.empty()) { r.fail("definition.inverse.dim" + vm::str(d), "forward and inverse permutation are not both empty / both present"); continue; }
        if(&p != &mp.get_perms().at(size_t(d)) || &q != &mp.get_inv_perms().at(size_t(d))) r.fail("definition.accessors", "get_perm(d) is not get_perms()[d]");
        for(Index k = 0; k < B.n[d]; ++k)
        {
          const Index src = p.empty() ? k : p.map(k);
          if(src >= A.n[d]) { r.fail("definition.range.dim" + vm::str(d), "permutation maps out of range"); break; }
          if(!p.empty() && q.map(src) != k) { r.fail("definition.inverse.dim" + vm::str(d), "inverse permutation is not the inverse at position " + vm::str(k)); break; }
          if(geo_key(B, d, k) != geo_key(A, d, src)) { r.fail("definition.x_new[k]=x_old[P[k]].dim" + vm::str(d), "entity " + vm::str(k) + " of dim " + vm::str(d) + " of the permuted mesh is not entity P[k]=" + vm::str(src) + " of the original mesh"); break; }
        }
      }
      // cells sharing a vertex
      std::vector<std::vector<Index>> cav(size_t(B.n[0]));
      for(Index e = 0; e < B.n[dim]; ++e) for(int j = 0; j < B.cnt(dim, 0); ++j) cav[size_t(B.tup(dim, 0, e)[j])].push_back(e);
      auto blocks_ok = [&](const std::vector<Index>& off, const std::string& what) {
        if(off.front() != 0 || off.back() != B.n[dim]) { r.fail("definition." + what + ".offsets", what + " offsets do not span [0, #cells]"); return false; }
        for(size_t i = 0; i + 1 < off.size(); ++i) if(off[i] > off[i + 1]) { r.fail("definition." + what + ".offsets", what + " offsets are not monotone"); return false; }
        return true; };
      // observation (not part of C10, see spec.assumptions): create_colored stores only NC offsets, the closing offset #cells is missing;
      // the last colour block is taken to extend to the end
      std::vector<Index> col = mp.get_element_coloring();
      if(!col.empty() && col.back() != B.n[dim]) col.push_back(B.n[dim]);
      if(o.perm_strategy == int(PermutationStrategy::colored) && col.empty()) r.fail("definition.coloring.missing", "colored strategy without element colouring");
      if(!col.empty() && blocks_ok(col, "coloring"))
      {
        std::vector<size_t> colour(size_t(B.n[dim]));
        for(size_t i = 0; i + 1 < col.size(); ++i) for(Index e = col[i]; e < col[i + 1]; ++e) colour[size_t(e)] = i;
        for(auto& cl : cav) for(Index a : cl) for(Index b : cl) if(a != b && colour[size_t(a)] == colour[size_t(b)])
        { r.fail("definition.coloring", "cells " + vm::str(a) + " and " + vm::str(b) + " share a vertex and have the same colour " + vm::str(colour[size_t(a)])); goto col_done; }
        col_done:
        if(!mesh.validate_element_coloring()) r.fail("definition.coloring.validate", "validate_element_coloring() rejects a valid colouring");
      }
      const std::vector<Index>& lay = mp.get_element_layering();
      if((o.perm_strategy == int(PermutationStrategy::geometric_cuthill_mckee) || o.perm_strategy == int(PermutationStrategy::geometric_cuthill_mckee_reversed)) && lay.empty())
        r.fail("definition.layering.missing", "geometric Cuthill-McKee strategy without element layering");
      if(!lay.empty() && blocks_ok(lay, "layering"))
      {
        std::vector<long> layer(size_t(B.n[dim]));
        for(size_t i = 0; i + 1 < lay.size(); ++i) for(Index e = lay[i]; e < lay[i + 1]; ++e) layer[size_t(e)] = long(i);
        for(auto& cl : cav) for(Index a : cl) for(Index b : cl) if(std::labs(layer[size_t(a)] - layer[size_t(b)]) > 1)
        { r.fail("definition.layering", "cells " + vm::str(a) + " and " + vm::str(b) + " share a vertex but lie in layers " + vm::str(layer[size_t(a)]) + " and " + vm::str(layer[size_t(b)])); goto lay_done; }
        lay_done:
        if(!mesh.validate_element_layering()) r.fail("definition.layering.validate", "validate_element_layering() rejects a valid layering");
      }
      if(o.perm_strategy == int(PermutationStrategy::lexicographic))
      {
        for(int d = 0; d <= dim; ++d)
        {
          std::array<vm::i64, 3> prev = {0, 0, 0};
          for(Index e = 0; e < B.n[d]; ++e)
          {
            std::array<vm::i64, 3> s = {0, 0, 0}; // (z,y,x) sums
            const int nv = (d == 0) ? 1 : B.cnt(d, 0);
            for(int j = 0; j < nv; ++j) { const auto& p = B.vtx[size_t(d == 0 ? e : B.tup(d, 0, e)[j])]; s[0] += p[2]; s[1] += p[1]; s[2] += p[0]; }
            if(e > 0 && s < prev) { r.fail("definition.lexicographic.dim" + vm::str(d), "entities " + vm::str(e - 1) + " and " + vm::str(e) + " of dim " + vm::str(d) + " are not in Z-Y-X order of their barycentres"); break; }
            prev = s;
          }
        }
      }
    }

    static void check_adapt(const NodeType& plain, const NodeType& adapted, vm::Rep& r)
    {
      const MeshType& a = *plain.get_mesh(); const MeshType& b = *adapted.get_mesh();
      vm::PTopo ta, tb; Index na[4] = {0,0,0,0}, nb[4] = {0,0,0,0};
      for(int d = 0; d <= dim; ++d) { na[d] = a.get_num_entities(d); nb[d] = b.get_num_entities(d); }
      vm::extract_topo<Shape_>(ta, a.get_index_set_holder(), na);
      vm::extract_topo<Shape_>(tb, b.get_index_set_holder(), nb);
      for(int d = 0; d <= dim; ++d) if(na[d] != nb[d]) { r.fail("adapt.count", "adaption changed entity counts"); return; }
      for(int d = 1; d <= dim; ++d) for(int f = 0; f < d; ++f) if(ta.idx[d][f] != tb.idx[d][f]) r.fail("adapt.topology", "adaption changed index set <" + vm::str(d) + "," + vm::str(f) + ">");
      // vertices that may move: members of parts with a chart
      std::vector<char> may(size_t(na[0]), 0);
      for(const auto& nm : adapted.get_mesh_part_names())
      {
        const PartType* p = adapted.find_mesh_part(nm);
        if(p == nullptr || adapted.find_mesh_part_chart(nm) == nullptr) continue;
        const auto& ts = p->template get_target_set<0>();
        for(Index i = 0; i < ts.get_num_entities(); ++i) if(ts[i] < na[0]) may[size_t(ts[i])] = 1;
      }
      const auto& va = a.get_vertex_set(); const auto& vb = b.get_vertex_set();
      for(Index i = 0; i < na[0]; ++i) for(int j = 0; j < MeshType::world_dim; ++j)
      {
        if(!may[size_t(i)] && !(va[i][j] == vb[i][j])) { r.fail("adapt.moved-free-vertex", "vertex " + vm::str(i) + " moved although it belongs to no chart-linked mesh part"); return; }
        if(!(vb[i][j] == vb[i][j])) { r.fail("adapt.nan", "vertex " + vm::str(i) + " has NaN coordinates after adaption"); return; }
      }
    }

    // All deduced inputs are built with the real ConformalMesh::deduct_topology_from_top() (incl. the FacetFlipper pass).
    // That pass used to leave a stale edge list on flipped boundary triangles of tetrahedral meshes (fixed in 7c3c29626);
    // tetrahedral inputs are therefore validated first and a relapse is reported under one stable key.
    static constexpr bool use_flipper = true;

    static void run_spec(verif::Ctx& c, const vm::MeshSpec& ms, const Opts& o)
    {
      if(vm::ShapeInfo<Shape_>::simplex && dim == 3 && !ms.explicit_faces && !check_flipper(c, ms)) return;
      std::unique_ptr<MeshType> mesh = vm::build_mesh<MeshType>(ms, use_flipper);
      run_node(c, NodeType::make_unique(std::move(mesh)), o);
    }

    static bool check_flipper(verif::Ctx& c, const vm::MeshSpec& ms)
    {
      std::unique_ptr<MeshType> mesh = vm::build_mesh<MeshType>(ms, true);
      vm::PMesh M; std::string err;
      vm::extract_mesh(M, *mesh, 0, &err);
      vm::Rep r; r.cap = 1000;
      vm::check_topology(M, r, "flipper");
      const bool ok = r.ok();
      bool only21 = true;
      for(auto& x : r.f) if(x.first != "flipper.subentity<2,1>") only21 = false;
      if(!r.ok() && only21 && vm::ShapeInfo<Shape_>::simplex && dim == 3)
        c.fail("tetra deduct_topology_from_top: flipped boundary triangle keeps stale <2,1> (CongruencyMapping<Simplex<2>,1>::flip)", r.f[0].second);
      else flush(c, r, "deduct_topology_from_top:");
      c.count("flipper_checks");
      return ok;
    }

    /// parses a mesh file; vertices are snapped to the lattice 2^-qbits
    static bool run_file(verif::Ctx& c, const std::string& path, const std::vector<std::string>& chart_files, Opts o)
    {
      // attempt 0: the file alone; attempt k: together with the k-th chart-only file of the directory
      for(size_t attempt = 0; attempt <= chart_files.size(); ++attempt)
      {
        try
        {
          std::vector<std::unique_ptr<std::ifstream>> fs;
          MeshFileReader reader;
          if(attempt >= 1) { fs.emplace_back(new std::ifstream(chart_files[attempt - 1])); reader.add_stream(*fs.back()); }
          fs.emplace_back(new std::ifstream(path));
          if(!fs.back()->good()) { c.fail("harness.file-open", "cannot open " + path); return false; }
          reader.add_stream(*fs.back());
          reader.read_root_markup();
          MeshAtlas<MeshType> atlas;
          std::unique_ptr<NodeType> node = NodeType::make_unique(nullptr, &atlas);
          reader.parse(*node, atlas, nullptr);
          auto& vs = node->get_mesh()->get_vertex_set();
          for(Index i = 0; i < vs.get_num_vertices(); ++i) for(int j = 0; j < MeshType::world_dim; ++j)
            vs[i][j] = std::ldexp(std::nearbyint(std::ldexp(double(vs[i][j]), o.qbits)), -o.qbits);
          if(o.perm_strategy != 0) node->get_mesh()->fill_neighbors(); // plain runs refine the node exactly as parsed
          if(attempt > 0) o.adapt_check = false; // charts guessed from another file: adaption is not meaningful
          run_node(c, std::move(node), o);
          return true;
        }
        catch(const std::exception& e)
        {
          if(std::getenv("C10_VERBOSE")) fprintf(stderr, "parse %s attempt %zu: %s\n", path.c_str(), attempt, e.what());
          if(attempt == chart_files.size()) { c.excluded(std::string("mesh file not parseable (missing external charts?): ") + path.substr(path.rfind('/') + 1)); return false; }
        }
      }
      return false;
    }
  };

  struct FileInfo { std::string path, name; bool simplex; int dim; long cells; };

  void scan_files(const std::string& dir, std::vector<FileInfo>& files, std::vector<std::string>& charts)
  {
    std::vector<std::string> names;
    if(DIR* d = opendir(dir.c_str()))
    {
      while(dirent* e = readdir(d)) { std::string n = e->d_name; if(n.size() > 4 && n.substr(n.size() - 4) == ".xml") names.push_back(n); }
      closedir(d);
    }
    std::sort(names.begin(), names.end());
    for(auto& n : names)
    {
      std::ifstream in(dir + "/" + n);
      std::string all((std::istreambuf_iterator<char>(in)), std::istreambuf_iterator<char>());
      size_t p = all.find("<Mesh ");
      if(p == std::string::npos) { if(all.find("<FeatMeshFile") != std::string::npos) charts.push_back(dir + "/" + n); continue; }
      size_t t = all.find("type=\"conformal:", p), s = all.find("size=\"", p);
      if(t == std::string::npos || s == std::string::npos) continue;
      FileInfo fi; fi.path = dir + "/" + n; fi.name = n;
      std::string ty = all.substr(t + 16, all.find('"', t + 16) - t - 16); // e.g. hypercube:2:2
      fi.simplex = ty.compare(0, 7, "simplex") == 0;
      size_t c1 = ty.find(':'); fi.dim = atoi(ty.c_str() + c1 + 1);
      const int wd = atoi(ty.c_str() + ty.find(':', c1 + 1) + 1);
      if(wd != fi.dim) continue;
      std::istringstream sz(all.substr(s + 6, all.find('"', s + 6) - s - 6));
      long v = 0, last = 0; while(sz >> v) last = v;
      fi.cells = last;
      files.push_back(fi);
    }
  }

  using vm::renumber_vertices;

  uint64_t spec_hash(const vm::MeshSpec& ms, const Opts& o)
  {
    verif::Hash h; h.pod(ms.simplex).pod(ms.dim).pod(o.part_variant).pod(o.perm_strategy).pod(o.depth);
    for(auto& v : ms.vtx) h.pod(v);
    for(auto& cl : ms.cells) for(auto x : cl) h.pod(x);
    h.pod(ms.explicit_faces);
    for(auto& cl : ms.edges) for(auto x : cl) h.pod(x);
    for(auto& cl : ms.faces) for(auto x : cl) h.pod(x);
    return h.get();
  }

  template<typename Shape_>
  void do_case(verif::Ctx& c, const vm::MeshSpec& ms, const Opts& o)
  {
    c.desc([&]{ return vm::spec_str(ms) + " depth=" + std::to_string(o.depth) + " parts-variant=" + std::to_string(o.part_variant) + " perm=" + std::to_string(o.perm_strategy); });
    Runner<Shape_>::run_spec(c, ms, o);
    c.nontrivial(spec_hash(ms, o));
  }

  template<typename Shape_>
  void enumerate_shape(verif::Ctx& c, const std::string& shape)
  {
    constexpr int dim = Shape_::dimension;
    const bool sx = vm::ShapeInfo<Shape_>::simplex;
    const std::vector<vm::Sym> G = vm::symmetries(sx, dim);
    std::vector<size_t> rot; for(size_t i = 0; i < G.size(); ++i) if(G[i].sign > 0) rot.push_back(i);
    const int nvar = int(vm::symmetries(sx, dim - 1).size());
    Opts o; o.shape = shape; o.coverage = true;
    o.depth = c.thorough ? 3 : 2;

    // 0: definitions and failure paths (3D only)
    if constexpr(dim == 3)
    {
      // FaceIndexMapping<Shape,2,1>: the k-th edge of local face j of a cell, as local edge number of the cell
      if(c.want())
      {
        c.desc([&]{ return shape + ": FaceIndexMapping<Shape,2,1> against the vertex sets of FaceIndexMapping<Shape,1,0> / <Shape,2,0> / <Face,1,0>"; });
        typedef typename Shape::FaceTraits<Shape_, 2>::ShapeType FaceShape;
        const vm::RefCell& rc = vm::refcell(sx, 3); const vm::RefCell& rf = vm::refcell(sx, 2);
        for(size_t j = 0; j < rc.faces[2].size(); ++j) for(size_t k = 0; k < rf.faces[1].size(); ++k)
        {
          const int le = Geometry::Intern::FaceIndexMapping<Shape_, 2, 1>::map(int(j), int(k));
          std::set<int> want, have;
          for(int q = 0; q < 2; ++q) want.insert(rc.faces[2][j][size_t(rf.faces[1][k][size_t(q)])]);
          bool in_range = (le >= 0 && le < int(rc.faces[1].size()));
          if(in_range) for(int q = 0; q < 2; ++q) have.insert(rc.faces[1][size_t(le)][size_t(q)]);
          c.check(in_range && want == have, "FaceIndexMapping<" + shape + ",2,1> face " + std::to_string(j) + " edge " + std::to_string(k),
            [&]{ return "maps to cell edge " + std::to_string(le) + " which does not join the vertices of that face edge"; });
          // the FEAT tables must agree with the harness' reference cell as well
          for(int q = 0; q < int(rf.nv); ++q) c.check(Geometry::Intern::FaceIndexMapping<Shape_, 2, 0>::map(int(j), q) == rc.faces[2][j][size_t(q)], "FaceIndexMapping<" + shape + ",2,0>", "differs from the harness reference cell");
          for(int q = 0; q < 2; ++q) c.check(Geometry::Intern::FaceIndexMapping<FaceShape, 1, 0>::map(int(k), q) == rf.faces[1][k][size_t(q)], "FaceIndexMapping<face of " + shape + ",1,0>", "differs from the harness reference cell");
        }
        for(size_t e = 0; e < rc.faces[1].size(); ++e) for(int q = 0; q < 2; ++q)
          c.check(Geometry::Intern::FaceIndexMapping<Shape_, 1, 0>::map(int(e), q) == rc.faces[1][e][size_t(q)], "FaceIndexMapping<" + shape + ",1,0>", "differs from the harness reference cell");
        c.nontrivial(verif::Hash().str(shape).str("fim").get());
      }
      // a 3D mesh part with own topology that contains cells is documented as not implemented: refining it must abort,
      // not return a part with unrefined / garbage cell targets
      if(c.want())
      {
        c.desc([&]{ return shape + ": refinement of a 3D mesh part with topology containing a cell must abort (XASSERT 'not implemented')"; });
        vm::MeshSpec ms = vm::gen_pair(sx, 3);
        typedef Runner<Shape_> R;
        const int rc = c.run_forked([&]{
          auto mesh = vm::build_mesh<typename R::MeshType>(ms, true);
          vm::PMesh M; vm::extract_mesh(M, *mesh, 0);
          vm::Rep r; vm::TopoInfo ti; vm::check_topology(M, r, "m", &ti);
          auto node = R::NodeType::make_unique(std::move(mesh));
          vm::PartSpec ps = vm::topo_part(M, ti, {0}, 3, 1, "topocells3d");
          node->add_mesh_part("topocells3d", vm::build_part<typename R::MeshType>(ps, M, 0));
          auto fine = node->refine_unique(AdaptMode::none);
          (void)fine;
        });
        c.check(rc == SIGABRT, "3D topology part with cells: refinement does not abort", [&]{ return "run_forked code " + std::to_string(rc) + ", expected SIGABRT (" + std::to_string(SIGABRT) + ")"; });
        c.nontrivial(verif::Hash().str(shape).str("abort3d").get());
        c.count("expected_aborts_checked");
      }
    }
    // A: single cell, every symmetry, deduced + every explicit orientation variant
    for(size_t g = 0; g < G.size(); ++g) for(int var = -1; var < nvar; ++var)
    {
      if(!c.want()) continue;
      vm::MeshSpec ms = vm::gen_single(sx, dim); ms.name = shape + " single g=" + std::to_string(g);
      vm::renumber_cell(ms, 0, G[g]);
      if(var >= 0) vm::make_explicit(ms, var);
      o.part_variant = int(g) + var + 1;
      do_case<Shape_>(c, ms, o);
    }
    // B: two cells glued along a facet, every pair of symmetries (=> every pair of local facets, every twist)
    for(size_t ga = 0; ga < G.size(); ++ga) for(size_t gb = 0; gb < G.size(); ++gb) for(int mode = 0; mode < 2; ++mode)
    {
      if(!c.want()) continue;
      vm::MeshSpec ms = vm::gen_pair(sx, dim); ms.name = shape + " pair gA=" + std::to_string(ga) + " gB=" + std::to_string(gb);
      vm::renumber_cell(ms, 0, G[ga]); vm::renumber_cell(ms, 1, G[gb]);
      if((ga + gb) % 3 == 1) renumber_vertices(ms, 1);
      if((ga + gb) % 3 == 2) renumber_vertices(ms, 2);
      if((ga * 7 + gb) % 2 == 1) { vm::reorder_cells(ms, 1); ms.name += " cells-swapped"; }
      if((ga + 2 * gb) % 4 == 1) { vm::shift_coords(ms); ms.name += " negative-coords"; }
      if(mode == 1) vm::make_explicit(ms, int((ga * 3 + gb) % size_t(nvar * 2)));
      o.part_variant = int(ga * 5 + gb + size_t(mode));
      if(!c.thorough && dim == 3 && !sx) o.depth = 1 + mode; else o.depth = c.thorough ? 3 : 2;
      do_case<Shape_>(c, ms, o);
    }
    o.depth = c.thorough ? 3 : 2;
    // C: stars of 3..5 cells around a vertex (2D) / an edge (3D)
    for(int n = 3; n <= 5; ++n)
    {
      // which cells run over which symmetry set
      const bool full3 = (dim == 2) || c.thorough;
      const int nfree = full3 ? (n == 3 || dim == 2 ? n : 2) : 2;
      const std::vector<size_t>* sets[2] = {&rot, nullptr};
      std::vector<size_t> all(G.size()); for(size_t i = 0; i < G.size(); ++i) all[i] = i;
      sets[1] = &all;
      for(int withrefl = 0; withrefl < 2; ++withrefl)
      {
        if(withrefl == 1 && !(n == 3 && (dim == 2 || c.thorough))) continue;
        if(dim == 3 && n > 3 && !c.thorough) continue;
        const std::vector<size_t>& S = *sets[withrefl];
        const int nfree_here = (withrefl == 1 && dim == 3) ? 2 : nfree; // 3D with reflections: two free cells
        size_t total = 1; for(int i = 0; i < nfree_here; ++i) total *= S.size();
        for(size_t code = 0; code < total; ++code)
        {
          if(!c.want()) continue;
          vm::MeshSpec ms = vm::gen_star(sx, dim, n);
          size_t q = code; std::string gs;
          for(int i = 0; i < n; ++i)
          {
            size_t gi = (i < nfree_here) ? S[q % S.size()] : rot[(size_t(i) * 7) % rot.size()];
            if(i < nfree_here) q /= S.size();
            vm::renumber_cell(ms, size_t(i), G[gi]); gs += (i ? "," : "") + std::to_string(gi);
          }
          ms.name = shape + " star" + std::to_string(n) + " g=(" + gs + ")";
          vm::reorder_cells(ms, int(code % 3));
          if(code % 7 == 3) vm::shift_coords(ms);
          if(code % 4 == 3) vm::make_explicit(ms, int(code % size_t(nvar * 2)));
          if(code % 5 == 2) renumber_vertices(ms, 1);
          o.part_variant = int(code % 97);
          o.depth = (dim == 3 ? (c.thorough ? 2 : 1) : (c.thorough ? 3 : 2));
          do_case<Shape_>(c, ms, o);
        }
      }
    }
    o.depth = c.thorough ? 3 : 2;
    // D: blocks with vertex renumberings and every mesh permutation strategy
    {
      std::vector<vm::MeshSpec> blocks;
      if(!sx) { blocks.push_back(vm::gen_block(dim, 2, 2, 2)); blocks.push_back(vm::gen_block(dim, 3, 2, 1)); }
      else { blocks.push_back(vm::gen_simplex_block(dim, 2, 2, 1)); blocks.push_back(vm::gen_simplex_block(dim, 1, 1, 1)); }
      for(size_t b = 0; b < blocks.size(); ++b) for(int rn = 0; rn < 3; ++rn) for(int strat = 0; strat <= int(PermutationStrategy::geometric_cuthill_mckee_reversed); ++strat) for(int ex = 0; ex < 2; ++ex)
      {
        if(!c.want()) continue;
        vm::MeshSpec ms = blocks[b];
        renumber_vertices(ms, rn);
        vm::reorder_cells(ms, (rn + strat) % 3);
        if(ex == 1 && rn == 1) vm::shift_coords(ms);
        ms.name = shape + " " + ms.name + " renumber=" + std::to_string(rn) + " cellorder=" + std::to_string((rn + strat) % 3);
        if(ex) vm::make_explicit(ms, rn + strat);
        o.part_variant = rn * 11 + strat + ex;
        o.perm_strategy = strat;
        o.custom_perm = (rn + ex + int(b)) % 3;
        o.depth = (dim == 3) ? (c.thorough ? 2 : 1) : (c.thorough ? 3 : 2);
        do_case<Shape_>(c, ms, o);
      }
      o.perm_strategy = 0;
    }
  }

  /// unusual but legal shape: 1D meshes (chains of 1..4 edges, every orientation pattern, 3 vertex numberings)
  template<typename Shape_>
  void enumerate_1d(verif::Ctx& c, const std::string& shape)
  {
    Opts o; o.shape = shape; o.coverage = false;
    for(int n = 1; n <= 4; ++n) for(int flips = 0; flips < (1 << n); ++flips) for(int rn = 0; rn < 3; ++rn)
    {
      if(!c.want()) continue;
      vm::MeshSpec ms; ms.simplex = vm::ShapeInfo<Shape_>::simplex; ms.dim = 1; ms.name = shape + " chain" + std::to_string(n) + " flips=" + std::to_string(flips) + " renumber=" + std::to_string(rn);
      for(int i = 0; i <= n; ++i) ms.vtx.push_back({8 * i + vm::wob(i, 1) - (rn == 2 ? 100 : 0), 0, 0});
      for(int i = 0; i < n; ++i) { if((flips >> i) & 1) ms.cells.push_back({Index(i + 1), Index(i)}); else ms.cells.push_back({Index(i), Index(i + 1)}); }
      renumber_vertices(ms, rn);
      vm::reorder_cells(ms, (flips + rn) % 3);
      o.depth = c.thorough ? 3 : 2;
      o.part_variant = flips + rn;
      do_case<Shape_>(c, ms, o);
    }
  }

  template<typename Shape_>
  void enumerate_files(verif::Ctx& c, const std::vector<FileInfo>& files, const std::vector<std::string>& charts)
  {
    for(const auto& fi : files)
    {
      if(fi.simplex != vm::ShapeInfo<Shape_>::simplex || fi.dim != Shape_::dimension) continue;
      for(int strat = 0; strat < 2; ++strat)
      {
        Opts o; o.qbits = 16; o.adapt_check = (strat == 0); o.file = fi.name;
        o.perm_strategy = strat ? int(PermutationStrategy::cuthill_mckee) : 0;
        const long lim2 = c.thorough ? 2000 : 150;
        const long lim3 = c.thorough ? 100 : 0;
        if(fi.cells > 2000) { if(strat == 0 && c.want()) { c.desc([&]{ return "file " + fi.name + " skipped (>2000 cells)"; }); c.excluded("mesh file with more than 2000 cells: " + fi.name); } continue; }
        if(strat == 1 && fi.cells > (c.thorough ? 2000 : 400)) continue;
        o.depth = fi.cells <= lim3 ? 3 : (fi.cells <= lim2 ? 2 : 1);
        if(!c.want()) continue;
        c.desc([&]{ return "file " + fi.name + " cells=" + std::to_string(fi.cells) + " depth=" + std::to_string(o.depth) + " perm=" + std::to_string(o.perm_strategy) + " (vertices snapped to 2^-16)"; });
        if(Runner<Shape_>::run_file(c, fi.path, charts, o))
          c.nontrivial(verif::Hash().str(fi.name).pod(o.depth).pod(o.perm_strategy).get());
        c.count("mesh_files_processed");
      }
    }
  }
}

int main(int argc, char** argv)
{
  Runtime::ScopeGuard guard(argc, argv);
  verif::Spec spec; spec.property = "C10"; spec.harness = "c10_refine";
  spec.rule = "cases = (mesh, local numbering of every cell, explicit/deduced edge+face orientation variant, attached mesh parts variant, "
    "permutation strategy, refinement depth); every case refines a real mesh through RootMeshNode::refine_unique and is non-trivial; "
    "hash = vertex coordinates + all index sets given + variants (files: name, depth, strategy)";
  spec.bounds_quick = "quad/tria/hexa/tetra: 1 cell x all symmetries x (deduced + every explicit orientation variant); 2 glued cells x all pairs of "
    "symmetries (incl. reflections) x {deduced, explicit}; 2D stars of 3-5 cells (all rotations per cell, n=3 also reflections), 3D stars of 3 cells "
    "(two cells over all rotations); 2x2(x2), 3x2(x1) blocks and simplex blocks x 3 vertex numberings x 8 permutation strategies x {deduced, explicit}; "
    "every shipped mesh file <= 2000 cells (depth 1, <= 150 cells depth 2) plain and (<= 400 cells) after Cuthill-McKee permutation; depth 2 (3D pairs 1-2, 3D stars/blocks 1)";
  spec.bounds_thorough = "as quick with depth 3 (3D stars/blocks 2), 3D stars of 3 cells over all rotations^3 and (two free cells) with reflections, 3D stars of 4-5 cells (two free cells); "
    "mesh files depth 2 (<= 100 cells depth 3), permutation for all files";
  spec.assumptions = {
    "reference cell numbering (local faces of a cell) is the harness' own formula; FaceIndexMapping is not consulted",
    "vertex coordinates are integers (generated) or snapped to the lattice 2^-16 (files) so that midpoints, volumes and Jacobian signs are exact in integer arithmetic",
    "hexahedron orientation is sampled at the 27 Simpson nodes (vertices, edge/face/cell midpoints); the volume integral is exact",
    "AdaptMode::none for all invariants; chart adaption is only checked not to alter topology or vertices outside chart-linked parts",
    "3D mesh parts with own topology that contain cells are excluded (documented as not implemented in StandardTargetRefiner)",
    "mesh files > 2000 cells and files that need charts from other files which cannot be resolved are excluded (listed in counters)",
    "not part of C10, recorded as observations in DESIGN.md (patches in spec/proposed_fixes, not applied): MeshPermutation::create_colored stores NC instead of NC+1 colour offsets (the harness closes the last block itself); "
    "a second compile() of the same (Global)MaskedBoundaryFactory appends every boundary entity again (the harness uses a fresh factory and one compile() per check)",
    "out of scope: bytes()/name() (statistics, printing), StructuredMesh wrappers in factory.hpp / mesh_part.hpp (TargetSetRefineParentWrapper<StructuredMesh>), EICKT extern templates; "
    "RootMeshNode::extract_patch and the patch/halo factories belong to C12"};
  spec.deadline_quick_s = 900;
  spec.case_timeout_s = 300;
  std::vector<FileInfo> files; std::vector<std::string> charts;
  const char* vr = std::getenv("VERIF_REPO");
  scan_files(std::string(vr ? vr : "/repo") + "/data/meshes", files, charts);
  return verif::run(spec, argc, argv, [&](verif::Ctx& c) {
    enumerate_shape<Shape::Hypercube<2>>(c, "quad");
    enumerate_shape<Shape::Simplex<2>>(c, "tria");
    enumerate_shape<Shape::Simplex<3>>(c, "tetra");
    enumerate_shape<Shape::Hypercube<3>>(c, "hexa");
    enumerate_1d<Shape::Hypercube<1>>(c, "edge");
    enumerate_1d<Shape::Simplex<1>>(c, "simplex-edge");
    enumerate_files<Shape::Hypercube<2>>(c, files, charts);
    enumerate_files<Shape::Simplex<2>>(c, files, charts);
    enumerate_files<Shape::Simplex<3>>(c, files, charts);
    enumerate_files<Shape::Hypercube<3>>(c, files, charts);
  });
}
