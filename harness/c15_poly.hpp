// c15_poly.hpp -- harness-owned exact-ish polynomial calculus (long double, sparse), shared by the C15 and C16
// harnesses. Nothing in here calls FEAT numerical kernels: it is the independent oracle.
//
//  * Poly<D>: sparse multivariate polynomial in D variables (D = 1,2,3)
//  * algebra: +, -, *, scalar, partial derivative, evaluation, composition with a D-tuple of polynomials
//  * exact integrals of monomials over the FEAT reference cells: simplex {x_i >= 0, sum <= 1} and cube [-1,1]^D
#pragma once
#include <array>
#include <cmath>
#include <cstdio>
#include <functional>
#include <map>
#include <string>
#include <vector>

namespace c15
{
  typedef long double LD;

  template<int D>
  struct Poly
  {
    typedef std::array<int, D> Exp;
    std::map<Exp, LD> c;

    Poly() {}
    explicit Poly(LD a) { if(a != LD(0)) { Exp e; e.fill(0); c[e] = a; } }

    static Poly var(int k) { Poly p; Exp e; e.fill(0); e[(size_t)k] = 1; p.c[e] = LD(1); return p; }
    static Poly monomial(const Exp& e, LD a = LD(1)) { Poly p; if(a != LD(0)) p.c[e] = a; return p; }

    bool is_zero() const { return c.empty(); }

    void add_term(const Exp& e, LD a)
    {
      if(a == LD(0)) return;
      auto it = c.find(e);
      if(it == c.end()) c[e] = a;
      else { it->second += a; if(it->second == LD(0)) c.erase(it); }
    }

    Poly& operator+=(const Poly& o) { for(auto& t : o.c) add_term(t.first, t.second); return *this; }
    Poly& operator-=(const Poly& o) { for(auto& t : o.c) add_term(t.first, -t.second); return *this; }
    Poly& operator*=(LD a) { if(a == LD(0)) c.clear(); else for(auto& t : c) t.second *= a; return *this; }
    Poly operator+(const Poly& o) const { Poly r(*this); r += o; return r; }
    Poly operator-(const Poly& o) const { Poly r(*this); r -= o; return r; }
    Poly operator*(LD a) const { Poly r(*this); r *= a; return r; }
    Poly operator*(const Poly& o) const
    {
      Poly r;
      for(auto& s : c) for(auto& t : o.c)
      {
        Exp e;
        for(int k = 0; k < D; ++k) e[(size_t)k] = s.first[(size_t)k] + t.first[(size_t)k];
        r.add_term(e, s.second * t.second);
      }
      return r;
    }

    /// partial derivative with respect to variable k
    Poly diff(int k) const
    {
      Poly r;
      for(auto& t : c)
      {
        int a = t.first[(size_t)k];
        if(a == 0) continue;
        Exp e = t.first; e[(size_t)k] = a - 1;
        r.add_term(e, t.second * LD(a));
      }
      return r;
    }

    template<typename P_>
    LD eval(const P_& x) const
    {
      LD s = 0;
      for(auto& t : c)
      {
        LD m = t.second;
        for(int k = 0; k < D; ++k)
        {
          LD xv = LD(x[(size_t)k]);
          for(int i = 0; i < t.first[(size_t)k]; ++i) m *= xv;
        }
        s += m;
      }
      return s;
    }

    /// sum of |terms| at x: a scale for rounding tolerances
    template<typename P_>
    LD eval_abs(const P_& x) const
    {
      LD s = 0;
      for(auto& t : c)
      {
        LD m = std::fabs(t.second);
        for(int k = 0; k < D; ++k)
        {
          LD xv = std::fabs(LD(x[(size_t)k]));
          for(int i = 0; i < t.first[(size_t)k]; ++i) m *= xv;
        }
        s += m;
      }
      return s;
    }

    int degree() const
    {
      int d = 0;
      for(auto& t : c) { int s = 0; for(int k = 0; k < D; ++k) s += t.first[(size_t)k]; if(s > d) d = s; }
      return d;
    }

    int degree_in(int k) const
    {
      int d = 0;
      for(auto& t : c) if(t.first[(size_t)k] > d) d = t.first[(size_t)k];
      return d;
    }

    /// composition: this(g_0(y), ..., g_{D-1}(y)) where g_k are polynomials in E variables
    template<int E>
    Poly<E> compose(const std::array<Poly<E>, D>& g) const
    {
      // power tables
      int maxdeg[D];
      for(int k = 0; k < D; ++k) maxdeg[k] = degree_in(k);
      std::vector<Poly<E>> pw[D];
      for(int k = 0; k < D; ++k)
      {
        pw[k].push_back(Poly<E>(LD(1)));
        for(int i = 1; i <= maxdeg[k]; ++i) pw[k].push_back(pw[k].back() * g[(size_t)k]);
      }
      Poly<E> r;
      for(auto& t : c)
      {
        Poly<E> m(t.second);
        for(int k = 0; k < D; ++k) if(t.first[(size_t)k] > 0) m = m * pw[k][(size_t)t.first[(size_t)k]];
        r += m;
      }
      return r;
    }

    std::string str() const
    {
      static const char* vn[3] = {"x", "y", "z"};
      if(c.empty()) return "0";
      std::string s;
      for(auto& t : c)
      {
        char b[64]; snprintf(b, sizeof b, "%+.6Lg", t.second);
        s += b;
        for(int k = 0; k < D; ++k) if(t.first[(size_t)k] > 0) { s += "*"; s += vn[k]; if(t.first[(size_t)k] > 1) s += "^" + std::to_string(t.first[(size_t)k]); }
      }
      return s;
    }
  };

  inline LD factorial(int n) { LD f = 1; for(int i = 2; i <= n; ++i) f *= LD(i); return f; }

  /// integral of x^a over the reference simplex {x_i >= 0, sum x_i <= 1}: prod a_i! / (D + sum a_i)!
  template<int D>
  LD integrate_ref_simplex(const Poly<D>& p)
  {
    LD s = 0;
    for(auto& t : p.c)
    {
      LD num = 1; int tot = D;
      for(int k = 0; k < D; ++k) { num *= factorial(t.first[(size_t)k]); tot += t.first[(size_t)k]; }
      s += t.second * num / factorial(tot);
    }
    return s;
  }

  /// integral of x^a over [-1,1]^D: prod (1+(-1)^a_i)/(a_i+1)
  template<int D>
  LD integrate_ref_cube(const Poly<D>& p)
  {
    LD s = 0;
    for(auto& t : p.c)
    {
      LD m = t.second;
      for(int k = 0; k < D; ++k)
      {
        int a = t.first[(size_t)k];
        if(a & 1) { m = 0; break; }
        m *= LD(2) / LD(a + 1);
      }
      s += m;
    }
    return s;
  }

  /// all exponent tuples with total degree <= k (graded order, simplest first)
  template<int D>
  std::vector<std::array<int, D>> exps_total_degree(int k)
  {
    std::vector<std::array<int, D>> r;
    for(int tot = 0; tot <= k; ++tot)
    {
      std::array<int, D> e;
      // odometer over exponents with sum == tot
      std::function<void(int, int)> rec = [&](int pos, int rest)
      {
        if(pos == D - 1) { e[(size_t)pos] = rest; r.push_back(e); return; }
        for(int a = rest; a >= 0; --a) { e[(size_t)pos] = a; rec(pos + 1, rest - a); }
      };
      rec(0, tot);
    }
    return r;
  }

  /// all exponent tuples with per-variable degree <= k
  template<int D>
  std::vector<std::array<int, D>> exps_max_degree(int k)
  {
    std::vector<std::array<int, D>> r;
    int n = 1; for(int i = 0; i < D; ++i) n *= (k + 1);
    for(int idx = 0; idx < n; ++idx)
    {
      std::array<int, D> e; int t = idx;
      for(int i = 0; i < D; ++i) { e[(size_t)i] = t % (k + 1); t /= (k + 1); }
      r.push_back(e);
    }
    return r;
  }

  /// small dense linear algebra in long double (Gaussian elimination with partial pivoting); returns false if singular
  inline bool solve_dense(std::vector<LD>& A, std::vector<LD>& b, int n, int nrhs)
  {
    // A is n x n row-major, b is n x nrhs row-major; solution overwrites b
    for(int col = 0; col < n; ++col)
    {
      int piv = col; LD best = std::fabs(A[(size_t)(col * n + col)]);
      for(int r = col + 1; r < n; ++r) { LD v = std::fabs(A[(size_t)(r * n + col)]); if(v > best) { best = v; piv = r; } }
      if(best < LD(1e-30)) return false;
      if(piv != col)
      {
        for(int k = 0; k < n; ++k) std::swap(A[(size_t)(col * n + k)], A[(size_t)(piv * n + k)]);
        for(int k = 0; k < nrhs; ++k) std::swap(b[(size_t)(col * nrhs + k)], b[(size_t)(piv * nrhs + k)]);
      }
      LD d = A[(size_t)(col * n + col)];
      for(int r = col + 1; r < n; ++r)
      {
        LD f = A[(size_t)(r * n + col)] / d;
        if(f == LD(0)) continue;
        for(int k = col; k < n; ++k) A[(size_t)(r * n + k)] -= f * A[(size_t)(col * n + k)];
        for(int k = 0; k < nrhs; ++k) b[(size_t)(r * nrhs + k)] -= f * b[(size_t)(col * nrhs + k)];
      }
    }
    for(int col = n - 1; col >= 0; --col)
    {
      LD d = A[(size_t)(col * n + col)];
      for(int k = 0; k < nrhs; ++k)
      {
        LD s = b[(size_t)(col * nrhs + k)];
        for(int j = col + 1; j < n; ++j) s -= A[(size_t)(col * n + j)] * b[(size_t)(j * nrhs + k)];
        b[(size_t)(col * nrhs + k)] = s / d;
      }
    }
    return true;
  }
} // namespace c15
