// C18, generic inter-mesh transfer and the failure path of the grid transfer assembly:
//   GridTransfer::assemble_intermesh_transfer(_direct), transfer_intermesh_vector(_direct)  (kernel/assembly/grid_transfer.hpp)
//   GridTransfer::LocalMassMatrixSingularException (all assembly routines)
//   the structured variant of Geometry::Intern::CoarseFineCellMapping
//   named refined cubature rules ("refine:<rule>", kernel/cubature/refine_factory.hpp) as cubature of the 2-level routines
//
// Oracles (independent of GridTransfer): the target-to-source cell adjactor and the matrix pattern are built by the harness
// from geometry (own Newton point location) and the dof mappings. (A) target = refined mesh, source = its parent: the
// transfer of a coarse function is the same function -> geometric lattice oracle of c18_common.hpp; (B) target = source
// (a second, differently permuted copy of the mesh): the same function, checked through the dof coordinates-free route
// M*e_j evaluated on the lattice as well; (C) target = coarse, source = fine: M_cf * P = I (the L2 projection of a coarse
// function is the function itself, for any cubature rule); matrix-free transfer = M*v for a value alphabet; weight vectors
// are cell counts. Singular local mass matrices (degenerate cell, too few cubature points) must raise the documented exception.
#include <c18_common.hpp>
#include <kernel/geometry/structured_mesh.hpp>
#include <kernel/geometry/intern/coarse_fine_cell_mapping.hpp>
#include <kernel/adjacency/graph.hpp>

// GridTransfer::transfer_intermesh_vector_direct did not compile on the pinned tree (it called a non-existing overload of its own
// name, see spec/proposed_fixes/C18-intermesh-vector-direct-does-not-compile.patch). Decision: not repaired, recorded as observation -
// a member that cannot be instantiated has no behaviour. The guarded branch below is DEAD on the pinned tree and stays disabled.
#ifndef C18_HAVE_INTERMESH_VECTOR_DIRECT
#define C18_HAVE_INTERMESH_VECTOR_DIRECT 0
#endif

namespace
{
  /// for every cell of the target trafo: the cells of the source trafo that contain its barycentre (own Newton inversion)
  template<typename Mesh_, typename Trafo_>
  std::vector<std::vector<Index>> locate(const Trafo_& trafo_t, const Trafo_& trafo_s, bool& ok)
  {
    typedef typename Mesh_::ShapeType ShapeType;
    static constexpr int dim = ShapeType::dimension;
    typedef typename Trafo_::template Evaluator<ShapeType, DataType>::Type TrafoEval;
    static constexpr TrafoTags cfg = TrafoTags::img_point | TrafoTags::jac_mat | TrafoTags::jac_inv | TrafoTags::jac_det | TrafoTags::dom_point;
    typedef typename TrafoEval::template ConfigTraits<cfg>::EvalDataType TrafoData;
    typedef typename TrafoEval::DomainPointType DomPoint;
    typedef typename TrafoEval::ImagePointType ImgPoint;
    TrafoEval te_t(trafo_t), te_s(trafo_s);
    TrafoData td;
    const Index nt = trafo_t.get_mesh().get_num_entities(dim), ns = trafo_s.get_mesh().get_num_entities(dim);
    std::vector<ImgPoint> sb((size_t(ns))); std::vector<double> sr(size_t(ns), 0.0);
    const std::vector<DomPoint> corners = RefCell<ShapeType>::template lattice<DomPoint>(1);
    for(Index sc = 0; sc < ns; ++sc)
    {
      te_s.prepare(sc);
      DomPoint xb; for(int k = 0; k < dim; ++k) xb[k] = RefCell<ShapeType>::center();
      te_s(td, xb); sb[size_t(sc)] = td.img_point;
      for(const DomPoint& q : corners) { te_s(td, q); double r2 = 0.0; for(int k = 0; k < dim; ++k) { const double d = td.img_point[k] - sb[size_t(sc)][k]; r2 += d * d; } sr[size_t(sc)] = std::max(sr[size_t(sc)], std::sqrt(r2)); }
      te_s.finish();
    }
    std::vector<std::vector<Index>> res((size_t(nt)));
    ok = true;
    for(Index tc = 0; tc < nt; ++tc)
    {
      te_t.prepare(tc);
      DomPoint xb; for(int k = 0; k < dim; ++k) xb[k] = RefCell<ShapeType>::center();
      te_t(td, xb);
      const ImgPoint bary = td.img_point;
      te_t.finish();
      for(Index sc = 0; sc < ns; ++sc)
      {
        double d2 = 0.0; for(int k = 0; k < dim; ++k) { const double d = bary[k] - sb[size_t(sc)][k]; d2 += d * d; }
        if(std::sqrt(d2) > 1.5 * sr[size_t(sc)] * (1.0 + 1e-12)) continue;
        te_s.prepare(sc);
        DomPoint xi; for(int k = 0; k < dim; ++k) xi[k] = RefCell<ShapeType>::center();
        double resn = 1e300;
        for(int it = 0; it < 40; ++it)
        {
          te_s(td, xi);
          ImgPoint r; resn = 0.0;
          for(int k = 0; k < dim; ++k) { r[k] = bary[k] - td.img_point[k]; resn = std::max(resn, std::fabs(r[k])); }
          resn /= sr[size_t(sc)];
          if(resn < 1e-14) break;
          for(int a = 0; a < dim; ++a) { double s = 0.0; for(int b = 0; b < dim; ++b) s += td.jac_inv[a][b] * r[b]; xi[a] += s; }
          bool sane = true; for(int a = 0; a < dim; ++a) if(!(std::fabs(xi[a]) < 1e3)) sane = false;
          if(!sane) { resn = 1e300; break; }
        }
        te_s.finish();
        if(resn < 1e-10 && RefCell<ShapeType>::inside(xi, 1e-6)) res[size_t(tc)].push_back(sc);
      }
      if(res[size_t(tc)].size() != 1) ok = false;
    }
    return res;
  }

  Adjacency::Graph make_graph(const std::vector<std::vector<Index>>& adj, Index n_image)
  {
    std::vector<Index> ptr(1, Index(0)), idx;
    for(auto& a : adj) { for(Index x : a) idx.push_back(x); ptr.push_back(Index(idx.size())); }
    if(idx.empty()) idx.push_back(0);
    return Adjacency::Graph(Index(adj.size()), n_image, Index(ptr.back()), ptr.data(), idx.data());
  }

  /// matrix pattern: dofs of every target cell x dofs of its adjacent source cells (built from the dof mappings only)
  template<typename Space_>
  MatrixType make_pattern(const Space_& st, const Space_& ss, const std::vector<std::vector<Index>>& adj)
  {
    typename Space_::DofMappingType dt(st), ds(ss);
    std::vector<std::set<Index>> rows((size_t(st.get_num_dofs())));
    for(size_t tc = 0; tc < adj.size(); ++tc)
    {
      dt.prepare(Index(tc));
      for(Index sc : adj[tc])
      {
        ds.prepare(sc);
        for(int i = 0; i < dt.get_num_local_dofs(); ++i) for(int j = 0; j < ds.get_num_local_dofs(); ++j) rows[size_t(dt.get_index(i))].insert(ds.get_index(j));
        ds.finish();
      }
      dt.finish();
    }
    Index nnz = 0; for(auto& r : rows) nnz += Index(r.size());
    LAFEM::DenseVector<Index, Index> col(nnz), rp(Index(rows.size() + 1));
    VectorType val(nnz, 0.0);
    Index k = 0;
    for(size_t i = 0; i < rows.size(); ++i) { rp(Index(i), k); for(Index j : rows[i]) col(k++, j); }
    rp(Index(rows.size()), k);
    return MatrixType(st.get_num_dofs(), ss.get_num_dofs(), col, val, rp);
  }

  std::vector<std::pair<std::string, std::vector<double>>> alphabet(Index n)
  {
    std::vector<std::pair<std::string, std::vector<double>>> r;
    auto dense = [&](double sc) { std::vector<double> v((size_t(n)), 0.0); for(Index j = 0; j < n; ++j) v[size_t(j)] = sc * (double(int((j * 5u + 3u) % 11u) - 5) / 4.0 + 0.125); return v; };
    r.push_back(std::make_pair(std::string("dense"), dense(1.0)));
    r.push_back(std::make_pair(std::string("zero"), std::vector<double>((size_t(n)), 0.0)));
    { std::vector<double> v((size_t(n)), 0.0); v[0] = 1.0; r.push_back(std::make_pair(std::string("e_first"), v)); }
    { std::vector<double> v((size_t(n)), 0.0); v[size_t(n / 2)] = 1.0; r.push_back(std::make_pair(std::string("e_middle"), v)); }
    { std::vector<double> v((size_t(n)), 0.0); v[size_t(n - 1)] = 1.0; r.push_back(std::make_pair(std::string("e_last"), v)); }
    { std::vector<double> v((size_t(n)), 0.0); for(Index j = 0; j < n; ++j) v[size_t(j)] = -double(1 + (j % 4)) / 4.0; r.push_back(std::make_pair(std::string("all-negative"), v)); }
    r.push_back(std::make_pair(std::string("dense*2^400"), dense(std::ldexp(1.0, 400))));
    r.push_back(std::make_pair(std::string("dense*2^-900"), dense(std::ldexp(1.0, -900))));
    return r;
  }

  template<typename Mesh_, template<typename> class Element_>
  struct InterChecker
  {
    typedef typename Mesh_::ShapeType ShapeType;
    static constexpr int dim = ShapeType::dimension;
    typedef Trafo::Standard::Mapping<Mesh_> TrafoType;
    typedef Element_<TrafoType> SpaceType;

    /// one (target, source) pair: assembles M, checks weights, failed points, matrix-free variants; returns M
    static MatrixType transfer(verif::Ctx& c, const std::string& key, const std::string& what, const SpaceType& st, const SpaceType& ss,
      const std::vector<std::vector<Index>>& adj, const String& cub, bool vectors)
    {
      const Index nt = st.get_num_dofs(), ns = ss.get_num_dofs();
      Adjacency::Graph t2s = make_graph(adj, ss.get_trafo().get_mesh().get_num_entities(dim));
      MatrixType m = make_pattern(st, ss, adj);
      // weight route and direct route
      MatrixType mw = m.clone(LAFEM::CloneMode::Deep);
      VectorType w(nt, 0.0);
      mw.format();
      const int f1 = Assembly::GridTransfer::assemble_intermesh_transfer(mw, w, st, ss, t2s, cub);
      // expected weights: number of target cells per target dof
      std::vector<double> cnt((size_t(nt)), 0.0);
      { typename SpaceType::DofMappingType dm(st); for(size_t tc = 0; tc < adj.size(); ++tc) { dm.prepare(Index(tc)); for(int i = 0; i < dm.get_num_local_dofs(); ++i) cnt[size_t(dm.get_index(i))] += 1.0; dm.finish(); } }
      bool w_ok = true; for(Index i = 0; i < nt; ++i) if(!(w(i) == cnt[size_t(i)])) w_ok = false;
      c.check(w_ok, "assemble_intermesh_transfer: weight vector is not the number of target cells per dof; " + what + "; " + key, "weight entry differs from the cell count");
      w.component_invert(w);
      mw.scale_rows(mw, w);
      m.format(777.0); // the direct routine formats its target
      const int f2 = Assembly::GridTransfer::assemble_intermesh_transfer_direct(m, st, ss, t2s, cub);
      c.check(f1 == 0 && f2 == 0, "assemble_intermesh_transfer: cubature points reported as not unmapped; " + what + "; " + key, [&]{ return std::to_string(f1) + " / " + std::to_string(f2) + " failed points although every target cell lies in its source cells"; });
      const Csr M(m), MW(mw);
      c.check(csr_equal(M, MW), "assemble_intermesh_transfer_direct differs from assemble_intermesh_transfer + weights; " + what + "; " + key, "the two routes give different matrices (or marker values survived)");
      bool fin = true; for(double v : M.va) if(!std::isfinite(v)) fin = false;
      c.check(fin, "assemble_intermesh_transfer: non-finite matrix entry; " + what + "; " + key, "NaN/Inf in the transfer matrix");
      if(vectors)
      {
        double worst = 0.0, worst_w = 0.0, worst_d = 0.0; std::string wn;
        for(auto& tv : alphabet(ns))
        {
          VectorType vs(ns), vt(nt, 0.0), vw(nt, 0.0), vd(nt, 0.0);
          double vmag = 0.0;
          for(Index j = 0; j < ns; ++j) { vs(j, tv.second[size_t(j)]); vmag = std::max(vmag, std::fabs(tv.second[size_t(j)])); }
          const int g1 = Assembly::GridTransfer::transfer_intermesh_vector(vt, vw, vs, st, ss, t2s, cub);
          std::vector<double> y, ya;
          M.apply(y, ya, tv.second);
          for(Index i = 0; i < nt; ++i)
          {
            if(!(vw(i) == cnt[size_t(i)])) worst_w = 1.0;
            const double e = std::fabs(vt(i) / cnt[size_t(i)] - y[size_t(i)]) / (std::max(ya[size_t(i)], vmag) + 1e-300);
            if(!(e <= worst)) { worst = e; wn = tv.first; }
          }
          if(g1 != 0) worst_w = 1.0;
#if C18_HAVE_INTERMESH_VECTOR_DIRECT
          // (target documented as "assumed to be allocated and formatted to 0")
          vd.format();
          const int g2 = Assembly::GridTransfer::transfer_intermesh_vector_direct(vd, vs, st, ss, t2s, cub);
          if(g2 != 0) worst_w = 1.0;
          for(Index i = 0; i < nt; ++i) { const double e = std::fabs(vd(i) - y[size_t(i)]) / (std::max(ya[size_t(i)], vmag) + 1e-300); if(!(e <= worst_d)) { worst_d = e; wn = tv.first; } }
#endif
          for(Index j = 0; j < ns; ++j) if(!(vs(j) == tv.second[size_t(j)])) worst_w = 1.0;
          c.count("matrix_free_transfers");
        }
        c.check(worst <= 1e-12, "transfer_intermesh_vector differs from the assembled matrix; " + what + "; " + key, [&]{ char b[120]; snprintf(b, sizeof b, "relative difference %.3e (%s vector)", worst, wn.c_str()); return std::string(b); });
        c.check(worst_d <= 1e-12, "transfer_intermesh_vector_direct differs from the assembled matrix; " + what + "; " + key, [&]{ char b[120]; snprintf(b, sizeof b, "relative difference %.3e (%s vector)", worst_d, wn.c_str()); return std::string(b); });
        c.check(worst_w == 0.0, "transfer_intermesh_vector: weight vector / failed points / input vector; " + what + "; " + key, "weight is not the cell count, points failed, or the source vector was modified");
      }
      c.count("intermesh_matrices");
      return m;
    }

    static void run(verif::Ctx& c, Mesh_& mesh_c, Mesh_& mesh_f, Mesh_& mesh_f2, int degree, const std::string& key, bool vectors)
    {
      TrafoType trafo_c(mesh_c), trafo_f(mesh_f), trafo_f2(mesh_f2);
      SpaceType space_c(trafo_c), space_f(trafo_f), space_f2(trafo_f2);
      const String cub_a = "auto-degree:" + stringify(2 * degree + 2);
      const String cub_r = std::is_same<ShapeType, Shape::Hypercube<dim>>::value ? String("refine:gauss-legendre:" + stringify(degree + 1)) : String("refine:auto-degree:" + stringify(std::max(2 * degree, 1)));
      bool ok1 = true, ok2 = true, ok3 = true;
      const auto f2c = locate<Mesh_>(trafo_f, trafo_c, ok1);
      std::vector<std::vector<Index>> c2f((size_t(mesh_c.get_num_entities(dim))));
      for(size_t fc = 0; fc < f2c.size(); ++fc) for(Index cc : f2c[fc]) c2f[size_t(cc)].push_back(Index(fc));
      const auto f2f = locate<Mesh_>(trafo_f, trafo_f2, ok2); // same mesh, other numbering
      c.check(ok1 && ok2 && ok3, "geometric cell location (harness oracle); " + key, "a target cell barycentre lies in no or several source cells");
      if(!(ok1 && ok2)) return;

      // prolongation by the 2-level routine (judged by c18_transfer) for comparison, also with a named refined cubature rule
      MatrixType prol;
      Assembly::SymbolicAssembler::assemble_matrix_2lvl(prol, space_f, space_c);
      Assembly::GridTransfer::assemble_prolongation_direct(prol, space_f, space_c, cub_a);
      const Csr P(prol);
      {
        MatrixType pr = prol.clone(LAFEM::CloneMode::Layout);
        Assembly::GridTransfer::assemble_prolongation_direct(pr, space_f, space_c, cub_r);
        bool pk = true; uint64_t np = 0;
        const double e = geo_exactness<Mesh_, SpaceType>(space_f, space_c, degree, Csr(pr), pk, np);
        c.check(pk && e <= 2e-11, "prolongation with a named refined cubature rule not exact on the coarse space; " + key, [&]{ char b[160]; snprintf(b, sizeof b, "max error %.3e, cubature %s", e, cub_r.c_str()); return std::string(b); });
        MatrixType tr = prol.transpose();
        Assembly::GridTransfer::assemble_truncation_direct(tr, space_f, space_c, cub_r);
        const double et = tp_identity_error(Csr(tr), P);
        c.check(et <= 2e-10, "truncation with a named refined cubature rule is not a left inverse; " + key, [&]{ char b[160]; snprintf(b, sizeof b, "max |(T*P-I)_ij| = %.3e, cubature %s", et, cub_r.c_str()); return std::string(b); });
      }

      // (A) fine <- coarse: the same function
      {
        MatrixType m = transfer(c, key, "fine<-coarse", space_f, space_c, f2c, cub_a, vectors);
        const Csr M(m);
        bool pk = true; uint64_t np = 0;
        const double e = geo_exactness<Mesh_, SpaceType>(space_f, space_c, degree, M, pk, np);
        c.count("lattice_points", np);
        c.check(pk && e <= 2e-11, "inter-mesh transfer onto the refined mesh does not reproduce the coarse functions; " + key, [&]{ char b[160]; snprintf(b, sizeof b, "max |(M e_j)(x) - phi_j(x)| = %.3e", e); return std::string(b); });
        // and it agrees with the 2-level prolongation
        double d = 0.0;
        for(Index i = 0; i < P.m; ++i) { for(Index k = P.rp[i]; k < P.rp[i + 1]; ++k) d = std::max(d, std::fabs(P.va[k] - M(i, P.ci[k]))); for(Index k = M.rp[i]; k < M.rp[i + 1]; ++k) d = std::max(d, std::fabs(M.va[k] - P(i, M.ci[k]))); }
        c.check(d <= 1e-11, "inter-mesh transfer differs from the 2-level prolongation; " + key, [&]{ char b[100]; snprintf(b, sizeof b, "max entry difference %.3e", d); return std::string(b); });
        // with the refined rule name as well
        MatrixType m2 = transfer(c, key, "fine<-coarse, refined cubature name", space_f, space_c, f2c, cub_r, false);
        const double e2 = geo_exactness<Mesh_, SpaceType>(space_f, space_c, degree, Csr(m2), pk, np);
        c.check(e2 <= 2e-11, "inter-mesh transfer (named refined cubature rule) does not reproduce the coarse functions; " + key, [&]{ char b[160]; snprintf(b, sizeof b, "max error %.3e", e2); return std::string(b); });
      }
      // (B) the same mesh in another numbering: M is the dof renumbering, (M e_j) is again the function phi_j -> transfer chain
      //     fine2 <- fine <- coarse must reproduce the coarse functions on fine2
      {
        std::vector<std::vector<Index>> f22f((size_t(f2f.size())));
        for(size_t a = 0; a < f2f.size(); ++a) for(Index b : f2f[a]) f22f[size_t(b)].push_back(Index(a));
        MatrixType m = transfer(c, key, "same mesh, other numbering", space_f2, space_f, f22f, cub_a, vectors);
        const Csr M(m);
        // every row holds exactly one 1 (up to rounding) and the product M*P is the prolongation onto fine2
        double rs = 0.0; for(Index i = 0; i < M.m; ++i) { double s = 0.0, mx = 0.0; for(Index k = M.rp[i]; k < M.rp[i + 1]; ++k) { s += M.va[k]; mx = std::max(mx, std::fabs(M.va[k])); } rs = std::max(rs, std::max(std::fabs(s - 1.0), std::fabs(mx - 1.0))); }
        c.check(rs <= 1e-11, "inter-mesh transfer between two numberings of one mesh is not a dof renumbering; " + key, [&]{ char b[100]; snprintf(b, sizeof b, "max |row sum - 1|, |row max - 1| = %.3e", rs); return std::string(b); });
        // M*P as CSR (dense accumulation per row)
        MatrixType mp = make_pattern(space_f2, space_c, locate<Mesh_>(trafo_f2, trafo_c, ok3));
        { double* v = mp.val(); const Index* rp = mp.row_ptr(); const Index* ci = mp.col_ind();
          std::vector<double> acc((size_t(P.n)), 0.0);
          for(Index i = 0; i < M.m; ++i)
          {
            for(Index k = M.rp[i]; k < M.rp[i + 1]; ++k) for(Index q = P.rp[M.ci[k]]; q < P.rp[M.ci[k] + 1]; ++q) acc[size_t(P.ci[q])] += M.va[k] * P.va[q];
            for(Index k = rp[i]; k < rp[i + 1]; ++k) { v[k] = acc[size_t(ci[k])]; acc[size_t(ci[k])] = 0.0; }
            double rest = 0.0; for(Index k = M.rp[i]; k < M.rp[i + 1]; ++k) for(Index q = P.rp[M.ci[k]]; q < P.rp[M.ci[k] + 1]; ++q) { rest = std::max(rest, std::fabs(acc[size_t(P.ci[q])])); acc[size_t(P.ci[q])] = 0.0; }
            if(rest > 1e-11) ok3 = false; // contribution outside the geometric pattern
          } }
        bool pk = true; uint64_t np = 0;
        const double e = geo_exactness<Mesh_, SpaceType>(space_f2, space_c, degree, Csr(mp), pk, np);
        c.check(ok3 && pk && e <= 4e-11, "inter-mesh transfer between two numberings of one mesh does not carry the functions; " + key, [&]{ char b[160]; snprintf(b, sizeof b, "max error of (M*P e_j) against phi_j on the renumbered mesh %.3e", e); return std::string(b); });
      }
      // (C) coarse <- fine: a left inverse of the prolongation
      {
        MatrixType m = transfer(c, key, "coarse<-fine", space_c, space_f, c2f, cub_a, vectors);
        const double e = tp_identity_error(Csr(m), P);
        c.check(e <= 2e-10, "inter-mesh transfer coarse<-fine is not a left inverse of the prolongation; " + key, [&]{ char b[100]; snprintf(b, sizeof b, "max |(M*P - I)_ij| = %.3e", e); return std::string(b); });
      }
    }

    /// singular local mass matrices must raise GridTransfer::LocalMassMatrixSingularException in every routine
    static void singular(verif::Ctx& c, Mesh_& mesh_c, Mesh_& mesh_f, int degree, const std::string& key, bool degenerate)
    {
      TrafoType trafo_c(mesh_c), trafo_f(mesh_f);
      SpaceType space_c(trafo_c), space_f(trafo_f);
      // degenerate: the meshes carry a cell of zero volume, regular cubature; else: one cubature point for a space with >= 2 local dofs
      const String cub = degenerate ? String("auto-degree:" + stringify(2 * degree + 2)) : String("barycentre");
      MatrixType prol; Assembly::SymbolicAssembler::assemble_matrix_2lvl(prol, space_f, space_c);
      MatrixType trunc = prol.transpose();
      std::vector<std::vector<Index>> adj((size_t(mesh_f.get_num_entities(dim))));
      for(size_t i = 0; i < adj.size(); ++i) for(Index cc = 0; cc < mesh_c.get_num_entities(dim); ++cc) adj[i].push_back(cc);
      Adjacency::Graph t2s = make_graph(adj, mesh_c.get_num_entities(dim));
      auto expect = [&](const char* name, const std::function<void()>& f) {
        int outcome = 0; // 1 = the documented exception, 2 = another exception, 0 = returned
        try { f(); } catch(const Assembly::GridTransfer::LocalMassMatrixSingularException&) { outcome = 1; } catch(...) { outcome = 2; }
        c.check(outcome == 1, std::string(name) + " does not raise LocalMassMatrixSingularException for a singular local mass matrix; " + key, [&]{ return std::string(outcome == 0 ? "returned normally" : "raised another exception"); });
        c.count("singular_mass_matrix_calls");
      };
      expect("assemble_prolongation_direct", [&]{ Assembly::GridTransfer::assemble_prolongation_direct(prol, space_f, space_c, cub); });
      expect("assemble_truncation_direct", [&]{ Assembly::GridTransfer::assemble_truncation_direct(trunc, space_f, space_c, cub); });
      expect("prolongate_vector_direct", [&]{ VectorType vc(space_c.get_num_dofs(), 1.0), vf(space_f.get_num_dofs(), 0.0); Assembly::GridTransfer::prolongate_vector_direct(vf, vc, space_f, space_c, cub); });
      if(!degenerate)
      {
        bool ok = true; const auto f2c = locate<Mesh_>(trafo_f, trafo_c, ok);
        if(ok)
        {
          Adjacency::Graph g = make_graph(f2c, mesh_c.get_num_entities(dim));
          MatrixType m = make_pattern(space_f, space_c, f2c);
          expect("assemble_intermesh_transfer_direct", [&]{ Assembly::GridTransfer::assemble_intermesh_transfer_direct(m, space_f, space_c, g, cub); });
        }
      }
      (void)t2s;
    }
  };

  struct ElemDesc { const char* name; int degree; bool needs_parallelogram; };

  template<typename Mesh_, template<typename> class Element_>
  void enumerate(verif::Ctx& c, const ElemDesc& E, bool hypercube)
  {
    typedef Sources<Mesh_> Src;
    const int ng = pair_group_size<Mesh_>();
    const int npairs = (Mesh_::shape_dim >= 2) ? ng : ng * ng;
    static const int PS[4] = {0, 1, 2, 7}; static const int PW[4] = {0, 0, 1, 2};
    for(int src = 0; src < Src::count() + npairs; ++src)
    for(int dist = 0; dist < 2; ++dist)
    for(int ref = 0; ref < 2; ++ref)
    for(int pq = 0; pq < 4; ++pq)
    {
      const int ps = PS[pq], pw = PW[pq];
      const bool is_pair = src >= Src::count();
      int g1 = 0, g2 = 0;
      if(is_pair) { const int q = src - Src::count(); if(Mesh_::shape_dim >= 2) g2 = q; else { g1 = q / ng; g2 = q % ng; } }
      const std::string sname = is_pair ? (std::string(Src::tag()) + "-pair(g" + std::to_string(g1) + ",g" + std::to_string(g2) + ")") : std::string(Src::name(src));
      const bool multi = is_pair || (ref > 0) || sname.find("orient") == std::string::npos;
      if(ps > 0 && !multi) continue;
      if(is_pair && !(dist == 0 && ref == 0 && ps == 0) && !(c.thorough && ps == 0 && ref == 0)) continue;
      if(is_pair && Mesh_::shape_dim == 3 && !c.thorough && g2 % 4 != 0) continue;
      if(Mesh_::shape_dim == 3 && (ref > 0 || (src == 3 && E.degree >= 2)) && !c.thorough) continue;
      if(Mesh_::shape_dim == 3 && E.degree >= 2 && (ref > 0 || ps > 0)) continue;
      if(dist == 1 && ps > 0 && !(ps == 7)) continue;
      if(!c.want()) continue;
      const std::string key = std::string(E.name) + " " + sname + (dist == 1 ? " distorted" : "") + " ref" + std::to_string(ref) + " perm=" + PERM_NAMES[ps] + (ps ? (pw == 0 ? "(coarse)" : pw == 1 ? "(fine)" : "(both)") : "");
      c.desc([&]{ return key; });
      if(dist == 1 && hypercube && E.needs_parallelogram) { c.excluded("parametric discontinuous P_k on non-parallelogram hypercube cells is not nested"); continue; }
      std::unique_ptr<Mesh_> mc = is_pair ? pair_mesh<Mesh_>(g1, g2) : Src::make(src);
      if(dist == 1) distort(*mc);
      for(int r = 0; r < ref; ++r) { Geometry::StandardRefinery<Mesh_> rr(*mc); std::unique_ptr<Mesh_> nx(new Mesh_(rr)); mc = std::move(nx); }
      Geometry::StandardRefinery<Mesh_> rf(*mc);
      Mesh_ mf(rf);
      Mesh_ mf2(rf); // second copy of the fine mesh, always in another numbering if it has more than one cell
      mf2.create_permutation(Geometry::PermutationStrategy::random);
      if(ps > 0)
      {
        if(pw == 0 || pw == 2) mc->create_permutation(PERMS[ps]);
        if(pw == 1 || pw == 2) mf.create_permutation(PERMS[ps]);
      }
      InterChecker<Mesh_, Element_>::run(c, *mc, mf, mf2, E.degree, key, (ps == 0 || ps == 7));
      c.nontrivial(verif::Hash().str(key).get());
      c.outcome(std::string(Src::tag()) + " " + E.name);
    }
  }

  /// singular-mass cases for one element: degenerate cell (all vertices of the first coarse cell collapsed), one-point cubature
  template<typename Mesh_, template<typename> class Element_>
  void enumerate_singular(verif::Ctx& c, const ElemDesc& E)
  {
    typedef Sources<Mesh_> Src;
    for(int mode = 0; mode < 2; ++mode)
    {
      if(!c.want()) continue;
      const std::string key = std::string(E.name) + " " + Src::tag() + (mode == 0 ? " degenerate cell" : " one-point cubature");
      c.desc([&]{ return key; });
      std::unique_ptr<Mesh_> mc = unit_cube<Mesh_>(Mesh_::shape_dim == 1 ? 1 : 0);
      if(mode == 0)
      {
        // collapse the whole first cell into one point (zero Jacobian everywhere in the cell and in all of its children)
        auto& vtx = mc->get_vertex_set();
        const auto& idx = mc->template get_index_set<Mesh_::shape_dim, 0>();
        for(int i = 1; i < idx.num_indices; ++i) for(int k = 0; k < Mesh_::world_dim; ++k) vtx[idx[0][i]][k] = vtx[idx[0][0]][k];
      }
      Geometry::StandardRefinery<Mesh_> rf(*mc);
      Mesh_ mf(rf);
      InterChecker<Mesh_, Element_>::singular(c, *mc, mf, E.degree, key, mode == 0);
      c.nontrivial(verif::Hash().str(key).get());
      c.outcome("singular");
    }
  }

  /// structured variant of CoarseFineCellMapping against geometry: child `ch` of coarse cell `cc` lies inside it, all children distinct
  template<int dim_>
  void structured_mapping(verif::Ctx& c, const Index ns[3])
  {
    typedef Geometry::StructuredMesh<dim_, dim_, double> SM;
    if(!c.want()) return;
    const std::string key = "structured " + std::to_string(dim_) + "D " + std::to_string(ns[0]) + "x" + std::to_string(ns[1]) + "x" + std::to_string(ns[2]);
    c.desc([&]{ return key; });
    Geometry::StructUnitCubeFactory<SM> f0(ns[0], ns[1], ns[2]);
    SM mc(f0);
    Geometry::StandardRefinery<SM> rf(mc);
    SM mf(rf);
    Geometry::Intern::CoarseFineCellMapping<SM, SM> map(mf, mc);
    const Index ncc = mc.get_num_entities(dim_), nfc = mf.get_num_entities(dim_);
    c.check(map.get_num_children() == Index(1 << dim_) && map.get_num_nodes_domain() == ncc && map.get_num_nodes_image() == nfc, "structured CoarseFineCellMapping sizes; " + key, "number of children / nodes wrong");
    auto box = [&](const SM& m, Index cell, double lo[3], double hi[3]) {
      const auto& idx = m.template get_index_set<dim_, 0>();
      const auto& vtx = m.get_vertex_set();
      for(int k = 0; k < dim_; ++k) { lo[k] = 1e300; hi[k] = -1e300; }
      for(int i = 0; i < (1 << dim_); ++i) for(int k = 0; k < dim_; ++k) { lo[k] = std::min(lo[k], double(vtx[idx(cell, i)][k])); hi[k] = std::max(hi[k], double(vtx[idx(cell, i)][k])); } };
    std::vector<int> hit((size_t(nfc)), 0);
    bool inside = true, iter_ok = true, order_ok = true;
    for(Index cc = 0; cc < ncc; ++cc)
    {
      double clo[3], chi[3]; box(mc, cc, clo, chi);
      std::set<Index> kids;
      for(Index ch = 0; ch < map.get_num_children(); ++ch)
      {
        const Index fc = map.calc_fcell(cc, ch);
        if(!(fc < nfc)) { inside = false; continue; }
        ++hit[size_t(fc)]; kids.insert(fc);
        double flo[3], fhi[3]; box(mf, fc, flo, fhi);
        for(int k = 0; k < dim_; ++k)
        {
          if(!(flo[k] >= clo[k] - 1e-12 && fhi[k] <= chi[k] + 1e-12)) inside = false;
          // child numbering: bit k of the child index selects the upper half in direction k
          const bool upper = 0.5 * (flo[k] + fhi[k]) > 0.5 * (clo[k] + chi[k]);
          if(upper != bool((ch >> k) & 1)) order_ok = false;
        }
      }
      std::set<Index> it_kids; Index cnt = 0;
      for(auto it = map.image_begin(cc); it != map.image_end(cc) && cnt < 100; ++it, ++cnt) it_kids.insert(*it);
      if(it_kids != kids || cnt != map.get_num_children()) iter_ok = false;
    }
    bool once = true; for(int h : hit) if(h != 1) once = false;
    c.check(inside, "structured CoarseFineCellMapping: child cell not inside its coarse cell; " + key, "calc_fcell points outside the parent");
    c.check(order_ok, "structured CoarseFineCellMapping: child order is not lexicographic (x fastest); " + key, "child index bits do not select the halves in x,y,z");
    c.check(once, "structured CoarseFineCellMapping: fine cells not covered exactly once; " + key, "a fine cell is the child of no or several coarse cells");
    c.check(iter_ok, "structured CoarseFineCellMapping: image iterator differs from calc_fcell; " + key, "image_begin..image_end does not enumerate the children");
    c.nontrivial(verif::Hash().str(key).get());
    c.outcome("structured mapping");
    c.count("structured_mappings");
  }
} // namespace

int main(int argc, char** argv)
{
  Runtime::ScopeGuard guard(argc, argv);
  verif::Spec spec; spec.property = "C18"; spec.harness = "c18_intermesh";
  spec.rule = "case = (element, coarse mesh source incl. orientation pairs, distortion, level pair, permutation variant): inter-mesh transfer matrices fine<-coarse "
    "(geometric lattice oracle, = 2-level prolongation), fine(renumbered)<-fine (dof renumbering carrying the functions), coarse<-fine (left inverse of P), each by the weight "
    "route and the direct route, matrix-free transfer_intermesh_vector on an 8-vector value alphabet, weight vectors = cell counts, named refined cubature rules; plus "
    "singular-mass-matrix cases (degenerate cell, one-point cubature) for every routine and structured CoarseFineCellMapping cases. Every executed case is non-trivial, hashed by its key";
  spec.bounds_quick = "Lagrange1-3, Discontinuous P0/P1, Bernstein2 on line/quad/tria meshes and Lagrange1/2, Discontinuous P0 on hexa/tetra meshes of c18_transfer (orientations, tetris/patch/big, unit cubes, "
    "orientation pairs (id,g)); pairs (M,RM),(RM,RRM) in 1D/2D, (M,RM) in 3D; permutations none/lexi(coarse)/colored(fine)/random(both), the renumbered copy always random; structured meshes 1D/2D/3D up to 5x4x3 slices";
  spec.bounds_thorough = "as quick plus all orientation pairs distorted and all 3D pairs incl. second level pairs for degree 1";
  spec.assumptions = {
    "target-to-source adjactor and matrix pattern are built by the harness from geometry and dof mappings (SymbolicAssembler::assemble_matrix_intermesh is not used: C16)",
    "adjactors are given in the current (permuted) cell numbering, as GridTransfer documents",
    "FEAT space evaluators / dof mappings are trusted (C15); Trafo::InverseMapping is part of the code under test here",
    "OpenMP parallel execution of the inter-mesh routines is not explored (plain variant: one thread)", "GridTransfer::transfer_intermesh_vector_direct does not compile when instantiated (calls a non-existing overload of its own name); recorded as observation (spec/proposed_fixes/C18-intermesh-vector-direct-does-not-compile.patch, not applied), the guarded call stays disabled (C18_HAVE_INTERMESH_VECTOR_DIRECT = 0)",
    "tolerances: exactness 2e-11 (4e-11 through the renumbering chain), left inverse 2e-10, matrix-free 1e-12 relative to max(|terms|, |v|); route comparisons bitwise"};

  static const ElemDesc L1 = {"Lagrange1", 1, false}, L2 = {"Lagrange2", 2, false}, L3 = {"Lagrange3", 3, false},
    D0 = {"Discontinuous-P0", 0, false}, D1 = {"Discontinuous-P1", 1, true}, B2 = {"Bernstein2", 2, false};

  return verif::run(spec, argc, argv, [&](verif::Ctx& c) {
    // structured coarse-fine cell mapping
    for(Index nx = 1; nx <= 5; nx += 2) { const Index ns[3] = {nx, 0, 0}; structured_mapping<1>(c, ns); }
    for(Index nx = 1; nx <= 5; nx += 2) for(Index ny = 1; ny <= 4; ++ny) { const Index ns[3] = {nx, ny, 0}; structured_mapping<2>(c, ns); }
    for(Index nx = 1; nx <= 5; nx += 2) for(Index ny = 1; ny <= 4; ny += 3) for(Index nz = 1; nz <= 3; ++nz) { const Index ns[3] = {nx, ny, nz}; structured_mapping<3>(c, ns); }
    // singular local mass matrices
    enumerate_singular<Mesh1D, ElL1>(c, L1);
    enumerate_singular<MeshQ, ElL1>(c, L1);
    enumerate_singular<MeshQ, ElL2>(c, L2);
    enumerate_singular<MeshT, ElL1>(c, L1);
    enumerate_singular<MeshT, ElD1>(c, D1);
    enumerate_singular<MeshH, ElL1>(c, L1);
    enumerate_singular<MeshS, ElL1>(c, L1);
    // inter-mesh transfers
    enumerate<Mesh1D, ElL1>(c, L1, true);
    enumerate<Mesh1D, ElL2>(c, L2, true);
    enumerate<Mesh1D, ElL3>(c, L3, true);
    enumerate<Mesh1D, ElD1>(c, D1, true);
    enumerate<MeshQ, ElL1>(c, L1, true);
    enumerate<MeshQ, ElL2>(c, L2, true);
    enumerate<MeshQ, ElL3>(c, L3, true);
    enumerate<MeshQ, ElD0>(c, D0, true);
    enumerate<MeshQ, ElD1>(c, D1, true);
    enumerate<MeshQ, ElB2>(c, B2, true);
    enumerate<MeshT, ElL1>(c, L1, false);
    enumerate<MeshT, ElL2>(c, L2, false);
    enumerate<MeshT, ElL3>(c, L3, false);
    enumerate<MeshT, ElD1>(c, D1, false);
    enumerate<MeshH, ElL1>(c, L1, true);
    enumerate<MeshH, ElL2>(c, L2, true);
    enumerate<MeshH, ElD0>(c, D0, true);
    enumerate<MeshS, ElL1>(c, L1, false);
    enumerate<MeshS, ElL2>(c, L2, false);
  });
}
