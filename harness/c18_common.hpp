// Shared helpers of the C18 harnesses (c18_transfer, c18_asm): CSR view, identities of derived transfer objects,
// reference cell lattices, mesh sources (test_aux orientations, tetris/patch/big meshes, unit cubes, orientation pairs),
// vertex distortions, permutation strategy table, and the geometric exactness oracle.
#pragma once
#include <verif.hpp>
#include <kernel/runtime.hpp>
#include <kernel/geometry/conformal_mesh.hpp>
#include <kernel/geometry/structured_mesh.hpp>
#include <kernel/geometry/common_factories.hpp>
#include <kernel/geometry/mesh_permutation.hpp>
#include <kernel/geometry/test_aux/standard_quad.hpp>
#include <kernel/geometry/test_aux/standard_tria.hpp>
#include <kernel/geometry/test_aux/standard_hexa.hpp>
#include <kernel/geometry/test_aux/standard_tetra.hpp>
#include <kernel/geometry/test_aux/tetris_quad.hpp>
#include <kernel/geometry/test_aux/tetris_hexa.hpp>
#include <kernel/trafo/standard/mapping.hpp>
#include <kernel/space/lagrange1/element.hpp>
#include <kernel/space/lagrange2/element.hpp>
#include <kernel/space/lagrange3/element.hpp>
#include <kernel/space/discontinuous/element.hpp>
#include <kernel/space/bernstein2/element.hpp>
#include <kernel/cubature/dynamic_factory.hpp>
#include <kernel/assembly/symbolic_assembler.hpp>
#include <kernel/assembly/grid_transfer.hpp>
#include <kernel/lafem/dense_vector.hpp>
#include <kernel/lafem/sparse_matrix_csr.hpp>
#include <kernel/lafem/transfer.hpp>
#include <kernel/lafem/vector_mirror.hpp>
#include <kernel/global/gate.hpp>
#include <kernel/global/muxer.hpp>
#include <kernel/global/vector.hpp>
#include <kernel/global/transfer.hpp>
#include <algorithm>
#include <cmath>
#include <memory>
#include <set>

using namespace FEAT;

namespace
{
  typedef double DataType;
  typedef LAFEM::DenseVector<DataType, Index> VectorType;
  typedef LAFEM::SparseMatrixCSR<DataType, Index> MatrixType;

  // ------------------------------------------------------------------------------------------ elements
  template<typename T_> using ElL1 = Space::Lagrange1::Element<T_>;
  template<typename T_> using ElL2 = Space::Lagrange2::Element<T_>;
  template<typename T_> using ElL3 = Space::Lagrange3::Element<T_>;
  template<typename T_> using ElD0 = Space::Discontinuous::Element<T_, Space::Discontinuous::Variant::StdPolyP<0>>;
  template<typename T_> using ElD1 = Space::Discontinuous::Element<T_, Space::Discontinuous::Variant::StdPolyP<1>>;
  template<typename T_> using ElB2 = Space::Bernstein2::Element<T_>;

  /// read-only view of a CSR matrix (own copy of the arrays; duplicate column entries of a row are summed)
  struct Csr
  {
    Index m = 0, n = 0;
    std::vector<Index> rp, ci;
    std::vector<double> va;
    template<typename DT_, typename IT_>
    explicit Csr(const LAFEM::SparseMatrixCSR<DT_, IT_>& a) : m(a.rows()), n(a.columns()), rp(size_t(a.rows()) + 1, Index(0))
    {
      if(a.used_elements() == 0) return;
      for(Index i = 0; i <= m; ++i) rp[size_t(i)] = Index(a.row_ptr()[i]);
      ci.resize(size_t(a.used_elements())); va.resize(size_t(a.used_elements()));
      for(Index k = 0; k < a.used_elements(); ++k) { ci[size_t(k)] = Index(a.col_ind()[k]); va[size_t(k)] = double(a.val()[k]); }
    }
    double operator()(Index i, Index j) const { double s = 0.0; for(Index k = rp[i]; k < rp[i + 1]; ++k) if(ci[k] == j) s += va[k]; return s; }
    bool stored(Index i, Index j) const { for(Index k = rp[i]; k < rp[i + 1]; ++k) if(ci[k] == j) return true; return false; }
    size_t nnz() const { return va.size(); }
    /// y = A*x and the sum of absolute values of the terms
    void apply(std::vector<double>& y, std::vector<double>& ya, const std::vector<double>& x) const
    {
      y.assign(size_t(m), 0.0); ya.assign(size_t(m), 0.0);
      for(Index i = 0; i < m; ++i) for(Index k = rp[i]; k < rp[i + 1]; ++k) { const double t = va[k] * x[size_t(ci[k])]; y[size_t(i)] += t; ya[size_t(i)] += std::fabs(t); }
    }
    void apply_t(std::vector<double>& y, std::vector<double>& ya, const std::vector<double>& x) const
    {
      y.assign(size_t(n), 0.0); ya.assign(size_t(n), 0.0);
      for(Index i = 0; i < m; ++i) for(Index k = rp[i]; k < rp[i + 1]; ++k) { const double t = va[k] * x[size_t(i)]; y[size_t(ci[k])] += t; ya[size_t(ci[k])] += std::fabs(t); }
    }
  };

  // ------------------------------------------------------------------------------------------ identities of a (derived) transfer object
  /// Checks that an object derived from the assembled transfer (clone / convert / move / global wrapper) still carries the
  /// matrices P, P^T, T (entry-wise, after the narrowing cast to its data type) and applies exactly them.
  /// fp(fine, coarse) = prol, fr(fine, coarse) = rest, ft(fine, coarse) = trunc on local vectors of the object's types.
  template<typename MT_, typename FP_, typename FR_, typename FT_>
  void check_derived(verif::Ctx& c, const std::string& key, const std::string& oname, const MT_& mp, const MT_& mr, const MT_& mt,
    FP_&& fp, FR_&& fr, FT_&& ft, const Csr& P, const Csr& R, const Csr& T, int level)
  {
    typedef typename MT_::DataType DT;
    typedef typename MT_::IndexType IT;
    typedef LAFEM::DenseVector<DT, IT> VT;
    const Index nf = P.m, nc = P.n;
    const bool have_values = (level >= 2);
    auto same = [&](const MT_& x, const Csr& S) {
      if(x.rows() != S.m || x.columns() != S.n || size_t(x.used_elements()) != S.nnz()) return false;
      if(level < 1) return true; // CloneMode::Allocate: only the sizes are defined
      const Csr X(x);
      if(X.rp != S.rp || X.ci != S.ci) return false;
      if(have_values) for(size_t k = 0; k < S.va.size(); ++k) if(!(X.va[k] == double(DT(S.va[k])))) return false;
      return true; };
    c.check(same(mp, P), "derived transfer object: prolongation matrix differs from the source; " + oname + "; " + key, "mat_prol: dimensions, layout or an entry differ");
    c.check(same(mr, R), "derived transfer object: restriction matrix differs from the source; " + oname + "; " + key, "mat_rest: dimensions, layout or an entry differ");
    c.check(same(mt, T), "derived transfer object: truncation matrix differs from the source; " + oname + "; " + key, "mat_trunc: dimensions, layout or an entry differ");
    c.count("derived_transfer_objects");
    if(!have_values) return;
    const double eps = double(Math::eps<DT>());
    std::vector<double> xc((size_t(nc)), 0.0), xd((size_t(nf)), 0.0), y, ya;
    VT vc(nc), vf(nf), dual(nf), rc(nc), tc(nc);
    for(Index j = 0; j < nc; ++j) { xc[size_t(j)] = double(int((j * 5u + 3u) % 11u) - 5) / 4.0; vc(j, DT(xc[size_t(j)])); }
    for(Index i = 0; i < nf; ++i) { xd[size_t(i)] = double(int((i * 7u + 1u) % 13u) - 6) / 8.0; dual(i, DT(xd[size_t(i)])); }
    vf.format(DT(77)); rc.format(DT(77)); tc.format(DT(77));
    fp(vf, vc); fr(dual, rc); ft(vf, tc);
    double wp = 0.0, wr = 0.0, wt = 0.0, wtp = 0.0;
    P.apply(y, ya, xc);
    for(Index i = 0; i < nf; ++i) { const double e = std::fabs(double(vf(i)) - y[size_t(i)]) / (ya[size_t(i)] + 1e-300); if(!(e <= wp)) wp = e; }
    std::vector<double> xf((size_t(nf)), 0.0); for(Index i = 0; i < nf; ++i) xf[size_t(i)] = double(vf(i));
    P.apply_t(y, ya, xd);
    for(Index j = 0; j < nc; ++j) { const double e = std::fabs(double(rc(j)) - y[size_t(j)]) / (ya[size_t(j)] + 1e-300); if(!(e <= wr)) wr = e; }
    T.apply(y, ya, xf);
    for(Index j = 0; j < nc; ++j) { const double e = std::fabs(double(tc(j)) - y[size_t(j)]) / (ya[size_t(j)] + 1e-300); if(!(e <= wt)) wt = e; }
    for(Index j = 0; j < nc; ++j) { const double e = std::fabs(double(tc(j)) - xc[size_t(j)]); if(!(e <= wtp)) wtp = e; }
    const double tol = 64.0 * eps, tolid = std::max(1e-10, 2048.0 * eps);
    c.check(wp <= tol, "derived transfer object: prol differs from P*v; " + oname + "; " + key, [&]{ char b[100]; snprintf(b, sizeof b, "relative difference %.3e", wp); return std::string(b); });
    c.check(wr <= tol, "derived transfer object: rest differs from P^T*v; " + oname + "; " + key, [&]{ char b[100]; snprintf(b, sizeof b, "relative difference %.3e", wr); return std::string(b); });
    c.check(wt <= tol, "derived transfer object: trunc differs from T*v; " + oname + "; " + key, [&]{ char b[100]; snprintf(b, sizeof b, "relative difference %.3e", wt); return std::string(b); });
    c.check(wtp <= tolid, "derived transfer object: trunc(prol(x)) != x; " + oname + "; " + key, [&]{ char b[100]; snprintf(b, sizeof b, "max difference %.3e", wtp); return std::string(b); });
  }

  template<typename TR_>
  void check_local(verif::Ctx& c, const std::string& key, const std::string& oname, const TR_& x, const Csr& P, const Csr& R, const Csr& T, int level = 2)
  {
    typedef typename TR_::VectorType VT;
    c.check(!x.is_ghost(), "derived transfer object: is_ghost; " + oname + "; " + key, "local transfer claims to be a ghost operator");
    check_derived(c, key, oname, x.get_mat_prol(), x.get_mat_rest(), x.get_mat_trunc(),
      [&](VT& f, const VT& cc) { x.prol(f, cc); }, [&](const VT& f, VT& cc) { x.rest(f, cc); }, [&](const VT& f, VT& cc) { x.trunc(f, cc); }, P, R, T, level);
  }

  template<typename GT_>
  void check_global(verif::Ctx& c, const std::string& key, const std::string& oname, const GT_& x, const Csr& P, const Csr& R, const Csr& T, int level = 2)
  {
    typedef typename GT_::VectorType GV;
    typedef typename GT_::LocalVectorType VT;
    c.check(!x.is_ghost(), "derived transfer object: is_ghost; " + oname + "; " + key, "serial global transfer claims to be a ghost operator");
    const auto& l = x._transfer;
    check_derived(c, key, oname, l.get_mat_prol(), l.get_mat_rest(), l.get_mat_trunc(),
      [&](VT& f, const VT& cc) { GV gf(nullptr, f.clone(LAFEM::CloneMode::Shallow)), gc(nullptr, cc.clone(LAFEM::CloneMode::Shallow)); x.prol(gf, gc); },
      [&](const VT& f, VT& cc) { GV gf(nullptr, f.clone(LAFEM::CloneMode::Shallow)), gc(nullptr, cc.clone(LAFEM::CloneMode::Shallow)); x.rest(gf, gc); },
      [&](const VT& f, VT& cc) { GV gf(nullptr, f.clone(LAFEM::CloneMode::Shallow)), gc(nullptr, cc.clone(LAFEM::CloneMode::Shallow)); x.trunc(gf, gc); }, P, R, T, level);
  }

  // ------------------------------------------------------------------------------------------ reference cell helpers
  template<typename Shape_> struct RefCell;
  template<int dim_> struct RefCell<Shape::Hypercube<dim_>>
  {
    static double center() { return 0.0; }
    template<typename P_> static bool inside(const P_& p, double margin) { for(int i = 0; i < dim_; ++i) if(!(std::fabs(p[i]) <= 1.0 - margin)) return false; return true; }
    /// all lattice points with m intervals per direction
    template<typename P_> static std::vector<P_> lattice(int m)
    {
      std::vector<P_> r; int tot = 1; for(int i = 0; i < dim_; ++i) tot *= (m + 1);
      for(int code = 0; code < tot; ++code) { P_ p; int x = code; for(int i = 0; i < dim_; ++i) { p[i] = -1.0 + 2.0 * double(x % (m + 1)) / double(m); x /= (m + 1); } r.push_back(p); }
      return r;
    }
  };
  template<int dim_> struct RefCell<Shape::Simplex<dim_>>
  {
    static double center() { return 1.0 / double(dim_ + 1); }
    template<typename P_> static bool inside(const P_& p, double margin) { double s = 0.0; for(int i = 0; i < dim_; ++i) { if(!(p[i] >= margin)) return false; s += p[i]; } return s <= 1.0 - margin; }
    template<typename P_> static std::vector<P_> lattice(int m)
    {
      std::vector<P_> r; int tot = 1; for(int i = 0; i < dim_; ++i) tot *= (m + 1);
      for(int code = 0; code < tot; ++code) { P_ p; int x = code, s = 0; for(int i = 0; i < dim_; ++i) { int a = x % (m + 1); x /= (m + 1); s += a; p[i] = double(a) / double(m); } if(s <= m) r.push_back(p); }
      return r;
    }
  };

  // ------------------------------------------------------------------------------------------ mesh sources
  template<typename Mesh_> struct Sources;
  typedef Geometry::ConformalMesh<Shape::Hypercube<1>> Mesh1D;
  typedef Geometry::ConformalMesh<Shape::Quadrilateral> MeshQ;
  typedef Geometry::ConformalMesh<Shape::Triangle> MeshT;
  typedef Geometry::ConformalMesh<Shape::Hexahedron> MeshH;
  typedef Geometry::ConformalMesh<Shape::Tetrahedron> MeshS;

  template<typename Mesh_> std::unique_ptr<Mesh_> unit_cube(int lvl)
  {
    Geometry::RefinedUnitCubeFactory<Mesh_> f{Index(lvl)};
    return std::unique_ptr<Mesh_>(new Mesh_(f));
  }
  template<> struct Sources<Mesh1D>
  {
    static const char* tag() { return "line"; }
    static int count() { return 2; }
    static const char* name(int i) { static const char* n[] = {"unit-interval", "unit-interval-2cells"}; return n[i]; }
    static std::unique_ptr<Mesh1D> make(int i) { return unit_cube<Mesh1D>(i); }
  };
  template<> struct Sources<MeshQ>
  {
    static const char* tag() { return "quad"; }
    static int count() { return 7; }
    static const char* name(int i) { static const char* n[] = {"quad-orient0", "quad-orient1", "quad-orient2", "quad-orient3", "tetris-quad", "unit-square", "unit-square-4cells"}; return n[i]; }
    static std::unique_ptr<MeshQ> make(int i)
    {
      if(i < 4) return std::unique_ptr<MeshQ>(Geometry::TestAux::create_quad_mesh_2d(i));
      if(i == 4) return std::unique_ptr<MeshQ>(Geometry::TestAux::create_tetris_mesh_2d());
      return unit_cube<MeshQ>(i - 5);
    }
  };
  template<> struct Sources<MeshT>
  {
    static const char* tag() { return "tria"; }
    static int count() { return 7; }
    static const char* name(int i) { static const char* n[] = {"tria-orient0", "tria-orient1", "tria-orient2", "tria-orient3", "patch-tria", "unit-square-tria", "unit-square-tria-refined"}; return n[i]; }
    static std::unique_ptr<MeshT> make(int i)
    {
      if(i < 4) return std::unique_ptr<MeshT>(Geometry::TestAux::create_tria_mesh_2d(i));
      if(i == 4) return std::unique_ptr<MeshT>(Geometry::TestAux::create_patch_tria_mesh_2d());
      return unit_cube<MeshT>(i - 5);
    }
  };
  template<> struct Sources<MeshH>
  {
    static const char* tag() { return "hexa"; }
    static int count() { return 5; }
    static const char* name(int i) { static const char* n[] = {"hexa-orient0", "hexa-orient1", "hexa-orient2", "tetris-hexa", "unit-cube"}; return n[i]; }
    static std::unique_ptr<MeshH> make(int i)
    {
      if(i < 3) return std::unique_ptr<MeshH>(Geometry::TestAux::create_hexa_mesh_3d(i));
      if(i == 3) return std::unique_ptr<MeshH>(Geometry::TestAux::create_tetris_mesh_3d());
      return unit_cube<MeshH>(0);
    }
  };
  template<> struct Sources<MeshS>
  {
    static const char* tag() { return "tetra"; }
    static int count() { return 5; }
    static const char* name(int i) { static const char* n[] = {"tetra-orient0", "tetra-orient1", "tetra-orient2", "big-tetra", "unit-cube-tetra"}; return n[i]; }
    static std::unique_ptr<MeshS> make(int i)
    {
      if(i < 3) return std::unique_ptr<MeshS>(Geometry::TestAux::create_tetra_mesh_3d(i));
      if(i == 3) return std::unique_ptr<MeshS>(Geometry::TestAux::create_big_tetra_mesh_3d());
      return unit_cube<MeshS>(0);
    }
  };

  // ---- two-cell meshes in which each cell's local vertex numbering runs through the full symmetry group of the reference cell
  template<typename Shape_> struct CellGroup;
  template<int d_> struct CellGroup<Shape::Hypercube<d_>>
  {
    static constexpr int nv = 1 << d_;
    /// all signed axis permutations (|G| = 2^d d!: 2, 8, 48), as permutations of the local vertex indices
    static std::vector<std::vector<int>> elements()
    {
      std::vector<std::vector<int>> G;
      std::vector<int> ax((size_t(d_))); for(int i = 0; i < d_; ++i) ax[size_t(i)] = i;
      do {
        for(int sg = 0; sg < (1 << d_); ++sg)
        {
          std::vector<int> p((size_t(nv)));
          for(int i = 0; i < nv; ++i)
          {
            int j = 0;
            for(int k = 0; k < d_; ++k) { int bit = (i >> ax[size_t(k)]) & 1; if((sg >> k) & 1) bit ^= 1; j |= bit << k; }
            p[size_t(i)] = j;
          }
          G.push_back(p);
        }
      } while(std::next_permutation(ax.begin(), ax.end()));
      return G;
    }
    /// two unit cubes [0,1]^d and [1,2]x[0,1]^(d-1)
    static void geometry(std::vector<std::vector<double>>& vtx, std::vector<int>& a, std::vector<int>& b)
    {
      int npl = 1 << (d_ - 1);
      for(int r = 0; r < npl; ++r) for(int x = 0; x < 3; ++x)
      {
        std::vector<double> c((size_t(d_)), 0.0); c[0] = double(x);
        for(int k = 1; k < d_; ++k) c[size_t(k)] = double((r >> (k - 1)) & 1);
        vtx.push_back(c);
      }
      for(int i = 0; i < nv; ++i) { int x = i & 1, r = i >> 1; a.push_back(r * 3 + x); b.push_back(r * 3 + x + 1); }
    }
  };
  template<int d_> struct CellGroup<Shape::Simplex<d_>>
  {
    static constexpr int nv = d_ + 1;
    static std::vector<std::vector<int>> elements()
    {
      std::vector<std::vector<int>> G;
      std::vector<int> p((size_t(nv))); for(int i = 0; i < nv; ++i) p[size_t(i)] = i;
      do { G.push_back(p); } while(std::next_permutation(p.begin(), p.end()));
      return G;
    }
    /// the reference simplex and its mirror image across the facet opposite to vertex 0
    static void geometry(std::vector<std::vector<double>>& vtx, std::vector<int>& a, std::vector<int>& b)
    {
      vtx.push_back(std::vector<double>((size_t(d_)), 0.0));
      for(int k = 0; k < d_; ++k) { std::vector<double> c((size_t(d_)), 0.0); c[size_t(k)] = 1.0; vtx.push_back(c); }
      vtx.push_back(std::vector<double>((size_t(d_)), d_ == 2 ? 1.0 : 0.75));
      for(int i = 0; i < nv; ++i) a.push_back(i);
      b.push_back(d_ + 1); for(int i = 1; i < nv; ++i) b.push_back(i);
      if(d_ >= 2) std::swap(b[1], b[2]);
    }
  };

  template<typename Mesh_> std::unique_ptr<Mesh_> pair_mesh(int g1, int g2)
  {
    typedef typename Mesh_::ShapeType S;
    typedef CellGroup<S> CG;
    static const std::vector<std::vector<int>> G = CG::elements();
    std::vector<std::vector<double>> vtx; std::vector<int> a, b;
    CG::geometry(vtx, a, b);
    Index ne[4] = {0, 0, 0, 0};
    ne[0] = Index(vtx.size()); ne[S::dimension] = (S::dimension == 1) ? 2 : 2;
    if(S::dimension == 1) { ne[0] = Index(vtx.size()); ne[1] = 2; }
    std::unique_ptr<Mesh_> m(new Mesh_(ne));
    for(Index i = 0; i < Index(vtx.size()); ++i) for(int k = 0; k < S::dimension; ++k) m->get_vertex_set()[i][k] = vtx[size_t(i)][size_t(k)];
    auto& idx = m->template get_index_set<S::dimension, 0>();
    for(int i = 0; i < CG::nv; ++i) { idx[0][i] = Index(a[size_t(G[size_t(g1)][size_t(i)])]); idx[1][i] = Index(b[size_t(G[size_t(g2)][size_t(i)])]); }
    if constexpr (S::dimension > 1) m->deduct_topology_from_top(); else m->fill_neighbors();
    return m;
  }
  template<typename Mesh_> int pair_group_size() { static const int n = int(CellGroup<typename Mesh_::ShapeType>::elements().size()); return n; }

  /// deterministic non-affine distortion of the vertex coordinates (keeps all cells valid for coordinates in [0,4]^d)
  template<typename Mesh_> void distort(Mesh_& mesh)
  {
    auto& vtx = mesh.get_vertex_set();
    const int d = Mesh_::world_dim;
    for(Index i = 0; i < vtx.get_num_vertices(); ++i)
    {
      double x[3] = {0, 0, 0};
      for(int k = 0; k < d; ++k) x[k] = vtx[i][k];
      double y[3];
      y[0] = x[0] + x[0] * x[1] / 32.0 + x[2] / 16.0;
      y[1] = x[1] + x[0] * x[0] / 64.0 - x[1] * x[2] / 32.0;
      y[2] = x[2] + x[0] * x[1] / 64.0;
      if(d == 1) y[0] = x[0] + x[0] * x[0] / 8.0;
      for(int k = 0; k < d; ++k) vtx[i][k] = y[k];
    }
  }

  /// scales all vertex coordinates by a power of two (cell volumes 2^(+-30 d): tiny / huge mass matrix entries)
  template<typename Mesh_> void rescale(Mesh_& mesh, double f)
  {
    auto& vtx = mesh.get_vertex_set();
    for(Index i = 0; i < vtx.get_num_vertices(); ++i) for(int k = 0; k < Mesh_::world_dim; ++k) vtx[i][k] *= f;
  }

  const Geometry::PermutationStrategy PERMS[] = {
    Geometry::PermutationStrategy::none, Geometry::PermutationStrategy::lexicographic, Geometry::PermutationStrategy::colored,
    Geometry::PermutationStrategy::cuthill_mckee, Geometry::PermutationStrategy::cuthill_mckee_reversed,
    Geometry::PermutationStrategy::geometric_cuthill_mckee, Geometry::PermutationStrategy::geometric_cuthill_mckee_reversed,
    Geometry::PermutationStrategy::random };
  const char* PERM_NAMES[] = {"none", "lexi", "colored", "acmk", "acmkr", "gcmk", "gcmkr", "random"};

  // ------------------------------------------------------------------------------------------ geometric exactness oracle (one matrix)
  /// max over all fine cells, lattice points and coarse dofs j of |(P e_j)(x) - phi_j(x)|: the parent of a fine cell is the coarse
  /// cell containing its barycentre (own Newton inversion of the coarse trafo), see c18_transfer.cpp for the argument
  template<typename Mesh_, typename Space_>
  double geo_exactness(const Space_& space_f, const Space_& space_c, int degree, const Csr& P, bool& parents_ok, uint64_t& npts)
  {
    typedef typename Mesh_::ShapeType ShapeType;
    static constexpr int dim = ShapeType::dimension;
    typedef typename Space_::TrafoType TrafoType;
    typedef typename TrafoType::template Evaluator<ShapeType, DataType>::Type TrafoEval;
    typedef typename Space_::template Evaluator<TrafoEval>::Type SpaceEval;
    typedef typename Space_::DofMappingType DofMapping;
    static constexpr TrafoTags trafo_cfg = TrafoTags::img_point | TrafoTags::jac_mat | TrafoTags::jac_inv | TrafoTags::jac_det | TrafoTags::dom_point
      | SpaceEval::template ConfigTraits<SpaceTags::value>::trafo_config;
    typedef typename TrafoEval::template ConfigTraits<trafo_cfg>::EvalDataType TrafoData;
    typedef typename SpaceEval::template ConfigTraits<SpaceTags::value>::EvalDataType SpaceData;
    typedef typename TrafoEval::DomainPointType DomPoint;
    typedef typename TrafoEval::ImagePointType ImgPoint;
    auto invert = [](TrafoEval& te, TrafoData& td, const ImgPoint& x, DomPoint& xi, double h) {
      for(int k = 0; k < dim; ++k) xi[k] = RefCell<ShapeType>::center();
      double res = 1e300;
      for(int it = 0; it < 40; ++it)
      {
        te(td, xi);
        ImgPoint r; res = 0.0;
        for(int k = 0; k < dim; ++k) { r[k] = x[k] - td.img_point[k]; res = std::max(res, std::fabs(r[k])); }
        res /= h;
        if(res < 1e-14) break;
        for(int a = 0; a < dim; ++a) { double s = 0.0; for(int b = 0; b < dim; ++b) s += td.jac_inv[a][b] * r[b]; xi[a] += s; }
        for(int a = 0; a < dim; ++a) if(!(std::fabs(xi[a]) < 1e3)) return 1e300;
      }
      return res; };
    const TrafoType& trafo_f = space_f.get_trafo();
    const TrafoType& trafo_c = space_c.get_trafo();
    const Index ncell_c = trafo_c.get_mesh().get_num_entities(dim), ncell_f = trafo_f.get_mesh().get_num_entities(dim);
    const Index nc = space_c.get_num_dofs();
    TrafoEval te_c(trafo_c), te_f(trafo_f);
    SpaceEval se_c(space_c), se_f(space_f);
    DofMapping dm_c(space_c), dm_f(space_f);
    TrafoData td_c, td_f;
    SpaceData sd_c, sd_f;
    const std::vector<DomPoint> lat = RefCell<ShapeType>::template lattice<DomPoint>(degree + 1);
    double worst = 0.0;
    parents_ok = true;
    std::vector<int> colpos(size_t(nc), -1), children(size_t(ncell_c), 0);
    std::vector<ImgPoint> cbary((size_t(ncell_c))); std::vector<double> crad(size_t(ncell_c), 0.0);
    {
      const std::vector<DomPoint> corners = RefCell<ShapeType>::template lattice<DomPoint>(1);
      for(Index cc = 0; cc < ncell_c; ++cc)
      {
        te_c.prepare(cc);
        DomPoint xb; for(int k = 0; k < dim; ++k) xb[k] = RefCell<ShapeType>::center();
        te_c(td_c, xb); cbary[size_t(cc)] = td_c.img_point;
        for(const DomPoint& q : corners) { te_c(td_c, q); double r2 = 0.0; for(int k = 0; k < dim; ++k) { const double d = td_c.img_point[k] - cbary[size_t(cc)][k]; r2 += d * d; } crad[size_t(cc)] = std::max(crad[size_t(cc)], std::sqrt(r2)); }
        te_c.finish();
      }
    }
    for(Index fc = 0; fc < ncell_f; ++fc)
    {
      te_f.prepare(fc); se_f.prepare(te_f); dm_f.prepare(fc);
      const int nlf = se_f.get_num_local_dofs();
      DomPoint xb; for(int k = 0; k < dim; ++k) xb[k] = RefCell<ShapeType>::center();
      te_f(td_f, xb);
      ImgPoint bary = td_f.img_point;
      Index parent = ~Index(0); int nparents = 0;
      for(Index cc = 0; cc < ncell_c; ++cc)
      {
        double d2 = 0.0; for(int k = 0; k < dim; ++k) { const double d = bary[k] - cbary[size_t(cc)][k]; d2 += d * d; }
        if(std::sqrt(d2) > 1.5 * crad[size_t(cc)] * (1.0 + 1e-12)) continue;
        te_c.prepare(cc);
        DomPoint xi;
        double res = invert(te_c, td_c, bary, xi, crad[size_t(cc)]);
        if(res < 1e-10 && RefCell<ShapeType>::inside(xi, 1e-6)) { parent = cc; ++nparents; }
        te_c.finish();
      }
      if(nparents != 1) { parents_ok = false; se_f.finish(); te_f.finish(); dm_f.finish(); continue; }
      ++children[size_t(parent)];
      te_c.prepare(parent); se_c.prepare(te_c); dm_c.prepare(parent);
      const int nlc = se_c.get_num_local_dofs();
      std::vector<Index> cols;
      auto add_col = [&](Index J) { if(colpos[size_t(J)] < 0) { colpos[size_t(J)] = int(cols.size()); cols.push_back(J); } };
      for(int i = 0; i < nlf; ++i) { const Index gi = dm_f.get_index(i); for(Index k = P.rp[gi]; k < P.rp[gi + 1]; ++k) add_col(P.ci[k]); }
      for(int j = 0; j < nlc; ++j) add_col(dm_c.get_index(j));
      const size_t ncol = cols.size();
      std::vector<double> B(size_t(nlf) * ncol, 0.0);
      for(int i = 0; i < nlf; ++i) { const Index gi = dm_f.get_index(i); for(Index k = P.rp[gi]; k < P.rp[gi + 1]; ++k) B[size_t(i) * ncol + size_t(colpos[size_t(P.ci[k])])] += P.va[k]; }
      for(const DomPoint& p : lat)
      {
        te_f(td_f, p); se_f(sd_f, td_f);
        DomPoint xi;
        const double res = invert(te_c, td_c, td_f.img_point, xi, crad[size_t(parent)]);
        if(!(res < 1e-10)) { parents_ok = false; continue; }
        te_c(td_c, xi); se_c(sd_c, td_c);
        ++npts;
        for(size_t q = 0; q < ncol; ++q)
        {
          const Index J = cols[q];
          double lhs = 0.0, rhs = 0.0;
          for(int i = 0; i < nlf; ++i) lhs += B[size_t(i) * ncol + q] * sd_f.phi[i].value;
          for(int j = 0; j < nlc; ++j) if(dm_c.get_index(j) == J) rhs += sd_c.phi[j].value;
          const double e = std::fabs(lhs - rhs);
          if(!(e <= worst)) worst = e;
        }
      }
      for(Index J : cols) colpos[size_t(J)] = -1;
      dm_c.finish(); se_c.finish(); te_c.finish();
      dm_f.finish(); se_f.finish(); te_f.finish();
    }
    const int expect = ncell_c ? int(ncell_f / ncell_c) : 0;
    for(int n : children) if(n != expect) parents_ok = false;
    return worst;
  }

  /// max |(T*P - I)_ij| by sparse row products
  inline double tp_identity_error(const Csr& T, const Csr& P)
  {
    const Index nc = T.m;
    double w = 0.0;
    std::vector<double> acc(size_t(nc), 0.0);
    std::vector<Index> touched;
    for(Index i = 0; i < nc; ++i)
    {
      touched.clear();
      for(Index k = T.rp[i]; k < T.rp[i + 1]; ++k)
      {
        const Index r = T.ci[k]; const double t = T.va[k];
        for(Index q = P.rp[r]; q < P.rp[r + 1]; ++q) { touched.push_back(P.ci[q]); acc[size_t(P.ci[q])] += t * P.va[q]; }
      }
      touched.push_back(i);
      for(Index j : touched) { const double e = std::fabs(acc[size_t(j)] - (i == j ? 1.0 : 0.0)); if(!(e <= w)) w = e; }
      for(Index j : touched) acc[size_t(j)] = 0.0;
    }
    return w;
  }

  inline bool csr_equal(const Csr& a, const Csr& b) { return a.m == b.m && a.n == b.n && a.rp == b.rp && a.ci == b.ci && a.va == b.va; }
  inline bool csr_is_transpose(const Csr& R, const Csr& P)
  {
    if(R.nnz() != P.nnz() || R.m != P.n || R.n != P.m) return false;
    for(Index i = 0; i < P.m; ++i) for(Index k = P.rp[i]; k < P.rp[i + 1]; ++k) if(!R.stored(P.ci[k], i) || !(R(P.ci[k], i) == P.va[k])) return false;
    return true;
  }
} // namespace
