// c13_sync_tria -- C13 Tier 1 on triangle fans (see c13_sync_impl.hpp / c13_core.hpp)
#define C13_FAMILY 1
#define C13_HARNESS "c13_sync_tria"
#include "c13_sync_impl.hpp"
int main(int argc, char** argv) { return c13::main_family(argc, argv); }
