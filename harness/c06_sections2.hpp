// slip / mean / none filters (included once, inside c06_filter.cpp)
#pragma once
namespace
{
  /// like check_vec, but the application is a callback and the observed vector a separate object (wrappers)
  template<typename V, typename Apply, typename Model, typename Cons>
  void check_vec_fn(verif::Ctx& c, const std::string& key, V& v, int op, Apply&& apply, Model&& model, Cons&& cons)
  {
    typedef typename V::DataType DT;
    const std::vector<DT> x = flat_of(v);
    Ref r = Ref::from(x);
    model(r);
    apply();
    const std::vector<DT> y1 = flat_of(v);
    const std::string k = key + "." + fop_name[op];
    compare(c, k, x, y1, r);
    cons(y1, k + " (1st application)", r);
    apply();
    const std::vector<DT> y2 = flat_of(v);
    compare_idem(c, k, y1, y2, r);
    cons(y2, k + " (2nd application)", r);
    c.count("filter_applications", 2);
  }

  // ------------------------------------------------------------------------------------------------ E: SlipFilter
  static const int normals2[6][2] = {{1, 0}, {0, 1}, {1, 1}, {3, 4}, {-1, 2}, {-1, 1}};
  static const bool nexact2[6] = {true, true, true, false, false, true};
  static const int normals3[6][3] = {{1, 0, 0}, {0, 0, 1}, {1, 1, 0}, {1, 1, 1}, {2, 3, 6}, {0, -1, 1}};
  static const bool nexact3[6] = {true, true, true, false, false, true};

  template<typename DT, int BS>
  SlipFilter<DT, Index, BS> make_slip(int n, unsigned S, int order, int nv, RSlip& ref)
  {
    typedef Tiny::Vector<DT, BS> VT;
    ref.bs = BS; ref.nu.clear(); ref.exact.clear();
    int k = 0;
    for(int i = 0; i < n; ++i) if((S >> i) & 1u)
    {
      const int q = (nv + k) % 6;
      std::vector<LD> v((size_t)BS);
      for(int j = 0; j < BS; ++j) v[size_t(j)] = LD(BS == 2 ? normals2[q][j % 2] : normals3[q][j % 3]);
      ref.nu[Index(i)] = v; ref.exact[Index(i)] = char(BS == 2 ? nexact2[q] : nexact3[q]); ++k;
    }
    auto tv = [&](Index i) { VT t; for(int j = 0; j < BS; ++j) t[j] = DT(ref.nu[i][size_t(j)]); return t; };
    if(order == ORD_DEFAULT) return SlipFilter<DT, Index, BS>();
    SlipFilter<DT, Index, BS> f{Index(n), Index(n)};
    std::vector<Index> asc; for(auto& e : ref.nu) asc.push_back(e.first);
    if(order == ORD_DUP)
    {
      for(auto& e : ref.nu) { VT d(DT(0)); d[0] = DT(5); f.add(e.first, d); }
      for(auto it = ref.nu.rbegin(); it != ref.nu.rend(); ++it) f.add(it->first, tv(it->first));
    }
    else if(order == ORD_INCR)
    {
      const size_t half = asc.size() / 2;
      for(size_t q = asc.size(); q-- > half;) f.add(asc[q], tv(asc[q]));
      DenseVectorBlocked<DT, Index, BS> scratch(Index(n), DT(1));
      f.filter_rhs(scratch); f.filter_def(scratch);
      for(size_t q = 0; q < half; ++q) f.add(asc[q], tv(asc[q]));
    }
    else
      for(Index i : add_order(asc, order)) f.add(i, tv(i));
    return f;
  }

  /// the normal component of every constrained block vanishes up to the rounding bound of the reference
  template<typename DT>
  auto slip_cons(verif::Ctx& c, const RSlip& ref)
  {
    return [&c, &ref](const std::vector<DT>& y, const std::string& k, const Ref& r) {
      for(auto& e : ref.nu)
      {
        LD sp = 0, bound = 0, nn = 0;
        for(int j = 0; j < ref.bs; ++j) { size_t q = size_t(e.first) * size_t(ref.bs) + size_t(j); sp += LD(y[q]) * e.second[size_t(j)]; bound += r.err[q] * std::fabs(e.second[size_t(j)]); nn += std::fabs(e.second[size_t(j)]); }
        if(!c.check(std::fabs(sp) <= 2 * bound, k + ": normal component does not vanish", [&]{ return "block " + std::to_string(e.first) + ": nu.v = " + fmt(double(sp)) + " bound " + fmt(double(2 * bound)) + " result " + fmtv(y); })) return;
      }
    };
  }

  template<typename DT, int BS>
  void slip_vectors(verif::Ctx& c, const std::string& kname)
  {
    const int N = c.thorough ? 5 : 4;
    for(int n = 0; n <= N; ++n) for(unsigned S = 0; S < (1u << n); ++S) for(int order = 0; order < NUM_ORD; ++order) for(int fd = 0; fd < NUM_FD; ++fd) for(int nv = 0; nv < 6; ++nv) for(int op = 0; op < 4; ++op)
    {
      if(order == ORD_ARRAY) continue;
      if(order == ORD_DEFAULT && S != 0) continue;
      if((order == ORD_DUP || order == ORD_SCRAMBLED || order == ORD_INCR) && S == 0) continue;
      if(fd != FD_NONE && !(order == ORD_DESC && n <= 3 && nv < 2)) continue;
      if(S == 0 && nv != 0) continue;
      if(!c.want()) continue;
      c.desc([&]{ return kname + " blocks=" + std::to_string(n) + " constrained=" + set_name(S, n) + " built by: " + ord_name[order] + " normals#" + std::to_string(nv) + " op=" + fop_name[op]; });
      RSlip ref, rtwin, rother;
      std::vector<std::shared_ptr<void>> keep;
      typedef typename std::conditional<std::is_same<DT, double>::value, float, double>::type DT2;
      SlipFilter<DT, Index, BS> f;
      if(fd == FD_CONVERT)
      {
        auto src = std::make_shared<SlipFilter<DT2, Index, BS>>(make_slip<DT2, BS>(n, S, order, nv, ref)); keep.push_back(src);
        f = make_slip<DT, BS>(n, ~S & ((1u << n) - 1u), ORD_ASC, 1, rother);
        f.convert(*src);
      }
      else
        f = derive_filter(make_slip<DT, BS>(n, S, order, nv, ref), fd, keep, [&]{ return make_slip<DT, BS>(n, ~S & ((1u << n) - 1u), ORD_ASC, 1, rother); });
      DenseVectorBlocked<DT, Index, BS> v{Index(n)};
      for(int i = 0; i < n * BS; ++i) v.template elements<Perspective::pod>()[i] = DT(xval(Index(i), 2));
      // the filter operation is the first access to the freshly built (unsorted) filter
      check_vec(c, kname, f, v, op, [&](Ref& r) { ref.template apply<DT>(r, op); }, slip_cons<DT>(c, ref));
      auto twin = make_slip<DT, BS>(n, S, order == ORD_DEFAULT ? ORD_DEFAULT : ORD_ASC, nv, rtwin);
      c.check(order == ORD_DEFAULT || sv_state(f.get_filter_vector()) == sv_state(twin.get_filter_vector()), kname + ": filter modified by application", "index/normal arrays of the filter differ from those of an identically specified filter");
      // accessors of the filter
      if(order != ORD_DEFAULT)
      {
        bool acc = (f.size() == Index(n)) && (f.used_elements() == Index(ref.nu.size()));
        size_t q = 0;
        for(auto& e : ref.nu) { if(acc && (f.get_indices()[q] != e.first)) acc = false; for(int j = 0; acc && j < BS; ++j) if(!(LD(f.get_values()[q][j]) == e.second[size_t(j)])) acc = false; ++q; }
        c.check(acc, kname + ": accessors", "size()/used_elements()/get_indices()/get_values() do not describe the constrained set and its normals");
      }
      if(fd != FD_NONE) c.count("cases_on_derived_filters");
      if(S != 0) c.nontrivial(verif::Hash().str(kname).pod(n).pod(S).pod(order).pod(fd).pod(nv).pod(op).get());
      c.outcome("slip vector");
    }
  }

  // ------------------------------------------------------------------------------------------------ F: mean filters
  inline void mean_weights(int wv, size_t n, std::vector<LD>& prim, std::vector<LD>& dual)
  {
    prim.assign(n, 0); dual.assign(n, 0);
    for(size_t i = 0; i < n; ++i)
    {
      switch(wv % 4)
      {
      case 0: prim[i] = 1; dual[i] = 1; break;
      case 1: prim[i] = 1; dual[i] = LD(1 + i % 3) / 4; break;
      case 2: prim[i] = LD(2 + i % 2) / 2; dual[i] = LD(1 + i % 3) / 4; break;
      default: prim[i] = 2; dual[i] = LD(1) / 4; break;
      }
    }
  }

  template<typename DT>
  auto mean_cons(verif::Ctx& c, const std::vector<RMean>& refs, int op)
  {
    return [&c, &refs, op](const std::vector<DT>& y, const std::string& k, const Ref& r) {
      std::vector<LD> yl(y.begin(), y.end());
      for(const RMean& m : refs)
      {
        if(m.empty) continue;
        LD scale = 0;
        LD F = m.functional(yl, op, scale);
        LD wsum = 0; for(size_t i = 0; i < m.prim.size(); ++i) wsum += std::max(std::fabs(m.prim[i]), std::fabs(m.dual[i])) * (m.freq.empty() ? LD(1) : m.freq[i]);
        LD tol = r.maxerr() * wsum * ((op == F_SOL && !m.global_flavour) ? 1 / m.vol : LD(1)) * 2 + LD(1e-18) * scale;
        if(!c.check(std::fabs(F) <= tol, k + ": weighted mean does not vanish", [&]{ return "functional = " + fmt(double(F)) + " tolerance " + fmt(double(tol)) + " result " + fmtv(y); })) return;
      }
    };
  }

  /// builds a scalar mean filter of data type DX for weight variant wv
  template<typename DX>
  MeanFilter<DX, Index> build_mean(int n, int wv, LD sol_mean, int ctor, RMean* ref)
  {
    typedef DenseVector<DX, Index> Vec;
    RMean tmp; RMean& r = ref ? *ref : tmp;
    mean_weights(wv, size_t(n), r.prim, r.dual);
    r.sol_mean = sol_mean;
    r.vol = 0; for(int i = 0; i < n; ++i) r.vol += r.prim[size_t(i)] * r.dual[size_t(i)];
    r.empty = (ctor == 2 || n == 0);
    r.exact = is_pow2(r.vol);
    Vec p{Index(n)}, d{Index(n)};
    for(int i = 0; i < n; ++i) { p.elements()[i] = DX(r.prim[size_t(i)]); d.elements()[i] = DX(r.dual[size_t(i)]); }
    if(ctor == 0) return MeanFilter<DX, Index>(std::move(p), std::move(d), DX(r.sol_mean));
    if(ctor == 1) return MeanFilter<DX, Index>(std::move(p), std::move(d), DX(r.sol_mean), DX(r.vol));
    return MeanFilter<DX, Index>();
  }

  template<typename DT>
  void mean_vectors(verif::Ctx& c, const std::string& kname)
  {
    typedef DenseVector<DT, Index> Vec;
    typedef MeanFilter<DT, Index> MF;
    typedef typename std::conditional<std::is_same<DT, double>::value, float, double>::type DT2;
    const int N = c.thorough ? 12 : 8;
    for(int n = 0; n <= N; ++n) for(int wv = 0; wv < 4; ++wv) for(int sm = 0; sm < 3; ++sm) for(int ctor = 0; ctor < 3; ++ctor) for(int fd = 0; fd < NUM_FD; ++fd) for(int pre = 0; pre < 2; ++pre) for(int op = 0; op < 4; ++op)
    {
      if(ctor == 2 && (wv != 0 || sm != 0)) continue; // default-constructed (empty) filter on a vector of length n
      if(n == 0 && ctor == 1) continue;               // explicit volume 0 is not a legal argument
      if(fd != FD_NONE && (ctor != 0 || n > 4 || n == 0 || pre != 0 || sm == 2)) continue;
      if(!c.want()) continue;
      const LD solm = sm == 0 ? LD(0) : sm == 1 ? LD(1.5) : LD(1);
      c.desc([&]{ return kname + " n=" + std::to_string(n) + " weights#" + std::to_string(wv) + " sol_mean=" + fmt(double(solm)) + " ctor=" + (ctor == 0 ? "computed volume" : ctor == 1 ? "explicit volume" : "default (empty)")
        + " filter=" + fd_name[fd] + (pre ? " (applied to another vector before)" : "") + " op=" + fop_name[op]; });
      std::vector<RMean> refs(1);
      RMean& ref = refs[0];
      std::vector<std::shared_ptr<void>> keep;
      MF f; MF* srcp = nullptr;
      if(fd == FD_CONVERT)
      {
        auto src = std::make_shared<MeanFilter<DT2, Index>>(build_mean<DT2>(n, wv, solm, ctor, &ref)); keep.push_back(src);
        f = build_mean<DT>(n, wv + 1, LD(0.5), 0, nullptr);
        f.convert(*src);
      }
      else
        f = derive_filter(build_mean<DT>(n, wv, solm, ctor, &ref), fd, keep, [&]{ return build_mean<DT>(n, wv + 1, LD(0.5), 0, nullptr); }, &srcp);
      if(ctor != 2) c.check(LD(f.get_volume()) == ref.vol, kname + ": volume", "stored volume differs from prim.dual");
      if(pre)
      {
        // re-invocation: the same filter object was applied (other operation, other vector) before
        Vec w{Index(n)}; for(int i = 0; i < n; ++i) w.elements()[i] = DT(xval(Index(i), 9));
        apply_op(f, w, (op + 1) % 4); apply_op(f, w, (op + 2) % 4);
      }
      Vec v{Index(n)};
      for(int i = 0; i < n; ++i) v.elements()[i] = DT(xval(Index(i), 4));
      const std::vector<DT> p0 = flat_of(f.get_vec_prim()), d0 = flat_of(f.get_vec_dual());
      check_vec(c, kname, f, v, op, [&](Ref& r) { ref.template apply<DT>(r, op); }, mean_cons<DT>(c, refs, op));
      c.check(flat_of(f.get_vec_prim()) == p0 && flat_of(f.get_vec_dual()) == d0, kname + ": filter modified by application", "weight vectors changed");
      if(srcp != nullptr)
      {
        Vec w{Index(n)}; for(int i = 0; i < n; ++i) w.elements()[i] = DT(xval(Index(i), 5));
        check_vec(c, kname + " [source of the derived filter]", *srcp, w, op, [&](Ref& r) { ref.template apply<DT>(r, op); }, mean_cons<DT>(c, refs, op));
      }
      if(!ref.empty) c.nontrivial(verif::Hash().str(kname).pod(n).pod(wv).pod(sm).pod(ctor).pod(fd).pod(pre).pod(op).get());
      if(fd != FD_NONE) c.count("cases_on_derived_filters");
      if(pre) c.count("cases_on_previously_used_filters");
      c.outcome(std::string("mean ") + (ref.empty ? "empty" : ref.exact ? "exact" : "rounded"));
    }
  }

  template<typename DT, int BS>
  void meanb_vectors(verif::Ctx& c, const std::string& kname)
  {
    typedef DenseVectorBlocked<DT, Index, BS> Vec;
    typedef Tiny::Vector<DT, BS> VT;
    const int N = c.thorough ? 9 : 6;
    for(int n = 0; n <= N; ++n) for(int wv = 0; wv < 4; ++wv) for(int sm = 0; sm < 2; ++sm) for(int ctor = 0; ctor < 3; ++ctor) for(int op = 0; op < 4; ++op)
    {
      if(ctor == 2 && (wv != 0 || sm != 0)) continue;
      if(n == 0 && ctor == 1) continue;
      if(!c.want()) continue;
      c.desc([&]{ return kname + " blocks=" + std::to_string(n) + " weights#" + std::to_string(wv) + "(+component) sol_mean=" + (sm ? "(1.5,-0.5,..)" : "0") + " ctor=" + std::to_string(ctor) + " op=" + fop_name[op]; });
      std::vector<RMean> refs((size_t)BS);
      std::vector<std::shared_ptr<void>> keep_alive;
      Vec p{Index(n)}, d{Index(n)}, v{Index(n)};
      VT smv(DT(0)), volv(DT(0));
      for(int j = 0; j < BS; ++j)
      {
        RMean& ref = refs[size_t(j)];
        mean_weights(wv + j, size_t(n), ref.prim, ref.dual);
        ref.stride = BS; ref.comp = j;
        ref.sol_mean = sm ? LD(1.5) - LD(2 * j) : LD(0);
        ref.vol = 0; for(int i = 0; i < n; ++i) ref.vol += ref.prim[size_t(i)] * ref.dual[size_t(i)];
        ref.empty = (ctor == 2 || n == 0);
        ref.exact = is_pow2(ref.vol);
        smv[j] = DT(ref.sol_mean); volv[j] = DT(ref.vol);
        for(int i = 0; i < n; ++i) { p.template elements<Perspective::pod>()[i * BS + j] = DT(ref.prim[size_t(i)]); d.template elements<Perspective::pod>()[i * BS + j] = DT(ref.dual[size_t(i)]); }
      }
      for(int i = 0; i < n * BS; ++i) v.template elements<Perspective::pod>()[i] = DT(xval(Index(i), 5));
      MeanFilterBlocked<DT, Index, BS> f;
      if(ctor == 0) f = MeanFilterBlocked<DT, Index, BS>(std::move(p), std::move(d), smv);
      else if(ctor == 1) f = MeanFilterBlocked<DT, Index, BS>(std::move(p), std::move(d), smv, volv);
      // derived object / re-invocation, rotating with the coordinates: deep clone, shallow clone, previously used filter
      if(ctor != 2 && n > 0)
      {
        static const int rot[5] = {FD_NONE, FD_CLONE_DEEP, FD_CLONE_SHALLOW, FD_CLONE_INTO, FD_MOVE_ASSIGN};   // FD_CLEAR_REASSIGN: MeanFilterBlocked::clear() does not compile (proposed fix pending)
        const int fdm = rot[(n + wv + op) % 5];
        std::vector<std::shared_ptr<void>> keepb;
        if(fdm != FD_NONE)
        {
          f = derive_filter(std::move(f), fdm, keepb, [&]{ Vec p2(Index(n), DT(1)), d2(Index(n), DT(1)); return MeanFilterBlocked<DT, Index, BS>(std::move(p2), std::move(d2), VT(DT(0.5))); });
          keep_alive.insert(keep_alive.end(), keepb.begin(), keepb.end());
          c.count("cases_on_derived_filters");
        }
#ifdef C06_HAVE_MEANB_FIX
        if((n + wv + op) % 5 == 0 && (sm + ctor) % 2 == 1)
        {
          // convert() from the other data type (weights, volume and sol_mean are exactly representable in both) and clear()
          typedef typename std::conditional<std::is_same<DT, double>::value, float, double>::type DT2;
          typedef DenseVectorBlocked<DT2, Index, BS> Vec2;
          Vec2 p2{Index(n)}, d2{Index(n)};
          for(int i = 0; i < n * BS; ++i) { p2.template elements<Perspective::pod>()[i] = DT2(f.get_vec_prim().template elements<Perspective::pod>()[i]); d2.template elements<Perspective::pod>()[i] = DT2(f.get_vec_dual().template elements<Perspective::pod>()[i]); }
          Tiny::Vector<DT2, BS> sm2, vol2; for(int j = 0; j < BS; ++j) { sm2[j] = DT2(smv[j]); vol2[j] = DT2(volv[j]); }
          auto src = std::make_shared<MeanFilterBlocked<DT2, Index, BS>>(std::move(p2), std::move(d2), sm2, vol2);
          keep_alive.push_back(src);
          f.clear();
          f.convert(*src);
          c.count("cases_on_derived_filters");
        }
#endif
      }
      if((n + wv + sm + op) % 2 == 1)
      {
        Vec w{Index(n)}; for(int i = 0; i < n * BS; ++i) w.template elements<Perspective::pod>()[i] = DT(xval(Index(i), 9));
        apply_op(f, w, (op + 1) % 4); apply_op(f, w, (op + 2) % 4);
        c.count("cases_on_previously_used_filters");
      }
      const std::vector<DT> p0 = flat_of(f.get_vec_prim()), d0 = flat_of(f.get_vec_dual());
      check_vec(c, kname, f, v, op, [&](Ref& r) { for(auto& m : refs) m.template apply<DT>(r, op); }, mean_cons<DT>(c, refs, op));
      c.check(flat_of(f.get_vec_prim()) == p0 && flat_of(f.get_vec_dual()) == d0, kname + ": filter modified by application", "weight vectors changed");
      if(n > 0 && ctor != 2) c.nontrivial(verif::Hash().str(kname).pod(n).pod(wv).pod(sm).pod(ctor).pod(op).get());
      c.outcome("mean-blocked");
    }
  }

  template<typename DT>
  void global_mean_vectors(verif::Ctx& c, const std::string& kname)
  {
    typedef DenseVector<DT, Index> Vec;
    static Dist::Comm world = Dist::Comm::world();
    const int N = c.thorough ? 12 : 8;
    for(int n = 0; n <= N; ++n) for(int wv = 0; wv < 4; ++wv) for(int fq = 0; fq < 3; ++fq) for(int cm = 0; cm < 2; ++cm) for(int op = 0; op < 4; ++op)
    {
      if(!c.want()) continue;
      c.desc([&]{ return kname + " n=" + std::to_string(n) + " weights#" + std::to_string(wv) + " freq=" + (fq == 0 ? "empty" : fq == 1 ? "ones" : "1,1/2,..") + " comm=" + (cm ? "world" : "nullptr") + " op=" + fop_name[op]; });
      std::vector<RMean> refs(1);
      RMean& ref = refs[0];
      mean_weights(wv, size_t(n), ref.prim, ref.dual);
      ref.global_flavour = true;
      const bool weighted = (fq != 0 && cm != 0 && n > 0);
      if(weighted) { ref.freq.resize(size_t(n)); for(int i = 0; i < n; ++i) ref.freq[size_t(i)] = (fq == 2 && i % 2) ? LD(0.5) : LD(1); }
      ref.vol = 0; for(int i = 0; i < n; ++i) ref.vol += (weighted ? ref.freq[size_t(i)] : LD(1)) * ref.prim[size_t(i)] * ref.dual[size_t(i)];
      ref.empty = (n == 0);
      ref.exact = is_pow2(ref.vol);
      Vec p{Index(n)}, d{Index(n)}, v{Index(n)}, fr{Index(fq == 0 ? 0 : n)};
      for(int i = 0; i < n; ++i) { p.elements()[i] = DT(ref.prim[size_t(i)]); d.elements()[i] = DT(ref.dual[size_t(i)]); v.elements()[i] = DT(xval(Index(i), 6)); if(fq != 0) fr.elements()[i] = DT((fq == 2 && i % 2) ? 0.5 : 1.0); }
      Global::MeanFilter<DT, Index> f0(std::move(p), std::move(d), std::move(fr), cm ? &world : nullptr);
      // derived objects, rotating: as built (move-constructed), clone(mode), clone(other) into a used filter, move-assigned, convert from float/double
      Global::MeanFilter<DT, Index> f;
      std::shared_ptr<void> gkeep;
      switch((n + wv + fq + cm + op) % 5)
      {
      case 1: f = f0.clone(LAFEM::CloneMode::Deep); c.count("cases_on_derived_filters"); break;
      case 2: { Vec a1(Index(n), DT(1)), a2(Index(n), DT(1)), a3; f = Global::MeanFilter<DT, Index>(std::move(a1), std::move(a2), std::move(a3), nullptr); f.clone(f0, LAFEM::CloneMode::Deep); c.count("cases_on_derived_filters"); break; }
      case 3: { Vec a1(Index(n), DT(1)), a2(Index(n), DT(1)), a3; f = Global::MeanFilter<DT, Index>(std::move(a1), std::move(a2), std::move(a3), nullptr); f = std::move(f0); c.count("cases_on_derived_filters"); break; }
      case 4:
      {
        typedef typename std::conditional<std::is_same<DT, double>::value, float, double>::type DT2;
        typedef DenseVector<DT2, Index> Vec2;
        Vec2 q1{Index(n)}, q2{Index(n)}, q3{Index(fq == 0 ? 0 : n)};
        for(int i = 0; i < n; ++i) { q1.elements()[i] = DT2(ref.prim[size_t(i)]); q2.elements()[i] = DT2(ref.dual[size_t(i)]); if(fq != 0) q3.elements()[i] = DT2((fq == 2 && i % 2) ? 0.5 : 1.0); }
        auto src = std::make_shared<Global::MeanFilter<DT2, Index>>(std::move(q1), std::move(q2), std::move(q3), cm ? &world : nullptr);
        gkeep = src;
        f.convert(*src);
        c.count("cases_on_derived_filters");
        break;
      }
      default: f = Global::MeanFilter<DT, Index>(std::move(f0)); break;
      }
      if(n > 0) c.check(LD(f.get_volume()) == ref.vol, kname + ": volume", [&]{ return "stored volume " + fmt(f.get_volume()) + " expected " + fmt(double(ref.vol)); });
      check_vec(c, kname, f, v, op, [&](Ref& r) { ref.template apply<DT>(r, op); }, mean_cons<DT>(c, refs, op));
      if(n > 0) c.nontrivial(verif::Hash().str(kname).pod(n).pod(wv).pod(fq).pod(cm).pod(op).get());
      c.outcome(std::string("global mean ") + (weighted ? "frequency weighted" : "plain"));
    }
  }

  // ------------------------------------------------------------------------------------------------ G: none filters
  template<typename DT>
  void none_filters(verif::Ctx& c, const std::string& kname)
  {
    for(int n = 0; n <= 4; ++n) for(int op = 0; op < 5; ++op) for(int blocked = 0; blocked < 2; ++blocked)
    {
      if(!c.want()) continue;
      c.desc([&]{ return kname + (blocked ? "Blocked<2>" : "") + " n=" + std::to_string(n) + " op=" + (op < 4 ? fop_name[op] : "filter_mat"); });
      if(op == 4)
      {
        if(n == 0) continue;
        auto a = make_csr<DT>(n, n, (1u << (n * n)) - 1u);
        MatSnap<SparseMatrixCSR<DT, Index>> s0(a);
        if(blocked) { NoneFilterBlocked<DT, Index, 2> f; f.filter_mat(a); } else { NoneFilter<DT, Index> f; f.filter_mat(a); }
        MatSnap<SparseMatrixCSR<DT, Index>> s1(a);
        c.check(s0.val == s1.val && s0.rp == s1.rp && s0.ci == s1.ci, kname + ".filter_mat: matrix modified", "a none filter changed the matrix");
      }
      else if(blocked)
      {
        DenseVectorBlocked<DT, Index, 2> v{Index(n)};
        for(int i = 0; i < 2 * n; ++i) v.template elements<Perspective::pod>()[i] = DT(xval(Index(i), 7));
        NoneFilterBlocked<DT, Index, 2> f;
        check_vec(c, kname + "Blocked", f, v, op, [&](Ref&) {}, no_cons);
      }
      else
      {
        DenseVector<DT, Index> v{Index(n)};
        for(int i = 0; i < n; ++i) v.elements()[i] = DT(xval(Index(i), 7));
        NoneFilter<DT, Index> f;
        check_vec(c, kname, f, v, op, [&](Ref&) {}, no_cons);
      }
      if(n > 0) c.nontrivial(verif::Hash().str(kname).pod(n).pod(op).pod(blocked).get());
      c.outcome("none");
    }
  }

  void combinator_sections(verif::Ctx& c);

  void more_sections2(verif::Ctx& c)
  {
    slip_vectors<double, 2>(c, "SlipFilter<double,2>");
    slip_vectors<double, 3>(c, "SlipFilter<double,3>");
    slip_vectors<float, 2>(c, "SlipFilter<float,2>");
    mean_vectors<double>(c, "MeanFilter<double>");
    mean_vectors<float>(c, "MeanFilter<float>");
    meanb_vectors<double, 2>(c, "MeanFilterBlocked<double,2>");
    meanb_vectors<float, 3>(c, "MeanFilterBlocked<float,3>");
    global_mean_vectors<double>(c, "Global::MeanFilter<double>");
    none_filters<double>(c, "NoneFilter<double>");
    combinator_sections(c);
  }
}
