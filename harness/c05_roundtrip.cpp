// C05 (part 1) -- persisted containers read back equal to what was written.
//
// Bounded-exhaustive round trips of every LAFEM container kind through every file mode it supports
// (binary container format via serialize<DT2,IT2>/deserialize, write_out/read_from on std::stringstream, BinaryStream
// and real files, the checkpoint interface of Container, MatrixMarket and exponent text modes) over all small
// shapes/patterns incl. empty rows, entry-free matrices and length-0 vectors, plus Pack::encode/decode directly.
// Oracle: value fingerprints read from the raw arrays of the containers (c05_common.hpp), never the code under test.
#include "c05_common.hpp"
#include <kernel/util/pack.hpp>
#include <kernel/util/dist.hpp>
#include <kernel/util/dist_file_io.hpp>
#include <unistd.h>

using namespace c05;

namespace
{
  // semantic content for the text modes: dimensions, pattern, values
  struct Sem
  {
    std::vector<uint64_t> dims;
    std::vector<uint64_t> pos; // flattened positions
    std::vector<long double> vals;
    std::string str() const
    {
      std::ostringstream s; s << "dims=[";
      for(auto d : dims) s << d << ",";
      s << "] pos=[";
      for(auto d : pos) s << d << ",";
      s << "] vals=[";
      for(auto d : vals) s << (double)d << ",";
      s << "]";
      return s.str();
    }
  };
  // tol = 0: exact; else relative tolerance of the printed precision
  bool sem_equal(const Sem& a, const Sem& b, long double tol)
  {
    if(a.dims != b.dims || a.pos != b.pos || a.vals.size() != b.vals.size()) return false;
    for(size_t k = 0; k < a.vals.size(); ++k)
    {
      if(a.vals[k] == 0.0L) { if(b.vals[k] != 0.0L || std::signbit(a.vals[k]) != std::signbit(b.vals[k])) return false; }
      else if(tol == 0.0L) { if(a.vals[k] != b.vals[k]) return false; }
      else if(std::fabs(a.vals[k] - b.vals[k]) > tol * std::fabs(a.vals[k])) return false;
    }
    return true;
  }

  template<typename DT_, typename IT_>
  Sem sem(const DenseVector<DT_, IT_>& x)
  {
    Sem s; s.dims = {x.size()};
    for(Index i = 0; i < x.size(); ++i) s.vals.push_back(x.elements()[i]);
    return s;
  }
  template<typename DT_, typename IT_, int BS_>
  Sem sem(const DenseVectorBlocked<DT_, IT_, BS_>& x)
  {
    Sem s; s.dims = {x.size()};
    const DT_* p = x.template elements<Perspective::pod>();
    for(Index i = 0; i < x.size() * Index(BS_); ++i) s.vals.push_back(p[i]);
    return s;
  }
  template<typename DT_, typename IT_>
  Sem sem(const SparseVector<DT_, IT_>& x)
  {
    Sem s; s.dims = {x.size(), x.used_elements()};
    for(Index i = 0; i < x.used_elements(); ++i) { s.pos.push_back(x.indices()[i]); s.vals.push_back(x.elements()[i]); }
    return s;
  }
  template<typename DT_, typename IT_>
  Sem sem(const DenseMatrix<DT_, IT_>& x)
  {
    Sem s; s.dims = {x.rows(), x.columns()};
    for(Index i = 0; i < x.rows() * x.columns(); ++i) s.vals.push_back(x.elements()[i]);
    return s;
  }
  template<typename DT_, typename IT_>
  Sem sem(const SparseMatrixCSR<DT_, IT_>& x)
  {
    Sem s; s.dims = {x.rows(), x.columns(), x.used_elements()};
    if(x.row_ptr() == nullptr) return s;
    for(Index i = 0; i < x.rows(); ++i) for(Index k = x.row_ptr()[i]; k < x.row_ptr()[i + 1]; ++k)
    { s.pos.push_back(i); s.pos.push_back(x.col_ind()[k]); s.vals.push_back(x.val()[k]); }
    return s;
  }
  template<typename DT_, typename IT_, int BH_, int BW_>
  Sem sem(const SparseMatrixBCSR<DT_, IT_, BH_, BW_>& x)
  {
    Sem s; s.dims = {x.rows() * Index(BH_), x.columns() * Index(BW_), x.used_elements() * Index(BH_ * BW_)};
    if(x.row_ptr() == nullptr) return s;
    const DT_* v = x.template val<Perspective::pod>();
    for(Index i = 0; i < x.rows(); ++i) for(int y = 0; y < BH_; ++y) for(Index k = x.row_ptr()[i]; k < x.row_ptr()[i + 1]; ++k) for(int z = 0; z < BW_; ++z)
    { s.pos.push_back(i * Index(BH_) + Index(y)); s.pos.push_back(Index(x.col_ind()[k]) * Index(BW_) + Index(z)); s.vals.push_back(v[(k * Index(BH_) + Index(y)) * Index(BW_) + Index(z)]); }
    return s;
  }
  // kinds without a text mode
  template<typename T_> Sem sem(const T_&) { return Sem(); }

  // every sub-operation of a case goes through op(): with C05_TRIAGE=1 (or in --only replay) it is first executed in
  // a forked child so that a dying operation is reported under its own key and the remaining ones still run
  bool g_triage = false;
  template<typename F_>
  void op(verif::Ctx& c, const std::string& key, F_&& f)
  {
    if(g_triage)
    {
      int r = c.run_forked([&]{ f(); });
      if(r != 0) { c.fail(key + " DIES", "signal/exit " + std::to_string(r)); return; }
    }
    f();
  }

  // runs f in a forked child: 0 = returned true, 1 = returned false, 2 = died
  int probe(const std::function<bool()>& f)
  {
    fflush(stdout); fflush(stderr);
    pid_t p = fork();
    if(p < 0) return 2;
    if(p == 0)
    {
      int dn = open("/dev/null", O_WRONLY);
      if(dn >= 0) { dup2(dn, 2); dup2(dn, 1); }
      alarm(20);
      bool ok = f();
      _exit(ok ? 0 : 7);
    }
    int st = 0;
    while(waitpid(p, &st, 0) < 0) {}
    if(WIFEXITED(st) && WEXITSTATUS(st) == 0) return 0;
    if(WIFEXITED(st) && WEXITSTATUS(st) == 7) return 1;
    return 2;
  }
  const char* probe_txt(int s) { return s == 0 ? "ok" : (s == 1 ? "wrong result" : "abort/crash"); }

  // defect classes found on the pinned tree; each is probed once per run (stable key) and, while the probe fails,
  // the inputs of the class are counted as excluded instead of producing one crash per case
  struct Hazards
  {
    int eq_csr = 0, eq_bcsr = 0, eq_cscr = 0; // operator== of two array-free matrices with rows*columns > 0
    int null_array = 0;     // serialising a container that holds a size-0 (nullptr) array
    int dv_exp_len0 = 0;    // DenseVector fm_exp of length 0
    int dm_mtx_0x0 = 0;     // DenseMatrix 0x0 fm_mtx
    int sv_mtx_empty = 0;   // SparseVector without entries fm_mtx
    int mtx_csr = 0, mtx_bcsr = 0; // fm_mtx write of an array-free CSR/BCSR matrix with rows
    int svb_file = 0;       // SparseVectorBlocked::write_out(mode, filename)
    int dfio_stale = 0;     // DistFileIO::read_combined (serial) keeps stale content for an empty section
  };
  Hazards hz;
  const char* KEY_EQ_CSR = "operator== of two entry-free (array-free) SparseMatrixCSR matrices with rows*columns>0 dereferences the missing row pointer";
  const char* KEY_EQ_BCSR = "operator== of two entry-free (array-free) SparseMatrixBCSR matrices with rows*columns>0 dereferences the missing row pointer";
  const char* KEY_EQ_CSCR = "operator== of two entry-free (array-free) SparseMatrixCSCR matrices with rows*columns>0 dereferences the missing row pointer";
  const char* KEY_NULL = "serialising a container that holds a size-0 array aborts in MemoryPool::increase_memory(nullptr) (e.g. CSR(2,2,0), CSR read from a MatrixMarket file without entries)";
  const char* KEY_DVEXP = "DenseVector::write_out(fm_exp) of a length-0 vector throws std::out_of_range (_elements.at(0))";
  const char* KEY_DM0 = "DenseMatrix default-constructed (0x0): fm_mtx cannot be read back (constructor asserts rows,columns != 0)";
  const char* KEY_SVMTX = "SparseVector without entries: fm_mtx cannot be read back (array constructor with empty arrays / size 0)";
  const char* KEY_MTX_CSR = "fm_mtx write_out of an entry-free (array-free) SparseMatrixCSR matrix with rows walks the missing row pointer";
  const char* KEY_MTX_BCSR = "fm_mtx write_out of an entry-free (array-free) SparseMatrixBCSR matrix with rows walks the missing row pointer";
  const char* KEY_DFIO = "DistFileIO::read_combined (serial) does not resize an output vector whose section in the file is empty (stale content stays)";
  const char* KEY_SVBFILE = "SparseVectorBlocked::write_out(mode, filename) puts a 16 MiB stream buffer on the stack (stack overflow)";

  struct Caps
  {
    FileMode own;
    bool mtx_rw, exp_rw, mtx_w_only, mtx_sym;
  };

  std::string scratch_file(const char* tag)
  {
    static std::string dir;
    if(dir.empty())
    {
      dir = verif::detail::getenv_s("VERIF_SCRATCH", verif::detail::verif_root() + "/build/scratch") + "/c05_roundtrip";
      std::string cmd = "mkdir -p '" + dir + "'";
      if(system(cmd.c_str()) != 0) {}
    }
    return dir + "/p" + std::to_string(getpid()) + "." + tag;
  }

  /// independent decoder of the binary container format as documented at Container::_serialize (uncompressed):
  /// 11 x u64 header | elements_size[] | elements byte sizes[] | indices_size[] | indices byte sizes[] | scalar_index[] |
  /// (align DT2) scalar_dt[] | element arrays (DT2) | (align IT2) index arrays (IT2) | 16 bytes padding
  template<typename DT2_, typename IT2_>
  bool parse_buffer(const std::vector<char>& buf, VFP& f, std::string& err)
  {
    f = VFP();
    if(buf.size() < 88 + 16 || (buf.size() % 1) != 0) { err = "buffer too small"; return false; }
    auto u = [&](size_t k){ std::uint64_t v; memcpy(&v, buf.data() + 8 * k, 8); return v; };
    if(u(0) != buf.size()) { err = "size field"; return false; }
    const std::uint64_t ne = u(4), ni = u(5), nes = u(6), nis = u(7), nsi = u(8), nsd = u(9);
    if(ne != nes || ni != nis) { err = "array counts differ from size counts"; return false; }
    if(u(10) != 0x11) { err = "compression field is not compression_off (0x11)"; return false; }
    size_t k = 11;
    if((k + 2 * nes + 2 * nis + nsi) * 8 > buf.size()) { err = "header exceeds buffer"; return false; }
    std::vector<std::uint64_t> eb, ib;
    for(std::uint64_t i = 0; i < nes; ++i) f.esz.push_back(u(k++));
    for(std::uint64_t i = 0; i < nes; ++i) eb.push_back(u(k++));
    for(std::uint64_t i = 0; i < nis; ++i) f.isz.push_back(u(k++));
    for(std::uint64_t i = 0; i < nis; ++i) ib.push_back(u(k++));
    for(std::uint64_t i = 0; i < nsi; ++i) f.sidx.push_back(u(k++));
    for(std::uint64_t i = 0; i < nes; ++i) if(eb[i] != f.esz[i] * sizeof(DT2_)) { err = "byte size field of element array " + std::to_string(i) + " is " + std::to_string(eb[i]); return false; }
    for(std::uint64_t i = 0; i < nis; ++i) if(ib[i] != f.isz[i] * sizeof(IT2_)) { err = "byte size field of index array " + std::to_string(i) + " is " + std::to_string(ib[i]); return false; }
    size_t pos = k * 8; // aligned to 8, hence to DT2
    auto need = [&](size_t n){ return pos + n + 16 <= buf.size() + 0; };
    if(!need(nsd * sizeof(DT2_))) { err = "scalar_dt exceeds buffer"; return false; }
    for(std::uint64_t i = 0; i < nsd; ++i) { DT2_ v; memcpy(&v, buf.data() + pos, sizeof(DT2_)); f.sdt.push_back(v); pos += sizeof(DT2_); }
    for(std::uint64_t a = 0; a < nes; ++a)
    {
      if(!need(f.esz[a] * sizeof(DT2_))) { err = "element array exceeds buffer (incl. 16 bytes padding)"; return false; }
      std::vector<long double> arr;
      for(std::uint64_t i = 0; i < f.esz[a]; ++i) { DT2_ v; memcpy(&v, buf.data() + pos, sizeof(DT2_)); arr.push_back(v); pos += sizeof(DT2_); }
      f.e.push_back(arr);
    }
    pos = ((pos + sizeof(IT2_) - 1) / sizeof(IT2_)) * sizeof(IT2_);
    for(std::uint64_t a = 0; a < nis; ++a)
    {
      if(pos + f.isz[a] * sizeof(IT2_) > buf.size()) { err = "index array exceeds buffer"; return false; }
      std::vector<std::uint64_t> arr;
      for(std::uint64_t i = 0; i < f.isz[a]; ++i) { IT2_ v; memcpy(&v, buf.data() + pos, sizeof(IT2_)); arr.push_back(v); pos += sizeof(IT2_); }
      f.i.push_back(arr);
    }
    if(pos > buf.size()) { err = "content exceeds buffer"; return false; }
    return true;
  }

  template<typename DT2_, typename IT2_, typename C_>
  void serialize_pair(verif::Ctx& c, const C_& x, const VFP& f0, const std::string& kind, const char* pair, bool may_equal)
  {
    SerialConfig cfg(false, false);
    std::vector<char> buf = x.template serialize<DT2_, IT2_>(cfg);
    const std::string key = kind + " serialize<" + pair + ">";
    bool hdr = buf.size() >= 88 && *reinterpret_cast<const std::uint64_t*>(buf.data()) == std::uint64_t(buf.size());
    c.check(hdr, key + " header size field", [&]{ return "buffer " + std::to_string(buf.size()); });
    if(!hdr) return;
    {
      VFP fb; std::string err;
      bool ok = parse_buffer<DT2_, IT2_>(buf, fb, err);
      c.check(ok && fb == f0, key + " buffer layout/content (independent decoder)", [&]{ return err + " decoded " + fb.str() + " expected " + f0.str(); });
    }
    C_ y;
    y.template deserialize<DT2_, IT2_>(buf);
    VFP f1 = vfp(y);
    c.check(f1 == f0, key + " read back differs", [&]{ return "got " + f1.str() + " expected " + f0.str(); });
    if(may_equal) c.check(x == y, key + " operator== false", "");
    else c.excluded("operator== on array-free matrices (reported once as finding)");
    c.check(vfp(x) == f0, key + " modified the source", "");
    c.count("binary_round_trips");
  }

  template<typename MK_, typename MKX_>
  void run_variant(verif::Ctx& c, Index v, int rnd, const Caps& caps, const std::string& kind, bool eq_safe)
  // NOLINT
  {
    typedef typename MK_::Type C;
    typedef typename MKX_::Type CX;
    std::string d;
    C x = MK_::make(v, rnd, d);
    const VFP f0 = vfp(x);
    const Sem s0 = sem(x);
    std::string dn;
    C xn = MK_::make((v + 1) % MK_::count(c.thorough), rnd, dn); // a second object for the two-in-one-stream test
    VFP fn = vfp(xn);
    SerialConfig cfg(false, false);
    const bool exact = (rnd == 0), extreme = (rnd >= 2);
    // narrowing (double container -> float serialisation / float container) only when the values are representable
    const bool narrow_ok = exact || std::is_same<typename C::DataType, float>::value;
    const Index fstride = c.thorough ? 4 : 16; // real files for every fstride-th variant
    // classification of the input w.r.t. the probed defect classes
    const bool no_arrays = !f0.has_data() && f0.e.empty() && f0.i.empty() && f0.sidx.size() >= 3 && kind.find("SparseMatrix") != std::string::npos && kind.find("Banded") == std::string::npos;
    const bool array_free = no_arrays && f0.sidx[0] > 0;      // rows*columns > 0
    const bool array_free_rows = no_arrays && f0.sidx[1] > 0; // rows > 0
    bool has_null_array = false;
    for(auto z : f0.esz) if(z == 0) has_null_array = true;
    for(auto z : f0.isz) if(z == 0) has_null_array = true;
    bool next_null = false;
    for(auto z : fn.esz) if(z == 0) next_null = true;
    for(auto z : fn.isz) if(z == 0) next_null = true;
    const int hz_eq = kind.find("SparseMatrixCSR") != std::string::npos ? hz.eq_csr : (kind.find("SparseMatrixBCSR") != std::string::npos ? hz.eq_bcsr : hz.eq_cscr);
    eq_safe = !(array_free && hz_eq != 0);
    const bool skip_binary = has_null_array && hz.null_array != 0;
    if(skip_binary) c.excluded("binary modes of a container holding a size-0 array (reported once as finding)");
    if(next_null && hz.null_array != 0) { xn = MK_::make(v, rnd, dn); fn = vfp(xn); } // keep the two-in-one-stream test alive

    if((exact || extreme) && !skip_binary)
    {
      // ---- binary container format with every serialisation type pair
      op(c, kind + " serialize<double,u64>", [&]{ serialize_pair<double, std::uint64_t>(c, x, f0, kind, "double,u64", eq_safe); });
      if(narrow_ok) op(c, kind + " serialize<float,u64>", [&]{ serialize_pair<float, std::uint64_t>(c, x, f0, kind, "float,u64", eq_safe); });
      op(c, kind + " serialize<double,u32>", [&]{ serialize_pair<double, std::uint32_t>(c, x, f0, kind, "double,u32", eq_safe); });
      if(narrow_ok) op(c, kind + " serialize<float,u32>", [&]{ serialize_pair<float, std::uint32_t>(c, x, f0, kind, "float,u32", eq_safe); });
      op(c, kind + " ctor(std::vector<char>)", [&]{
        std::vector<char> buf = x.serialize(cfg);
        C y(buf);
        c.check(vfp(y) == f0, kind + " ctor(std::vector<char>)", [&]{ return vfp(y).str() + " expected " + f0.str(); });
      });
      // ---- checkpoint interface of Container
      op(c, kind + " checkpoint interface", [&]{
        std::vector<char> data(3, 'x');
        const std::uint64_t est = x.get_checkpoint_size(cfg);
        const std::uint64_t n = x.set_checkpoint_data(data, cfg);
        bool ok = data.size() == 3 + n && n <= est && data[0] == 'x' && data[2] == 'x';
        c.check(ok, kind + " set_checkpoint_data size", [&]{ return "appended " + std::to_string(n) + " estimate " + std::to_string(est) + " vector " + std::to_string(data.size()); });
        if(ok)
        {
          std::vector<char> part(data.begin() + 3, data.end());
          C y = MK_::make((v + 1) % MK_::count(c.thorough), false, dn);
          y.restore_from_checkpoint_data(part);
          c.check(vfp(y) == f0, kind + " restore_from_checkpoint_data", [&]{ return vfp(y).str() + " expected " + f0.str(); });
        }
      });
      // ---- streams
      for(FileMode mode : {FileMode::fm_binary, caps.own})
      {
        const std::string ms = (mode == FileMode::fm_binary) ? "fm_binary" : "own mode";
        op(c, kind + " stringstream " + ms, [&]{
          std::stringstream ss;
          x.write_out(mode, ss);
          xn.write_out(mode, ss);
          const std::string bytes = ss.str();
          C y(mode, ss);
          C y2; y2.read_from(mode, ss);
          c.check(vfp(y) == f0, kind + " stringstream " + ms, [&]{ return vfp(y).str() + " expected " + f0.str(); });
          c.check(vfp(y2) == fn, kind + " stringstream " + ms + " second object in the same stream", [&]{ return vfp(y2).str() + " expected " + fn.str(); });
          if(eq_safe) c.check(x == y, kind + " stringstream " + ms + " operator== false", "");
          // cross type read of the same bytes
          if(narrow_ok)
          {
            std::stringstream s2(bytes);
            CX z; z.read_from(mode, s2);
            c.check(vfp(z) == f0, kind + " cross-type read " + ms, [&]{ return vfp(z).str() + " expected " + f0.str(); });
          }
          // write(read(write)) is byte identical
          std::stringstream s3;
          y.write_out(mode, s3); y2.write_out(mode, s3);
          c.check(s3.str() == bytes, kind + " rewrite not byte-identical " + ms, "");
          c.count("stream_round_trips", 3);
        });
        op(c, kind + " BinaryStream " + ms, [&]{
          BinaryStream bs;
          x.write_out(mode, bs);
          bs.seekg(0);
          C y(mode, bs);
          c.check(vfp(y) == f0, kind + " BinaryStream " + ms, [&]{ return vfp(y).str() + " expected " + f0.str(); });
          c.count("stream_round_trips");
        });
      }
      // ---- configuration through the setters instead of the constructor; Container::bytes()
      op(c, kind + " SerialConfig setters", [&]{
        SerialConfig c2(false, false);
        SerialConfig c3; // default: compression off in a build without zlib
        c3.set_elements_compression(CompressionModes::elements_off);
        c3.set_indices_compression(CompressionModes::indices_off);
        c3.set_tolerance(FEAT::Real(1e-3));
        c.check(c3.get_elements_compression() == CompressionModes::elements_off && c3.get_indices_compression() == CompressionModes::indices_off && c3.get_tolerance() == FEAT::Real(1e-3)
          && c2.get_elements_compression() == c3.get_elements_compression() && c2.get_indices_compression() == c3.get_indices_compression(), "SerialConfig setters/getters", "");
        // masks: a combined value only takes the part of the respective setter
        SerialConfig c4(false, false);
        c4.set_elements_compression(CompressionModes::compression_off);
        c4.set_indices_compression(CompressionModes::compression_off);
        c.check(c4.get_elements_compression() == CompressionModes::elements_off && c4.get_indices_compression() == CompressionModes::indices_off, "SerialConfig setters mask their argument", "");
        const std::vector<char> b2 = x.serialize(c2), b3 = x.serialize(c3), b4 = x.serialize(c4);
        c.check(b2 == b3 && b2 == b4, kind + " serialize with a setter-built SerialConfig differs from the constructor-built one", "");
        c.check(x.get_checkpoint_size(c3) == x.get_checkpoint_size(c2), kind + " get_checkpoint_size with a setter-built SerialConfig", "");
        std::size_t bytes = 0;
        for(auto z : f0.esz) bytes += std::size_t(z) * sizeof(typename C::DataType);
        for(auto z : f0.isz) bytes += std::size_t(z) * sizeof(typename C::IndexType);
        bytes += f0.sidx.size() * sizeof(Index) + f0.sdt.size() * sizeof(typename C::DataType);
        c.check(x.bytes() == bytes, kind + " bytes()", [&]{ return std::to_string(x.bytes()) + " expected " + std::to_string(bytes); });
      });
      // ---- re-invocation: read into an already filled target that shares its storage with a bystander (shallow clone);
      //      the target must afterwards equal the source, the bystander must be untouched; read a second time into the same object
      op(c, kind + " read into filled target", [&]{
        const Index nv = MK_::count(c.thorough);
        for(int tv = 1; tv <= 2; ++tv)
        {
          std::string dt;
          std::stringstream ss; x.write_out(caps.own, ss);
          const std::string bytes = ss.str();
          C t = MK_::make((v + Index(tv) * 3 + 1) % nv, 0, dt);
          C by = t.clone(CloneMode::Shallow);
          const VFP fby = vfp(by);
          t.read_from(caps.own, ss);
          c.check(vfp(t) == f0, kind + " read_from into a filled target", [&]{ return "target was " + dt + ": " + vfp(t).str() + " expected " + f0.str(); });
          c.check(vfp(by) == fby, kind + " read_from into a filled target changed a container sharing its old arrays", [&]{ return "target was " + dt; });
          std::stringstream s2(bytes); t.read_from(FileMode::fm_binary, s2);
          c.check(vfp(t) == f0, kind + " read_from twice into the same object", [&]{ return vfp(t).str(); });
          // deserialize / restore into a filled target sharing storage
          C t2 = MK_::make((v + Index(tv) * 3 + 1) % nv, 0, dt);
          C by2 = t2.clone(CloneMode::Shallow);
          std::vector<char> buf = x.serialize(cfg);
          t2.deserialize(buf);
          c.check(vfp(t2) == f0 && vfp(by2) == fby, kind + " deserialize into a filled target", [&]{ return "target was " + dt + ": " + vfp(t2).str(); });
          std::vector<char> cpd; x.set_checkpoint_data(cpd, cfg);
          C t3 = MK_::make((v + Index(tv) * 3 + 1) % nv, 0, dt);
          C by3 = t3.clone(CloneMode::Shallow);
          t3.restore_from_checkpoint_data(cpd);
          t3.restore_from_checkpoint_data(cpd);
          c.check(vfp(t3) == f0 && vfp(by3) == fby, kind + " restore_from_checkpoint_data twice into a filled target", [&]{ return vfp(t3).str(); });
        }
        c.count("filled_target_reads", 8);
      });
      // ---- derived objects: clones in every copying mode, moved objects and type-converted-and-back objects write the same bytes
      op(c, kind + " derived objects", [&]{
        std::stringstream s0; x.write_out(caps.own, s0);
        const std::string bytes = s0.str();
        auto same = [&](const C& d, const char* what)
        {
          std::stringstream s1; d.write_out(caps.own, s1);
          c.check(vfp(d) == f0 && s1.str() == bytes, kind + " derived object (" + what + ") differs or writes other bytes", [&]{ return vfp(d).str() + " expected " + f0.str(); });
        };
        { C d = x.clone(CloneMode::Deep); same(d, "deep clone"); C m(std::move(d)); same(m, "move-constructed"); std::string dt; C ma = MK_::make((v + 2) % MK_::count(c.thorough), 0, dt); ma = std::move(m); same(ma, "move-assigned into a filled object"); }
        { C d = x.clone(CloneMode::Shallow); same(d, "shallow clone"); }
        { C d = x.clone(CloneMode::Weak); same(d, "weak clone"); }
        if(narrow_ok) { CX cx; cx.convert(x); C back; back.convert(cx); same(back, "converted to the other data/index types and back"); c.check(vfp(cx) == f0, kind + " converted object differs", [&]{ return vfp(cx).str(); }); }
        c.check(vfp(x) == f0, kind + " derived objects modified the source", "");
        c.count("derived_objects", 6);
      });
      // ---- real files (every fstride-th variant)
      if(v % fstride == 0 && kind.find("SparseVectorBlocked") != std::string::npos && hz.svb_file != 0) c.excluded("SparseVectorBlocked file write (reported once as finding)");
      else if(v % fstride == 0) op(c, kind + " files", [&]{
        const std::string fn1 = scratch_file("bin");
        x.write_out(FileMode::fm_binary, fn1);
        C y(FileMode::fm_binary, fn1);
        c.check(vfp(y) == f0, kind + " file fm_binary", [&]{ return vfp(y).str() + " expected " + f0.str(); });
        x.write_out(caps.own, fn1);
        if(narrow_ok)
        {
          CX z; z.read_from(caps.own, fn1);
          c.check(vfp(z) == f0, kind + " file own mode cross-type", [&]{ return vfp(z).str() + " expected " + f0.str(); });
        }
        unlink(fn1.c_str());
        c.count("file_round_trips", 2);
      });
    }

    // ---- text modes
    const long double tol = exact ? 0.0L : 5.01e-7L; // printed precision: 7 significant digits
    auto text_rt = [&](FileMode mode, const char* ms)
    {
      std::stringstream ss;
      x.write_out(mode, ss);
      const std::string t1 = ss.str();
      C y(mode, ss);
      Sem s1 = sem(y);
      c.check(sem_equal(s0, s1, tol), kind + " " + ms + " read back differs", [&]{ return "got " + s1.str() + " expected " + s0.str() + " text=" + t1.substr(0, 300); });
      {
        // the same text written to a BinaryStream (string insertion only): bytes identical to the stringstream text
        BinaryStream bs;
        x.write_out(mode, bs);
        c.check(std::string(bs.container().begin(), bs.container().end()) == t1, kind + " " + ms + " written to a BinaryStream differs from the stringstream text", "");
      }
      std::stringstream s2;
      y.write_out(mode, s2);
      c.check(s2.str() == t1, kind + " " + ms + " write(read(write)) not byte-identical", [&]{ return "first=" + t1.substr(0, 200) + " second=" + s2.str().substr(0, 200); });
      {
        // re-invocation: read the text into a filled target sharing its arrays with a bystander
        std::string dt;
        C t = MK_::make((v + 4) % MK_::count(c.thorough), 0, dt);
        C by = t.clone(CloneMode::Shallow);
        const VFP fby = vfp(by);
        std::stringstream s4(t1);
        t.read_from(mode, s4);
        c.check(sem_equal(s0, sem(t), tol), kind + " " + ms + " read into a filled target differs", [&]{ return "target was " + dt + ": " + sem(t).str() + " expected " + s0.str(); });
        c.check(vfp(by) == fby, kind + " " + ms + " read into a filled target changed a container sharing its old arrays", "");
      }
      if(mode == FileMode::fm_mtx && (kind.find("SparseMatrixCSR") != std::string::npos || kind.find("SparseVector<") != std::string::npos))
      {
        // orders: a coordinate MatrixMarket file may list its entries in any order: reverse the entry lines
        std::vector<std::string> lines; { std::stringstream ls(t1); std::string l; while(std::getline(ls, l)) lines.push_back(l); }
        if(lines.size() > 3)
        {
          std::reverse(lines.begin() + 2, lines.end());
          std::string t2; for(auto& l : lines) t2 += l + "\n";
          std::stringstream s5(t2);
          C z(mode, s5);
          c.check(sem_equal(s0, sem(z), tol), kind + " " + ms + " entries listed in reverse order read differently", [&]{ return sem(z).str() + " expected " + s0.str(); });
          c.count("scrambled_text_reads");
        }
      }
      if(exact)
      {
        std::stringstream s3(t1);
        CX z; z.read_from(mode, s3);
        c.check(sem_equal(s0, sem(z), tol), kind + " " + ms + " cross-type read differs", [&]{ return sem(z).str() + " expected " + s0.str(); });
      }
      if(v % fstride == 0)
      {
        const std::string fn1 = scratch_file("txt");
        x.write_out(mode, fn1);
        C y2(mode, fn1);
        c.check(sem_equal(s0, sem(y2), tol), kind + " " + ms + " file read back differs", [&]{ return sem(y2).str() + " expected " + s0.str(); });
        unlink(fn1.c_str());
      }
      c.check(vfp(x) == f0, kind + " " + ms + " modified the source", "");
      c.count("text_round_trips");
    };
    bool mtx_ok = caps.mtx_rw, exp_ok = caps.exp_rw;
    if(mtx_ok && array_free_rows && hz.mtx_csr != 0) { mtx_ok = false; c.excluded("fm_mtx of an array-free matrix with rows (reported once as finding)"); }
    if(mtx_ok && kind.find("DenseMatrix") != std::string::npos && f0.sidx.size() >= 2 && f0.sidx[1] == 0 && hz.dm_mtx_0x0 != 0) { mtx_ok = false; c.excluded("fm_mtx of the 0x0 DenseMatrix (reported once as finding)"); }
    if(mtx_ok && kind.find("SparseVector<") != std::string::npos && f0.sidx.size() >= 2 && f0.sidx[1] == 0 && hz.sv_mtx_empty != 0) { mtx_ok = false; c.excluded("fm_mtx of a SparseVector without entries (reported once as finding)"); }
    if(exp_ok && kind.find("DenseVector<") != std::string::npos && f0.sidx.size() >= 1 && f0.sidx[0] == 0 && hz.dv_exp_len0 != 0) { exp_ok = false; c.excluded("fm_exp of a length-0 DenseVector (reported once as finding)"); }
    if(mtx_ok) op(c, kind + " fm_mtx", [&]{ text_rt(FileMode::fm_mtx, "fm_mtx"); });
    if(exp_ok) op(c, kind + " fm_exp", [&]{ text_rt(FileMode::fm_exp, "fm_exp"); });

    c.nontrivial(f0.hash(verif::Hash().str(kind).pod(rnd).get()));
  }

  // CSR specials: symmetric MatrixMarket; BCSR written as MatrixMarket read by CSR
  template<typename DT_, typename IT_>
  void csr_symmetric(verif::Ctx& c, Index n, uint64_t lowmask, const std::string& kind, int alph)
  {
    // symmetric pattern from the lower triangle incl. diagonal
    uint64_t mask = 0; Index b = 0;
    for(Index i = 0; i < n; ++i) for(Index j = 0; j <= i; ++j, ++b) if(lowmask & (uint64_t(1) << b)) { mask |= uint64_t(1) << (i * n + j); mask |= uint64_t(1) << (j * n + i); }
    if(mask == 0) return;
    std::vector<uint64_t> rp(n + 1, 0), ci; std::vector<double> va;
    for(Index i = 0; i < n; ++i)
    {
      for(Index j = 0; j < n; ++j) if(mask & (uint64_t(1) << (i * n + j))) { ci.push_back(j); va.push_back(aval<DT_>(alph, std::min(i, j) * n + std::max(i, j), 11)); }
      rp[i + 1] = ci.size();
    }
    auto vci = mkiv<IT_, IT_>(ci); auto vva = mkdv<DT_, IT_>(va); auto vrp = mkiv<IT_, IT_>(rp);
    SparseMatrixCSR<DT_, IT_> x(n, n, vci, vva, vrp);
    std::stringstream ss;
    x.write_out(FileMode::fm_mtx, ss, true);
    const std::string t1 = ss.str();
    SparseMatrixCSR<DT_, IT_> y(FileMode::fm_mtx, ss);
    c.check(sem_equal(sem(x), sem(y), alph == 0 ? 0.0L : 5.01e-7L), kind + " fm_mtx symmetric read back differs", [&]{ return vfp(y).str() + " expected " + vfp(x).str() + " text=" + t1; });
    std::stringstream s2; y.write_out(FileMode::fm_mtx, s2, true);
    c.check(s2.str() == t1, kind + " fm_mtx symmetric write(read(write)) not byte-identical", "");
    c.count("text_round_trips");
  }

  template<typename DT_, typename IT_, int BH_, int BW_>
  void bcsr_mtx(verif::Ctx& c, Index v, const std::string& kind, int alph)
  {
    std::string d;
    auto x = MakeBCSR<DT_, IT_, BH_, BW_>::make(v, alph, d);
    if(x.row_ptr() == nullptr && x.rows() > 0 && hz.mtx_bcsr != 0) { c.excluded("fm_mtx of an array-free matrix with rows (reported once as finding)"); return; }
    std::stringstream ss;
    x.write_out(FileMode::fm_mtx, ss);
    SparseMatrixCSR<DT_, IT_> y(FileMode::fm_mtx, ss);
    Sem s0 = sem(x), s1 = sem(y);
    c.check(sem_equal(s0, s1, alph == 0 ? 0.0L : 5.01e-7L), kind + " fm_mtx written by BCSR, read by CSR", [&]{ return "got " + s1.str() + " expected " + s0.str(); });
    c.count("text_round_trips");
  }

  // ---------------------------------------------------------------------------------------------- Pack
  template<typename T_> struct PackVals;
  template<typename X_> std::vector<long double> pack_alphabet(bool is_float, bool is_signed, size_t xbytes)
  {
    std::vector<long double> a;
    if(is_float) { a = {0.0L, 1.0L, -1.5L, 0.125L, 1024.0L, -0.0078125L, 3.75L, -65504.0L / 65536.0L, 2.5L}; }
    else
    {
      long double top = std::pow(2.0L, (long double)(8 * xbytes - (is_signed ? 1 : 0))) - 1.0L;
      a = {0.0L, 1.0L, 2.0L, 100.0L, top, std::floor(top / 3.0L), 77.0L, 5.0L, 127.0L};
      if(is_signed) { a[2] = -1.0L; a[5] = -top - 1.0L; a[7] = -100.0L; }
    }
    return a;
  }

  template<typename T_>
  void pack_case(verif::Ctx& c, Pack::Type pt, const char* tname, const char* pname, size_t count, bool swap)
  {
    typedef FEAT::Type::Traits<T_> TT;
    const size_t xb = Pack::element_size(pt);
    const size_t tb = sizeof(T_);
    // values representable in both T_ and the pack type
    std::vector<long double> al = pack_alphabet<T_>(TT::is_float, TT::is_signed, std::min(xb, tb));
    std::vector<T_> src(count + 1), dst(count + 1, T_(42));
    for(size_t i = 0; i < count; ++i) src[i] = T_(al[(i * 4 + count) % al.size()]);
    src[count] = T_(7);
    const size_t est = Pack::estimate_size(count, pt);
    std::vector<unsigned char> buf(est + 16, 0xAB);
    const std::string key = std::string("pack ") + tname + "->" + pname + (swap ? " swapped" : "");
    size_t n = Pack::encode(buf.data() + 8, src.data(), est, count, pt, swap);
    c.check(n == count * xb && n == est, key + " encode byte count", [&]{ return std::to_string(n) + " estimate " + std::to_string(est); });
    bool canary = true;
    for(size_t i = 0; i < 8; ++i) if(buf[i] != 0xAB || buf[8 + est + i] != 0xAB) canary = false;
    c.check(canary, key + " encode wrote outside the buffer", "");
    // reference bytes: little endian image of the value converted to the pack type
    bool bytes_ok = true;
    for(size_t i = 0; i < count && n == count * xb; ++i)
    {
      unsigned char ref[16] = {0};
      const long double val = (long double)src[i];
      switch(pt)
      {
      case Pack::Type::I8:  { std::int8_t q = std::int8_t(val); memcpy(ref, &q, 1); break; }
      case Pack::Type::I16: { std::int16_t q = std::int16_t(val); memcpy(ref, &q, 2); break; }
      case Pack::Type::I32: { std::int32_t q = std::int32_t(val); memcpy(ref, &q, 4); break; }
      case Pack::Type::I64: { std::int64_t q = std::int64_t(val); memcpy(ref, &q, 8); break; }
      case Pack::Type::U8:  { std::uint8_t q = std::uint8_t(val); memcpy(ref, &q, 1); break; }
      case Pack::Type::U16: { std::uint16_t q = std::uint16_t(val); memcpy(ref, &q, 2); break; }
      case Pack::Type::U32: { std::uint32_t q = std::uint32_t(val); memcpy(ref, &q, 4); break; }
      case Pack::Type::U64: { std::uint64_t q = std::uint64_t(val); memcpy(ref, &q, 8); break; }
      case Pack::Type::F32: { float q = float(val); memcpy(ref, &q, 4); break; }
      case Pack::Type::F64: { double q = double(val); memcpy(ref, &q, 8); break; }
      default: break;
      }
      if(swap) std::reverse(ref, ref + xb);
      if(memcmp(ref, buf.data() + 8 + i * xb, xb) != 0) bytes_ok = false;
    }
    c.check(bytes_ok, key + " encoded bytes", "");
    size_t m = Pack::decode(dst.data(), buf.data() + 8, count, n, pt, swap);
    c.check(m == n, key + " decode byte count", [&]{ return std::to_string(m) + " vs " + std::to_string(n); });
    bool ok = dst[count] == T_(42);
    for(size_t i = 0; i < count; ++i) if(memcmp(&dst[i], &src[i], sizeof(T_)) != 0) ok = false;
    c.check(ok, key + " decode(encode(x)) != x", [&]{ std::string s; for(size_t i = 0; i < count; ++i) s += std::to_string((double)dst[i]) + "/" + std::to_string((double)src[i]) + " "; return s; });
    c.count("pack_round_trips");
    if(count > 0) c.nontrivial(verif::Hash().str(key).pod(count).get());
  }

  template<typename T_>
  void pack_type(verif::Ctx& c, const char* tname, std::initializer_list<std::pair<Pack::Type, const char*>> pts)
  {
    for(auto& p : pts) for(size_t count = 0; count <= 9; ++count) for(int swap = 0; swap < 2; ++swap)
    {
      if(!c.want()) continue;
      c.desc([&]{ return std::string("Pack ") + tname + " as " + p.second + " count=" + std::to_string(count) + " swap=" + std::to_string(swap); });
      pack_case<T_>(c, p.first, tname, p.second, count, swap != 0);
      c.outcome("pack");
    }
  }

  template<typename MK_, typename MKX_>
  void run_kind(verif::Ctx& c, const Caps& caps, const char* types, bool eq_safe_degenerate)
  {
    const std::string kind = std::string(MK_::name()) + "<" + types + ">";
    const Index n = MK_::count(c.thorough);
    for(Index v = 0; v < n; ++v)
    {
      // alphabets: exact; rounding (text kinds only); extreme with every offset for the first 40 variants (so that every
      // extreme value meets every small shape) and with one variant-dependent offset for the others
      std::vector<int> alphs; alphs.push_back(0);
      if(caps.mtx_rw || caps.exp_rw) alphs.push_back(1);
      if(v < 40) { for(uint64_t o = 0; o < NX; ++o) alphs.push_back(int(2 + o)); }
      else alphs.push_back(int(2 + (v * 7) % NX));
      for(int rnd : alphs)
      {
        if(!c.want()) continue;
        c.desc([&]{ std::string dd; (void)MK_::make(v, 0, dd); return kind + " variant " + std::to_string(v) + ": " + dd + alph_name(rnd); });
        (void)eq_safe_degenerate;
        run_variant<MK_, MKX_>(c, v, rnd, caps, kind, true);
        c.outcome(MK_::name());
      }
    }
  }
}

int main(int argc, char** argv)
{
  Runtime::ScopeGuard guard(argc, argv);
  verif::Spec spec; spec.property = "C05"; spec.harness = "c05_roundtrip";
  spec.rule = "one case per (container kind, type pair, variant, value alphabet: exact / rounding / extreme with offset); variants enumerate every length / shape / sparsity pattern / offset subset / used-row subset of the bound, "
    "simplest first, incl. default-constructed, size-0, entry-free (array-free) and arrays-without-entries forms; Pack: one case per (value type, pack type, count 0..9, swap). "
    "Non-trivial: every case (hashed by kind and the fingerprint of the built container); trivial containers without arrays are included on purpose.";
  spec.bounds_quick = "DenseVector len<=9; DVBlocked<2>,<3> blocks<=4; SparseVector size<=4 all index subsets (+4 insertion-built); SVBlocked<2> size<=3; DenseMatrix<=3x3; "
    "CSR all patterns<=3x3 and 3x4 (+entry-free 0..3 x 0..3, arrays-without-entries); BCSR<2,2>,<2,3> all block patterns<=2x2; Banded all offset subsets<=3x3; CSCR all used-row subsets x patterns<=2x3; "
    "DistFileIO serial combined/ordered/sequence for section sizes 0..5 x 0..5 and text-stream sequence/common files of 1..5 lines; BinaryStream operation histories (write, string insertion, seekg, seekp(end), read) to depth 4 (thorough 6) against a byte-vector model; Pack::Type names; SerialConfig setters; type pairs (double,u64),(float,u32),(double,u32); serialisation pairs {double,float}x{u64,u32}; modes: serialize/deserialize, fm_binary+own mode on stringstream/BinaryStream/file (files: every 16th variant, thorough every 4th), checkpoint interface, fm_mtx, fm_exp";
  spec.bounds_thorough = "as quick plus DenseVector len<=17, blocks<=7, SparseVector size<=5, DenseMatrix<=4x4, CSR 4x3 (4095 patterns) and 4x4 (65535 patterns), BCSR block patterns<=3x3, Banded 4x4, CSCR<=3x3";
  spec.assumptions = {
    "oracle = fingerprints (sizes, scalar_index, scalar_dt, every raw array) read directly from the containers; text modes compare dimensions, pattern and values",
    "exact alphabet k/8 (|k|<=23) is representable in float and prints exactly with 7 significant digits; the rounding and the extreme alphabet are compared with relative tolerance 5.01e-7 (all text writers print 7 significant digits, std::scientific default precision) and zeros with their sign; binary modes are compared bitwise",
    "extreme alphabet (36 values): +-{DBL_MAX/2, 1e300, 1e100, 9.9999995e99, 9.999999e99, 7.5e99, 1e99, 1e-99, 1.5e-99, 9.9999995e-100, 7.5e-100, 1e-100, 1e-300, DBL_MIN, 1e-310 and 4.94e-324 (denormal), 1, 0}; for float +-{FLT_MAX/2, 1e38, 1e30, 1.5e10, 1e-30, 1e-37, FLT_MIN, 1e-40 and 1.4e-45 (denormal), 1, 0}; every offset for the first 40 variants of each kind, one offset otherwise; narrowing serialisation pairs / cross-type reads are skipped for it on double containers",
    "excluded, recorded as observations in DESIGN.md (patch files in spec/proposed_fixes, not applied): character-wise use of BinaryStream - put()/operator<<(char) (overflow() appends at the end without advancing the position) and get()/getline()/operator>> (no underflow(), always EOF), hence also text modes READ from a BinaryStream; the container and checkpoint writers/readers only use write()/read()/string insertion/seek. DistFileIO text reads of an empty file (abort on failbit); an empty text file is no persisted container",
    "zlib/zfp compression modes are not available in this build (no third-party libraries) and are not exercised: Pack::lossless_/lossy_ encode/decode/estimate, the compressed branches of _serialize/_deserialize, SerialConfig setters with zlib/zfp arguments (they abort), F16/F128 pack types",
    "coverage audit exclusions (anchor files, but outside persistence): the algebra/assembly members of the containers (apply, axpy, norms, convert between matrix formats, layout/graph constructors, ScatterAxpy, permute, name(), random/value constructors) belong to C01-C04/C02/C20; MPI branches of dist_file_io.cpp belong to C13; printing (operator<<) of containers",
    "excluded: reading a container with a mismatching container kind; fm_mtx of array-free matrices with rows (see exclusions counter)"};
  spec.max_samples = 10;
  if(std::getenv("C05_TRIAGE") != nullptr) { spec.max_report = 100000; spec.max_fail_per_worker = 1000000; }

  return verif::run(spec, argc, argv, [&](verif::Ctx& c) {
    g_triage = (c.replaying && std::getenv("C05_NOFORK") == nullptr) || std::getenv("C05_TRIAGE") != nullptr;
    std::cout.rdbuf(nullptr); // SparseMatrixBanded::write_out prints a warning to std::cout for every non-double matrix
    typedef std::uint64_t u64; typedef std::uint32_t u32;
    // ---- probes of the defect classes
    hz.eq_csr = probe([]{ SparseMatrixCSR<double, u64> a(2, 2), b(2, 2); return (a == b); });
    hz.eq_bcsr = probe([]{ SparseMatrixBCSR<double, u64, 2, 2> d(1, 1), e(1, 1); return (d == e); });
    hz.eq_cscr = probe([]{ SparseMatrixCSCR<double, u64> f(2, 1), g(2, 1); return (f == g); });
    hz.null_array = probe([]{
      SparseMatrixCSR<double, u64> a(2, 2, Index(0)); a.row_ptr()[0] = a.row_ptr()[1] = a.row_ptr()[2] = 0;
      std::vector<char> buf = a.serialize(SerialConfig(false, false));
      SparseMatrixCSR<double, u64> b(buf);
      std::stringstream ss("%%MatrixMarket matrix coordinate real general\n2 2 0\n");
      SparseMatrixCSR<double, u64> m(FileMode::fm_mtx, ss);
      std::stringstream s2; m.write_out(FileMode::fm_csr, s2);
      return vfp(a) == vfp(b); });
    hz.dv_exp_len0 = probe([]{ DenseVector<double, u64> a; std::stringstream ss; a.write_out(FileMode::fm_exp, ss); DenseVector<double, u64> b(FileMode::fm_exp, ss); return b.size() == 0; });
    hz.dm_mtx_0x0 = probe([]{ DenseMatrix<double, u64> a; std::stringstream ss; a.write_out(FileMode::fm_mtx, ss); DenseMatrix<double, u64> b(FileMode::fm_mtx, ss); return b.rows() == 0 && b.columns() == 0; });
    hz.sv_mtx_empty = probe([]{ SparseVector<double, u64> a(3); std::stringstream ss; a.write_out(FileMode::fm_mtx, ss); SparseVector<double, u64> b(FileMode::fm_mtx, ss);
      SparseVector<double, u64> a0; std::stringstream s0; a0.write_out(FileMode::fm_mtx, s0); SparseVector<double, u64> b0(FileMode::fm_mtx, s0);
      return b.size() == 3 && b.used_elements() == 0 && b0.size() == 0; });
    hz.mtx_csr = probe([]{ SparseMatrixCSR<double, u64> a(2, 3); std::stringstream ss; a.write_out(FileMode::fm_mtx, ss); SparseMatrixCSR<double, u64> b(FileMode::fm_mtx, ss);
      std::stringstream s3; a.write_out(FileMode::fm_mtx, s3, true);
      return b.rows() == 2 && b.columns() == 3 && b.used_elements() == 0; });
    hz.mtx_bcsr = probe([]{ SparseMatrixBCSR<double, u64, 2, 2> d(1, 1); std::stringstream s2; d.write_out(FileMode::fm_mtx, s2); SparseMatrixCSR<double, u64> b(FileMode::fm_mtx, s2);
      return b.rows() == 2 && b.columns() == 2 && b.used_elements() == 0; });
    hz.svb_file = probe([]{ SparseVectorBlocked<double, u64, 2> a(3); const std::string fn = scratch_file("probe"); a.write_out(FileMode::fm_binary, fn); SparseVectorBlocked<double, u64, 2> b(FileMode::fm_binary, fn); unlink(fn.c_str()); return b.size() == 3; });
    hz.dfio_stale = probe([]{
      const std::string fn = scratch_file("probe.cmb");
      Dist::Comm comm(Dist::Comm::world());
      std::vector<char> c0, b0, c1(2, 'x'), b1(3, 'y');
      DistFileIO::write_combined(c0, b0, fn, comm);
      DistFileIO::read_combined(c1, b1, fn, comm);
      unlink(fn.c_str());
      return c1.empty() && b1.empty(); });
    if(c.want())
    {
      c.desc([&]{ return std::string("probe: write_combined(empty, empty); read_combined into non-empty vectors"); });
      c.check(hz.dfio_stale == 0, KEY_DFIO, [&]{ return std::string(probe_txt(hz.dfio_stale)); });
    }
    {
      const std::pair<int, const char*> pr[10] = {{hz.eq_csr, KEY_EQ_CSR}, {hz.eq_bcsr, KEY_EQ_BCSR}, {hz.eq_cscr, KEY_EQ_CSCR}, {hz.null_array, KEY_NULL}, {hz.dv_exp_len0, KEY_DVEXP},
        {hz.dm_mtx_0x0, KEY_DM0}, {hz.sv_mtx_empty, KEY_SVMTX}, {hz.mtx_csr, KEY_MTX_CSR}, {hz.mtx_bcsr, KEY_MTX_BCSR}, {hz.svb_file, KEY_SVBFILE}};
      for(int k = 0; k < 10; ++k)
      {
        if(!c.want()) continue;
        c.desc([&]{ return std::string("probe of a known defect class: ") + pr[k].second; });
        c.check(pr[k].first == 0, pr[k].second, [&]{ return std::string(probe_txt(pr[k].first)); });
        c.outcome("probe");
      }
    }
    using PT = Pack::Type;
    // ---- Pack
    pack_type<std::int8_t>(c, "i8", {{PT::I8, "I8"}, {PT::I16, "I16"}, {PT::I64, "I64"}});
    pack_type<std::int16_t>(c, "i16", {{PT::I8, "I8"}, {PT::I16, "I16"}, {PT::I32, "I32"}});
    pack_type<std::int32_t>(c, "i32", {{PT::I16, "I16"}, {PT::I32, "I32"}, {PT::I64, "I64"}});
    pack_type<std::int64_t>(c, "i64", {{PT::I8, "I8"}, {PT::I32, "I32"}, {PT::I64, "I64"}});
    pack_type<std::uint8_t>(c, "u8", {{PT::U8, "U8"}, {PT::U16, "U16"}, {PT::U64, "U64"}});
    pack_type<std::uint16_t>(c, "u16", {{PT::U8, "U8"}, {PT::U16, "U16"}, {PT::U32, "U32"}});
    pack_type<std::uint32_t>(c, "u32", {{PT::U16, "U16"}, {PT::U32, "U32"}, {PT::U64, "U64"}});
    pack_type<std::uint64_t>(c, "u64", {{PT::U8, "U8"}, {PT::U32, "U32"}, {PT::U64, "U64"}});
    pack_type<float>(c, "f32", {{PT::F32, "F32"}, {PT::F64, "F64"}});
    pack_type<double>(c, "f64", {{PT::F32, "F32"}, {PT::F64, "F64"}});

    // ---- Pack::Type names, deduction and element sizes
    if(c.want())
    {
      c.desc([]{ return std::string("Pack::Type operator<< / operator>> round trip of every type name, deduct_type, element_size"); });
      const std::pair<PT, const char*> names[] = {{PT::F16, "F16"}, {PT::F32, "F32"}, {PT::F64, "F64"}, {PT::F128, "F128"}, {PT::I8, "I8"}, {PT::I16, "I16"}, {PT::I32, "I32"}, {PT::I64, "I64"},
        {PT::U8, "U8"}, {PT::U16, "U16"}, {PT::U32, "U32"}, {PT::U64, "U64"}, {PT::ZF16, "ZF16"}, {PT::ZF32, "ZF32"}, {PT::ZF64, "ZF64"}, {PT::ZF128, "ZF128"}, {PT::ZI8, "ZI8"}, {PT::ZI16, "ZI16"},
        {PT::ZI32, "ZI32"}, {PT::ZI64, "ZI64"}, {PT::ZU8, "ZU8"}, {PT::ZU16, "ZU16"}, {PT::ZU32, "ZU32"}, {PT::ZU64, "ZU64"}, {PT::PF32, "PF32"}, {PT::PF64, "PF64"}};
      for(auto& nm : names)
      {
        std::ostringstream os; os << nm.first;
        c.check(os.str() == nm.second, std::string("pack type name written for ") + nm.second, [&]{ return os.str(); });
        std::string lower(nm.second); for(char& ch : lower) ch = char(std::tolower(ch));
        for(const std::string& txt : {std::string(nm.second), lower})
        {
          std::istringstream is(txt + " rest"); PT t = PT::None; is >> t; std::string rest; is >> rest;
          c.check(!is.fail() && t == nm.first && rest == "rest", std::string("pack type name parsed for ") + nm.second, "");
        }
      }
      { std::istringstream is("F65"); PT t = PT::None; is >> t; c.check(is.fail() && t == PT::None, "pack type name: unknown name must set failbit", ""); }
      { std::ostringstream os; os << PT::None; c.check(os.str() == "???", "pack type name of an invalid type", ""); }
      c.check(Pack::deduct_type<std::int8_t>() == PT::I8 && Pack::deduct_type<std::int16_t>() == PT::I16 && Pack::deduct_type<std::int32_t>() == PT::I32 && Pack::deduct_type<std::int64_t>() == PT::I64
        && Pack::deduct_type<std::uint8_t>() == PT::U8 && Pack::deduct_type<std::uint16_t>() == PT::U16 && Pack::deduct_type<std::uint32_t>() == PT::U32 && Pack::deduct_type<std::uint64_t>() == PT::U64
        && Pack::deduct_type<float>() == PT::F32 && Pack::deduct_type<double>() == PT::F64, "pack deduct_type", "");
      c.check(Pack::element_size(PT::I8) == 1 && Pack::element_size(PT::U16) == 2 && Pack::element_size(PT::F32) == 4 && Pack::element_size(PT::I64) == 8 && Pack::element_size(PT::F128) == 16
        && Pack::element_size(PT::ZF64 & PT::Mask_T) == 8, "pack element_size", "");
      c.outcome("pack-names");
    }
    // ---- BinaryStream against a byte-vector model with ONE shared position: every operation history up to depth 4 (thorough 6)
    {
      // ops (those the container / checkpoint writers and readers use): 0 write(2 bytes), 1 string insertion (operator<<(const char*)),
      // 2 seekg(0), 3 seekp(0,end), 4 read(1 byte), 5 seekg(1)
      const int nops = 6;
      const size_t depth = c.thorough ? 6 : 4;
      std::vector<std::vector<int>> hists(1);
      for(size_t d = 0; d < depth; ++d)
      {
        const size_t last = hists.size();
        for(size_t k = 0; k < last; ++k) if(hists[k].size() == d) for(int o = 0; o < nops; ++o) { auto h = hists[k]; h.push_back(o); hists.push_back(h); }
      }
      for(size_t hi = 1; hi < hists.size(); hi += 64)
      {
        if(!c.want()) continue;
        c.desc([&]{ return "BinaryStream histories #" + std::to_string(hi) + "..+63 (ops 0 write2,1 <<string,2 seekg(0),3 seekp(end),4 read1,5 seekg(1))"; });
        for(size_t k = hi; k < std::min(hi + 64, hists.size()); ++k)
        {
          const auto& h = hists[k];
          BinaryStream b; std::vector<char> m; size_t pos = 0; bool ok = true; std::string what; char next = 'a';
          for(int o : h)
          {
            switch(o)
            {
            case 0: { char w[2] = {next, char(next + 1)}; next = char(next + 2); b.write(w, 2); if(m.size() < pos + 2) m.resize(pos + 2); m[pos] = w[0]; m[pos + 1] = w[1]; pos += 2; break; }
            case 1: { char w[3] = {next, char(next + 1), 0}; next = char(next + 2); b << w; if(m.size() < pos + 2) m.resize(pos + 2); m[pos] = w[0]; m[pos + 1] = w[1]; pos += 2; break; }
            case 2: { if(m.empty()) break; b.seekg(0); pos = 0; break; }
            case 3: { b.seekp(0, std::ios_base::end); pos = m.size(); break; }
            case 4: { if(pos >= m.size()) break; char r = 0; b.read(&r, 1); if(!b.good() || r != m[pos]) { ok = false; what = "read"; } ++pos; break; }
            default: { if(m.size() < 2) break; b.seekg(1); pos = 1; break; }
            }
            if(!b.good()) { ok = false; what += " stream not good"; }
            if(std::vector<char>(b.container()) != m || b.size() != std::streamsize(m.size())) { ok = false; what += " content"; }
            if(!ok) break;
          }
          c.check(ok, "BinaryStream history differs from the byte-vector model", [&]{ std::string t = what + " ops="; for(int o : h) t += std::to_string(o); return t + " content=[" + std::string(b.container().begin(), b.container().end()) + "] expected [" + std::string(m.begin(), m.end()) + "]"; });
          // write_stream / read_stream copy the whole content
          std::stringstream ss; b.write_stream(ss); BinaryStream b2; b2.write("zz", 2); b2.read_stream(ss);
          c.check(b2.container() == m, "BinaryStream write_stream/read_stream", "");
          b.clear(); c.check(b.size() == 0 && b.container().empty(), "BinaryStream clear", "");
          c.count("binary_stream_histories");
        }
        c.nontrivial(verif::Hash().str("bshist").pod(hi).get());
        c.outcome("binary-stream");
      }
    }
    // ---- DistFileIO (serial): text streams: write_sequence / read_sequence / read_common with std::stringstream
    for(size_t n = 1; n <= 5; ++n) for(int trunc = 0; trunc < 2; ++trunc)
    {
      if(!c.want()) continue;
      c.desc([&]{ return "DistFileIO serial text streams, " + std::to_string(n) + " lines, truncate=" + std::to_string(trunc); });
      Dist::Comm comm(Dist::Comm::world());
      const std::string pat = scratch_file("seq") + ".***.txt";
      std::string text; for(size_t i = 0; i < n; ++i) text += "line " + std::to_string(i) + " -7.5e-100\n";
      // a longer file exists already
      { std::stringstream old; old << text << "old content that is longer\n"; DistFileIO::write_sequence(old, pat, comm, true); }
      std::stringstream ws; ws << text;
      DistFileIO::write_sequence(ws, pat, comm, trunc != 0);
      std::stringstream rs;
      DistFileIO::read_sequence(rs, pat, comm);
      if(trunc) c.check(rs.str() == text, "dist_file_io.sequence text round trip", [&]{ return rs.str(); });
      else c.check(rs.str().compare(0, text.size(), text) == 0, "dist_file_io.sequence text round trip (truncate=false: prefix)", [&]{ return rs.str(); });
      const std::string fname = DistFileIO::_rankname(pat, 0);
      c.check(fname.find(".000.txt") != std::string::npos, "dist_file_io rank name padding", [&]{ return fname; });
      std::stringstream rc; DistFileIO::read_common(rc, fname, comm);
      c.check(rc.str() == rs.str(), "dist_file_io.read_common text", "");
      std::stringstream rc2; DistFileIO::read_common(rc2, fname);
      std::stringstream rs2; DistFileIO::read_sequence(rs2, pat);
      c.check(rc2.str() == rs.str() && rs2.str() == rs.str(), "dist_file_io text overloads without communicator", "");
      bool thrown = false;
      try { std::stringstream x; DistFileIO::read_common(x, fname + ".missing", comm); } catch(const FileNotFound&) { thrown = true; }
      c.check(thrown, "dist_file_io.read_common of a missing file must throw FileNotFound", "");
      unlink(fname.c_str());
      c.count("dist_file_io_round_trips");
      c.outcome("dist_file_io");
    }
    // ---- DistFileIO (serial): combined, ordered, sequence and common files for every pair of section sizes 0..5
    for(size_t nc = 0; nc <= 5; ++nc) for(size_t nb = 0; nb <= 5; ++nb) for(int prefill = 0; prefill < 2; ++prefill)
    {
      if(!c.want()) continue;
      c.desc([&]{ return "DistFileIO serial common=" + std::to_string(nc) + " bytes, buffer=" + std::to_string(nb) + " bytes, output vectors " + (prefill ? "pre-filled" : "empty"); });
      Dist::Comm comm(Dist::Comm::world());
      std::vector<char> cm(nc), bf(nb);
      for(size_t i = 0; i < nc; ++i) cm[i] = char(0x41 + i);
      for(size_t i = 0; i < nb; ++i) bf[i] = char(0xF0 + i);
      const std::string fn = scratch_file("cmb");
      if(prefill && (nc == 0 || nb == 0) && hz.dfio_stale != 0) c.excluded("read_combined into pre-filled vectors with an empty section (reported once as finding)");
      else
      {
        DistFileIO::write_combined(cm, bf, fn, comm);
        std::vector<char> c2(prefill ? 7 : 0, 'z'), b2(prefill ? 9 : 0, 'z');
        DistFileIO::read_combined(c2, b2, fn, comm);
        c.check(c2 == cm && b2 == bf, "dist_file_io.combined round trip", [&]{ return "common " + std::to_string(c2.size()) + " buffer " + std::to_string(b2.size()); });
        BinaryStream sc, sb, rc, rb;
        sc.write(cm.data(), std::streamsize(nc)); sb.write(bf.data(), std::streamsize(nb));
        DistFileIO::write_combined(sc, sb, fn, comm);
        DistFileIO::read_combined(rc, rb, fn, comm);
        c.check(rc.container() == cm && rb.container() == bf, "dist_file_io.combined BinaryStream round trip", "");
      }
      if(!prefill)
      {
        DistFileIO::write_ordered(bf.data(), nb, fn, comm);
        std::vector<char> b3(nb + 1, 'q');
        DistFileIO::read_ordered(b3.data(), nb, fn, comm);
        c.check(std::equal(bf.begin(), bf.end(), b3.begin()) && b3[nb] == 'q', "dist_file_io.ordered round trip", "");
        if(nb > 0)
        {
          BinaryStream ws, rs; ws.write(bf.data(), std::streamsize(nb));
          DistFileIO::write_sequence(ws, fn + ".*", comm);
          DistFileIO::read_sequence(rs, fn + ".*", comm);
          c.check(rs.container() == bf, "dist_file_io.sequence round trip", "");
          BinaryStream rs2; DistFileIO::read_common(rs2, DistFileIO::_rankname(fn + ".*", 0), comm);
          c.check(rs2.container() == bf, "dist_file_io.read_common", "");
          unlink(DistFileIO::_rankname(fn + ".*", 0).c_str());
        }
      }
      unlink(fn.c_str());
      c.count("dist_file_io_round_trips");
      if(nc + nb > 0) c.nontrivial(verif::Hash().str("dfio").pod(nc).pod(nb).pod(prefill).get());
      c.outcome("dist_file_io");
    }

    // ---- containers
    const Caps cdv{FileMode::fm_dv, true, true, false, false}, cdvb{FileMode::fm_dvb, true, true, false, false}, csv{FileMode::fm_sv, true, false, false, false},
      csvb{FileMode::fm_svb, false, false, false, false}, cdm{FileMode::fm_dm, true, false, false, false}, ccsr{FileMode::fm_csr, true, false, false, true},
      cbcsr{FileMode::fm_bcsr, false, false, true, false}, cbm{FileMode::fm_bm, false, false, false, false}, ccscr{FileMode::fm_cscr, false, false, false, false};

    run_kind<MakeDV<double, u64>, MakeDV<float, u32>>(c, cdv, "double,u64", true);
    run_kind<MakeDV<float, u32>, MakeDV<double, u64>>(c, cdv, "float,u32", true);
    run_kind<MakeDVB<double, u64, 2>, MakeDVB<float, u32, 2>>(c, cdvb, "double,u64", true);
    run_kind<MakeDVB<float, u32, 3>, MakeDVB<double, u64, 3>>(c, cdvb, "float,u32", true);
    run_kind<MakeSV<double, u64>, MakeSV<float, u32>>(c, csv, "double,u64", true);
    run_kind<MakeSV<float, u32>, MakeSV<double, u64>>(c, csv, "float,u32", true);
    run_kind<MakeSVB<double, u64, 2>, MakeSVB<float, u32, 2>>(c, csvb, "double,u64", true);
    run_kind<MakeDM<double, u64>, MakeDM<float, u32>>(c, cdm, "double,u64", true);
    run_kind<MakeDM<float, u32>, MakeDM<double, u64>>(c, cdm, "float,u32", true);
    run_kind<MakeCSR<double, u64>, MakeCSR<float, u32>>(c, ccsr, "double,u64", true);
    run_kind<MakeCSR<float, u32>, MakeCSR<double, u64>>(c, ccsr, "float,u32", true);
    run_kind<MakeCSR<double, u32>, MakeCSR<float, u64>>(c, ccsr, "double,u32", true);
    run_kind<MakeBCSR<double, u64, 2, 2>, MakeBCSR<float, u32, 2, 2>>(c, cbcsr, "double,u64", true);
    run_kind<MakeBCSR<float, u32, 2, 3>, MakeBCSR<double, u64, 2, 3>>(c, cbcsr, "float,u32", true);
    run_kind<MakeBanded<double, u64>, MakeBanded<float, u32>>(c, cbm, "double,u64", true);
    run_kind<MakeBanded<float, u32>, MakeBanded<double, u64>>(c, cbm, "float,u32", true);
    run_kind<MakeCSCR<double, u64>, MakeCSCR<float, u32>>(c, ccscr, "double,u64", true);
    run_kind<MakeCSCR<float, u32>, MakeCSCR<double, u64>>(c, ccscr, "float,u32", true);

    // ---- first observation: a SparseVector filled by insertions in any order is unsorted until its first accessor with the lazy
    //      sort runs; every persistence operation is performed as the FIRST access on a fresh unsorted vector
    {
      const Index nmax = c.thorough ? 5 : 4;
      for(Index n = 2; n <= nmax; ++n)
      {
        // all ordered sequences of distinct indices of length 1..min(n,3)
        std::vector<std::vector<Index>> seqs;
        for(Index a = 0; a < n; ++a) { seqs.push_back({a}); for(Index b = 0; b < n; ++b) if(b != a) { seqs.push_back({a, b}); for(Index d = 0; d < n; ++d) if(d != a && d != b) seqs.push_back({a, b, d}); } }
        // grown objects: re-setting indices makes the unsorted arrays grow past their first allocation (min(size,1000) entries)
        for(Index a = 0; a < n; ++a) for(Index b = 0; b < n; ++b) if(b != a) { seqs.push_back({a, b, a}); if(n == 2) { seqs.push_back({a, b, a, b, a}); seqs.push_back({a, a, a}); } }
        for(auto& sq : seqs) for(int first = 0; first < 6; ++first)
        {
          if(!c.want()) continue;
          c.desc([&]{ std::string t = "SparseVector size " + std::to_string(n) + " insertions in order ["; for(Index k : sq) t += std::to_string(k) + ","; return t + "] first access " + std::to_string(first) + " (0 serialize,1 write_out binary,2 write_out fm_mtx,3 checkpoint data,4 operator==,5 clone)"; });
          // the value depends on the position in the insertion sequence: the last value set for an index must survive
          auto build = [&]{ SparseVector<double, u64> x(n); for(size_t k = 0; k < sq.size(); ++k) x(sq[k], pv(k * 5 + sq[k], 12)); return x; };
          Sem want;
          { std::map<Index, double> last; for(size_t k = 0; k < sq.size(); ++k) last[sq[k]] = pv(k * 5 + sq[k], 12);
            want.dims = {n, Index(last.size())}; for(auto& e : last) { want.pos.push_back(e.first); want.vals.push_back(e.second); } }
          SparseVector<double, u64> x = build();
          SparseVector<double, u64> y;
          SerialConfig cfg(false, false);
          switch(first)
          {
          case 0: { auto buf = x.serialize(cfg); y.deserialize(buf); break; }
          case 1: { std::stringstream ss; x.write_out(FileMode::fm_binary, ss); y.read_from(FileMode::fm_binary, ss); break; }
          case 2: { std::stringstream ss; x.write_out(FileMode::fm_mtx, ss); y.read_from(FileMode::fm_mtx, ss); break; }
          case 3: { std::vector<char> d; x.set_checkpoint_data(d, cfg); y.restore_from_checkpoint_data(d); break; }
          case 4: { SparseVector<double, u64> z = build(); (void)z.used_elements(); c.check(x == z, "SparseVector operator== as first access on an unsorted vector", ""); y = x.clone(); break; }
          default: { y = x.clone(CloneMode::Deep); break; }
          }
          Sem got = sem(y), src = sem(x);
          c.check(sem_equal(want, got, 0.0L), "SparseVector persistence as first access on an unsorted vector: read back differs", [&]{ return got.str() + " expected " + want.str(); });
          c.check(sem_equal(want, src, 0.0L), "SparseVector persistence as first access on an unsorted vector: source differs afterwards", [&]{ return src.str() + " expected " + want.str(); });
          c.count("first_access_cases");
          c.nontrivial(verif::Hash().str("first").pod(n).bytes(sq.data(), sq.size() * sizeof(Index)).pod(first).get());
          c.outcome("first-access");
        }
      }
    }
    // ---- unusual overloads: a ranged DenseVector (view on a part of another vector, foreign memory) is persisted as a vector of its own
    for(Index len = 2; len <= (c.thorough ? 9u : 6u); ++len) for(Index off = 0; off < len; ++off) for(Index sz = 1; off + sz <= len; ++sz)
    {
      if(!c.want()) continue;
      c.desc([&]{ return "DenseVector range [" + std::to_string(off) + "," + std::to_string(off + sz) + ") of a vector of length " + std::to_string(len); });
      DenseVector<double, u64> base(len);
      for(Index i = 0; i < len; ++i) base(i, pv(i, 13));
      DenseVector<double, u64> want(sz);
      for(Index i = 0; i < sz; ++i) want(i, pv(off + i, 13));
      const VFP fw = vfp(want), fb = vfp(base);
      DenseVector<double, u64> r(base, sz, off);
      SerialConfig cfg(false, false);
      (void)cfg;
      // serialize / fm_binary / fm_mtx / checkpoint data of a range go through Container::assign, which asserts against foreign
      // memory sources (documented precondition); the exponent text mode reads the elements directly
      c.excluded("binary, fm_mtx and checkpoint persistence of a ranged DenseVector (assign from foreign memory is asserted against)");
      {
        std::stringstream ss; r.write_out(FileMode::fm_exp, ss);
        DenseVector<double, u64> y(FileMode::fm_exp, ss);
        c.check(vfp(y) == fw, "DenseVector range write_out/read_from fm_exp", [&]{ return vfp(y).str() + " expected " + fw.str(); });
      }
      // reading INTO a range is not offered (a range does not own its memory); the base vector must be untouched
      c.check(vfp(base) == fb, "DenseVector range persistence modified the base vector", "");
      c.count("range_cases");
      c.nontrivial(verif::Hash().str("range").pod(len).pod(off).pod(sz).get());
      c.outcome("range");
    }
    // ---- CSR symmetric MatrixMarket: every symmetric pattern n<=3 (thorough 4)
    for(Index n = 1; n <= (c.thorough ? 4u : 3u); ++n) for(uint64_t lm = 1; lm < (uint64_t(1) << (n * (n + 1) / 2)); ++lm)
    {
      if(!c.want()) continue;
      c.desc([&]{ return "CSR symmetric fm_mtx n=" + std::to_string(n) + " lower mask " + std::to_string(lm) + " (exact values and extreme values)"; });
      csr_symmetric<double, u64>(c, n, lm, "SparseMatrixCSR<double,u64>", 0);
      csr_symmetric<float, u32>(c, n, lm, "SparseMatrixCSR<float,u32>", 0);
      for(uint64_t o = 0; o < (n <= 2 ? NX : 1); ++o)
      {
        csr_symmetric<double, u64>(c, n, lm, "SparseMatrixCSR<double,u64>", int(2 + (n <= 2 ? o : lm % NX)));
        csr_symmetric<float, u32>(c, n, lm, "SparseMatrixCSR<float,u32>", int(2 + (n <= 2 ? o : lm % NX)));
      }
      c.nontrivial(verif::Hash().str("sym").pod(n).pod(lm).get());
      c.outcome("csr-symmetric");
    }
    // ---- BCSR written as MatrixMarket, read by CSR
    for(Index v = 0; v < MakeBCSR<double, u64, 2, 2>::count(c.thorough); ++v)
    {
      if(!c.want()) continue;
      c.desc([&]{ std::string d; (void)MakeBCSR<double, u64, 2, 2>::make(v, false, d); return "BCSR fm_mtx -> CSR: " + d; });
      bcsr_mtx<double, u64, 2, 2>(c, v, "SparseMatrixBCSR<2,2>", 0);
      bcsr_mtx<float, u32, 2, 3>(c, v, "SparseMatrixBCSR<2,3>", 0);
      for(uint64_t o = 0; o < (v < 14 ? NX : 1); ++o)
      {
        bcsr_mtx<double, u64, 2, 2>(c, v, "SparseMatrixBCSR<2,2>", int(2 + (v < 14 ? o : v % NX)));
        bcsr_mtx<float, u32, 2, 3>(c, v, "SparseMatrixBCSR<2,3>", int(2 + (v < 14 ? o : v % NX)));
      }
      c.nontrivial(verif::Hash().str("bcsrmtx").pod(v).get());
      c.outcome("bcsr-mtx");
    }
  });
}
