// Switches of c06_filter for repairs that are proposed but not yet in the tree (spec/proposed_fixes/C06-*.patch).
// Coordinator decision: the patches are NOT applied (members without behaviour, DESIGN.md 9.5); the switches stay 0 and the members are
// listed as exclusions in spec.assumptions. The dormant code was validated once against a scratch tree with the patches applied.
#pragma once
#ifndef C06_HAVE_COMBINATOR_FIXES
#define C06_HAVE_COMBINATOR_FIXES 0   // FilterChain ctor(>=3 links)/clone(other), PowerFilter::clone(other), FilterSequence::clone(other)
#endif
#ifndef C06_HAVE_MEANB_FIX_FLAG
#define C06_HAVE_MEANB_FIX_FLAG 0     // MeanFilterBlocked::convert / clear
#endif
#if C06_HAVE_MEANB_FIX_FLAG
#define C06_HAVE_MEANB_FIX 1
#endif
