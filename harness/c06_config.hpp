// Switches of c06_filter for repairs that are proposed but not yet in the tree (spec/proposed_fixes/C06-*.patch).
// Set to 1 once the corresponding "fix:" commits are in /repo: the members then compile and are exercised.
#pragma once
#ifndef C06_HAVE_COMBINATOR_FIXES
#define C06_HAVE_COMBINATOR_FIXES 1   // FilterChain ctor(>=3 links)/clone(other), PowerFilter::clone(other), FilterSequence::clone(other)
#endif
#ifndef C06_HAVE_MEANB_FIX_FLAG
#define C06_HAVE_MEANB_FIX_FLAG 1     // MeanFilterBlocked::convert / clear
#endif
#if C06_HAVE_MEANB_FIX_FLAG
#define C06_HAVE_MEANB_FIX 1
#endif
