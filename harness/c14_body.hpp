// c14_body.hpp -- C14: every named cubature rule is exact to its nominal degree.
//
// Included by c14_cubature.cpp (library default configuration, the one every application uses) and by
// c14_cubature_prefixed.cpp (same code compiled with FEAT_CUBATURE_TENSOR_PREFIX / FEAT_CUBATURE_SCALAR_PREFIX,
// the configuration of tools/cub_list, where the scalar-derived rules are called "tensor:..." / "scalar:...").
//
// The set of names is NOT written down here: it is enumerated through the library's own factory functor
// machinery (FactoryWrapper<Shape>::factory_no_refine with a collecting functor, as tools/cub_list does), so a
// rule added to a driver list is picked up automatically (and then fails for want of a nominal degree in
// spec/cubature_degrees.tsv until somebody transcribes it).
#pragma once
#include <verif.hpp>
#include <kernel/runtime.hpp>
#include <kernel/cubature/dynamic_factory.hpp>
#include <kernel/cubature/scalar/dynamic_factory.hpp>

#include <array>
#include <cmath>
#include <cctype>
#include <fstream>
#include <functional>
#include <map>
#include <set>
#include <sstream>
#include <string>
#include <vector>

#ifndef C14_HARNESS_NAME
#error C14_HARNESS_NAME must be defined
#endif

namespace c14
{
  using namespace FEAT;
  using namespace FEAT::Cubature;
  typedef long double LD;

  // ------------------------------------------------------------------------------------------------
  // nominal degree table
  // ------------------------------------------------------------------------------------------------
  struct DegreeTable
  {
    std::map<std::string, int> deg;       // "dunavant:7" -> 7
    std::map<std::string, std::string> alias; // "simpson" -> "newton-cotes-closed:3"
    std::string error;

    void load()
    {
      const char* root = std::getenv("VERIF_ROOT");
      std::string path = std::string(root ? root : "/verif") + "/spec/cubature_degrees.tsv";
      { std::ifstream probe(path); if(!probe) path = "/verif/spec/cubature_degrees.tsv"; }   // an audit may run with a private VERIF_ROOT
      std::ifstream in(path);
      if(!in) { error = "cannot open " + path; return; }
      std::string line;
      int ln = 0;
      while(std::getline(in, line))
      {
        ++ln;
        if(line.empty() || line[0] == '#') continue;
        std::istringstream ls(line);
        std::string name, d;
        if(!std::getline(ls, name, '\t') || !std::getline(ls, d, '\t')) { error = path + ":" + std::to_string(ln) + ": malformed row"; return; }
        if(name == "@alias")
        {
          std::string tgt;
          if(!std::getline(ls, tgt, '\t')) { error = path + ":" + std::to_string(ln) + ": malformed alias row"; return; }
          alias[d] = tgt;
          continue;
        }
        char* e = nullptr;
        long v = strtol(d.c_str(), &e, 10);
        if(e == d.c_str() || *e != 0 || v < 0 || v > 100) { error = path + ":" + std::to_string(ln) + ": bad degree"; return; }
        if(deg.count(name)) { error = path + ":" + std::to_string(ln) + ": duplicate row " + name; return; }
        deg[name] = int(v);
      }
    }
  };

  // ------------------------------------------------------------------------------------------------
  // closed-form monomial integrals over the reference cells
  // ------------------------------------------------------------------------------------------------
  template<typename Shape_> struct Ref;

  template<int d_> struct Ref<Shape::Simplex<d_>>
  {
    static constexpr int dim = d_;
    static constexpr bool cube = false;
    static const char* tag() { return d_ == 1 ? "S1" : d_ == 2 ? "S2" : "S3"; }
    // int over {x>=0, sum x <= 1} of prod x_i^a_i = prod a_i! / (sum a_i + d)!
    static LD integral(const int* a)
    {
      LD r = 1.0L;
      int s = 0;
      for(int i = 0; i < d_; ++i) { for(int k = 2; k <= a[i]; ++k) r *= LD(k); s += a[i]; }
      for(int k = 2; k <= s + d_; ++k) r /= LD(k);
      return r;
    }
    static LD volume() { LD r = 1.0L; for(int k = 2; k <= d_; ++k) r /= LD(k); return r; }
    static int refine_count() { return d_ == 1 ? 2 : d_ == 2 ? 4 : 12; }
  };

  template<int d_> struct Ref<Shape::Hypercube<d_>>
  {
    static constexpr int dim = d_;
    static constexpr bool cube = true;
    static const char* tag() { return d_ == 1 ? "H1" : d_ == 2 ? "H2" : "H3"; }
    // int over [-1,1]^d of prod x_i^a_i = prod (1+(-1)^a_i)/(a_i+1)
    static LD integral(const int* a)
    {
      LD r = 1.0L;
      for(int i = 0; i < d_; ++i) { if(a[i] & 1) return 0.0L; r *= 2.0L / LD(a[i] + 1); }
      return r;
    }
    static LD volume() { LD r = 1.0L; for(int k = 0; k < d_; ++k) r *= 2.0L; return r; }
    static int refine_count() { return 1 << d_; }
  };

  // ------------------------------------------------------------------------------------------------
  // enumeration of the library's factories
  // ------------------------------------------------------------------------------------------------
  template<typename Shape_>
  struct Enumerator
  {
    typedef Rule<Shape_> RuleT;
    struct Entry
    {
      std::string name;            // factory name, e.g. "dunavant"
      bool variadic = false;
      int minp = 0, maxp = 0, nump = 0;
      std::vector<std::pair<std::string, std::string>> aliases; // alias -> real name (with :k)
      std::function<void(RuleT&, int)> static_create;            // compile-time API route (static function)
      std::function<void(RuleT&, int)> instance_create;          // factory object route
      std::function<void(RuleT&, int, Index)> refine_static;     // RefineFactory<Factory>::create(rule, [points,] refines)
      std::function<void(RuleT&, int, Index)> refine_instance;   // RefineFactory<Factory>([points,] refines).create(rule)
    };
    std::vector<Entry> entries;

    struct AliasCollector
    {
      Entry& e;
      void alias(const String& n) { e.aliases.emplace_back(std::string(n), e.name); }
      void alias(const String& n, int k) { e.aliases.emplace_back(std::string(n), e.name + ":" + std::to_string(k)); }
    };

    template<typename F_, bool v_ = (F_::variadic != 0)> struct Fill;
    template<typename F_> struct Fill<F_, true>
    {
      static void go(Entry& e)
      {
        e.variadic = true; e.minp = int(F_::min_points); e.maxp = int(F_::max_points);
        e.static_create = [](RuleT& r, int k) { F_::create(r, k); };
        e.instance_create = [](RuleT& r, int k) { F_ f(k); f.create(r); };
        e.refine_static = [](RuleT& r, int k, Index n) { RefineFactory<F_>::create(r, k, n); };
        e.refine_instance = [](RuleT& r, int k, Index n) { RefineFactory<F_> rf(k, n); rf.create(r); };
      }
    };
    template<typename F_> struct Fill<F_, false>
    {
      static void go(Entry& e)
      {
        e.variadic = false; e.nump = int(F_::num_points);
        e.static_create = [](RuleT& r, int) { F_::create(r); };
        e.instance_create = [](RuleT& r, int) { F_ f; f.create(r); };
        e.refine_static = [](RuleT& r, int, Index n) { RefineFactory<F_>::create(r, n); };
        e.refine_instance = [](RuleT& r, int, Index n) { RefineFactory<F_> rf(n); rf.create(r); };
      }
    };

    template<typename Factory_>
    void factory()
    {
      Entry e;
      e.name = std::string(Factory_::name());
      Fill<Factory_>::go(e);
      AliasCollector ac{e};
      Factory_::alias(ac);
      entries.push_back(e);
    }
  };

  inline std::string lower(std::string s) { for(auto& ch : s) ch = char(std::tolower((unsigned char)ch)); return s; }
  inline std::string upper(std::string s) { for(auto& ch : s) ch = char(std::toupper((unsigned char)ch)); return s; }
  inline std::string trim(const std::string& s)
  {
    const char* ws = " \a\b\f\n\r\t\v";
    size_t a = s.find_first_not_of(ws);
    if(a == std::string::npos) return std::string();
    size_t b = s.find_last_not_of(ws);
    return s.substr(a, b - a + 1);
  }
  /// lenient integer: optional sign, digits, then anything (what an istream extraction accepts); false if no digits
  inline bool lenient_int(const std::string& s0, long long& v)
  {
    std::string s = trim(s0);
    size_t i = 0; bool neg = false;
    if(i < s.size() && (s[i] == '+' || s[i] == '-')) { neg = (s[i] == '-'); ++i; }
    if(i >= s.size() || !std::isdigit((unsigned char)s[i])) return false;
    long long r = 0;
    for(; i < s.size() && std::isdigit((unsigned char)s[i]); ++i) { r = r * 10 + (s[i] - '0'); if(r > 4000000000ll) { v = neg ? -r : r; return true; } }
    v = neg ? -r : r;
    return true;
  }
  /// strict non-negative integer: digits only
  inline bool strict_uint(const std::string& s, long long& v)
  {
    if(s.empty() || s.size() > 9) return false;
    long long r = 0;
    for(char ch : s) { if(!std::isdigit((unsigned char)ch)) return false; r = r * 10 + (ch - '0'); }
    v = r;
    return true;
  }

  // scalar-prefix used by this build for shape
  template<typename Shape_> inline std::string scalar_prefix()
  {
#ifdef FEAT_CUBATURE_TENSOR_PREFIX
    if(Ref<Shape_>::cube) return "tensor:";
#endif
#ifdef FEAT_CUBATURE_SCALAR_PREFIX
    if(!Ref<Shape_>::cube && Ref<Shape_>::dim == 1) return "scalar:";
#endif
    return std::string();
  }

  // ------------------------------------------------------------------------------------------------
  // the exactness oracle
  // ------------------------------------------------------------------------------------------------
  struct Exactness
  {
    int achieved_total = -1;     // largest D such that all monomials of total degree <= D are integrated
    LD worst_rel = 0.0L;         // worst relative error among monomials of total degree <= nominal
    std::string worst_mono;
    bool weights_ok = false;
    LD weight_err = 0.0L;
    bool corner_ok = true;       // per-direction (tensor) monomials on hypercubes
    std::string corner_mono;
  };

  inline const LD& tol() { static const LD t = 1e-12L; return t; }

  template<typename RuleX_>
  Exactness measure(const RuleX_& rule, int nominal, int probe_up_to, LD tolv = 1e-12L)
  {
    typedef Ref<typename RuleX_::ShapeType> R;
    constexpr int d = R::dim;
    Exactness ex;
    const int n = rule.get_num_points();
    const int D = std::max(nominal, probe_up_to);
    // enumerate exponent vectors of total degree <= D
    std::vector<std::array<int, 3>> monos;
    for(int t = 0; t <= D; ++t)
      for(int a = t; a >= 0; --a)
      {
        if(d == 1) { if(a == t) monos.push_back({a, 0, 0}); continue; }
        for(int b = t - a; b >= 0; --b)
        {
          if(d == 2) { if(a + b == t) monos.push_back({a, b, 0}); continue; }
          monos.push_back({a, b, t - a - b});
        }
      }
    std::vector<LD> q(monos.size(), 0.0L), qa(monos.size(), 0.0L);
    std::vector<LD> pw(size_t(3 * (D + 1)), 1.0L);
    LD sw = 0.0L, swa = 0.0L;
    for(int i = 0; i < n; ++i)
    {
      const LD w = LD(rule.get_weight(i));
      sw += w; swa += std::fabs(w);
      for(int j = 0; j < d; ++j)
      {
        const LD x = LD(rule.get_coord(i, j));
        LD* p = &pw[size_t(j * (D + 1))];
        p[0] = 1.0L;
        for(int k = 1; k <= D; ++k) p[k] = p[k - 1] * x;
      }
      for(size_t m = 0; m < monos.size(); ++m)
      {
        LD v = w;
        for(int j = 0; j < d; ++j) v *= pw[size_t(j * (D + 1) + monos[m][size_t(j)])];
        q[m] += v; qa[m] += std::fabs(v);
      }
    }
    ex.weight_err = std::fabs(sw - R::volume()) / R::volume();
    ex.weights_ok = ex.weight_err <= tolv * std::max<LD>(1.0L, swa / R::volume());
    // per total degree
    int ach = D;
    for(size_t m = 0; m < monos.size(); ++m)
    {
      int a[3] = {monos[m][0], monos[m][1], monos[m][2]};
      const int t = a[0] + a[1] + a[2];
      const LD I = R::integral(a);
      const LD scale = std::max(qa[m], std::fabs(I));
      const LD rel = scale > 0.0L ? std::fabs(q[m] - I) / scale : 0.0L;
      if(rel > tolv) { if(t - 1 < ach) ach = t - 1; }
      if(t <= nominal && rel > ex.worst_rel)
      {
        ex.worst_rel = rel;
        ex.worst_mono = "x^" + std::to_string(a[0]) + (d > 1 ? " y^" + std::to_string(a[1]) : "") + (d > 2 ? " z^" + std::to_string(a[2]) : "");
      }
    }
    ex.achieved_total = ach;
    // corner monomials for tensor rules: each exponent in {0,1,nominal-1,nominal}
    if(R::cube && d > 1 && nominal >= 0)
    {
      std::set<int> es = {0, 1, std::max(0, nominal - 1), nominal};
      std::vector<int> ev(es.begin(), es.end());
      std::vector<std::array<int, 3>> cm;
      for(int a : ev) for(int b : ev) for(int c : ev)
      {
        if(d == 2 && c != 0) continue;
        cm.push_back({a, b, c});
      }
      std::vector<LD> cq(cm.size(), 0.0L), cqa(cm.size(), 0.0L);
      for(int i = 0; i < n; ++i)
      {
        const LD w = LD(rule.get_weight(i));
        LD x[3] = {0, 0, 0};
        for(int j = 0; j < d; ++j) x[j] = LD(rule.get_coord(i, j));
        for(size_t m = 0; m < cm.size(); ++m)
        {
          LD v = w;
          for(int j = 0; j < d; ++j) v *= std::pow(x[j], cm[m][size_t(j)]);
          cq[m] += v; cqa[m] += std::fabs(v);
        }
      }
      for(size_t m = 0; m < cm.size(); ++m)
      {
        int a[3] = {cm[m][0], cm[m][1], cm[m][2]};
        const LD I = R::integral(a);
        const LD scale = std::max(cqa[m], std::fabs(I));
        const LD rel = scale > 0.0L ? std::fabs(cq[m] - I) / scale : 0.0L;
        if(rel > tolv)
        {
          ex.corner_ok = false;
          ex.corner_mono = "x^" + std::to_string(a[0]) + " y^" + std::to_string(a[1]) + (d > 2 ? " z^" + std::to_string(a[2]) : "");
        }
      }
    }
    return ex;
  }

  inline uint64_t monomial_count(int d, int D)
  {
    // C(D+d, d)
    uint64_t r = 1;
    for(int i = 1; i <= d; ++i) r = r * uint64_t(D + i) / uint64_t(i);
    return r;
  }

  template<typename Shape_, typename W_, typename C_, typename P_>
  bool same_rule(const Rule<Shape_, W_, C_, P_>& a, const Rule<Shape_, W_, C_, P_>& b)
  {
    if(a.get_num_points() != b.get_num_points()) return false;
    for(int i = 0; i < a.get_num_points(); ++i)
    {
      if(!(a.get_weight(i) == b.get_weight(i))) return false;
      for(int j = 0; j < Ref<Shape_>::dim; ++j) if(!(a.get_coord(i, j) == b.get_coord(i, j))) return false;
    }
    return true;
  }

  // ------------------------------------------------------------------------------------------------
  // name language model of one shape (independent of the library's string handling)
  // ------------------------------------------------------------------------------------------------
  struct NameModel
  {
    // lower-case base name (no refine prefix) -> real rule name as reported by Rule::get_name()
    std::map<std::string, std::string> valid;
    std::string sprefix;  // "tensor:" / "scalar:" / ""

    /// strict: the lower-cased name is literally one of the names/aliases, optionally with a literal refine prefix
    /// returns expected rule name, or empty
    std::string strict(const std::string& s, long long& refines) const
    {
      std::string t = lower(s);
      refines = -1;
      std::string base = t;
      if(t.compare(0, 7, "refine:") == 0) { refines = 1; base = t.substr(7); }
      else if(t.compare(0, 7, "refine*") == 0)
      {
        size_t k = t.find(':');
        if(k == std::string::npos) return std::string();
        if(!strict_uint(t.substr(7, k - 7), refines)) return std::string();
        base = t.substr(k + 1);
      }
      auto it = valid.find(base);
      if(it == valid.end()) return std::string();
      return compose(it->second, refines);
    }

    static std::string compose(const std::string& real, long long refines)
    {
      if(refines <= 0) return real;
      if(refines == 1) return "refine:" + real;
      return "refine*" + std::to_string(refines) + ":" + real;
    }

    /// lenient: trimming of the parts and istream-style integers are tolerated.
    /// returns 0 = not a name; 1 = name of rule 'expect'; 2 = auto-degree form (any rule acceptable)
    int lenient(const std::string& s, std::string& expect, long long& refines) const
    {
      std::string t = lower(s);
      refines = -1;
      std::string base = t;
      {
        size_t k = t.find(':');
        if(k != std::string::npos)
        {
          std::string head = t.substr(0, k);
          size_t st = head.find('*');
          std::string hw = trim(st == std::string::npos ? head : head.substr(0, st));
          if(hw == "refine")
          {
            refines = 1;
            if(st != std::string::npos) { if(!lenient_int(head.substr(st + 1), refines)) return 0; }
            base = trim(t.substr(k + 1));
          }
        }
      }
      // auto-degree form: last two ':' parts
      {
        size_t k = base.rfind(':');
        if(k != std::string::npos)
        {
          std::string prm = base.substr(k + 1);
          std::string rest = base.substr(0, k);
          size_t k2 = rest.rfind(':');
          std::string ap = (k2 == std::string::npos) ? rest : rest.substr(k2 + 1);
          long long dv;
          if(trim(ap) == "auto-degree" && lenient_int(prm, dv))
            return 2;
        }
      }
      std::string b = base;
      // peel an optional scalar/tensor prefix
      std::string pre;
      if(!sprefix.empty())
      {
        size_t k = b.find(':');
        if(k == std::string::npos) { /* rules without prefix exist as well (driver rules) */ }
        else if(trim(b.substr(0, k)) + ":" == sprefix) { pre = sprefix; b = trim(b.substr(k + 1)); }
      }
      auto it = valid.find(pre + b);
      if(it == valid.end()) it = valid.find(pre + trim(b));
      if(it == valid.end())
      {
        size_t k = b.find(':');
        if(k == std::string::npos) return 0;
        long long v;
        if(!lenient_int(b.substr(k + 1), v)) return 0;
        it = valid.find(pre + trim(b.substr(0, k)) + ":" + std::to_string(v));
        if(it == valid.end()) return 0;
      }
      expect = compose(it->second, refines);
      return 1;
    }
  };

  // ------------------------------------------------------------------------------------------------
  // per-shape enumeration
  // ------------------------------------------------------------------------------------------------
  struct Shared
  {
    DegreeTable table;
    std::set<std::string> all_names_any_shape;  // lower-case valid base names over all shapes
    bool dump = false;
  };

  template<typename Shape_>
  struct ShapeRun
  {
    typedef Ref<Shape_> R;
    typedef Rule<Shape_> RuleT;
    Enumerator<Shape_> en;
    NameModel model;
    struct Base { std::string name; size_t entry; int k; };
    std::vector<Base> bases;
    std::vector<std::pair<std::string, std::string>> aliases;

    void collect(Shared& sh)
    {
      FactoryWrapper<Shape_>::factory_no_refine(en);
      model.sprefix = scalar_prefix<Shape_>();
      for(size_t e = 0; e < en.entries.size(); ++e)
      {
        auto& x = en.entries[e];
        if(x.variadic) { for(int k = x.minp; k <= x.maxp; ++k) bases.push_back({x.name + ":" + std::to_string(k), e, k}); }
        else bases.push_back({x.name, e, 0});
        for(auto& a : x.aliases) aliases.push_back(a);
      }
      for(auto& b : bases) { model.valid[lower(b.name)] = b.name; sh.all_names_any_shape.insert(lower(b.name)); }
      for(auto& a : aliases) { model.valid[lower(a.first)] = a.second; sh.all_names_any_shape.insert(lower(a.first)); }
    }

    std::string table_key(const std::string& real) const
    {
      if(!model.sprefix.empty() && real.compare(0, model.sprefix.size(), model.sprefix) == 0) return real.substr(model.sprefix.size());
      return real;
    }

    // one positive case: name must create the rule 'expect_name', be exact to 'nominal'
    void positive(verif::Ctx& c, Shared& sh, const std::string& name, const std::string& expect_name, int nominal,
      const RuleT* base_rule, long long refines, const char* kind)
    {
      RuleT rule;
      bool ok = DynamicFactory::create(rule, String(name));
      const std::string key = std::string(R::tag()) + " " + name;
      if(!c.check(ok, key + " :: create", [&]{ return "DynamicFactory::create returned false for a name the library advertises"; })) return;
      c.count(std::string("rules_") + kind);
      if(!expect_name.empty())
        c.check(std::string(rule.get_name()) == expect_name, key + " :: rule-name", [&]{ return "created rule is called '" + std::string(rule.get_name()) + "', expected '" + expect_name + "'"; });
      c.check(rule.get_num_points() > 0, key + " :: empty", "rule without points");
      if(base_rule && refines >= 0)
      {
        long long np = base_rule->get_num_points();
        for(long long i = 0; i < refines; ++i) np *= R::refine_count();
        c.check((long long)rule.get_num_points() == np, key + " :: refined-point-count", [&]{ return "points " + std::to_string(rule.get_num_points()) + " expected " + std::to_string(np); });
      }
      // create_throw and the instance API must agree
      {
        RuleT r2;
        bool threw = false;
        try { DynamicFactory f{String(name)}; f.create_throw(r2); } catch(const UnknownRule&) { threw = true; }
        c.check(!threw && same_rule(rule, r2), key + " :: create_throw", "create_throw disagrees with create");
      }
      // re-invocation: creating into a rule that already holds another rule gives exactly the fresh rule
      {
        RuleT pre(5, "marker");
        for(int i = 0; i < 5; ++i) { pre.get_weight(i) = 77.0; for(int j = 0; j < R::dim; ++j) pre.get_coord(i, j) = -33.0; }
        bool ok2 = DynamicFactory::create(pre, String(name));
        c.check(ok2 && same_rule(pre, rule) && std::string(pre.get_name()) == std::string(rule.get_name()), key + " :: create-into-filled", "creating into an already filled rule differs from creating into an empty one");
        bool ok3 = DynamicFactory::create(pre, String(name));
        c.check(ok3 && same_rule(pre, rule), key + " :: create-twice", "creating the same rule a second time into the same object differs");
      }
      // derived objects: clone, move construction, move assignment into a filled rule, factory constructor
      {
        RuleT cl = rule.clone();
        c.check(same_rule(cl, rule) && std::string(cl.get_name()) == std::string(rule.get_name()), key + " :: clone", "clone differs from the rule");
        RuleT mv(std::move(cl));
        c.check(same_rule(mv, rule) && std::string(mv.get_name()) == std::string(rule.get_name()) && cl.get_num_points() == 0, key + " :: move-ctor", "move-constructed rule differs (or the source keeps its points)");
        RuleT tgt(3, "x");
        tgt = std::move(mv);
        c.check(same_rule(tgt, rule) && std::string(tgt.get_name()) == std::string(rule.get_name()), key + " :: move-assign", "rule move-assigned into a filled rule differs");
        bool threw = false;
        try { RuleT viactor(Cubature::ctor_factory, DynamicFactory{String(name)}); c.check(same_rule(viactor, rule), key + " :: ctor-factory", "Rule(ctor_factory, DynamicFactory) differs"); }
        catch(const UnknownRule&) { threw = true; }
        c.check(!threw, key + " :: ctor-factory", "Rule(ctor_factory, DynamicFactory) threw for an advertised name");
      }
      Exactness ex = measure(rule, nominal, sh.dump ? nominal + 3 : nominal + 1);
      c.count("monomials_checked", monomial_count(R::dim, nominal));
      c.count("points_evaluated", uint64_t(rule.get_num_points()));
      c.check(ex.weights_ok, key + " :: weight-sum", [&]{ std::ostringstream o; o << "sum of weights differs from the reference volume, rel. error " << (double)ex.weight_err; return o.str(); });
      c.check(ex.worst_rel <= tol(), key + " :: degree", [&]{ std::ostringstream o; o << "nominal degree " << nominal << " not reached: achieved total degree " << ex.achieved_total
        << ", worst monomial " << ex.worst_mono << " rel. error " << (double)ex.worst_rel; return o.str(); });
      c.check(ex.corner_ok, key + " :: tensor-degree", [&]{ return "per-direction monomial " + ex.corner_mono + " not integrated by a hypercube rule of nominal degree " + std::to_string(nominal); });
      if(std::string(kind) == "base")
      {
        // unusual overload: single precision weights / coordinates
        Rule<Shape_, float, float> rf;
        bool okf = DynamicFactory::create(rf, String(name));
        if(c.check(okf && rf.get_num_points() == rule.get_num_points(), key + " :: float-create", "rule with float weights/coordinates is not created or has another point count"))
        {
          bool close = true;
          for(int i = 0; i < rule.get_num_points() && close; ++i)
          {
            close = std::fabs(double(rf.get_weight(i)) - double(rule.get_weight(i))) <= 4e-6 * (1.0 + std::fabs(double(rule.get_weight(i))));
            for(int j = 0; j < R::dim && close; ++j) close = std::fabs(double(rf.get_coord(i, j)) - double(rule.get_coord(i, j))) <= 4e-6 * (1.0 + std::fabs(double(rule.get_coord(i, j))));
          }
          c.check(close, key + " :: float-values", "float rule is not the rounded double rule");
          Exactness exf = measure(rf, nominal, nominal, 2e-5L);
          c.check(exf.weights_ok && exf.worst_rel <= 2e-5L, key + " :: float-degree", [&]{ std::ostringstream o; o << "float rule misses its nominal degree: worst " << exf.worst_mono << " rel. error " << (double)exf.worst_rel; return o.str(); });
          c.count("rules_float");
        }
      }
      c.outcome(std::string(kind) + " achieved-nominal=" + (ex.achieved_total >= nominal + 1 ? ">=+1" : ex.achieved_total == nominal ? "0" : "<0"));
      if(ex.achieved_total > nominal && std::string(kind) == "base") c.count("base_rules_exceeding_nominal_within_tolerance");
      if(sh.dump) fprintf(stdout, "DUMP\t%s\t%s\t%s\tnominal=%d\tachieved=%d\tworst=%.3Lg\tpoints=%d\n", R::tag(), name.c_str(), std::string(rule.get_name()).c_str(), nominal, ex.achieved_total, ex.worst_rel, rule.get_num_points());
      c.nontrivial(verif::Hash().str(R::tag()).str(name).get());
    }

    int nominal_of(verif::Ctx& c, Shared& sh, const std::string& real, bool in_case)
    {
      std::string k = table_key(real);
      auto it = sh.table.deg.find(k);
      if(it == sh.table.deg.end())
      {
        if(in_case) c.fail(std::string(R::tag()) + " " + real + " :: no-nominal-degree", "rule is offered by the library but has no row in spec/cubature_degrees.tsv");
        return -1;
      }
      return it->second;
    }

    void run(verif::Ctx& c, Shared& sh)
    {
      const uint64_t quick_cap = 150000000ull;  // points * monomials
      const uint64_t thorough_cap = 6000000000ull;

      // ---------------------------------------------------------------- positive: base rules and refine prefixes
      struct Pre { const char* p; long long refines; };
      const Pre pres[] = {{"", -1}, {"refine:", 1}, {"refine*0:", 0}, {"refine*1:", 1}, {"refine*2:", 2}, {"refine*3:", 3}};
      for(auto& b : bases)
      {
        for(auto& pr : pres)
        {
          if(!c.want()) continue;
          const std::string name = std::string(pr.p) + b.name;
          c.desc([&]{ return std::string(R::tag()) + " '" + name + "'"; });
          int nominal = nominal_of(c, sh, b.name, true);
          if(nominal < 0) continue;
          RuleT base;
          if(!c.check(DynamicFactory::create(base, String(b.name)), std::string(R::tag()) + " " + b.name + " :: create", "base rule not created")) continue;
          if(pr.refines >= 2)
          {
            uint64_t np = uint64_t(base.get_num_points());
            for(long long i = 0; i < pr.refines; ++i) np *= uint64_t(R::refine_count());
            const uint64_t cost = np * monomial_count(R::dim, nominal + 1);
            if(!c.thorough && cost > quick_cap) { c.excluded("quick tier: refine*k of a large rule (covered by thorough)"); continue; }
            if(c.thorough && cost > thorough_cap) { c.excluded("thorough tier: refine*k with points*monomials > 6e9 (the refinery code is rule independent)"); continue; }
          }
          std::string expect = NameModel::compose(b.name, pr.refines);
          positive(c, sh, name, expect, nominal, &base, pr.refines < 0 ? 0 : pr.refines, pr.refines < 0 ? "base" : "refined");
          if(pr.refines < 0)
          {
            // compile-time API route gives the identical rule
            RuleT st;
            en.entries[b.entry].static_create(st, b.k);
            {
              // the other compile-time routes: factory object, RefineFactory<Factory> static / object with 0..2 refinements
              RuleT io; en.entries[b.entry].instance_create(io, b.k);
              c.check(same_rule(base, io) && std::string(io.get_name()) == b.name, std::string(R::tag()) + " " + b.name + " :: factory-object", "Factory(n).create(rule) differs from the rule created by name");
              for(Index nr = 0; nr <= 2; ++nr)
              {
                if(nr == 2 && base.get_num_points() > 2000) continue;
                RuleT byname; DynamicFactory::create(byname, String(NameModel::compose(b.name, nr == 0 ? 0 : (long long)nr) == b.name ? "refine*0:" + b.name : NameModel::compose(b.name, (long long)nr)));
                RuleT rs; en.entries[b.entry].refine_static(rs, b.k, nr);
                RuleT ri(3, "x"); en.entries[b.entry].refine_instance(ri, b.k, nr);
                c.check(same_rule(byname, rs) && std::string(rs.get_name()) == std::string(byname.get_name()), std::string(R::tag()) + " " + b.name + " :: refine-static*" + std::to_string(nr), "RefineFactory<Factory>::create(rule, [n,] refines) differs from 'refine*k:name'");
                c.check(same_rule(byname, ri) && std::string(ri.get_name()) == std::string(byname.get_name()), std::string(R::tag()) + " " + b.name + " :: refine-object*" + std::to_string(nr), "RefineFactory<Factory>([n,] refines).create(rule) differs from 'refine*k:name'");
                c.count("compile_time_refine_routes", 2);
              }
            }
            c.check(same_rule(base, st) && std::string(st.get_name()) == b.name, std::string(R::tag()) + " " + b.name + " :: static-factory", "Factory::create(rule[,n]) differs from the rule created by name");
            // documented point count of non-variadic drivers
            if(!en.entries[b.entry].variadic && std::string(b.name).find(':') == std::string::npos)
            {
              int np = en.entries[b.entry].nump;
              c.check(np == base.get_num_points(), std::string(R::tag()) + " " + b.name + " :: num_points", [&]{ return "Factory::num_points=" + std::to_string(np) + " but rule has " + std::to_string(base.get_num_points()); });
            }
          }
          if(pr.refines == 0) c.check(same_rule(base, [&]{ RuleT r; DynamicFactory::create(r, String(name)); return r; }()), std::string(R::tag()) + " " + name + " :: refine*0-identity", "refine*0 is not the base rule");
        }
      }

      // ---------------------------------------------------------------- positive: aliases, case-insensitivity
      for(auto& a : aliases)
      {
        for(int v = 0; v < 3; ++v)
        {
          if(!c.want()) continue;
          const std::string name = (v == 0 ? a.first : v == 1 ? "refine:" + a.first : upper(a.first));
          c.desc([&]{ return std::string(R::tag()) + " alias '" + name + "' -> " + a.second; });
          int nominal = nominal_of(c, sh, a.second, true);
          if(nominal < 0) continue;
          {
            std::string al = a.first;
            if(!model.sprefix.empty() && al.compare(0, model.sprefix.size(), model.sprefix) == 0) al = al.substr(model.sprefix.size());
            auto ai = sh.table.alias.find(al);
            c.check(ai != sh.table.alias.end() && ai->second == table_key(a.second), std::string(R::tag()) + " alias " + a.first + " :: alias-target",
              [&]{ return "library maps alias to '" + a.second + "', spec says '" + (ai == sh.table.alias.end() ? std::string("<no such alias>") : ai->second) + "'"; });
          }
          RuleT base;
          if(!c.check(DynamicFactory::create(base, String(a.second)), std::string(R::tag()) + " " + a.second + " :: create", "alias target not created")) continue;
          positive(c, sh, name, NameModel::compose(a.second, v == 1 ? 1 : -1), nominal, &base, v == 1 ? 1 : 0, "alias");
          if(v != 1)
          {
            RuleT r; DynamicFactory::create(r, String(name));
            c.check(same_rule(base, r), std::string(R::tag()) + " " + name + " :: alias-identity", "alias yields different points than its target");
          }
        }
      }
      for(auto& b : bases)
      {
        if(!c.want()) continue;
        const std::string name = upper(b.name);
        c.desc([&]{ return std::string(R::tag()) + " upper-case '" + name + "'"; });
        int nominal = nominal_of(c, sh, b.name, true);
        if(nominal < 0) continue;
        positive(c, sh, name, b.name, nominal, nullptr, -1, "uppercase");
      }

      // ---------------------------------------------------------------- positive: auto-degree
      {
        const int maxd = AutoAlias<Shape_>::max_auto_degree;
        for(int n = 0; n <= maxd + 2; ++n)
          for(int v = 0; v < 3; ++v)
          {
            if(!c.want()) continue;
            const std::string name = std::string(v == 1 ? "refine:" : "") + std::string(v == 2 ? "AUTO-Degree:" : "auto-degree:") + std::to_string(n);
            c.desc([&]{ return std::string(R::tag()) + " '" + name + "' (advertised max " + std::to_string(maxd) + ")"; });
            const int need = std::min(n, maxd);
            positive(c, sh, name, std::string(), need, nullptr, -1, "auto");
            // the chosen rule must be one of the advertised names and its own nominal degree must cover the request
            RuleT r; DynamicFactory::create(r, String("auto-degree:" + std::to_string(n)));
            std::string chosen = std::string(r.get_name());
            bool adv = model.valid.count(lower(chosen)) > 0;
            c.check(adv, std::string(R::tag()) + " " + name + " :: auto-target", [&]{ return "auto-degree maps to '" + chosen + "' which is not an advertised rule"; });
            if(adv)
            {
              auto it = sh.table.deg.find(table_key(model.valid[lower(chosen)]));
              if(it != sh.table.deg.end())
                c.check(it->second >= need, std::string(R::tag()) + " " + name + " :: auto-nominal", [&]{ return "auto-degree:" + std::to_string(n) + " maps to " + chosen + " of nominal degree " + std::to_string(it->second); });
            }
            c.outcome("auto -> " + chosen.substr(0, chosen.find(':')));
          }
      }

      // ---------------------------------------------------------------- negative space
      auto probe = [&](verif::Ctx& cc, const std::string& s, const char* family)
      {
        long long rf = -1, rf2 = -1;
        std::string exp_strict = model.strict(s, rf);
        std::string exp_len;
        int len = model.lenient(s, exp_len, rf2);
        if((rf > 3) || (len != 0 && (rf2 > 3 || rf2 < -1))) { cc.excluded("near-miss name with a refine count outside 0..3 (resource bound)"); return; }
        RuleT rule;
        bool ok = DynamicFactory::create(rule, String(s));
        cc.count("negative_space_names");
        const std::string key = std::string(R::tag()) + " near-miss '" + s + "'";
        if(!exp_strict.empty())
        {
          cc.count("near_miss_is_valid_name");
          cc.check(ok && std::string(rule.get_name()) == exp_strict, key + " :: valid-name", [&]{ return std::string("a literally valid name ") + (ok ? "gave rule '" + std::string(rule.get_name()) + "' instead of '" + exp_strict + "'" : "was refused"); });
          return;
        }
        if(len == 0)
        {
          cc.check(!ok, key + " :: accepted (" + family + ")", [&]{ return "unknown name answered with rule '" + std::string(rule.get_name()) + "'"; });
          if(!ok)
          {
            cc.check(rule.get_num_points() == 0, key + " :: touched", "refused name but the output rule was modified");
            {
              RuleT pre(2, "marker");
              for(int i = 0; i < 2; ++i) { pre.get_weight(i) = 77.0; for(int j = 0; j < R::dim; ++j) pre.get_coord(i, j) = -33.0; }
              bool ok2 = DynamicFactory::create(pre, String(s));
              bool same = !ok2 && pre.get_num_points() == 2 && std::string(pre.get_name()) == "marker";
              for(int i = 0; i < 2 && same; ++i) { same = (pre.get_weight(i) == 77.0); for(int j = 0; j < R::dim && same; ++j) same = (pre.get_coord(i, j) == -33.0); }
              cc.check(same, key + " :: touched-filled", "refused name but the already filled output rule was modified");
            }
            bool threw = false;
            try { RuleT r2; DynamicFactory f{String(s)}; f.create_throw(r2); } catch(const UnknownRule&) { threw = true; }
            cc.check(threw, key + " :: create_throw", "create_throw did not throw UnknownRule for a refused name");
            cc.count("refused");
          }
          return;
        }
        // lenient class: may be accepted, but only as the rule it designates
        if(ok)
        {
          cc.count("lenient_accepted");
          if(len == 1)
            cc.check(std::string(rule.get_name()) == exp_len, key + " :: wrong-rule", [&]{ return "name designates '" + exp_len + "' but rule '" + std::string(rule.get_name()) + "' was created"; });
          else
          {
            // auto-degree form: any advertised rule
            std::string rn = lower(std::string(rule.get_name()));
            size_t p = rn.find(':');
            if(rn.compare(0, 6, "refine") == 0 && p != std::string::npos) rn = rn.substr(p + 1);
            cc.check(model.valid.count(rn) > 0, key + " :: auto-target", "auto-degree form answered with an unadvertised rule");
          }
        }
        else cc.count("lenient_refused");
      };

      const std::string alphabet = "ae-:* 019x";
      // representative prefixed names (one per shape) in addition to all unprefixed ones
      std::vector<std::string> seeds;
      for(auto& b : bases) seeds.push_back(b.name);
      for(auto& a : aliases) seeds.push_back(a.first);
      seeds.push_back("auto-degree:2");
      if(!bases.empty()) { seeds.push_back("refine:" + bases.front().name); seeds.push_back("refine*2:" + bases.back().name); seeds.push_back("refine:auto-degree:3"); }
      for(auto& s : seeds)
      {
        if(!c.want()) continue;
        c.desc([&]{ return std::string(R::tag()) + " all names at edit distance 1 from '" + s + "'"; });
        // deletions
        for(size_t i = 0; i < s.size(); ++i) { std::string m = s; m.erase(i, 1); probe(c, m, "deletion"); }
        // substitutions
        for(size_t i = 0; i < s.size(); ++i) for(char ch : alphabet) { if(s[i] == ch) continue; std::string m = s; m[i] = ch; probe(c, m, "substitution"); }
        // insertions
        for(size_t i = 0; i <= s.size(); ++i) for(char ch : alphabet) { std::string m = s; m.insert(i, 1, ch); probe(c, m, "insertion"); }
        // transpositions
        for(size_t i = 0; i + 1 < s.size(); ++i) { if(s[i] == s[i + 1]) continue; std::string m = s; std::swap(m[i], m[i + 1]); probe(c, m, "transposition"); }
        c.nontrivial(verif::Hash().str(R::tag()).str("neg").str(s).get());
      }
      // out-of-range and malformed point counts
      for(auto& e : en.entries)
      {
        if(!c.want()) continue;
        c.desc([&]{ return std::string(R::tag()) + " out-of-range / malformed parameters of '" + e.name + "'"; });
        std::vector<std::string> ps;
        if(e.variadic)
        {
          for(long long k : {(long long)e.minp - 1, (long long)e.maxp + 1, 0ll, -1ll, (long long)e.maxp * 10, 2147483647ll, 2147483648ll, 4294967296ll + e.minp})
            ps.push_back(e.name + ":" + std::to_string(k));
          ps.push_back(e.name + ":99999999999999999999");
          ps.push_back(e.name + ":");
          ps.push_back(e.name);
          ps.push_back(e.name + ":x");
          ps.push_back(e.name + "::" + std::to_string(e.minp));
          ps.push_back(":" + std::to_string(e.minp));
        }
        else
        {
          ps.push_back(e.name + ":1");
          ps.push_back(e.name + ":");
          ps.push_back(e.name + ":" + std::to_string(e.nump));
        }
        ps.push_back("");
        ps.push_back(":");
        ps.push_back("refine:");
        ps.push_back("refine");
        ps.push_back("refine:refine:" + e.name + (e.variadic ? ":" + std::to_string(e.minp) : ""));
        ps.push_back("refine*:" + e.name + (e.variadic ? ":" + std::to_string(e.minp) : ""));
        ps.push_back("refine*x:" + e.name + (e.variadic ? ":" + std::to_string(e.minp) : ""));
        ps.push_back("auto-degree");
        ps.push_back("auto-degree:");
        ps.push_back("auto-degree:x");
        ps.push_back("auto:2");
        ps.push_back("auto-points:2");
        for(auto& s : ps) probe(c, s, "parameter");
        c.nontrivial(verif::Hash().str(R::tag()).str("param").str(e.name).get());
      }
      // orders: all base rules created into ONE rule object in reverse / interleaved order, each compared with a fresh creation
      for(int order = 0; order < 2; ++order)
      {
        if(!c.want()) continue;
        c.desc([&]{ return std::string(R::tag()) + " all base rules created into the same rule object, " + (order == 0 ? "reverse order" : "largest/smallest interleaved, failed creations in between"); });
        RuleT shared;
        std::vector<size_t> seq;
        if(order == 0) for(size_t i = bases.size(); i-- > 0;) seq.push_back(i);
        else for(size_t i = 0, j = bases.size(); i < j;) { seq.push_back(--j); if(i < j) seq.push_back(i++); }
        for(size_t i : seq)
        {
          bool ok = DynamicFactory::create(shared, String(bases[i].name));
          RuleT fresh; DynamicFactory::create(fresh, String(bases[i].name));
          c.check(ok && same_rule(shared, fresh) && std::string(shared.get_name()) == bases[i].name, std::string(R::tag()) + " " + bases[i].name + " :: create-sequence", "rule created after other rules into the same object differs from a fresh one");
          if(order == 1) { bool bad = DynamicFactory::create(shared, String("no-such-rule:3")); c.check(!bad && same_rule(shared, fresh), std::string(R::tag()) + " " + bases[i].name + " :: failed-create-between", "a refused creation modified the rule"); }
          c.count("sequence_creations");
        }
        c.nontrivial(verif::Hash().str(R::tag()).str("order").pod(order).get());
      }
      // names of other shapes
      {
        if(c.want())
        {
          c.desc([&]{ return std::string(R::tag()) + " names that exist only for other shapes"; });
          for(auto& s : sh.all_names_any_shape)
          {
            if(model.valid.count(s)) continue;
            probe(c, s, "other-shape");
            probe(c, "refine:" + s, "other-shape");
            c.count("other_shape_names");
          }
          // with the foreign prefix
          for(auto& b : bases) { probe(c, "tensor:" + b.name, "foreign-prefix"); probe(c, "scalar:" + b.name, "foreign-prefix"); }
          c.nontrivial(verif::Hash().str(R::tag()).str("other").get());
        }
      }
    }
  };


  // ------------------------------------------------------------------------------------------------
  // scalar rules through Scalar::DynamicFactory (the interface the tensor / simplex-scalar factories are built on)
  // ------------------------------------------------------------------------------------------------
  struct ScalarEnum
  {
    struct Entry { std::string name; bool variadic = false; int minp = 0, maxp = 0; std::vector<std::pair<std::string, std::string>> aliases; };
    std::vector<Entry> entries;
    struct AliasCollector { Entry& e; void alias(const String& n) { e.aliases.emplace_back(std::string(n), e.name); } void alias(const String& n, int k) { e.aliases.emplace_back(std::string(n), e.name + ":" + std::to_string(k)); } };
    template<typename F_, bool v_ = (F_::variadic != 0)> struct Fill;
    template<typename F_> struct Fill<F_, true> { static void go(Entry& e) { e.variadic = true; e.minp = int(F_::min_points); e.maxp = int(F_::max_points); } };
    template<typename F_> struct Fill<F_, false> { static void go(Entry& e) { e.variadic = false; } };
    template<typename Factory_> void factory() { Entry e; e.name = std::string(Factory_::name()); Fill<Factory_>::go(e); AliasCollector ac{e}; Factory_::alias(ac); entries.push_back(e); }
  };

  inline void scalar_run(verif::Ctx& c, Shared& sh)
  {
    ScalarEnum en;
    Scalar::FactoryWrapper::factory(en);
    std::vector<std::pair<std::string, std::string>> names;   // (name to request, real name)
    for(auto& e : en.entries)
    {
      if(e.variadic) for(int k = e.minp; k <= e.maxp; ++k) names.emplace_back(e.name + ":" + std::to_string(k), e.name + ":" + std::to_string(k));
      else names.emplace_back(e.name, e.name);
      for(auto& a : e.aliases) names.emplace_back(a.first, a.second);
    }
    for(auto& nm : names)
    {
      if(!c.want()) continue;
      c.desc([&]{ return "scalar rule '" + nm.first + "' through Scalar::DynamicFactory"; });
      const std::string key = "scalar " + nm.first;
      Scalar::Rule<> rule;
      if(!c.check(Scalar::DynamicFactory::create(rule, String(nm.first)), key + " :: create", "advertised scalar rule is not created")) continue;
      c.check(std::string(rule.get_name()) == nm.second, key + " :: rule-name", [&]{ return "created scalar rule is called '" + std::string(rule.get_name()) + "', expected '" + nm.second + "'"; });
      // nominal degree: same table; the scalar driver 'midpoint' is the 1D barycentre rule
      std::string tk = nm.second; if(tk == "midpoint") tk = "barycentre";
      auto it = sh.table.deg.find(tk);
      if(!c.check(it != sh.table.deg.end(), key + " :: no-nominal-degree", "scalar rule without row in spec/cubature_degrees.tsv")) continue;
      const int nominal = it->second;
      LD sw = 0, worst = 0; int wdeg = -1;
      for(int i = 0; i < rule.get_num_points(); ++i) sw += LD(rule.get_weight(i));
      for(int a = 0; a <= nominal; ++a)
      {
        LD q = 0, qa = 0;
        for(int i = 0; i < rule.get_num_points(); ++i) { LD v = LD(rule.get_weight(i)) * std::pow(LD(rule.get_coord(i)), a); q += v; qa += std::fabs(v); }
        const LD I = (a & 1) ? 0.0L : 2.0L / LD(a + 1);
        const LD scale = std::max(qa, std::fabs(I));
        const LD rel = scale > 0 ? std::fabs(q - I) / scale : 0;
        if(rel > worst) { worst = rel; wdeg = a; }
      }
      c.check(std::fabs(sw - 2.0L) <= 2e-12L, key + " :: weight-sum", "scalar weights do not sum to 2");
      c.check(worst <= tol(), key + " :: degree", [&]{ std::ostringstream o; o << "scalar rule misses nominal degree " << nominal << " at x^" << wdeg << " rel. error " << (double)worst; return o.str(); });
      // refused neighbours leave a filled rule alone
      Scalar::Rule<> pre; Scalar::DynamicFactory::create(pre, String(nm.first));
      for(const std::string& bad : {"zz" + nm.first, nm.first.substr(1), nm.first.substr(0, 3) + "q" + nm.first.substr(3), std::string("tensor:") + nm.first})
      {
        bool b = Scalar::DynamicFactory::create(pre, String(bad));
        c.check(!b && pre.get_num_points() == rule.get_num_points(), key + " :: near-miss", [&]{ return "scalar near-miss name '" + bad + "' accepted or rule modified"; });
      }
      c.count("rules_scalar");
      c.outcome("scalar rule");
      c.nontrivial(verif::Hash().str("scalar").str(nm.first).get());
    }
  }

  inline int main_(int argc, char** argv)
  {
    FEAT::Runtime::ScopeGuard guard(argc, argv);
    verif::Spec spec;
    spec.property = "C14";
    spec.harness = C14_HARNESS_NAME;
    spec.rule = "cases = (shape, name) for every name/alias/point count the library's own factory functor enumeration reports for "
      "Simplex<1..3>, Hypercube<1..3>, x prefixes {none, refine:, refine*0..3:}, upper-case spelling, auto-degree:0..max+2 (x refine prefixes); "
      "plus one case per name holding all its edit-distance-1 neighbours, per driver the out-of-range/malformed parameters, per shape the names "
      "of the other shapes; per shape all base rules created into one rule object in reverse / interleaved order; every scalar rule through Scalar::DynamicFactory. "
      "Every created rule is also created into an already filled rule, cloned, move-constructed, move-assigned into a filled rule, built through Rule(ctor_factory, factory), and (base rules) created with float weights/coordinates; "
      "every base rule is also built through the factory object, RefineFactory<Factory>::create and RefineFactory<Factory>(..).create with 0..2 refinements (compile-time API); "
      "every refused name is also tried on a filled rule which must stay untouched. A positive case is non-trivial when the rule was created and all monomials up to its nominal degree were compared "
      "with the closed form (hash = shape+name); a negative case is non-trivial when its whole neighbourhood was probed (hash = shape+seed name).";
    spec.bounds_quick = "all rules, all aliases, refine: and refine*0/1 on every rule, refine*2/3 where points*monomials <= 1.5e8; all negative families";
    spec.bounds_thorough = "as quick, refine*2 and refine*3 on every rule where points*monomials <= 6e9 (excludes only refine*3 / refine*2 of the largest 3D Gauss-Legendre tensor rules)";
    spec.assumptions = {
      "nominal degrees: /verif/spec/cubature_degrees.tsv (transcribed from the driver sources / their cited literature; one row per rule; a rule without row fails, a row without rule fails)",
      "closed forms: simplex prod a_i!/(|a|+d)!, hypercube prod (1+(-1)^a_i)/(a_i+1); sums in long double; tolerance 1e-12 relative to max(sum|w m|, |I|)",
      "hypercube rules are additionally checked on per-direction monomials with exponents in {0,1,p-1,p}^d",
      "name language model: literally advertised names (any letter case, literal refine:/refine*k: prefix) must be accepted; names that only match after trimming blanks around ':'-parts or by istream-style integer reading (sign, leading zeros, trailing junk) may be accepted but only as the designated rule; everything else must be refused, leave the rule untouched and make create_throw throw",
      "refine*k with k > 3 is not generated (point count grows like 4^k / 12^k)"
    };
    spec.deadline_quick_s = 400; spec.deadline_thorough_s = 2400;
    spec.case_timeout_s = 600;

    Shared sh;
    sh.table.load();
    sh.dump = std::getenv("C14_DUMP") != nullptr;
    ShapeRun<Shape::Simplex<1>> s1; ShapeRun<Shape::Simplex<2>> s2; ShapeRun<Shape::Simplex<3>> s3;
    ShapeRun<Shape::Hypercube<1>> h1; ShapeRun<Shape::Hypercube<2>> h2; ShapeRun<Shape::Hypercube<3>> h3;
    s1.collect(sh); s2.collect(sh); s3.collect(sh); h1.collect(sh); h2.collect(sh); h3.collect(sh);

    return verif::run(spec, argc, argv, [&](verif::Ctx& c) {
      // table sanity is case 0
      if(c.want())
      {
        c.desc([&]{ return std::string("nominal degree table spec/cubature_degrees.tsv is loadable and has no stale rows"); });
        c.check(sh.table.error.empty(), "degree-table :: load", [&]{ return sh.table.error; });
        std::set<std::string> keys;
        auto add = [&](auto& sr) { for(auto& b : sr.bases) keys.insert(sr.table_key(b.name)); };
        add(s1); add(s2); add(s3); add(h1); add(h2); add(h3);
        for(auto& r : sh.table.deg) c.check(keys.count(r.first) > 0, "degree-table :: stale row " + r.first, "row names a rule that no shape offers");
        {
          std::set<std::string> offered;
          auto adda = [&](auto& sr) { for(auto& a : sr.aliases) { std::string al = a.first; if(!sr.model.sprefix.empty() && al.compare(0, sr.model.sprefix.size(), sr.model.sprefix) == 0) al = al.substr(sr.model.sprefix.size()); offered.insert(al); } };
          adda(s1); adda(s2); adda(s3); adda(h1); adda(h2); adda(h3);
          for(auto& a : sh.table.alias) c.check(offered.count(a.first) > 0, "degree-table :: alias not offered " + a.first, "spec lists an alias that no shape offers");
        }
        c.count("degree_table_rows", sh.table.deg.size());
        c.count("distinct_rule_names", keys.size());
      }
      scalar_run(c, sh);
      s1.run(c, sh); s2.run(c, sh); s3.run(c, sh); h1.run(c, sh); h2.run(c, sh); h3.run(c, sh);
    });
  }
} // namespace c14
