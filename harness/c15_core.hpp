// c15_core.hpp -- generic checks of property C15 for one (element family, shape, tiny mesh) configuration.
//
// Checks performed by run_space_checks (every one against harness-owned oracles from c15_poly.hpp / c15_mesh.hpp):
//   count      global DOF count == sum_d #entities(d) * dofs-per-entity(d) (harness table); local count; indices in
//              range, pairwise distinct per cell, union over cells == all DOFs; #DOFs shared by the two cells of a
//              2-cell mesh == DOFs sitting on the shared entities
//   deriv      gradients / Hessians returned by the evaluator == 4th order central differences of the returned
//              values (resp. gradients) along the reference directions, through the chain rule with jac_mat
//   dual       node functionals (FEAT NodeFunctional + DofAssignment per entity) applied to the FE function of one
//              cell reproduce the coefficient of the DOF the DofMapping assigns (full delta_ij matrix on 1-cell meshes,
//              two generic coefficient vectors on multi-cell meshes): unisolvence + orientation handling + one global
//              index per shared functional
//   repro      Assembly::Interpolator::project of every polynomial of a spanning set of the local space gives an FE
//              function that equals the polynomial, its gradient and its Hessian at all lattice points of all cells
//   conf       H1-conforming families: the FE function of a position coded coefficient vector has the same value from
//              both cells at every lattice point of the shared facet (C1 families: same gradient as well)
#pragma once
#include <c15_mesh.hpp>
#include <verif.hpp>

#include <kernel/analytic/function.hpp>
#include <kernel/assembly/interpolator.hpp>
#include <kernel/lafem/dense_vector.hpp>
#include <kernel/trafo/standard/mapping.hpp>

#include <cmath>
#include <memory>
#include <sstream>

namespace c15
{
  using FEAT::SpaceTags;
  using FEAT::TrafoTags;

  // ------------------------------------------------------------------------------------------------------------------
  // FEAT analytic function wrapper around a harness polynomial (real coordinates)
  // ------------------------------------------------------------------------------------------------------------------
  template<int D>
  class PolyFunction : public FEAT::Analytic::Function
  {
  public:
    static constexpr int domain_dim = D;
    typedef FEAT::Analytic::Image::Scalar ImageType;
    static constexpr bool can_value = true;
    static constexpr bool can_grad = true;
    static constexpr bool can_hess = true;

    Poly<D> p;
    std::array<Poly<D>, D> g;
    std::array<std::array<Poly<D>, D>, D> h;

    explicit PolyFunction(const Poly<D>& p_) : p(p_)
    {
      for(int i = 0; i < D; ++i)
      {
        g[(size_t)i] = p.diff(i);
        for(int j = 0; j < D; ++j) h[(size_t)i][(size_t)j] = g[(size_t)i].diff(j);
      }
    }

    template<typename Traits_>
    class Evaluator : public FEAT::Analytic::Function::Evaluator<Traits_>
    {
    public:
      typedef typename Traits_::PointType PointType;
      typedef typename Traits_::ValueType ValueType;
      typedef typename Traits_::GradientType GradientType;
      typedef typename Traits_::HessianType HessianType;
      const PolyFunction& f;
      explicit Evaluator(const PolyFunction& f_) : f(f_) {}
      ValueType value(const PointType& x) { return ValueType(f.p.eval(x.v)); }
      GradientType gradient(const PointType& x)
      {
        GradientType r;
        for(int i = 0; i < D; ++i) r[i] = typename Traits_::DataType(f.g[(size_t)i].eval(x.v));
        return r;
      }
      HessianType hessian(const PointType& x)
      {
        HessianType r;
        for(int i = 0; i < D; ++i) for(int j = 0; j < D; ++j) r[i][j] = typename Traits_::DataType(f.h[(size_t)i][(size_t)j].eval(x.v));
        return r;
      }
    };
  };

  // ------------------------------------------------------------------------------------------------------------------
  // evaluation of the FEAT space on one cell
  // ------------------------------------------------------------------------------------------------------------------
  template<typename Space_, bool want_grad_, bool want_hess_>
  struct FeEval
  {
    typedef Space_ SpaceType;
    typedef typename SpaceType::TrafoType TrafoType;
    typedef typename SpaceType::ShapeType ShapeType;
    static constexpr int D = ShapeType::dimension;
    typedef typename TrafoType::template Evaluator<ShapeType, double>::Type TrafoEvaluator;
    typedef typename SpaceType::template Evaluator<TrafoEvaluator>::Type SpaceEvaluator;
    static constexpr SpaceTags space_tags = SpaceTags::value | (want_grad_ ? SpaceTags::grad : SpaceTags::none) | (want_hess_ ? SpaceTags::hess : SpaceTags::none);
    static constexpr TrafoTags trafo_tags = TrafoTags::dom_point | TrafoTags::img_point | TrafoTags::jac_mat | TrafoTags::jac_inv
      | TrafoTags::jac_det | TrafoTags::hess_ten | TrafoTags::hess_inv | SpaceEvaluator::template ConfigTraits<space_tags>::trafo_config;
    typedef typename TrafoEvaluator::template ConfigTraits<trafo_tags>::EvalDataType TrafoData;
    typedef typename SpaceEvaluator::template ConfigTraits<space_tags>::EvalDataType SpaceData;
    typedef typename SpaceType::DofMappingType DofMapping;
    typedef typename TrafoEvaluator::DomainPointType DomainPointType;

    const SpaceType& space;
    TrafoEvaluator teval;
    SpaceEvaluator seval;
    DofMapping dofmap;
    TrafoData td;
    SpaceData sd;
    int nloc = 0;
    std::vector<Index> gdof;

    explicit FeEval(const SpaceType& s) : space(s), teval(s.get_trafo()), seval(s), dofmap(s) {}

    void prepare(Index cell)
    {
      teval.prepare(cell);
      seval.prepare(teval);
      dofmap.prepare(cell);
      nloc = seval.get_num_local_dofs();
      gdof.resize((size_t)nloc);
      for(int j = 0; j < nloc; ++j) gdof[(size_t)j] = dofmap.get_index(j);
    }
    void finish()
    {
      dofmap.finish();
      seval.finish();
      teval.finish();
    }
    void eval(const std::array<LD, D>& xi)
    {
      DomainPointType p;
      for(int j = 0; j < D; ++j) p[j] = double(xi[(size_t)j]);
      teval(td, p);
      seval(sd, td);
    }
  };

  /// FE function of one cell, u_K(x) = sum_j coef[j] phi_j(F_K^{-1}(x)), as a FEAT analytic function; the inverse map
  /// is the harness' own (long double Newton on the harness polynomials)
  template<typename Fe_, typename Geom_>
  class CellFeFunction : public FEAT::Analytic::Function
  {
  public:
    static constexpr int D = Fe_::D;
    static constexpr int domain_dim = D;
    typedef FEAT::Analytic::Image::Scalar ImageType;
    static constexpr bool can_value = true;
    static constexpr bool can_grad = true;
    static constexpr bool can_hess = true;

    Fe_* fe;
    const Geom_* geom;
    const std::vector<double>* coef; // local coefficients
    mutable bool unmap_failed = false;
    mutable long evals = 0;

    CellFeFunction(Fe_& f, const Geom_& g, const std::vector<double>& c) : fe(&f), geom(&g), coef(&c) {}

    void locate(const double* x) const
    {
      std::array<LD, D> xr, xi;
      for(int j = 0; j < D; ++j) xr[(size_t)j] = LD(x[j]);
      if(!geom->unmap(xr, xi)) unmap_failed = true;
      fe->eval(xi);
      ++evals;
    }

    template<typename Traits_>
    class Evaluator : public FEAT::Analytic::Function::Evaluator<Traits_>
    {
    public:
      typedef typename Traits_::PointType PointType;
      typedef typename Traits_::ValueType ValueType;
      typedef typename Traits_::GradientType GradientType;
      typedef typename Traits_::HessianType HessianType;
      const CellFeFunction& f;
      explicit Evaluator(const CellFeFunction& f_) : f(f_) {}
      ValueType value(const PointType& x)
      {
        f.locate(x.v);
        double s = 0;
        for(int j = 0; j < f.fe->nloc; ++j) s += (*f.coef)[(size_t)j] * f.fe->sd.phi[j].value;
        return s;
      }
      GradientType gradient(const PointType& x)
      {
        GradientType r; r.format();
        if constexpr(*(Fe_::space_tags & SpaceTags::grad))
        {
          f.locate(x.v);
          for(int j = 0; j < f.fe->nloc; ++j) for(int i = 0; i < D; ++i) r[i] += (*f.coef)[(size_t)j] * f.fe->sd.phi[j].grad[i];
        }
        else
          r = std::nan("");
        return r;
      }
      HessianType hessian(const PointType& x)
      {
        HessianType r; r.format();
        if constexpr(*(Fe_::space_tags & SpaceTags::hess))
        {
          f.locate(x.v);
          for(int j = 0; j < f.fe->nloc; ++j) for(int i = 0; i < D; ++i) for(int k = 0; k < D; ++k) r[i][k] += (*f.coef)[(size_t)j] * f.fe->sd.phi[j].hess[i][k];
        }
        else
          r = std::nan("");
        return r;
      }
    };
  };

  // ------------------------------------------------------------------------------------------------------------------
  // node functional loop over the entities of one cell (mirror of Assembly::Interpolator restricted to a cell)
  // ------------------------------------------------------------------------------------------------------------------
  template<typename Space_, typename Function_, int d_>
  struct CellDual
  {
    /// applies all node functionals of the dimension-d_ entities of `cell`; out: (global dof index, value)
    static void apply(const Space_& space, const Function_& fn, Index cell, std::vector<std::pair<Index, double>>& out)
    {
      constexpr int D = Space_::shape_dim;
      typedef typename Space_::template NodeFunctional<d_, double>::Type NodeFunc;
      typedef typename Space_::template DofAssignment<d_, double>::Type DofAssign;
      if constexpr(int(NodeFunc::max_assigned_dofs) > 0)
      {
        NodeFunc nf(space);
        DofAssign da(space);
        FEAT::Tiny::Vector<double, int(NodeFunc::max_assigned_dofs)> data;
        int nent = (d_ == D) ? 1 : num_local_faces<typename Space_::ShapeType>(d_);
        for(int l = 0; l < nent; ++l)
        {
          Index e = cell;
          if constexpr(d_ < D) e = space.get_mesh().template get_index_set<D, d_>()(cell, l);
          nf.prepare(e);
          nf(data, fn);
          nf.finish();
          da.prepare(e);
          int n = da.get_num_assigned_dofs();
          for(int j = 0; j < n; ++j) out.emplace_back(da.get_index(j), data[j]);
          da.finish();
        }
      }
      if constexpr(d_ > 0) CellDual<Space_, Function_, d_ - 1>::apply(space, fn, cell, out);
    }
  };

  /// ownership of global dofs: which (dimension, entity, k) owns global dof i according to the DofAssignment classes
  template<typename Space_, int d_>
  struct Ownership
  {
    /// appends (global index -> (dim, entity, k)); returns false on a duplicate owner
    static bool collect(const Space_& space, std::map<Index, std::array<Index, 3>>& owner, std::vector<int>& per_dim)
    {
      bool ok = true;
      typedef typename Space_::template DofAssignment<d_, double>::Type DofAssign;
      DofAssign da(space);
      const Index ne = space.get_mesh().get_num_entities(d_);
      int cnt = -1;
      for(Index e = 0; e < ne; ++e)
      {
        da.prepare(e);
        const int n = da.get_num_assigned_dofs();
        if(cnt < 0) cnt = n; else if(cnt != n) ok = false;
        if(n > da.get_max_assigned_dofs()) ok = false;
        for(int k = 0; k < n; ++k)
          if(!owner.emplace(da.get_index(k), std::array<Index, 3>{{Index(d_), e, Index(k)}}).second) ok = false;
        da.finish();
      }
      per_dim[(size_t)d_] = (cnt < 0 ? 0 : cnt);
      if constexpr(d_ > 0) ok = Ownership<Space_, d_ - 1>::collect(space, owner, per_dim) && ok;
      return ok;
    }
  };

  /// node functional / dof assignment objects reused over all entities of one dimension in non-natural orders must give
  /// exactly what a fresh object per entity gives (state left behind by prepare/finish)
  template<typename Space_, typename Function_, int d_>
  struct FunctionalReuse
  {
    /// returns the number of mismatching (entity, dof) values; counts comparisons in n
    static long check(const Space_& space, const Function_& fn, long& n)
    {
      long bad = 0;
      typedef typename Space_::template NodeFunctional<d_, double>::Type NodeFunc;
      typedef typename Space_::template DofAssignment<d_, double>::Type DofAssign;
      if constexpr(int(NodeFunc::max_assigned_dofs) > 0)
      {
        constexpr int M = int(NodeFunc::max_assigned_dofs);
        const Index ne = space.get_mesh().get_num_entities(d_);
        std::vector<double> ref((size_t)ne * (size_t)M, 0.0);
        std::vector<Index> refidx((size_t)ne * (size_t)M, Index(0));
        std::vector<int> refn((size_t)ne, 0);
        for(Index e = 0; e < ne; ++e)
        {
          NodeFunc nf(space); DofAssign da(space);
          FEAT::Tiny::Vector<double, M> data;
          nf.prepare(e); nf(data, fn); nf.finish();
          da.prepare(e);
          refn[(size_t)e] = da.get_num_assigned_dofs();
          for(int j = 0; j < refn[(size_t)e]; ++j) { ref[(size_t)e * M + (size_t)j] = data[j]; refidx[(size_t)e * M + (size_t)j] = da.get_index(j); }
          da.finish();
        }
        NodeFunc nf(space); DofAssign da(space);
        // orders: reversed, natural, every entity twice in a row, middle-out
        std::vector<Index> order;
        for(Index e = ne; e > 0; --e) order.push_back(e - 1);
        for(Index e = 0; e < ne; ++e) order.push_back(e);
        for(Index e = 0; e < ne; ++e) { order.push_back(e); order.push_back(e); }
        for(Index e = 0; e < ne; ++e) order.push_back((ne / 2 + (e % 2 ? ne - (e + 1) / 2 : e / 2)) % ne);
        for(Index e : order)
        {
          FEAT::Tiny::Vector<double, M> data;
          nf.prepare(e); nf(data, fn); nf.finish();
          da.prepare(e);
          if(da.get_num_assigned_dofs() != refn[(size_t)e]) ++bad;
          for(int j = 0; j < refn[(size_t)e]; ++j)
          {
            ++n;
            if(!(data[j] == ref[(size_t)e * M + (size_t)j]) || da.get_index(j) != refidx[(size_t)e * M + (size_t)j]) ++bad;
          }
          da.finish();
        }
      }
      if constexpr(d_ > 0) bad += FunctionalReuse<Space_, Function_, d_ - 1>::check(space, fn, n);
      return bad;
    }
  };

  // ------------------------------------------------------------------------------------------------------------------
  // element descriptor helper
  // ------------------------------------------------------------------------------------------------------------------
  enum Conformity { conf_h1, conf_c1, conf_functional_only };

  struct CheckOptions
  {
    int lattice_extra = 1;     // lattice points per direction = degree + 1 + lattice_extra
    bool fd_check = true;      // difference quotient check of gradients/Hessians
    bool use_qk_base = true;   // multi-cell affine hypercube meshes: use Q_k in base coordinates (else P_k)
    bool full_dual = true;     // per-basis-function duality (1-cell meshes)
    double tol = 1e-10;        // relative tolerance for reproduction/duality/conformity
    double tol_fd = 2e-6;      // relative tolerance for the difference quotients
  };

  /// position coded coefficient vector number `which`
  inline double coded_coef(Index i, int which)
  {
    if(which == 0) return (double(1 + (i % 7u) * 3u + (i / 7u) % 11u) / 8.0) * ((i & 1u) ? -1.0 : 1.0);
    return (double(3 + ((i * 5u) % 13u) * 2u + (i / 13u) % 5u) / 16.0) * (((i / 2u) & 1u) ? -1.0 : 1.0);
  }

  /// spanning set helpers -------------------------------------------------------------------------------------------
  template<int D>
  std::vector<Poly<D>> monomials(const std::vector<std::array<int, D>>& ex)
  {
    std::vector<Poly<D>> r;
    for(auto& e : ex) r.push_back(Poly<D>::monomial(e));
    return r;
  }

  /// reference coordinates xi as polynomials of the real coordinates x for the *linearisation* of the cell map at the
  /// cell centre (for affine cells: the exact inverse)
  template<typename Shape_>
  std::array<Poly<Shape_::dimension>, Shape_::dimension> linearised_inverse(const CellGeom<Shape_>& g)
  {
    constexpr int D = Shape_::dimension;
    std::array<LD, D> ctr;
    for(int j = 0; j < D; ++j) ctr[(size_t)j] = ShapeInfo<Shape_>::is_simplex ? LD(0) : LD(0);
    // note: simplex maps are affine, so any expansion point is fine; we expand at xi=0
    std::array<LD, D> x0 = g.map(ctr);
    LD J[D][D], R[D][D];
    g.jac(ctr, J);
    CellGeom<Shape_>::invert(J, R);
    std::array<Poly<D>, D> xi;
    for(int i = 0; i < D; ++i)
    {
      Poly<D> p;
      for(int j = 0; j < D; ++j) p += (Poly<D>::var(j) - Poly<D>(x0[(size_t)j])) * R[i][j];
      xi[(size_t)i] = p;
    }
    return xi;
  }

  /// base coordinates v (before the affine geometry map) as polynomials of x, for affine geometry kinds 0..2
  template<int D>
  std::array<Poly<D>, D> base_of_x(int geo)
  {
    // recover the affine map from geo_map by probing
    std::array<double, D> o; o.fill(0.0);
    auto b = geo_map<D>(geo, o, 0);
    LD A[D][D], R[D][D];
    for(int j = 0; j < D; ++j)
    {
      std::array<double, D> e; e.fill(0.0); e[(size_t)j] = 1.0;
      auto c = geo_map<D>(geo, e, 0);
      for(int i = 0; i < D; ++i) A[i][j] = LD(c[(size_t)i]) - LD(b[(size_t)i]);
    }
    {
      std::vector<LD> M((size_t)(D * D)), I((size_t)(D * D), LD(0));
      for(int i = 0; i < D; ++i) for(int j = 0; j < D; ++j) { M[(size_t)(i * D + j)] = A[i][j]; I[(size_t)(i * D + j)] = (i == j) ? LD(1) : LD(0); }
      solve_dense(M, I, D, D);
      for(int i = 0; i < D; ++i) for(int j = 0; j < D; ++j) R[i][j] = I[(size_t)(i * D + j)];
    }
    std::array<Poly<D>, D> v;
    for(int i = 0; i < D; ++i)
    {
      Poly<D> p;
      for(int j = 0; j < D; ++j) p += (Poly<D>::var(j) - Poly<D>(LD(b[(size_t)j]))) * R[i][j];
      v[(size_t)i] = p;
    }
    return v;
  }

  struct MeshInfo
  {
    int ncells = 1;
    int geo = 0;       // geometry kind of c15_mesh.hpp
  };

  // ------------------------------------------------------------------------------------------------------------------
  // the check driver
  // ------------------------------------------------------------------------------------------------------------------
  template<typename Desc_, typename Shape_>
  struct SpaceChecker
  {
    static constexpr int D = Shape_::dimension;
    typedef ShapeInfo<Shape_> SI;
    typedef Geometry::ConformalMesh<Shape_, D, double> MeshType;
    typedef FEAT::Trafo::Standard::Mapping<MeshType> TrafoType;
    typedef typename Desc_::template Space<TrafoType> SpaceType;
    static constexpr bool has_grad = Desc_::template has_grad<Shape_>();
    static constexpr bool has_hess = Desc_::template has_hess<Shape_>();
    typedef FeEval<SpaceType, has_grad, has_hess> Fe;
    typedef CellGeom<Shape_> Geom;

    verif::Ctx& c;
    const MeshData<Shape_>& md;
    MeshInfo mi;
    CheckOptions opt;
    std::string kp; // key prefix

    SpaceChecker(verif::Ctx& c_, const MeshData<Shape_>& md_, const MeshInfo& mi_, const CheckOptions& o)
      : c(c_), md(md_), mi(mi_), opt(o)
    {
      kp = std::string(Desc_::name()) + "/" + SI::name();
    }

    static std::string pt_str(const std::array<LD, D>& p)
    {
      std::ostringstream o; o << "(";
      for(int j = 0; j < D; ++j) o << (j ? "," : "") << double(p[(size_t)j]);
      o << ")"; return o.str();
    }

    /// the functions of the spanning set that are in the local space of every cell of this mesh
    std::vector<Poly<D>> function_set(const std::vector<Geom>& geoms, bool& complete) const
    {
      std::vector<Poly<D>> fs;
      complete = false;
      const bool affine = geo_is_affine(mi.geo);
      // (a) the complete reference space transported to real coordinates
      if(mi.ncells == 1 && (affine || Desc_::linearised_local_space()))
      {
        auto xi = linearised_inverse<Shape_>(geoms[0]);
        for(auto& q : Desc_::template ref_space<Shape_>()) fs.push_back(q.template compose<D>(xi));
        complete = true;
        return fs;
      }
      // (b) tensor spaces on axis-parallel (in base coordinates) cells: Q_k in base coordinates
      int qk = Desc_::template qk<Shape_>();
      int pk = Desc_::template pk<Shape_>();
      if(affine && !SI::is_simplex && (opt.use_qk_base || mi.ncells == 1))
      {
        auto v = base_of_x<D>(mi.geo);
        if(qk >= 0) for(auto& e : exps_max_degree<D>(qk)) fs.push_back(Poly<D>::monomial(e).template compose<D>(v));
        else for(auto& e : exps_total_degree<D>(pk)) fs.push_back(Poly<D>::monomial(e).template compose<D>(v));
        complete = (qk >= 0) && Desc_::template qk_is_complete<Shape_>();
        // plus rotated quadratics etc. that the family contains on such meshes
        for(auto& q : Desc_::template extra_base_space<Shape_>()) fs.push_back(q.template compose<D>(v));
        return fs;
      }
      // (c) P_k in real coordinates
      for(auto& e : exps_total_degree<D>(pk)) fs.push_back(Poly<D>::monomial(e));
      complete = SI::is_simplex && Desc_::template pk_is_complete<Shape_>();
      return fs;
    }

    /// independent count/ownership oracle for the dof mapping: (i) the DofAssignment classes of all dimensions own every
    /// global dof exactly once and as many per entity as the harness table says; (ii) local dof j of a cell, decoded by the
    /// documented local layout (dimension ascending, local entity, dof in entity), maps to the dof owned by exactly that
    /// entity of the cell: DofMapping(cell, j) == owner(dim, index_set<D,dim>(cell, l), k)
    void check_ownership(const MeshType& mesh, const SpaceType& space)
    {
      std::map<Index, std::array<Index, 3>> owner;
      std::vector<int> per_dim((size_t)(D + 1), 0);
      const bool unique = Ownership<SpaceType, D>::collect(space, owner, per_dim);
      c.check(unique, kp + " own.unique", "a global dof is assigned to two entities (or the number of assigned dofs varies / exceeds get_max_assigned_dofs)");
      c.check(Index(owner.size()) == space.get_num_dofs() && (owner.empty() || owner.rbegin()->first + 1 == space.get_num_dofs()), kp + " own.cover",
        [&]{ return "the dof assignments own " + std::to_string(owner.size()) + " dofs, the space has " + std::to_string(space.get_num_dofs()); });
      for(int d = 0; d <= D; ++d)
        c.check(per_dim[(size_t)d] == Desc_::template dofs_per_entity<Shape_>(d) || mesh.get_num_entities(d) == 0, kp + " own.per-entity",
          [&]{ return "dimension " + std::to_string(d) + ": " + std::to_string(per_dim[(size_t)d]) + " dofs assigned per entity, table says " + std::to_string(Desc_::template dofs_per_entity<Shape_>(d)); });
      // inverse lookup (dim, entity, k) -> global
      std::map<std::array<Index, 3>, Index> inv;
      for(auto& kv : owner) inv[kv.second] = kv.first;
      typename SpaceType::DofMappingType dm(space);
      for(Index cell = 0; cell < mesh.get_num_entities(D); ++cell)
      {
        dm.prepare(cell);
        int j = 0; bool ok = true;
        for(int d = 0; d <= D && ok; ++d)
        {
          const int dpe = Desc_::template dofs_per_entity<Shape_>(d);
          const int nl = num_local_faces<Shape_>(d);
          for(int l = 0; l < nl && ok; ++l)
          {
            Index e = cell;
            if(d < D) e = entity_of_cell(mesh, cell, d, l);
            for(int k = 0; k < dpe && ok; ++k, ++j)
            {
              c.count("ownership_dofs");
              auto it = inv.find(std::array<Index, 3>{{Index(d), e, Index(k)}});
              ok = (j < dm.get_num_local_dofs()) && it != inv.end() && it->second == dm.get_index(j);
            }
          }
        }
        if(!ok || j != dm.get_num_local_dofs())
        {
          c.fail(kp + " own.local-layout", "cell " + std::to_string(cell) + ": local dof " + std::to_string(j - 1) + " does not map to the dof owned by its entity (dimension-major local layout)");
          dm.finish(); return;
        }
        dm.finish();
      }
    }

    static Index entity_of_cell(const MeshType& mesh, Index cell, int d, int l)
    {
      if(d == 0) return mesh.template get_index_set<D, 0>()(cell, l);
      if constexpr(D >= 2) { if(d == 1) return mesh.template get_index_set<D, 1>()(cell, l); }
      if constexpr(D >= 3) { if(d == 2) return mesh.template get_index_set<D, 2>()(cell, l); }
      return cell;
    }

    /// all data a prepared evaluator returns on one cell at the points pts (values, gradients, Hessians, trafo data, dofs)
    static void snapshot(Fe& fe, const std::vector<std::array<LD, D>>& pts, std::vector<double>& out)
    {
      out.clear();
      for(int j = 0; j < fe.nloc; ++j) out.push_back(double(fe.gdof[(size_t)j]));
      for(auto& xi : pts)
      {
        fe.eval(xi);
        for(int i = 0; i < D; ++i) { out.push_back(fe.td.img_point[i]); for(int j = 0; j < D; ++j) { out.push_back(fe.td.jac_mat[i][j]); out.push_back(fe.td.jac_inv[i][j]); } }
        out.push_back(fe.td.jac_det);
        for(int a = 0; a < fe.nloc; ++a)
        {
          out.push_back(fe.sd.phi[a].value);
          if constexpr(has_grad) for(int i = 0; i < D; ++i) out.push_back(fe.sd.phi[a].grad[i]);
          if constexpr(has_hess) for(int i = 0; i < D; ++i) for(int j = 0; j < D; ++j) out.push_back(fe.sd.phi[a].hess[i][j]);
        }
      }
    }

    /// one evaluator / dof-mapping object reused over the cells in non-natural orders (reversed, rotated, a cell twice in
    /// a row, every cell first / in the middle / last) must return bitwise what a fresh object returns on each cell
    void check_reuse(const SpaceType& space, Index ncells)
    {
      const auto pts = ref_lattice<Shape_>(3);
      std::vector<std::vector<double>> fresh((size_t)ncells);
      for(Index k = 0; k < ncells; ++k)
      {
        Fe fe(space);
        fe.prepare(k); snapshot(fe, pts, fresh[(size_t)k]); fe.finish();
      }
      std::vector<std::vector<Index>> orders;
      { std::vector<Index> o; for(Index k = ncells; k > 0; --k) o.push_back(k - 1); for(Index k = 0; k < ncells; ++k) o.push_back(k); orders.push_back(o); }
      { std::vector<Index> o; for(Index k = 0; k < ncells; ++k) { o.push_back(k); o.push_back(k); } orders.push_back(o); }
      if(ncells > 2)
      {
        // special cell s first, in the middle and last among the others
        const Index cap = std::min<Index>(ncells, 6);
        for(Index si = 0; si < cap; ++si)
        {
          Index sc = si * (ncells - 1) / (cap - 1);
          std::vector<Index> o; o.push_back(sc);
          for(Index k = 0; k < ncells; ++k) { if(k == ncells / 2) o.push_back(sc); if(k != sc) o.push_back(k); }
          o.push_back(sc);
          orders.push_back(o);
        }
      }
      std::vector<double> got;
      for(auto& o : orders)
      {
        Fe fe(space);
        Index prev = ~Index(0);
        for(Index k : o)
        {
          fe.prepare(k); snapshot(fe, pts, got); fe.finish();
          c.count("reuse_cell_visits");
          bool same = (got.size() == fresh[(size_t)k].size());
          for(size_t q = 0; same && q < got.size(); ++q) same = (got[q] == fresh[(size_t)k][q]);
          if(!same)
          {
            c.fail(kp + " reuse.evaluator", "evaluator object reused on cell " + std::to_string(k) + " after cell " + (prev == ~Index(0) ? std::string("-") : std::to_string(prev)) + " returns other data than a fresh evaluator");
            return;
          }
          prev = k;
        }
      }
    }

    /// node functional and dof assignment objects reused over the entities in non-natural orders
    void check_functional_reuse(const SpaceType& space)
    {
      if constexpr(Desc_::has_node_func())
      {
        Poly<D> p(LD(0.5));
        for(int i = 0; i < D; ++i) p += Poly<D>::var(i) * LD(i + 1) + Poly<D>::var(i) * Poly<D>::var((i + 1) % D) * LD(0.25) + Poly<D>::var(i) * Poly<D>::var(i) * Poly<D>::var(i) * LD(0.125);
        PolyFunction<D> pf(p);
        long n = 0;
        long bad = FunctionalReuse<SpaceType, PolyFunction<D>, D>::check(space, pf, n);
        c.count("reuse_functional_values", (uint64_t)n);
        c.check(bad == 0, kp + " reuse.node-functional", [&]{ return std::to_string(bad) + " node functional values / dof indices of a reused NodeFunctional/DofAssignment object differ from those of fresh objects"; });
      }
    }

    /// evaluation with a sub-set of the tags (gradients only, Hessians only, values only -- the FIRST and only request to
    /// a fresh evaluator) must give bitwise the data of the full configuration
    template<bool g_, bool h_>
    void check_config_subset(const SpaceType& space, Index ncells, const char* what)
    {
      typedef FeEval<SpaceType, has_grad, has_hess> Full;
      // a reduced evaluation: only the requested space tag, trafo tags as the space evaluator asks for them
      typedef typename Full::TrafoEvaluator TE;
      typedef typename Full::SpaceEvaluator SE;
      static constexpr SpaceTags stags = (g_ ? SpaceTags::grad : SpaceTags::none) | (h_ ? SpaceTags::hess : SpaceTags::none) | ((!g_ && !h_) ? SpaceTags::value : SpaceTags::none);
      static constexpr TrafoTags ttags = SE::template ConfigTraits<stags>::trafo_config;
      const auto pts = ref_lattice<Shape_>(3);
      for(Index k = 0; k < ncells; ++k)
      {
        Full full(space);
        full.prepare(k);
        TE te(space.get_trafo());
        SE se(space);
        typename TE::template ConfigTraits<ttags>::EvalDataType td;
        typename SE::template ConfigTraits<stags>::EvalDataType sd;
        te.prepare(k); se.prepare(te);
        for(auto& xi : pts)
        {
          typename TE::DomainPointType p;
          for(int j = 0; j < D; ++j) p[j] = double(xi[(size_t)j]);
          te(td, p);
          se(sd, td);
          full.eval(xi);
          c.count("config_subset_points");
          bool same = true;
          for(int a = 0; a < full.nloc && same; ++a)
          {
            if constexpr(!g_ && !h_) same = (sd.phi[a].value == full.sd.phi[a].value);
            if constexpr(g_) for(int i = 0; i < D; ++i) same = same && (sd.phi[a].grad[i] == full.sd.phi[a].grad[i]);
            if constexpr(h_) for(int i = 0; i < D; ++i) for(int j = 0; j < D; ++j) same = same && (sd.phi[a].hess[i][j] == full.sd.phi[a].hess[i][j]);
          }
          if(!same)
          {
            c.fail(kp + " config." + what, std::string("evaluation with only the '") + what + "' tag differs from the full evaluation on cell " + std::to_string(k) + " xi=" + pt_str(xi));
            se.finish(); te.finish(); full.finish();
            return;
          }
        }
        se.finish(); te.finish(); full.finish();
      }
    }

    void check_config_subsets(const SpaceType& space, Index ncells)
    {
      check_config_subset<false, false>(space, ncells, "value-only");
      if constexpr(has_grad) check_config_subset<true, false>(space, ncells, "grad-only");
      if constexpr(has_hess) check_config_subset<false, true>(space, ncells, "hess-only");
    }

    /// the mesh refined once (4-8 x more cells with orientation dependent child numberings): reuse and count checks
    void run_refined()
    {
      DataFactory<Shape_> fac(md);
      MeshType coarse(fac);
      FEAT::Geometry::StandardRefinery<MeshType> ref(coarse);
      MeshType mesh(ref);
      TrafoType trafo(mesh);
      SpaceType space(trafo);
      const Index ncells = mesh.get_num_entities(D);
      Index expect = 0;
      for(int d = 0; d <= D; ++d) expect += mesh.get_num_entities(d) * Index(Desc_::template dofs_per_entity<Shape_>(d));
      c.check(space.get_num_dofs() == expect, kp + " count.global", [&]{ return "refined mesh: get_num_dofs()=" + std::to_string(space.get_num_dofs()) + " expected " + std::to_string(expect); });
      check_reuse(space, ncells);
      check_functional_reuse(space);
      check_config_subsets(space, ncells);
      c.count("refined_cells", ncells);
    }

    void run()
    {
      DataFactory<Shape_> fac(md);
      MeshType mesh(fac);
      TrafoType trafo(mesh);
      SpaceType space(trafo);
      const Index ncells = mesh.get_num_entities(D);
      const Index ndofs = space.get_num_dofs();

      std::vector<Geom> geoms;
      for(Index k = 0; k < ncells; ++k) geoms.emplace_back(md, k);

      // ---------------------------------------------------------------- counts
      {
        Index expect = 0;
        for(int d = 0; d <= D; ++d) expect += mesh.get_num_entities(d) * Index(Desc_::template dofs_per_entity<Shape_>(d));
        c.check(ndofs == expect, kp + " count.global", [&]{ return "get_num_dofs()=" + std::to_string(ndofs) + " expected " + std::to_string(expect); });
        int nloc_expect = 0;
        for(int d = 0; d <= D; ++d) nloc_expect += num_local_faces<Shape_>(d) * Desc_::template dofs_per_entity<Shape_>(d);
        std::set<Index> all;
        std::vector<std::set<Index>> per_cell;
        Fe fe(space);
        for(Index k = 0; k < ncells; ++k)
        {
          fe.prepare(k);
          c.check(fe.nloc == nloc_expect, kp + " count.local", [&]{ return "num_local_dofs=" + std::to_string(fe.nloc) + " expected " + std::to_string(nloc_expect); });
          c.check(fe.dofmap.get_num_local_dofs() == fe.nloc, kp + " count.local-dofmap", "dof mapping and evaluator disagree on the local dof count");
          c.check(fe.dofmap.get_num_global_dofs() == ndofs, kp + " count.global-dofmap", "dof mapping and space disagree on the global dof count");
          std::set<Index> mine;
          for(int j = 0; j < fe.nloc; ++j)
          {
            c.check(fe.gdof[(size_t)j] < ndofs, kp + " count.range", "global dof index out of range");
            mine.insert(fe.gdof[(size_t)j]);
          }
          c.check(int(mine.size()) == fe.nloc, kp + " count.distinct", "two local dofs of one cell map to the same global dof");
          all.insert(mine.begin(), mine.end());
          per_cell.push_back(mine);
          fe.finish();
        }
        c.check(Index(all.size()) == ndofs, kp + " count.union", [&]{ return "cells touch " + std::to_string(all.size()) + " of " + std::to_string(ndofs) + " dofs"; });
        if(ncells == 2)
        {
          // dofs on shared entities
          std::set<Index> va(md.cells[0].begin(), md.cells[0].end()), vb(md.cells[1].begin(), md.cells[1].end());
          Index expect_shared = 0;
          for(int d = 0; d < D; ++d)
            for(Index e = 0; e < md.num_entities(d); ++e)
            {
              bool ina = true, inb = true;
              for(Index v : md.entity_vertices(d, e)) { ina = ina && va.count(v); inb = inb && vb.count(v); }
              if(ina && inb) expect_shared += Index(Desc_::template dofs_per_entity<Shape_>(d));
            }
          Index shared = 0;
          for(Index i : per_cell[0]) if(per_cell[1].count(i)) ++shared;
          c.check(shared == expect_shared, kp + " count.shared", [&]{ return "cells share " + std::to_string(shared) + " dofs, shared entities carry " + std::to_string(expect_shared); });
        }
      }

      check_ownership(mesh, space);
      Desc_::extra(*this, space, geoms);

      // ---------------------------------------------------------------- object reuse and reduced configurations
      if(ncells >= 2) check_reuse(space, ncells);
      check_functional_reuse(space);
      if(ncells == 1) check_config_subsets(space, ncells); // multi-cell: on the refined meshes (run_refined)

      const int npts = Desc_::template degree<Shape_>() + 1 + opt.lattice_extra;
      const auto lattice = ref_lattice<Shape_>(npts);

      // ---------------------------------------------------------------- derivative consistency
      if constexpr(has_grad) if(opt.fd_check)
      [&]{
        Fe fe(space);
        const LD h = LD(1) / LD(256);
        for(Index k = 0; k < ncells; ++k)
        {
          fe.prepare(k);
          const int n = fe.nloc;
          for(auto& xi : lattice)
          {
            fe.eval(xi);
            // centre data
            std::vector<double> g0((size_t)(n * D)), h0((size_t)(n * D * D), 0.0);
            double J[D][D];
            for(int i = 0; i < D; ++i) for(int j = 0; j < D; ++j) J[i][j] = fe.td.jac_mat[i][j];
            for(int a = 0; a < n; ++a) for(int i = 0; i < D; ++i) g0[(size_t)(a * D + i)] = fe.sd.phi[a].grad[i];
            if constexpr(has_hess)
              for(int a = 0; a < n; ++a) for(int i = 0; i < D; ++i) for(int j = 0; j < D; ++j) h0[(size_t)((a * D + i) * D + j)] = fe.sd.phi[a].hess[i][j];
            for(int dir = 0; dir < D; ++dir)
            {
              // 4th order central difference: (-f(+2h) + 8 f(+h) - 8 f(-h) + f(-2h)) / (12 h)
              static const int off[4] = {2, 1, -1, -2};
              static const LD wgt[4] = {-1, 8, -8, 1};
              std::vector<LD> dv((size_t)n, LD(0)), dg((size_t)(n * D), LD(0));
              std::vector<LD> sv((size_t)n, LD(0)), sg((size_t)(n * D), LD(0));
              for(int s = 0; s < 4; ++s)
              {
                auto xp = xi; xp[(size_t)dir] += LD(off[s]) * h;
                fe.eval(xp);
                for(int a = 0; a < n; ++a)
                {
                  dv[(size_t)a] += wgt[s] * LD(fe.sd.phi[a].value); sv[(size_t)a] += std::fabs(LD(fe.sd.phi[a].value));
                  if constexpr(has_hess)
                    for(int i = 0; i < D; ++i) { dg[(size_t)(a * D + i)] += wgt[s] * LD(fe.sd.phi[a].grad[i]); sg[(size_t)(a * D + i)] += std::fabs(LD(fe.sd.phi[a].grad[i])); }
                }
              }
              for(int a = 0; a < n; ++a)
              {
                LD fd = dv[(size_t)a] / (12 * h);
                LD cr = 0, sc = 0; // chain rule: d/dxi_dir phi(F(xi)) = grad . J[:,dir]
                for(int i = 0; i < D; ++i) { cr += LD(g0[(size_t)(a * D + i)]) * LD(J[i][dir]); sc += std::fabs(LD(g0[(size_t)(a * D + i)]) * LD(J[i][dir])); }
                LD tol = LD(opt.tol_fd) * (sc + std::fabs(fd) + sv[(size_t)a] + LD(1e-3));
                c.count("deriv_comparisons");
                if(!(std::fabs(fd - cr) <= tol))
                {
                  c.fail(kp + " deriv.grad", "cell " + std::to_string(k) + " dof " + std::to_string(a) + " xi=" + pt_str(xi) + " dir " + std::to_string(dir)
                    + ": difference quotient of values " + std::to_string(double(fd)) + " != grad.jac " + std::to_string(double(cr)));
                  fe.finish(); return;
                }
                if constexpr(has_hess)
                {
                  for(int i = 0; i < D; ++i)
                  {
                    LD fdg = dg[(size_t)(a * D + i)] / (12 * h);
                    LD crh = 0, sch = 0;
                    for(int l = 0; l < D; ++l) { crh += LD(h0[(size_t)((a * D + i) * D + l)]) * LD(J[l][dir]); sch += std::fabs(LD(h0[(size_t)((a * D + i) * D + l)]) * LD(J[l][dir])); }
                    LD tolh = LD(opt.tol_fd) * (sch + std::fabs(fdg) + sg[(size_t)(a * D + i)] + LD(1e-3));
                    c.count("deriv_comparisons");
                    if(!(std::fabs(fdg - crh) <= tolh))
                    {
                      c.fail(kp + " deriv.hess", "cell " + std::to_string(k) + " dof " + std::to_string(a) + " xi=" + pt_str(xi) + " dir " + std::to_string(dir) + " comp " + std::to_string(i)
                        + ": difference quotient of gradients " + std::to_string(double(fdg)) + " != hess.jac " + std::to_string(double(crh)));
                      fe.finish(); return;
                    }
                  }
                }
              }
            }
            if constexpr(has_hess)
            {
              // symmetry of the Hessian
              for(int a = 0; a < n; ++a) for(int i = 0; i < D; ++i) for(int j = 0; j < i; ++j)
              {
                double x = h0[(size_t)((a * D + i) * D + j)], y = h0[(size_t)((a * D + j) * D + i)];
                if(!(std::fabs(x - y) <= 1e-9 * (1.0 + std::fabs(x))))
                {
                  c.fail(kp + " deriv.hess-symmetry", "cell " + std::to_string(k) + " dof " + std::to_string(a) + " xi=" + pt_str(xi));
                  fe.finish(); return;
                }
              }
            }
          }
          fe.finish();
        }
      }();

      // ---------------------------------------------------------------- duality
      if constexpr(Desc_::has_node_func())
      [&]{
        Fe fe(space);
        for(Index k = 0; k < ncells; ++k)
        {
          fe.prepare(k);
          const int n = fe.nloc;
          std::vector<double> coef((size_t)n, 0.0);
          typedef CellFeFunction<Fe, Geom> CellFn;
          const bool full = (ncells == 1) && opt.full_dual;
          const int nvec = full ? n : 2;
          for(int iv = 0; iv < nvec; ++iv)
          {
            for(int j = 0; j < n; ++j) coef[(size_t)j] = full ? (j == iv ? 1.0 : 0.0) : coded_coef(fe.gdof[(size_t)j], iv);
            CellFn fn(fe, geoms[k], coef);
            std::vector<std::pair<Index, double>> out;
            CellDual<SpaceType, CellFn, D>::apply(space, fn, k, out);
            c.count("dual_functionals", out.size());
            if(fn.unmap_failed) { c.fail(kp + " dual.unmap", "harness inverse map failed (machinery)"); fe.finish(); return; }
            c.check(int(out.size()) == n, kp + " dual.count", [&]{ return "entities of the cell carry " + std::to_string(out.size()) + " functionals, cell has " + std::to_string(n) + " local dofs"; });
            for(auto& pr : out)
            {
              // expected: coefficient of the local dof that maps to this global index
              double expect = 0.0; bool found = false; double scale = 1.0;
              for(int j = 0; j < n; ++j) { scale += std::fabs(coef[(size_t)j]); if(fe.gdof[(size_t)j] == pr.first) { expect = coef[(size_t)j]; found = true; } }
              if(!found)
              {
                c.fail(kp + " dual.index", "cell " + std::to_string(k) + ": functional with global index " + std::to_string(pr.first) + " sits on an entity of the cell but is not in its dof mapping");
                fe.finish(); return;
              }
              if(!(std::fabs(pr.second - expect) <= opt.tol * 10.0 * scale))
              {
                c.fail(kp + " dual.delta", "cell " + std::to_string(k) + (full ? " basis function " + std::to_string(iv) : " coded vector " + std::to_string(iv))
                  + ": node functional of global dof " + std::to_string(pr.first) + " gives " + std::to_string(pr.second) + ", coefficient is " + std::to_string(expect));
                fe.finish(); return;
              }
            }
          }
          fe.finish();
        }
      }();

      // ---------------------------------------------------------------- reproduction
      if constexpr(Desc_::has_node_func())
      [&]{
        bool complete = false;
        auto fs = function_set(geoms, complete);
        c.count(complete ? "repro_complete_sets" : "repro_partial_sets");
        Fe fe(space);
        for(size_t fi = 0; fi < fs.size(); ++fi)
        {
          PolyFunction<D> pf(fs[fi]);
          FEAT::LAFEM::DenseVector<double, Index> vec;
          FEAT::Assembly::Interpolator::project(vec, pf, space);
          c.count("repro_functions");
          if(!c.check(vec.size() == ndofs, kp + " repro.size", "interpolation vector has the wrong size")) return;
          for(Index k = 0; k < ncells; ++k)
          {
            fe.prepare(k);
            for(auto& xi : lattice)
            {
              fe.eval(xi);
              std::array<LD, D> x = geoms[k].map(xi);
              LD v = 0, sv = 0;
              for(int j = 0; j < fe.nloc; ++j) { LD t = LD(vec(fe.gdof[(size_t)j])) * LD(fe.sd.phi[j].value); v += t; sv += std::fabs(t); }
              LD ex = pf.p.eval(x);
              c.count("repro_points");
              if(!(std::fabs(v - ex) <= LD(opt.tol) * (sv + std::fabs(ex) + pf.p.eval_abs(x) + 1)))
              {
                c.fail(kp + " repro.value", "function #" + std::to_string(fi) + " [" + fs[fi].str() + "] cell " + std::to_string(k) + " xi=" + pt_str(xi)
                  + ": interpolant " + std::to_string(double(v)) + " != " + std::to_string(double(ex)));
                fe.finish(); return;
              }
              if constexpr(has_grad)
              {
                for(int i = 0; i < D; ++i)
                {
                  LD g = 0, sg = 0;
                  for(int j = 0; j < fe.nloc; ++j) { LD t = LD(vec(fe.gdof[(size_t)j])) * LD(fe.sd.phi[j].grad[i]); g += t; sg += std::fabs(t); }
                  LD eg = pf.g[(size_t)i].eval(x);
                  if(!(std::fabs(g - eg) <= LD(opt.tol) * 10 * (sg + std::fabs(eg) + pf.g[(size_t)i].eval_abs(x) + 1)))
                  {
                    c.fail(kp + " repro.grad", "function #" + std::to_string(fi) + " [" + fs[fi].str() + "] cell " + std::to_string(k) + " xi=" + pt_str(xi) + " comp " + std::to_string(i)
                      + ": gradient of interpolant " + std::to_string(double(g)) + " != " + std::to_string(double(eg)));
                    fe.finish(); return;
                  }
                }
              }
              if constexpr(has_hess)
              {
                for(int i = 0; i < D; ++i) for(int l = 0; l < D; ++l)
                {
                  LD hh = 0, sh = 0;
                  for(int j = 0; j < fe.nloc; ++j) { LD t = LD(vec(fe.gdof[(size_t)j])) * LD(fe.sd.phi[j].hess[i][l]); hh += t; sh += std::fabs(t); }
                  LD eh = pf.h[(size_t)i][(size_t)l].eval(x);
                  if(!(std::fabs(hh - eh) <= LD(opt.tol) * 100 * (sh + std::fabs(eh) + pf.h[(size_t)i][(size_t)l].eval_abs(x) + 1)))
                  {
                    c.fail(kp + " repro.hess", "function #" + std::to_string(fi) + " [" + fs[fi].str() + "] cell " + std::to_string(k) + " xi=" + pt_str(xi) + " comp " + std::to_string(i) + std::to_string(l)
                      + ": hessian of interpolant " + std::to_string(double(hh)) + " != " + std::to_string(double(eh)));
                    fe.finish(); return;
                  }
                }
              }
            }
            fe.finish();
          }
        }
      }();

      // ---------------------------------------------------------------- conformity across the shared facet
      if(ncells >= 2 && Desc_::conformity() != conf_functional_only)
      [&]{
        Fe fa(space), fb(space);
        for(int iv = 0; iv < 2; ++iv)
        {
          long shared_pts = 0;
          for(Index ka = 0; ka < ncells; ++ka) for(Index kb = 0; kb < ncells; ++kb)
          {
            if(ka == kb) continue;
            fa.prepare(ka); fb.prepare(kb);
            for(auto& xi : lattice)
            {
              std::array<LD, D> x = geoms[ka].map(xi), eta;
              if(!geoms[kb].unmap(x, eta)) continue;
              if(!geoms[kb].on_ref(eta, LD(1e-12))) continue;
              ++shared_pts;
              fa.eval(xi); fb.eval(eta);
              LD va = 0, vb = 0, sc = 1;
              for(int j = 0; j < fa.nloc; ++j) { LD t = LD(coded_coef(fa.gdof[(size_t)j], iv)) * LD(fa.sd.phi[j].value); va += t; sc += std::fabs(t); }
              for(int j = 0; j < fb.nloc; ++j) { LD t = LD(coded_coef(fb.gdof[(size_t)j], iv)) * LD(fb.sd.phi[j].value); vb += t; sc += std::fabs(t); }
              c.count("conf_points");
              if(!(std::fabs(va - vb) <= LD(opt.tol) * sc))
              {
                c.fail(kp + " conf.value", "cells " + std::to_string(ka) + "/" + std::to_string(kb) + " x=" + pt_str(x) + ": " + std::to_string(double(va)) + " vs " + std::to_string(double(vb)));
                fa.finish(); fb.finish(); return;
              }
              if constexpr(has_grad)
              {
                if(Desc_::conformity() == conf_c1)
                {
                  for(int i = 0; i < D; ++i)
                  {
                    LD ga = 0, gb = 0, sg = 1;
                    for(int j = 0; j < fa.nloc; ++j) { LD t = LD(coded_coef(fa.gdof[(size_t)j], iv)) * LD(fa.sd.phi[j].grad[i]); ga += t; sg += std::fabs(t); }
                    for(int j = 0; j < fb.nloc; ++j) { LD t = LD(coded_coef(fb.gdof[(size_t)j], iv)) * LD(fb.sd.phi[j].grad[i]); gb += t; sg += std::fabs(t); }
                    if(!(std::fabs(ga - gb) <= LD(opt.tol) * 10 * sg))
                    {
                      c.fail(kp + " conf.grad", "cells " + std::to_string(ka) + "/" + std::to_string(kb) + " x=" + pt_str(x) + " comp " + std::to_string(i) + ": " + std::to_string(double(ga)) + " vs " + std::to_string(double(gb)));
                      fa.finish(); fb.finish(); return;
                    }
                  }
                }
              }
            }
            fa.finish(); fb.finish();
          }
          // the shared facet carries at least the lattice points of a (D-1)-cell
          long min_pts = 1;
          if(D >= 2) min_pts = SI::is_simplex ? npts : npts;
          c.check(shared_pts >= 2 * min_pts, kp + " conf.vacuous", [&]{ return "only " + std::to_string(shared_pts) + " lattice points found on the shared facet"; });
        }
      }();
    }
  };

  template<typename Desc_, typename Shape_>
  void run_space_checks(verif::Ctx& c, const MeshData<Shape_>& md, const MeshInfo& mi, const CheckOptions& opt)
  {
    SpaceChecker<Desc_, Shape_> chk(c, md, mi, opt);
    chk.run();
  }

  // ------------------------------------------------------------------------------------------------------------------
  // enumeration of the tiny meshes of one shape for one element family
  // ------------------------------------------------------------------------------------------------------------------
  /// pairs (gA,gB) of local numberings for the 2-cell meshes: kind 0 = "star" pairs (g,0),(0,g); 1 = "diagonal"
  /// pairs (g,g),(g,7g+3); 2 = all pairs
  template<typename Shape_>
  std::vector<std::pair<int, int>> sym_pairs(int kind)
  {
    int n = ShapeInfo<Shape_>::num_sym();
    std::vector<std::pair<int, int>> r;
    if(kind == 2) { for(int a = 0; a < n; ++a) for(int b = 0; b < n; ++b) r.emplace_back(a, b); return r; }
    if(kind == 0)
    {
      for(int a = 0; a < n; ++a) r.emplace_back(a, 0);
      for(int b = 1; b < n; ++b) r.emplace_back(0, b);
      return r;
    }
    for(int a = 1; a < n; ++a) r.emplace_back(a, a);
    for(int a = 1; a < n; ++a) r.emplace_back(a, (a * 7 + 3) % n);
    return r;
  }

  template<typename Desc_, typename Shape_>
  void one_case(verif::Ctx& c, bool two, int gA, int gB, int geo, const Twist& tw, const CheckOptions& opt)
  {
    typedef ShapeInfo<Shape_> SI;
    const std::string fam = std::string(Desc_::name()) + "/" + SI::name();
    c.desc([&]{ return fam + " " + (two ? make_two_cell<Shape_>(gA, gB, geo, tw).desc : make_one_cell<Shape_>(gA, geo, tw).desc); });
    MeshData<Shape_> md = two ? make_two_cell<Shape_>(gA, gB, geo, tw) : make_one_cell<Shape_>(gA, geo, tw);
    MeshInfo mi; mi.ncells = two ? 2 : 1; mi.geo = geo;
    run_space_checks<Desc_, Shape_>(c, md, mi, opt);
    if(two || geo != 0 || gA != 0 || tw.edge_mode || tw.face_mode) c.nontrivial(verif::Hash().str(fam).pod(md.hash()).get());
    c.outcome(fam);
    c.count(two ? "cases_2cell" : "cases_1cell");
  }

  template<typename Desc_, typename Shape_>
  void refined_case(verif::Ctx& c, int gA, int gB, int geo, const Twist& tw, const CheckOptions& opt)
  {
    typedef ShapeInfo<Shape_> SI;
    const std::string fam = std::string(Desc_::name()) + "/" + SI::name();
    c.desc([&]{ return fam + " refined once: " + make_two_cell<Shape_>(gA, gB, geo, tw).desc; });
    MeshData<Shape_> md = make_two_cell<Shape_>(gA, gB, geo, tw);
    MeshInfo mi; mi.ncells = 2; mi.geo = geo;
    SpaceChecker<Desc_, Shape_> chk(c, md, mi, opt);
    chk.run_refined();
    c.nontrivial(verif::Hash().str(fam).str("refined").pod(md.hash()).get());
    c.outcome(fam);
    c.count("cases_refined");
  }

  /// enumerates all cases of one (family, shape)
  template<typename Desc_, typename Shape_>
  void enumerate_family(verif::Ctx& c, const CheckOptions& opt_in)
  {
    typedef ShapeInfo<Shape_> SI;
    constexpr int D = SI::D;
    const bool small = (D <= 2);
    const bool simplex = SI::is_simplex;
    int ne1 = 0, nf1 = 0, ne2 = 0, nf2 = 0;
    if constexpr(D == 2) { ne1 = num_local_faces<Shape_>(1); ne2 = 2 * ne1 - 1; }
    if constexpr(D == 3)
    {
      ne1 = num_local_faces<Shape_>(1); nf1 = num_local_faces<Shape_>(2);
      ne2 = 2 * ne1 - (SI::is_simplex ? 3 : 4); nf2 = 2 * nf1 - 1;
    }
    const int nsym = SI::num_sym();

    // ---- 1-cell meshes: geometry x local numbering x twist (full checks incl. difference quotients)
    {
      CheckOptions opt = opt_in;
      const bool full = c.thorough || small;
      std::vector<int> geos = simplex ? (full ? std::vector<int>{0, 1, 2} : std::vector<int>{0, 1})
                                      : (full ? std::vector<int>{0, 1, 2, 3, 4} : std::vector<int>{0, 1, 3});
      for(int geo : geos)
        for(int g = 0; g < nsym; ++g)
        {
          if(Desc_::affine_only() && !geo_is_affine(geo)) continue; // documented precondition of the family
          if(!c.thorough && !small && g != 0 && g != nsym - 1) continue;
          int level = (small || g == nsym - 1) ? 1 : 0;
          if(g == 0 && (c.thorough || small || geo == geos.back())) level = 2;
          for(const Twist& tw : twist_list(D, simplex, ne1, nf1, level))
          {
            if(!c.want()) continue;
            one_case<Desc_, Shape_>(c, false, g, 0, geo, tw, opt);
          }
        }
    }

    // ---- 2-cell meshes refined once: evaluator / node functional objects reused over 4..16 cells in scrambled orders
    if constexpr(D >= 2)
    {
      const int gl = (simplex || Desc_::affine_only()) ? 1 : 3;
      std::vector<std::pair<int, int>> prs = {{0, 0}, {1, nsym - 1}, {nsym / 2, 2}};
      if(c.thorough) for(int g = 3; g < nsym; g += (D == 3 ? 9 : 2)) prs.emplace_back(g, (5 * g + 1) % nsym);
      for(auto& pr : prs)
        for(int t = 0; t < 2; ++t)
        {
          if(!c.want()) continue;
          Twist tw; if(t) { tw.edge_mode = 1; if(D == 3) { tw.face_mode = 1; tw.face_code = simplex ? 4 : 6; } }
          refined_case<Desc_, Shape_>(c, pr.first, pr.second, gl, tw, opt_in);
        }
    }

    // ---- 2-cell meshes
    {
      CheckOptions opt = opt_in;
      opt.fd_check = false;               // difference quotients are covered on the 1-cell meshes
      if(!c.thorough && !small) { opt.lattice_extra = 0; opt.use_qk_base = false; }
      const bool full = c.thorough || small;
      std::vector<int> geos = simplex ? (full ? std::vector<int>{0, 1, 2} : std::vector<int>{1})
                                      : (small ? std::vector<int>{0, 1, 3, 4} : std::vector<int>{1, 3});
      if(Desc_::affine_only())
      {
        std::vector<int> ag;
        for(int geo : geos) if(geo_is_affine(geo)) ag.push_back(geo);
        if(ag.size() < 2) ag.push_back(2);
        geos = ag;
      }
      if(small)
      {
        // all pairs of numberings x single-entity twists
        for(int geo : geos)
          for(auto& pr : sym_pairs<Shape_>(2))
            for(const Twist& tw : twist_list(D, simplex, ne2, nf2, 2))
            {
              if(!c.want()) continue;
              one_case<Desc_, Shape_>(c, true, pr.first, pr.second, geo, tw, opt);
            }
      }
      else
      {
        for(int geo : geos)
        {
          // star pairs with every global orientation pattern
          for(auto& pr : sym_pairs<Shape_>(0))
            for(const Twist& tw : twist_list(D, simplex, ne2, nf2, 1))
            {
              if(!c.want()) continue;
              one_case<Desc_, Shape_>(c, true, pr.first, pr.second, geo, tw, opt);
            }
          // diagonal pairs (quick) / all pairs (thorough) with entity orientations as seen from cell A
          for(auto& pr : sym_pairs<Shape_>(c.thorough ? 2 : 1))
          {
            if(c.thorough && (pr.first == 0 || pr.second == 0)) continue; // already in the star
            if(!c.want()) continue;
            one_case<Desc_, Shape_>(c, true, pr.first, pr.second, geo, Twist(), opt);
          }
        }
      }
    }
  }
} // namespace c15
