// C08, block preconditioners: AmaVanka, Vanka, UzawaPrecond, SchwarzPrecond against independent dense (long double)
// oracles + the life-cycle BFS {init_symbolic, init_numeric (also re-run WITHOUT done_numeric), apply, in-place value update
// (diagonal only / everything), done_numeric, done_symbolic} judged against the oracle on the CURRENT matrix values.
//
// Defining operators used as oracles (stated from the class documentation and, where that is silent, from the code):
//  * AmaVanka (amavanka.hpp): with macros m (dof sets), K_m = K[m,m] the local matrix,
//        V = diag(s) * sum_{m regular} P_m^T K_m^-1 P_m,   s_i = omega / #{regular macros containing dof i},
//        a dof whose macros are all skipped gets the unit row; without skip_singular every macro is 'regular'.
//        apply: x = F_cor(V b); for steps 2..num_steps: x += F_cor(V F_def(b - K x)).
//        Automatic macros (SaddlePointMatrix of BCSR blocks): pressure macro of an unprocessed pressure dof i = the
//        pressure dofs j with the maximal number of (D_i,v , B_v,j) pattern paths; velocity macro = columns of D in
//        the rows of the pressure macro.
//  * Vanka (vanka.hpp class doc): blocks = single pressure dofs (nodal) or the pressure macros above (block), velocity
//        dofs of a block = columns of D in its pressure rows; local solve with the dense local matrix [A B; D 0]
//        (full) or [diag(A) B; D 0] (diag = Schur complement approach); multiplicative: blocks in order, each uses the
//        current iterate, x_loc += omega * K_loc^-1 r_loc; additive: all blocks on the same defect, the summed
//        corrections are divided by the number of blocks a dof belongs to; the correction filter after every iteration.
//  * UzawaPrecond (class doc): diagonal / lower / upper / full block systems with the sub-solvers A^-1 and S^-1.
//  * SchwarzPrecond on one process: local solver, sync (identity), correction filter.
#pragma once
#include <verif.hpp>
#include <c08_common.hpp>
#include <kernel/runtime.hpp>
#include <kernel/adjacency/graph.hpp>
#include <kernel/lafem/dense_vector.hpp>
#include <kernel/lafem/dense_vector_blocked.hpp>
#include <kernel/lafem/sparse_matrix_csr.hpp>
#include <kernel/lafem/sparse_matrix_bcsr.hpp>
#include <kernel/lafem/saddle_point_matrix.hpp>
#include <kernel/lafem/tuple_vector.hpp>
#include <kernel/lafem/tuple_filter.hpp>
#include <kernel/lafem/none_filter.hpp>
#include <kernel/lafem/unit_filter.hpp>
#include <kernel/lafem/unit_filter_blocked.hpp>
#include <kernel/solver/base.hpp>

#include <cstring>
#include <functional>
#include <limits>
#include <map>
#include <memory>
#include <set>
#include <unordered_set>

namespace c08b
{
  using namespace FEAT;
  using namespace c08;
  using Solver::Status;

  inline int& chk_seen(const std::string& key) { static std::map<std::string, int> seen; return seen[key]; }
  inline int chk_limit(int dflt) { static int lim = -1; if(lim < 0) { const char* e = std::getenv("VERIF_KEY_REPEAT"); lim = e ? atoi(e) : dflt; } return lim; }
  template<typename F>
  inline bool chk(verif::Ctx& c, bool cond, const std::string& key, F&& msgf)
  {
    if(cond) return true;
    if(c.replaying || ++chk_seen(key) <= chk_limit(3)) c.fail(key, msgf());
    else c.count("suppressed_repeats:" + key);
    return false;
  }

  // ------------------------------------------------------------------------------------------ dense systems
  /// a dense N x N system K (4 data versions v = 2*dver + over: version of the A-diagonal / of everything else)
  struct Dense
  {
    int N = 0;
    std::vector<LD> k[4];
    LD at(int v, int i, int j) const { return k[v][size_t(i) * N + j]; }
  };

  inline bool sub_inverse(const Dense& K, int v, const std::vector<int>& dofs, std::vector<LD>& inv, bool diag_a_only = false, int nv = 0)
  {
    const int m = int(dofs.size());
    std::vector<LD> loc(size_t(m) * m);
    for(int i = 0; i < m; ++i) for(int j = 0; j < m; ++j)
    {
      LD x = K.at(v, dofs[i], dofs[j]);
      if(diag_a_only && dofs[i] < nv && dofs[j] < nv && i != j) x = 0.0L; // velocity-velocity block replaced by its diagonal
      loc[size_t(i) * m + j] = x;
    }
    if(!dense_inverse(m, loc, inv)) return false;
    LD mx = 0; for(auto q : inv) mx = std::max(mx, fabsl(q));
    return mx < 1e5L; // nearly singular local systems make the comparison meaningless: excluded by the callers
  }

  inline std::string vec_str(const LVec& d)
  {
    std::string s = "[";
    for(size_t i = 0; i < d.size(); ++i) { char b[40]; snprintf(b, sizeof b, "%s%.6Lg", i ? "," : "", d[i]); s += b; }
    return s + "]";
  }

  inline bool close(const std::vector<double>& got, const LVec& ref, LD rel, std::string& why)
  {
    LD scale = 1.0L;
    for(auto x : ref) scale = std::max(scale, fabsl(x));
    for(size_t i = 0; i < ref.size(); ++i)
      if(!(std::isfinite(got[i]) && fabsl(LD(got[i]) - ref[i]) <= rel * scale))
      { char b[200]; snprintf(b, sizeof b, "entry %zu: got %.15g expected %.15Lg", i, got[i], ref[i]); why = b; return false; }
    return true;
  }

  // ------------------------------------------------------------------------------------------ the live object under test
  struct Live
  {
    std::function<void()> init_symbolic, init_numeric, done_numeric, done_symbolic;
    std::function<void(int)> update;                                  // in-place value update to data version v
    std::function<std::vector<double>(const LVec&, double, Status&, bool&)> apply; // (input, output prefill) -> output, status, input unchanged
    std::function<void(verif::Hash&)> hash_state;                     // matrix values (+ numeric arrays where accessible)
    std::shared_ptr<void> keep;
  };
  typedef std::function<Live()> Factory;
  typedef std::function<bool(int, const LVec&, LVec&)> OracleFn;       // (version, input) -> output; false: local system singular

  enum LOp { L_INIT_SYM = 0, L_INIT_NUM, L_APPLY, L_UPDATE_DIAG, L_UPDATE_ALL, L_DONE_NUM, L_DONE_SYM, L_COUNT };
  const char* const LNAME[] = {"init_symbolic", "init_numeric", "apply", "update_diagonal_values", "update_all_values", "done_numeric", "done_symbolic"};
  inline std::string hist_str(const std::vector<uint8_t>& h) { std::string s; for(auto o : h) { if(!s.empty()) s += ' '; s += LNAME[o]; } return s; }

  /// operator checks on a freshly initialised object + life-cycle BFS
  inline void run_subject(verif::Ctx& c, int N, const std::string& kname, const std::string& where, const Factory& make, const OracleFn& oracle,
    bool lifecycle, int lc_depth, LD rel = 1e-10L)
  {
    std::vector<LVec> inputs;
    for(int i = 0; i < N; ++i) { LVec e(N, 0.0L); e[i] = 1.0L; inputs.push_back(e); }
    { LVec d(N); for(int i = 0; i < N; ++i) d[i] = ((i & 1) ? -1.0L : 1.0L) * LD(3 + 2 * i) / 4.0L; inputs.push_back(d); }
    // usable at all?
    for(int v = 0; v < 4; ++v) { LVec t; if(!oracle(v, inputs.back(), t)) { c.excluded("reference local system singular or nearly singular"); return; } }
    const double NaN = std::numeric_limits<double>::quiet_NaN();
    {
      Live o = make();
      o.init_symbolic(); o.init_numeric();
      std::vector<std::vector<double>> outs;
      for(size_t k = 0; k < inputs.size(); ++k)
      {
        Status st; bool unch; std::string why;
        std::vector<double> out = o.apply(inputs[k], NaN, st, unch);
        LVec ref; oracle(0, inputs[k], ref);
        chk(c, st == Status::success, "block.status " + kname, [&]{ return where + " apply did not return success"; });
        chk(c, unch, "block.input-modified " + kname, [&]{ return where + " input " + vec_str(inputs[k]) + " was modified by apply"; });
        chk(c, close(out, ref, rel, why), "block.operator " + kname, [&]{ return where + " d=" + vec_str(inputs[k]) + ": " + why; });
        Status st2; bool u2;
        std::vector<double> out2 = o.apply(inputs[k], 1.0, st2, u2);
        chk(c, std::memcmp(out.data(), out2.data(), sizeof(double) * size_t(N)) == 0, "block.output-prefill-dependence " + kname,
          [&]{ return where + " d=" + vec_str(inputs[k]) + ": result depends on the previous content of the output vector"; });
        outs.push_back(out);
        c.count("applies_checked");
      }
      {
        const LVec& x = inputs.back(); const LVec& y = inputs.front();
        LVec z(N); for(int i = 0; i < N; ++i) z[i] = 2.0L * x[i] - 0.5L * y[i];
        Status st; bool unch; std::string why;
        std::vector<double> out = o.apply(z, NaN, st, unch);
        LVec comb(N); for(int i = 0; i < N; ++i) comb[i] = 2.0L * LD(outs.back()[i]) - 0.5L * LD(outs.front()[i]);
        chk(c, close(out, comb, rel * 4, why), "block.linearity " + kname, [&]{ return where + ": P(2x-y/2) != 2Px-Py/2: " + why; });
      }
      o.done_numeric(); o.done_symbolic();
    }
    if(!lifecycle) return;

    const LVec& probe = inputs.back();
    LVec refs[4]; for(int v = 0; v < 4; ++v) oracle(v, probe, refs[v]);
    struct Key { uint64_t a, b; bool operator==(const Key& o) const { return a == o.a && b == o.b; } };
    struct KeyHash { size_t operator()(const Key& k) const { return size_t(k.a ^ (k.b * 0x9e3779b97f4a7c15ull)); } };
    // model bits in the key: 'apply since init_symbolic / init_numeric' and the (capped) number of init_numeric calls since the last
    // done_numeric / init_symbolic - for correct code neither leaves a trace in the object, a defective one may cache or accumulate there
    struct Model { int phase = 0, mver = 0, nver = -1, app_sym = 0, app_num = 0, ninit = 0; };
    auto legal = [](const Model& m, int op)
    {
      switch(op)
      {
      case L_INIT_SYM: return m.phase == 0;
      case L_INIT_NUM: return m.phase >= 1;
      case L_APPLY: return m.phase == 2;
      case L_UPDATE_DIAG: case L_UPDATE_ALL: return true;
      case L_DONE_NUM: return m.phase == 2;
      case L_DONE_SYM: return m.phase == 1;
      }
      return false;
    };
    auto replay = [&](const std::vector<uint8_t>& hist, Model& m) -> Key
    {
      Live o = make();
      m = Model();
      for(size_t i = 0; i < hist.size(); ++i)
      {
        const bool last = (i + 1 == hist.size());
        switch(hist[i])
        {
        case L_INIT_SYM: o.init_symbolic(); m.phase = 1; m.app_sym = 0; m.app_num = 0; m.ninit = 0; break;
        case L_INIT_NUM: o.init_numeric(); m.phase = 2; m.nver = m.mver; m.app_num = 0; m.ninit = std::min(m.ninit + 1, 2); break;
        case L_UPDATE_DIAG: m.mver ^= 2; o.update(m.mver); break;
        case L_UPDATE_ALL: m.mver ^= 3; o.update(m.mver); break;
        case L_DONE_NUM: o.done_numeric(); m.phase = 1; m.nver = -1; m.ninit = 0; break;
        case L_DONE_SYM: o.done_symbolic(); m.phase = 0; break;
        case L_APPLY:
          {
            Status st; bool unch;
            std::vector<double> out = o.apply(probe, NaN, st, unch);
            m.app_sym = 1; m.app_num = 1;
            if(m.nver == m.mver)
            {
              if(last)
              {
                std::string why;
                chk(c, close(out, refs[m.mver], rel, why), "block.lifecycle-apply " + kname,
                  [&]{ return where + " history: " + hist_str(hist) + ": apply does not reflect the current matrix values (version " + std::to_string(m.mver) + "): " + why; });
                chk(c, unch && st == Status::success, "block.lifecycle-status " + kname, [&]{ return where + " history: " + hist_str(hist); });
              }
            }
            else if(last) c.count("stale_applies_executed_unchecked");
          }
          break;
        }
        c.count("transitions");
      }
      verif::Hash h1, h2;
      h1.pod(m.phase).pod(m.mver).pod(m.nver).pod(m.app_sym).pod(m.app_num).pod(m.ninit);
      h2.pod(m.ninit).pod(m.app_num).pod(m.app_sym).pod(m.nver).pod(m.mver).pod(m.phase).str("x");
      if(o.hash_state) { o.hash_state(h1); o.hash_state(h2); }
      if(m.phase == 2) o.done_numeric();
      if(m.phase >= 1) o.done_symbolic();
      return Key{h1.get(), h2.get()};
    };
    std::unordered_set<Key, KeyHash> seen;
    std::vector<std::vector<uint8_t>> frontier, next;
    std::vector<Model> fm, nm;
    { std::vector<uint8_t> h0; Model m; Key k = replay(h0, m); seen.insert(k); frontier.push_back(h0); fm.push_back(m); c.count("states"); }
    for(int d = 1; d <= lc_depth && !frontier.empty(); ++d)
    {
      next.clear(); nm.clear();
      for(size_t fi = 0; fi < frontier.size(); ++fi)
        for(int op = 0; op < L_COUNT; ++op)
        {
          if(!legal(fm[fi], op)) { c.count("illegal_ops_not_generated"); continue; }
          std::vector<uint8_t> h2(frontier[fi]); h2.push_back(uint8_t(op));
          Model m; Key k = replay(h2, m);
          c.count("traces_validated_against_impl");
          if(seen.insert(k).second) { next.push_back(h2); nm.push_back(m); c.count("states"); }
        }
      frontier.swap(next); fm.swap(nm);
      c.maxi("depth", uint64_t(d));
      c.heartbeat();
    }
    if(frontier.empty()) c.count("lifecycle_fixpoints_reached"); else c.count("lifecycle_cut_at_depth_bound");
  }

  // ------------------------------------------------------------------------------------------ saddle point layouts
  /// an 'element' couples the velocity (block) dofs V with the pressure dofs P
  struct Element { std::vector<int> V, P; };
  struct Layout { const char* name; int nvb, np; std::vector<Element> el; };

  inline std::vector<Layout> layouts()
  {
    return {
      {"1 element: v{0,1} p{0}", 2, 1, {{{0, 1}, {0}}}},
      {"2 elements sharing v1: v{0,1}p{0} v{1,2}p{1}", 3, 2, {{{0, 1}, {0}}, {{1, 2}, {1}}}},
      {"2 elements: v{0,1,2}p{0} v{2,3}p{1}", 4, 2, {{{0, 1, 2}, {0}}, {{2, 3}, {1}}}},
      {"3 elements: v{0,1}p{0} v{1,2,3}p{1} v{3,4}p{2}", 5, 3, {{{0, 1}, {0}}, {{1, 2, 3}, {1}}, {{3, 4}, {2}}}},
      {"P1disc-like: v{0,1,2,3}p{0,1} v{2,3,4,5}p{2}", 6, 3, {{{0, 1, 2, 3}, {0, 1}}, {{2, 3, 4, 5}, {2}}}},
      {"1 element, all velocities: v{0,1,2,3}p{0}", 4, 1, {{{0, 1, 2, 3}, {0}}}},
      {"scrambled: v{3,4}p{2} v{0,4}p{0} v{1,2,3}p{1}", 5, 3, {{{3, 4}, {2}}, {{0, 4}, {0}}, {{1, 2, 3}, {1}}}},
    };
  }

  /// dense saddle point system  K = [A B; D 0]  with velocity block size dim
  struct Saddle
  {
    int dim = 1, nvb = 0, np = 0, nv = 0, N = 0;
    std::vector<char> pa, pb, pd;   // block patterns: A nvb x nvb, B nvb x np, D np x nvb
    Dense K;
    bool a(int i, int j) const { return pa[size_t(i) * nvb + j] != 0; }
    bool b(int i, int j) const { return pb[size_t(i) * np + j] != 0; }
    bool d(int i, int j) const { return pd[size_t(i) * nvb + j] != 0; }

    void build(const Layout& L, int dim_, int avar)
    {
      dim = dim_; nvb = L.nvb; np = L.np; nv = dim * nvb; N = nv + np;
      pa.assign(size_t(nvb) * nvb, 0); pb.assign(size_t(nvb) * np, 0); pd.assign(size_t(np) * nvb, 0);
      for(int i = 0; i < nvb; ++i) for(int j = 0; j < nvb; ++j) if(std::abs(i - j) <= 1) pa[size_t(i) * nvb + j] = 1;
      for(const auto& e : L.el)
      {
        for(int v : e.V) for(int w : e.V) pa[size_t(v) * nvb + w] = 1;
        for(int v : e.V) for(int p : e.P) { pb[size_t(v) * np + p] = 1; pd[size_t(p) * nvb + v] = 1; }
      }
      K.N = N;
      for(int ver = 0; ver < 4; ++ver)
      {
        const int dver = ver / 2, over = ver % 2;
        std::vector<LD>& k = K.k[ver]; k.assign(size_t(N) * N, 0.0L);
        for(int bi = 0; bi < nvb; ++bi) for(int bj = 0; bj < nvb; ++bj)
        {
          if(!a(bi, bj)) continue;
          for(int r = 0; r < dim; ++r) for(int s = 0; s < dim; ++s)
          {
            const int I = bi * dim + r, J = bj * dim + s;
            LD x;
            if(I == J) x = LD(4 + (I + dver + avar) % 3) * ((avar == 2) ? -1.0L : 1.0L);
            else x = (((I + J + over) & 1) ? -1.0L : 1.0L) * LD(1 + (I + 3 * J + 5 * over) % 8) / 8.0L;
            k[size_t(I) * N + J] = x;
          }
        }
        for(int bi = 0; bi < nvb; ++bi) for(int p = 0; p < np; ++p)
        {
          if(!b(bi, p)) continue;
          for(int r = 0; r < dim; ++r)
          {
            const int I = bi * dim + r;
            k[size_t(I) * N + nv + p] = (((I + p + over) & 1) ? -1.0L : 1.0L) * LD(1 + (2 * I + p + over) % 5) / 4.0L;           // B
            k[size_t(nv + p) * N + I] = (((I + 2 * p + over) & 1) ? 1.0L : -1.0L) * LD(1 + (I + 2 * p + 3 * over) % 5) / 4.0L;    // D (not B^T)
          }
        }
      }
    }

    /// the automatic pressure macros (AmaVanka::deduct_macro_dofs / Vanka::_build_p_block), re-stated on the block patterns
    std::vector<std::vector<int>> pressure_macros() const
    {
      std::vector<std::vector<int>> res;
      std::vector<char> mask(np, 0);
      for(int i = 0; i < np; ++i)
      {
        if(mask[i]) continue;
        std::map<int, int> cnt;
        for(int v = 0; v < nvb; ++v) if(d(i, v)) for(int j = 0; j < np; ++j) if(b(v, j)) ++cnt[j];
        int deg = 0; for(auto& q : cnt) deg = std::max(deg, q.second);
        std::vector<int> m;
        for(auto& q : cnt) if(q.second == deg) { m.push_back(q.first); mask[q.first] = 1; }
        res.push_back(m);
      }
      return res;
    }
    std::vector<int> velocity_of(const std::vector<int>& pm) const
    {
      std::set<int> s;
      for(int p : pm) for(int v = 0; v < nvb; ++v) if(d(p, v)) s.insert(v);
      return std::vector<int>(s.begin(), s.end());
    }
    /// scalar dof list of a macro (velocity block dofs expanded, pressure dofs shifted by nv)
    std::vector<int> scalar_dofs(const std::vector<int>& vb, const std::vector<int>& p) const
    {
      std::vector<int> r;
      for(int v : vb) for(int q = 0; q < dim; ++q) r.push_back(v * dim + q);
      for(int x : p) r.push_back(nv + x);
      return r;
    }
  };

  // ------------------------------------------------------------------------------------------ FEAT containers for saddle point systems
  template<int dim_> struct STypes
  {
    typedef LAFEM::SparseMatrixBCSR<double, Index, dim_, dim_> MatA;
    typedef LAFEM::SparseMatrixBCSR<double, Index, dim_, 1> MatB;
    typedef LAFEM::SparseMatrixBCSR<double, Index, 1, dim_> MatD;
    typedef LAFEM::DenseVectorBlocked<double, Index, dim_> VecV;
    typedef LAFEM::UnitFilterBlocked<double, Index, dim_> FilV;
    static double* rawv(VecV& v) { return v.template elements<LAFEM::Perspective::pod>(); }
    template<typename M> static double* rawm(M& m) { return m.template val<LAFEM::Perspective::pod>(); }
    static void fadd(FilV& f, Index i) { f.add(i, Tiny::Vector<double, dim_>(0.0)); }
  };
  template<> struct STypes<1>
  {
    typedef LAFEM::SparseMatrixCSR<double, Index> MatA;
    typedef LAFEM::SparseMatrixCSR<double, Index> MatB;
    typedef LAFEM::SparseMatrixCSR<double, Index> MatD;
    typedef LAFEM::DenseVector<double, Index> VecV;
    typedef LAFEM::UnitFilter<double, Index> FilV;
    static double* rawv(VecV& v) { return v.elements(); }
    template<typename M> static double* rawm(M& m) { return m.val(); }
    static void fadd(FilV& f, Index i) { f.add(i, 0.0); }
  };

  template<int dim>
  struct SaddleBox
  {
    typedef STypes<dim> T;
    typedef typename T::MatA MatA; typedef typename T::MatB MatB; typedef typename T::MatD MatD;
    typedef LAFEM::SaddlePointMatrix<MatA, MatB, MatD> Mat;
    typedef typename T::VecV VecV;
    typedef LAFEM::DenseVector<double, Index> VecP;
    typedef LAFEM::TupleVector<VecV, VecP> Vec;
    typedef typename T::FilV FilV;
    typedef LAFEM::NoneFilter<double, Index> FilP;
    typedef LAFEM::TupleFilter<FilV, FilP> Fil;

    const Saddle& S;
    Mat mat;
    Fil filter;
    std::shared_ptr<Solver::SolverBase<Vec>> prec;

    template<typename M>
    static M make_block(int rows, int cols, const std::vector<char>& pat)
    {
      Index nnz = 0; for(char ch : pat) nnz += ch ? 1 : 0;
      const Index nr = Index(rows), nc = Index(cols);
      M m(nr, nc, nnz);
      Index k = 0;
      for(int i = 0; i < rows; ++i) { m.row_ptr()[i] = k; for(int j = 0; j < cols; ++j) if(pat[size_t(i) * cols + j]) m.col_ind()[k++] = Index(j); }
      m.row_ptr()[rows] = k;
      return m;
    }
    static Fil make_filter(const Saddle& s, const std::vector<char>& fixed_vb)
    {
      FilV fv{Index(s.nvb)};
      for(int b = s.nvb - 1; b >= 0; --b) if(fixed_vb[b]) T::fadd(fv, Index(b));
      return Fil(std::move(fv), FilP());
    }
    SaddleBox(const Saddle& s, const std::vector<char>& fixed_vb) : S(s),
      mat(make_block<MatA>(s.nvb, s.nvb, s.pa), make_block<MatB>(s.nvb, s.np, s.pb), make_block<MatD>(s.np, s.nvb, s.pd)),
      filter(make_filter(s, fixed_vb))
    {
      set_values(0);
    }
    /// in-place value update
    void set_values(int ver)
    {
      const int nv = S.nv, N = S.N;
      const std::vector<LD>& k = S.K.k[ver];
      { auto& A = mat.block_a(); double* val = T::rawm(A); Index q = 0;
        for(int bi = 0; bi < S.nvb; ++bi) for(Index p = A.row_ptr()[bi]; p < A.row_ptr()[bi + 1]; ++p) { const int bj = int(A.col_ind()[p]);
          for(int r = 0; r < dim; ++r) for(int s2 = 0; s2 < dim; ++s2) val[q++] = double(k[size_t(bi * dim + r) * N + bj * dim + s2]); } }
      { auto& B = mat.block_b(); double* val = T::rawm(B); Index q = 0;
        for(int bi = 0; bi < S.nvb; ++bi) for(Index p = B.row_ptr()[bi]; p < B.row_ptr()[bi + 1]; ++p) { const int pj = int(B.col_ind()[p]);
          for(int r = 0; r < dim; ++r) val[q++] = double(k[size_t(bi * dim + r) * N + nv + pj]); } }
      { auto& D = mat.block_d(); double* val = T::rawm(D); Index q = 0;
        for(int pi = 0; pi < S.np; ++pi) for(Index p = D.row_ptr()[pi]; p < D.row_ptr()[pi + 1]; ++p) { const int bj = int(D.col_ind()[p]);
          for(int s2 = 0; s2 < dim; ++s2) val[q++] = double(k[size_t(nv + pi) * N + bj * dim + s2]); } }
    }
    void hash_values(verif::Hash& h)
    {
      h.bytes(T::rawm(mat.block_a()), sizeof(double) * size_t(mat.block_a().used_elements()) * dim * dim);
      h.bytes(T::rawm(mat.block_b()), sizeof(double) * size_t(mat.block_b().used_elements()) * dim);
      h.bytes(T::rawm(mat.block_d()), sizeof(double) * size_t(mat.block_d().used_elements()) * dim);
    }
    std::vector<double> apply(const LVec& d, double prefill, Status& st, bool& unch)
    {
      Vec vin(VecV(Index(S.nvb)), VecP(Index(S.np))), vout(VecV(Index(S.nvb)), VecP(Index(S.np)));
      std::vector<double> din(S.N);
      for(int i = 0; i < S.N; ++i) din[i] = double(d[i]);
      double* iv = T::rawv(vin.template at<0>()); double* ip = vin.template at<1>().elements();
      double* ov = T::rawv(vout.template at<0>()); double* op = vout.template at<1>().elements();
      for(int i = 0; i < S.nv; ++i) { iv[i] = din[i]; ov[i] = prefill; }
      for(int i = 0; i < S.np; ++i) { ip[i] = din[S.nv + i]; op[i] = prefill; }
      st = prec->apply(vout, vin);
      unch = (std::memcmp(iv, din.data(), sizeof(double) * size_t(S.nv)) == 0) && (std::memcmp(ip, din.data() + S.nv, sizeof(double) * size_t(S.np)) == 0);
      std::vector<double> out(S.N);
      for(int i = 0; i < S.nv; ++i) out[i] = ov[i];
      for(int i = 0; i < S.np; ++i) out[S.nv + i] = op[i];
      return out;
    }
    Live live(std::shared_ptr<SaddleBox> self)
    {
      Live l; l.keep = self;
      SaddleBox* b = self.get();
      l.init_symbolic = [b]{ b->prec->init_symbolic(); };
      l.init_numeric = [b]{ b->prec->init_numeric(); };
      l.done_numeric = [b]{ b->prec->done_numeric(); };
      l.done_symbolic = [b]{ b->prec->done_symbolic(); };
      l.update = [b](int v){ b->set_values(v); };
      l.apply = [b](const LVec& d, double pf, Status& st, bool& u){ return b->apply(d, pf, st, u); };
      l.hash_state = [b](verif::Hash& h){ b->hash_values(h); };
      return l;
    }
  };

  /// scalar 'fixed' mask of the velocity unit filter
  inline std::vector<char> fixed_scalar(const Saddle& s, const std::vector<char>& fixed_vb)
  {
    std::vector<char> f(s.N, 0);
    for(int b = 0; b < s.nvb; ++b) if(fixed_vb[b]) for(int r = 0; r < s.dim; ++r) f[b * s.dim + r] = 1;
    return f;
  }

  // ------------------------------------------------------------------------------------------ oracles
  /// AmaVanka operator (see file header); macros = scalar dof lists; skip: singular macros are skipped
  inline bool oracle_amavanka(const Dense& K, int ver, const std::vector<std::vector<int>>& macros, LD omega, int num_steps, bool skip_singular,
    const std::vector<char>& fixed, const LVec& b, LVec& x)
  {
    const int N = K.N;
    std::vector<LD> V(size_t(N) * N, 0.0L);
    std::vector<int> cnt(N, 0), member(N, 0);
    for(const auto& m : macros)
    {
      for(int i : m) member[i] = 1;
      std::vector<LD> inv;
      // exactly singular local matrices are detected by a vanishing pivot of the exact (dyadic) elimination
      std::vector<LD> loc(m.size() * m.size());
      for(size_t i = 0; i < m.size(); ++i) for(size_t j = 0; j < m.size(); ++j) loc[i * m.size() + j] = K.at(ver, m[i], m[j]);
      const bool regular = dense_inverse(int(m.size()), loc, inv);
      if(!regular) { if(skip_singular) continue; return false; }
      { LD mx = 0; for(auto q : inv) mx = std::max(mx, fabsl(q)); if(mx > 1e5L) return false; }
      for(size_t i = 0; i < m.size(); ++i) { ++cnt[m[i]]; for(size_t j = 0; j < m.size(); ++j) V[size_t(m[i]) * N + m[j]] += inv[i * m.size() + j]; }
    }
    for(int i = 0; i < N; ++i)
    {
      if(!member[i]) return false; // every dof has to belong to a macro (asserted by the implementation)
      if(cnt[i] > 0) for(int j = 0; j < N; ++j) V[size_t(i) * N + j] *= omega / LD(cnt[i]);
      else for(int j = 0; j < N; ++j) V[size_t(i) * N + j] = (i == j) ? 1.0L : 0.0L;
    }
    auto mulV = [&](const LVec& d) { LVec y(N, 0.0L); for(int i = 0; i < N; ++i) { LD s = 0; for(int j = 0; j < N; ++j) s += V[size_t(i) * N + j] * d[j]; y[i] = fixed[i] ? 0.0L : s; } return y; };
    x = mulV(b);
    for(int st = 1; st < num_steps; ++st)
    {
      LVec d(N);
      for(int i = 0; i < N; ++i) { LD s = b[i]; for(int j = 0; j < N; ++j) s -= K.at(ver, i, j) * x[j]; d[i] = fixed[i] ? 0.0L : s; }
      LVec cc = mulV(d);
      for(int i = 0; i < N; ++i) x[i] += cc[i];
    }
    return true;
  }

  /// Vanka operator (see file header)
  inline bool oracle_vanka(const Saddle& S, int ver, bool block, bool full, bool multi, LD omega, int num_iter, const std::vector<char>& fixed, const LVec& def, LVec& cor)
  {
    const int N = S.N;
    std::vector<std::vector<int>> pm;
    if(block) pm = S.pressure_macros(); else for(int p = 0; p < S.np; ++p) pm.push_back({p});
    std::vector<std::vector<int>> dofs; std::vector<std::vector<LD>> inv;
    std::vector<int> cnt(N, 0);
    for(const auto& p : pm)
    {
      std::vector<int> d = S.scalar_dofs(S.velocity_of(p), p);
      std::vector<LD> iv;
      if(!sub_inverse(S.K, ver, d, iv, !full, S.nv)) return false;
      for(int i : d) ++cnt[i];
      dofs.push_back(d); inv.push_back(iv);
    }
    if(!multi) for(int i = 0; i < N; ++i) if(cnt[i] == 0) return false; // additive scaling 1/0: every dof has to be in a block
    cor.assign(N, 0.0L);
    for(int it = 0; it < num_iter; ++it)
    {
      LVec base(def), acc(N, 0.0L);
      if(!multi && it > 0) for(int i = 0; i < N; ++i) { LD s = def[i]; for(int j = 0; j < N; ++j) s -= S.K.at(ver, i, j) * cor[j]; base[i] = s; }
      for(size_t bl = 0; bl < dofs.size(); ++bl)
      {
        const auto& d = dofs[bl]; const size_t m = d.size();
        std::vector<LD> r(m);
        for(size_t i = 0; i < m; ++i)
        {
          LD s = base[d[i]];
          if(multi) for(int j = 0; j < N; ++j) s -= S.K.at(ver, d[i], j) * cor[j];
          r[i] = s;
        }
        for(size_t i = 0; i < m; ++i) { LD s = 0; for(size_t j = 0; j < m; ++j) s += inv[bl][i * m + j] * r[j]; (multi ? cor : acc)[d[i]] += omega * s; }
      }
      if(!multi) for(int i = 0; i < N; ++i) cor[i] += acc[i] / LD(cnt[i]);
      for(int i = 0; i < N; ++i) if(fixed[i]) cor[i] = 0.0L;
    }
    return true;
  }
} // namespace c08b
