// C08, block-diagonal inversion seams used by the blocked preconditioners (SOR/SSOR/ILU on BCSR call
// Tiny::Matrix::set_inverse; sizes >= 7 fall through to Math::invert_matrix):
//   all matrices A = P * L * U with P in S_n (n <= 4), unit lower triangular L and upper triangular U whose entries are
//   position coded dyadic numbers (U diagonal = +-2^k), over ALL sparsity patterns of L and U.
// The exact inverse U^-1 L^-1 P^T is dyadic and exactly representable, so the oracle is bitwise:  A * inv(A) == I  and
// inv(A) == exact inverse, determinant == +- product of the U diagonal.
#include <verif.hpp>
#include <kernel/runtime.hpp>
#include <kernel/util/math.hpp>
#include <kernel/util/tiny_algebra.hpp>
#include <algorithm>
#include <cmath>
#include <map>

using namespace FEAT;
typedef long double LD;

namespace
{
  inline int& chk_seen(const std::string& key) { static std::map<std::string, int> seen; return seen[key]; }
  inline int chk_limit(int dflt) { static int lim = -1; if(lim < 0) { const char* e = std::getenv("VERIF_KEY_REPEAT"); lim = e ? atoi(e) : dflt; } return lim; }
  template<typename F>
  inline bool chk(verif::Ctx& c, bool cond, const std::string& key, F&& msgf)
  {
    if(cond) return true;
    if(c.replaying || ++chk_seen(key) <= chk_limit(3)) c.fail(key, msgf());
    else c.count("suppressed_repeats:" + key);
    return false;
  }

  /// exact rational arithmetic (tiny numbers only) to replay the pivot search of Math::invert_matrix without rounding
  struct Q
  {
    __int128 p = 0, q = 1;
    Q() {}
    Q(__int128 a, __int128 b = 1) : p(a), q(b) { norm(); }
    static __int128 gcd(__int128 a, __int128 b) { if(a < 0) a = -a; if(b < 0) b = -b; while(b) { __int128 t = a % b; a = b; b = t; } return a ? a : 1; }
    void norm() { if(q < 0) { p = -p; q = -q; } __int128 g = gcd(p, q); p /= g; q /= g; }
    Q operator*(const Q& o) const { return Q(p * o.p, q * o.q); }
    Q operator-(const Q& o) const { return Q(p * o.q - o.p * q, q * o.q); }
    Q operator/(const Q& o) const { return Q(p * o.q, q * o.p); }
    bool zero() const { return p == 0; }
    bool abs_gt(const Q& o) const { __int128 a = (p < 0 ? -p : p) * o.q, b = (o.p < 0 ? -o.p : o.p) * q; return a > b; }
  };
  /// true iff the diagonal-only pivot search of invert_matrix finds no non-zero pivot at some step in exact arithmetic
  template<int n>
  bool diagonal_pivoting_breaks_down(const long double (&A)[n][n])
  {
    Q a[n][n]; int p[n];
    for(int i = 0; i < n; ++i) { p[i] = i; for(int j = 0; j < n; ++j) a[i][j] = Q(__int128(std::llround(double(A[i][j] * 4096.0L))), 4096); }
    for(int k = 0; k < n; ++k)
    {
      int best = k;
      for(int j = k + 1; j < n; ++j) if(a[p[j]][p[j]].abs_gt(a[p[best]][p[best]])) best = j;
      std::swap(p[k], p[best]);
      const int pk = p[k];
      if(a[pk][pk].zero()) return true;
      const Q piv = Q(1) / a[pk][pk];
      a[pk][pk] = Q(1);
      for(int j = 0; j < n; ++j) a[pk][j] = a[pk][j] * piv;
      for(int i = 0; i < n; ++i)
      {
        if(i == pk) continue;
        const Q f = a[i][pk]; a[i][pk] = Q(0);
        for(int j = 0; j < n; ++j) a[i][j] = a[i][j] - a[pk][j] * f;
      }
    }
    return false;
  }

  template<int n>
  struct Fam
  {
    LD L[n][n], U[n][n], A[n][n], Ai[n][n], A0[n][n]; // A0: the unscaled matrix (pivot search replay)
    int perm[n];
    LD det;
    // lmask: bits of the strictly lower entries of L, umask: strictly upper entries of U, dvar: diagonal variant
    void build(unsigned lmask, unsigned umask, int dvar, const int* p)
    {
      const LD DG[4] = {1.0L, 2.0L, -0.5L, 4.0L};
      int bl = 0, bu = 0;
      for(int i = 0; i < n; ++i) for(int j = 0; j < n; ++j)
      {
        L[i][j] = (i == j) ? 1.0L : 0.0L; U[i][j] = 0.0L;
        if(j < i) { if((lmask >> bl) & 1u) L[i][j] = (((i + j) & 1) ? -1.0L : 1.0L) * LD(1 + (i + 2 * j) % 3) / 2.0L; ++bl; }
        else if(j > i) { if((umask >> bu) & 1u) U[i][j] = (((i + 2 * j) & 1) ? -1.0L : 1.0L) * LD(1 + (2 * i + j) % 3) / 4.0L; ++bu; }
        else U[i][i] = DG[(i + dvar) % 4];
      }
      for(int i = 0; i < n; ++i) perm[i] = p[i];
      // A = P * (L*U): row i of A is row perm[i] of L*U
      LD LU[n][n];
      for(int i = 0; i < n; ++i) for(int j = 0; j < n; ++j) { LD s = 0; for(int k = 0; k < n; ++k) s += L[i][k] * U[k][j]; LU[i][j] = s; }
      for(int i = 0; i < n; ++i) for(int j = 0; j < n; ++j) A0[i][j] = A[i][j] = LU[perm[i]][j];
      // exact inverse: (LU)^-1 by substitution (divisions by +-2^k only), then column permutation
      LD Li[n][n], Ui[n][n], LUi[n][n];
      for(int c = 0; c < n; ++c)
      {
        for(int i = 0; i < n; ++i) { LD s = (i == c) ? 1.0L : 0.0L; for(int k = 0; k < i; ++k) s -= L[i][k] * Li[k][c]; Li[i][c] = s; }
        for(int i = n - 1; i >= 0; --i) { LD s = (i == c) ? 1.0L : 0.0L; for(int k = i + 1; k < n; ++k) s -= U[i][k] * Ui[k][c]; Ui[i][c] = s / U[i][i]; }
      }
      for(int i = 0; i < n; ++i) for(int j = 0; j < n; ++j) { LD s = 0; for(int k = 0; k < n; ++k) s += Ui[i][k] * Li[k][j]; LUi[i][j] = s; }
      // A^-1 = (LU)^-1 P^T : column i of A^-1 is column perm[i] of (LU)^-1
      for(int i = 0; i < n; ++i) for(int j = 0; j < n; ++j) Ai[i][j] = LUi[i][perm[j]];
      det = 1.0L; for(int i = 0; i < n; ++i) det *= U[i][i];
      int inv = 0; for(int i = 0; i < n; ++i) for(int j = i + 1; j < n; ++j) if(perm[i] > perm[j]) ++inv;
      if(inv & 1) det = -det;
    }
    std::string str() const
    {
      std::string s = "A=[";
      for(int i = 0; i < n; ++i) { for(int j = 0; j < n; ++j) { char b[32]; snprintf(b, sizeof b, "%s%.6Lg", j ? " " : "", A[i][j]); s += b; } s += (i + 1 < n) ? "; " : "]"; }
      return s;
    }
  };

  template<int n>
  void run_n(verif::Ctx& c)
  {
    const unsigned ntri = unsigned(n * (n - 1) / 2);
    int p[n]; for(int i = 0; i < n; ++i) p[i] = i;
    // n >= 5 (hard-coded cofactor formulas of Tiny::Matrix for 5x5 and 6x6): sampled - every (n!/12)-th permutation, 12 masks for L and for U
    const bool sampled = (n >= 5);
    const unsigned full = (ntri >= 32u) ? 0xffffffffu : ((1u << ntri) - 1u);
    auto mask = [&](unsigned k) -> unsigned { if(!sampled) return k; const unsigned m[4] = {0u, full, 0x55555555u & full, 0xaaaaaaaau & full}; return k < 4 ? m[k] : ((k * 2654435761u) >> 3) & full; };
    const unsigned nmask = sampled ? 12u : (1u << ntri);
    long perm_no = -1; long nperm = 1; for(int i = 2; i <= n; ++i) nperm *= i;
    do
    {
      ++perm_no;
      if(sampled && (perm_no % (nperm / 12)) != 0) continue;
      for(int dvar = 0; dvar < (n <= 3 ? 4 : 2); ++dvar)
      for(unsigned lmi = 0; lmi < nmask; ++lmi)
      for(unsigned umi = 0; umi < nmask; ++umi)
      for(int sc = 0; sc < 3; ++sc)
      {
        if(!c.want()) continue;
        const unsigned lm = mask(lmi), um = mask(umi);
        Fam<n> f; f.build(lm, um, dvar, p);
        // magnitude alphabet: A scaled by exactly 1, 2^+100, 2^-100 (inverse and determinant scale exactly; no overflow up to n = 4)
        const int e2 = (sc == 0) ? 0 : (sc == 1 ? 100 : -100);
        if(e2 != 0)
        {
          for(int i = 0; i < n; ++i) for(int j = 0; j < n; ++j) { f.A[i][j] = std::ldexp(f.A[i][j], e2); f.Ai[i][j] = std::ldexp(f.Ai[i][j], -e2); }
          f.det = std::ldexp(f.det, e2 * n);
        }
        c.desc([&]{ std::string s = "n=" + std::to_string(n) + " perm="; for(int i = 0; i < n; ++i) s += char('0' + p[i]); return s + " Lmask=" + std::to_string(lm) + " Umask=" + std::to_string(um) + " dvar=" + std::to_string(dvar) + " scale=2^" + std::to_string(e2) + " " + f.str(); });
        bool ident = true; for(int i = 0; i < n; ++i) if(p[i] != i) ident = false;
        if(!(ident && lm == 0 && um == 0)) c.nontrivial(verif::Hash().pod(n).pod(lm).pod(um).pod(dvar).pod(sc).bytes(p, sizeof p).get());

        // ---- Tiny::Matrix::set_inverse (hard-coded cofactor formulas for n <= 6)
        {
          Tiny::Matrix<double, n, n> a, b;
          for(int i = 0; i < n; ++i) for(int j = 0; j < n; ++j) { a[i][j] = double(f.A[i][j]); b[i][j] = std::nan(""); }
          const Tiny::Matrix<double, n, n> a0(a);
          b.set_inverse(a);
          bool eq = true, unit = true, unch = true;
          double amax_t = 0.0; for(int i = 0; i < n; ++i) for(int j = 0; j < n; ++j) amax_t = std::max(amax_t, std::fabs(double(f.Ai[i][j])));
          for(int i = 0; i < n; ++i) for(int j = 0; j < n; ++j)
          {
            LD s = 0; for(int k = 0; k < n; ++k) s += LD(a[i][k]) * LD(b[k][j]);
            if(n <= 4)
            {
              if(b[i][j] != double(f.Ai[i][j])) eq = false;
              if(s != (i == j ? 1.0L : 0.0L)) unit = false;
            }
            else
            {
              // the 5x5 / 6x6 cofactor expansions exceed 53 bits on this family: compared within 1e-12
              if(!(std::fabs(b[i][j] - double(f.Ai[i][j])) <= 1e-12 * amax_t)) eq = false;
              if(!(fabsl(s - (i == j ? 1.0L : 0.0L)) <= 1e-11L)) unit = false;
            }
            if(a[i][j] != a0[i][j]) unch = false;
          }
          chk(c, eq, "inverse.tiny-set_inverse n=" + std::to_string(n), [&]{ return f.str() + ": set_inverse differs from the exact inverse"; });
          chk(c, unit, "inverse.tiny-A*inv!=I n=" + std::to_string(n), [&]{ return f.str() + ": A*inv(A) != I"; });
          chk(c, unch, "inverse.tiny-input-modified n=" + std::to_string(n), [&]{ return f.str(); });
          const double dt = a.det();
          chk(c, (n <= 4) ? (dt == double(f.det)) : (std::fabs(dt - double(f.det)) <= 1e-12 * std::fabs(double(f.det))), "inverse.tiny-det n=" + std::to_string(n), [&]{ return f.str() + ": det=" + std::to_string(dt) + " expected " + std::to_string(double(f.det)); });
          c.count("tiny_inversions");
        }
        // ---- Math::invert_matrix (generic Gauss-Jordan; the path Tiny takes for n >= 7), with stride n and stride n+1 (size-generic code: n <= 4 only)
        for(int extra = 0; extra < (n <= 4 ? 2 : 0); ++extra)
        {
          const int stride = n + extra;
          double a[n * (n + 1)]; int piv[n];
          for(int i = 0; i < n * (n + 1); ++i) a[i] = -777.0;
          for(int i = 0; i < n; ++i) for(int j = 0; j < n; ++j) a[i * stride + j] = double(f.A[i][j]);
          const double dt = Math::invert_matrix(n, stride, a, piv);
          // documented contract: a non-normal determinant signals a failed inversion (the algorithm pivots on the diagonal only)
          if(!Math::isnormal(dt))
          {
            // a regular matrix was rejected: legal by the documented contract only if no admissible pivot order exists;
            // we record it (outcome) and require that it does not happen when A itself needs no row exchange
            c.outcome("invert_matrix: regular matrix rejected (det not normal)");
            c.count("invert_matrix_regular_rejected");
            // (a tie between equally large diagonal candidates may be broken differently by rounding, so a rejection can occur
            //  although the exact-arithmetic pivot order would have succeeded: counted, not a violation)
            if(!diagonal_pivoting_breaks_down<n>(f.A0)) c.count("invert_matrix_rejected_after_rounding_broke_a_pivot_tie");
            bool ident_perm = true; for(int i = 0; i < n; ++i) if(f.perm[i] != i) ident_perm = false;
            // for P = I all leading principal minors are non-zero, so diagonal pivoting cannot break down... unless the
            // pivot *choice* (largest diagonal entry) runs into a zero Schur complement; only the unpivoted order is guaranteed.
            (void)ident_perm;
            continue;
          }
          bool eq = true, pad = true;
          double amax = 0.0; for(int i = 0; i < n; ++i) for(int j = 0; j < n; ++j) amax = std::max(amax, std::fabs(double(f.Ai[i][j])));
          for(int i = 0; i < n; ++i) for(int j = 0; j < stride; ++j)
          {
            if(j < n) { if(std::fabs(a[i * stride + j] - double(f.Ai[i][j])) > 1e-10 * amax) eq = false; }
            else if(a[i * stride + j] != -777.0) pad = false;
          }
          if(!eq && diagonal_pivoting_breaks_down<n>(f.A0))
            chk(c, false, "inverse.invert_matrix diagonal-only pivot search runs out of non-zero diagonal pivots on a regular matrix, takes a rounding residue as pivot and returns a normal determinant with a wrong inverse n=" + std::to_string(n),
              [&]{ return f.str(); });
          else
          chk(c, eq, "inverse.invert_matrix n=" + std::to_string(n), [&]{ return f.str() + ": invert_matrix returned a normal determinant but a wrong inverse"; });
          chk(c, pad, "inverse.invert_matrix-stride-padding n=" + std::to_string(n), [&]{ return f.str() + ": entries beyond column n were modified"; });
          chk(c, std::fabs(dt - double(f.det)) <= 1e-12 * std::fabs(double(f.det)), "inverse.invert_matrix-det n=" + std::to_string(n),
            [&]{ return f.str() + ": det=" + std::to_string(dt) + " expected " + std::to_string(double(f.det)); });
          c.outcome("invert_matrix: ok");
          c.count("generic_inversions");
        }
      }
    } while(std::next_permutation(p, p + n));
  }
}

int main(int argc, char** argv)
{
  Runtime::ScopeGuard guard(argc, argv);
  verif::Spec spec; spec.property = "C08"; spec.harness = "c08_inverse";
  spec.rule = "case = (n, permutation P, sparsity pattern of unit-lower L, pattern of upper U, diagonal variant); A = P*L*U with position coded dyadic entries; "
    "non-trivial unless A is diagonal with P = I. Tiny::Matrix::set_inverse/det compared bitwise with the exact inverse/determinant; Math::invert_matrix (stride n and n+1) "
    "compared within 1e-10 (diagonal pivoting admits small pivots, i.e. moderate error growth) whenever it reports a normal determinant";
  spec.bounds_quick = "n = 1,2,3 complete (all P, all 2^(n(n-1)) patterns, 4 diagonal variants); n = 4: all 24 P, all 4096 patterns, 2 diagonal variants; every matrix also scaled by 2^+100 and 2^-100";
  spec.bounds_thorough = "same (the space is complete at these sizes)";
  spec.assumptions = {"exact inverse = U^-1 L^-1 P^T by substitution in long double (all divisions by +-2^k, every intermediate exactly representable)",
    "Math::invert_matrix documents that a non-normal returned determinant means failure; it pivots on diagonal entries only, so regular matrices with "
    "vanishing diagonal pivots are rejected - these are counted (invert_matrix_regular_rejected), not reported as violations",
    "set_inverse / det of sizes 5 and 6 (hard-coded cofactor expansions) are sampled (12 permutations x 12 L masks x 12 U masks x 2 diagonals x 3 scalings) and compared within 1e-12; sizes >= 7 use Math::invert_matrix"};
  return verif::run(spec, argc, argv, [&](verif::Ctx& c) { run_n<1>(c); run_n<2>(c); run_n<3>(c); run_n<4>(c); run_n<5>(c); run_n<6>(c); });
}
