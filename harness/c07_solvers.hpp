// C07 (b): the real iterative solvers on tiny systems with call histories on one solver object.
// Shared body of c07_solvers (NoneFilter) and c07_solvers_uf (UnitFilter).
//
// case  = (solver variant, preconditioner, system matrix, limits (max_iter, min_iter, tol_rel), filter set)
// inside a case: every operation of the alphabet {apply(b_j) with output pre-filled by 0 / 1 / NaN, correct(1, b_j),
//   correct(x_exact, b_j)} is executed on a FRESH solver object and judged against an independent long double
//   recomputation (truthfulness of the status, defects, limits, convergence), then all histories
//   init op op done | init op done init op done (thorough: three operations) are replayed on ONE solver object and
//   every result is compared bitwise with the fresh result of the same operation (history independence).
// All heap memory handed out by malloc is poisoned with NaN (M_PERTURB), so a solver that reads vectors it never
// initialised is detected deterministically.
#pragma once
#include <verif.hpp>
#include <kernel/runtime.hpp>
#include <kernel/util/property_map.hpp>
#include <kernel/lafem/dense_vector.hpp>
#include <kernel/lafem/sparse_matrix_csr.hpp>
#include <kernel/lafem/none_filter.hpp>
#include <kernel/lafem/unit_filter.hpp>
#include <kernel/solver/pcg.hpp>
#include <kernel/solver/pcr.hpp>
#include <kernel/solver/bicgstab.hpp>
#include <kernel/solver/bicgstabl.hpp>
#include <kernel/solver/fgmres.hpp>
#include <kernel/solver/gmres.hpp>
#include <kernel/solver/richardson.hpp>
#include <kernel/solver/rgcr.hpp>
#include <kernel/solver/idrs.hpp>
#include <kernel/solver/pcgnr.hpp>
#include <kernel/solver/pipepcg.hpp>
#include <kernel/solver/gropppcg.hpp>
#include <kernel/solver/rbicgstab.hpp>
#include <kernel/solver/pmr.hpp>
#include <kernel/solver/chebyshev.hpp>
#include <kernel/solver/jacobi_precond.hpp>
#include <kernel/solver/ssor_precond.hpp>
#include <kernel/solver/ilu_precond.hpp>
#include <kernel/solver/schwarz_precond.hpp>
#include <kernel/global/gate.hpp>
#include <kernel/global/vector.hpp>
#include <kernel/global/matrix.hpp>
#include <kernel/global/filter.hpp>
#include <kernel/lafem/vector_mirror.hpp>

#include <malloc.h>
#include <cmath>
#include <cstring>
#include <limits>
#include <map>
#include <memory>
#include <set>

#ifdef VERIF_ASAN
extern "C" const char* __asan_default_options() { return "malloc_fill_byte=255:max_malloc_fill_size=1048576"; }
#endif

namespace c07
{
  using namespace FEAT;
  using Solver::Status;
  typedef long double LD;
  typedef LAFEM::SparseMatrixCSR<double, Index> Mat;
  typedef LAFEM::DenseVector<double, Index> Vec;
  const double EPS = std::numeric_limits<double>::epsilon();

  inline int& chk_seen(const std::string& key) { static std::map<std::string, int> seen; return seen[key]; }
  inline int chk_limit(int dflt) { static int lim = -1; if(lim < 0) { const char* e = std::getenv("VERIF_KEY_REPEAT"); lim = e ? atoi(e) : dflt; } return lim; }
  template<typename F>
  inline bool chk(verif::Ctx& c, bool cond, const std::string& key, F&& msgf)
  {
    if(cond) return true;
    if(c.replaying || ++chk_seen(key) <= chk_limit(2)) c.fail(key, msgf());
    else c.count("suppressed_repeats:" + key);
    return false;
  }

  // ------------------------------------------------------------------------------------------ systems
  struct SysDef
  {
    std::string name;
    int n = 0;
    std::vector<LD> a;        // dense row-major
    bool symmetric = true;    // SPD if symmetric (all symmetric members of the families are SPD)
    bool scaled = false;      // badly scaled family member (condition up to ~2^12 * kappa)
    LD at(int i, int j) const { return a[size_t(i) * n + j]; }
  };

  inline SysDef tridiag(int n, LD lo, LD di, LD up, const std::string& nm)
  {
    SysDef s; s.n = n; s.name = nm; s.a.assign(size_t(n) * n, 0.0L);
    for(int i = 0; i < n; ++i) { s.a[size_t(i) * n + i] = di; if(i > 0) s.a[size_t(i) * n + i - 1] = lo; if(i + 1 < n) s.a[size_t(i) * n + i + 1] = up; }
    s.symmetric = (lo == up);
    return s;
  }
  inline SysDef star(int m, LD skew, const std::string& nm)
  {
    const int n = m * m;
    SysDef s; s.n = n; s.name = nm; s.a.assign(size_t(n) * n, 0.0L);
    for(int y = 0; y < m; ++y) for(int x = 0; x < m; ++x)
    {
      const int i = y * m + x;
      s.a[size_t(i) * n + i] = 4.0L;
      if(x > 0) s.a[size_t(i) * n + i - 1] = -1.0L - skew;
      if(x + 1 < m) s.a[size_t(i) * n + i + 1] = -1.0L + skew;
      if(y > 0) s.a[size_t(i) * n + i - m] = -1.0L;
      if(y + 1 < m) s.a[size_t(i) * n + i + m] = -1.0L;
    }
    s.symmetric = (skew == 0.0L);
    return s;
  }

  inline std::vector<SysDef> systems(bool thorough)
  {
    std::vector<SysDef> v;
    char nm[96];
    const int nmax = 4;
    // SPD tridiagonal families
    for(int n = 1; n <= nmax; ++n)
      for(int a : {2, 4}) for(int b : {-1, 0, 1})
      {
        if(n == 1 && b != -1) continue;
        snprintf(nm, sizeof nm, "tridiag(%d,%d,%d) n=%d", b, a, b, n);
        v.push_back(tridiag(n, b, a, b, nm));
      }
    // symmetric diagonal scalings S A S with S = diag(2^(k i))
    for(int n = 2; n <= nmax; ++n) for(int k : {1, 2}) for(int a : {2, 4})
    {
      if(!thorough && !(n == nmax || (n == 2 && k == 2 && a == 2))) continue;
      snprintf(nm, sizeof nm, "S*tridiag(-1,%d,-1)*S, S=diag(2^(%d i)) n=%d", a, k, n);
      SysDef s = tridiag(n, -1, a, -1, nm);
      for(int i = 0; i < n; ++i) for(int j = 0; j < n; ++j) s.a[size_t(i) * n + j] *= std::ldexp(1.0L, k * i) * std::ldexp(1.0L, k * j);
      s.scaled = true;
      v.push_back(s);
    }
    // full SPD
    for(int n = 2; n <= nmax; ++n)
    {
      snprintf(nm, sizeof nm, "fullSPD n=%d", n);
      SysDef s; s.n = n; s.name = nm; s.a.assign(size_t(n) * n, 0.0L);
      for(int i = 0; i < n; ++i) for(int j = 0; j < n; ++j) s.a[size_t(i) * n + j] = (i == j) ? LD(n + 1) : std::ldexp(1.0L, -std::abs(i - j));
      v.push_back(s);
    }
    // 2D five-point stars
    v.push_back(star(2, 0.0L, "5-point 2x2"));
    v.push_back(star(3, 0.0L, "5-point 3x3"));
    // nonsymmetric: SPD part + skew part
    for(int n = 2; n <= nmax; ++n) for(int a : {2, 4}) for(int c2 : {1, 4}) // skew c = c2/2
    {
      if(!thorough && n == 3) continue;
      snprintf(nm, sizeof nm, "tridiag(-1,%d,-1)+%g*skew n=%d", a, c2 / 2.0, n);
      v.push_back(tridiag(n, -1.0L - LD(c2) / 2.0L, a, -1.0L + LD(c2) / 2.0L, nm));
    }
    v.push_back(star(3, 0.5L, "5-point 3x3 + 0.5*skew_x"));
    return v;
  }

  // ------------------------------------------------------------------------------------------ dense helpers
  inline bool dense_solve(int n, const std::vector<LD>& A, const std::vector<char>& fixed, const std::vector<LD>& b, std::vector<LD>& x, LD& cond)
  {
    // reduced system on the free dofs; fixed dofs have x = 0
    std::vector<int> fr; for(int i = 0; i < n; ++i) if(!fixed[i]) fr.push_back(i);
    const int m = int(fr.size());
    std::vector<LD> w(size_t(m) * m), inv(size_t(m) * m, 0.0L);
    for(int i = 0; i < m; ++i) for(int j = 0; j < m; ++j) w[size_t(i) * m + j] = A[size_t(fr[i]) * n + fr[j]];
    LD na = 0; for(auto q : w) na += q * q;
    for(int i = 0; i < m; ++i) inv[size_t(i) * m + i] = 1.0L;
    for(int k = 0; k < m; ++k)
    {
      int piv = k; LD best = fabsl(w[size_t(k) * m + k]);
      for(int i = k + 1; i < m; ++i) if(fabsl(w[size_t(i) * m + k]) > best) { best = fabsl(w[size_t(i) * m + k]); piv = i; }
      if(best == 0.0L) return false;
      if(piv != k) for(int j = 0; j < m; ++j) { std::swap(w[size_t(k) * m + j], w[size_t(piv) * m + j]); std::swap(inv[size_t(k) * m + j], inv[size_t(piv) * m + j]); }
      const LD d = w[size_t(k) * m + k];
      for(int j = 0; j < m; ++j) { w[size_t(k) * m + j] /= d; inv[size_t(k) * m + j] /= d; }
      for(int i = 0; i < m; ++i) { if(i == k) continue; const LD f = w[size_t(i) * m + k]; if(f == 0.0L) continue; for(int j = 0; j < m; ++j) { w[size_t(i) * m + j] -= f * w[size_t(k) * m + j]; inv[size_t(i) * m + j] -= f * inv[size_t(k) * m + j]; } }
    }
    LD ni = 0; for(auto q : inv) ni += q * q;
    cond = sqrtl(na) * sqrtl(ni);
    x.assign(n, 0.0L);
    for(int i = 0; i < m; ++i) { LD s = 0; for(int j = 0; j < m; ++j) s += inv[size_t(i) * m + j] * b[fr[j]]; x[fr[i]] = s; }
    return true;
  }

  // ------------------------------------------------------------------------------------------ solver zoo
  enum SolverKind { S_PCG = 0, S_PCR, S_BICGSTAB_L, S_BICGSTAB_R, S_BICGSTABL1_L, S_BICGSTABL2_L, S_BICGSTABL2_R, S_FGMRES2, S_FGMRES3D, S_GMRES2, S_GMRES3D,
    S_RICHARDSON, S_RICHARDSON1, S_RGCR, S_IDRS1, S_IDRS2, S_PCGNR, S_PIPEPCG, S_GROPPPCG, S_RBICGSTAB, S_PMR, S_CHEBYSHEV, S_COUNT };
  const char* const SNAME[] = {"PCG", "PCR", "BiCGStab-left", "BiCGStab-right", "BiCGStabL(1)-left", "BiCGStabL(2)-left", "BiCGStabL(2)-right", "FGMRES(2,delta=0)", "FGMRES(3,delta=1)", "GMRES(2,delta=0)", "GMRES(3,delta=1)",
    "Richardson(0.5)", "Richardson(1)", "RGCR", "IDR(1)", "IDR(2)", "PCGNR", "PipePCG", "GroppPCG", "RBiCGStab", "PMR", "Chebyshev"};
  /// solver class (stable part of the violation keys; the variant is in the message)
  inline const char* cname(int s)
  {
    switch(s)
    {
    case S_BICGSTAB_L: case S_BICGSTAB_R: return "BiCGStab";
    case S_BICGSTABL1_L: case S_BICGSTABL2_L: case S_BICGSTABL2_R: return "BiCGStabL";
    case S_FGMRES2: case S_FGMRES3D: return "FGMRES";
    case S_GMRES2: case S_GMRES3D: return "GMRES";
    case S_IDRS1: case S_IDRS2: return "IDRS";
    case S_RICHARDSON: case S_RICHARDSON1: return "Richardson";
    default: return SNAME[s];
    }
  }
  enum PrecKind { P_NONE = 0, P_JACOBI, P_SSOR, P_ILU0, P_COUNT };
  const char* const PNAME[] = {"none", "Jacobi", "SSOR", "ILU(0)"};

  struct Traits
  {
    bool needs_spd;       // symmetric positive definite systems (and symmetric preconditioners) only
    bool half_step;       // has a documented mid-iteration exit (BiCGStab "half" update) that does not honour min_iter
    bool fragile;         // BiCG / IDR family: breakdowns on tiny systems are inherent; non-success accepted iff the reference solution was reached
    int conv_scope;       // 0: never required, 1: unscaled systems only (stationary / one-dimensional projection methods), 2: all in-scope systems
    bool recycles;        // keeps search directions between solves by design (RGCR): history independence only approximately
    bool gmres_like;      // restart cycles: the iteration limit is only checked inside a cycle
  };
  inline Traits traits(int s)
  {
    switch(s)
    {
    case S_PCG: case S_PCR: case S_PIPEPCG: case S_GROPPPCG: return {true, false, false, 2, false, false};
    case S_BICGSTAB_L: case S_BICGSTAB_R: case S_RBICGSTAB: return {false, true, true, 2, false, false};
    case S_BICGSTABL1_L: case S_BICGSTABL2_L: case S_BICGSTABL2_R: return {false, false, true, 2, false, false};
    // inner residual scale 0 (the default): documented to stop a cycle early only on an EXACT zero; an exhausted Krylov space
    // (n <= k, eigenvector right hand sides) then runs on rounding noise -> treated like the other breakdown-prone methods
    case S_FGMRES2: case S_GMRES2: return {false, false, true, 2, false, true};
    case S_FGMRES3D: case S_GMRES3D: return {false, false, false, 2, false, true};
    case S_RICHARDSON: case S_RICHARDSON1: return {false, false, false, 1, false, false};
    case S_RGCR: return {false, false, false, 2, true, false};
    case S_IDRS1: case S_IDRS2: return {false, false, true, 2, false, false};
    case S_PCGNR: return {false, false, false, 1, false, false};
    case S_PMR: return {false, false, false, 1, false, false};
    case S_CHEBYSHEV: return {true, false, false, 1, false, false};
    }
    return {false, false, false, 0, false, false};
  }

  template<typename Filter> struct FilterMaker;
  template<> struct FilterMaker<LAFEM::NoneFilter<double, Index>>
  {
    static LAFEM::NoneFilter<double, Index> make(int, const std::vector<char>&) { return LAFEM::NoneFilter<double, Index>(); }
  };
  template<> struct FilterMaker<LAFEM::UnitFilter<double, Index>>
  {
    static LAFEM::UnitFilter<double, Index> make(int n, const std::vector<char>& fixed)
    {
      LAFEM::UnitFilter<double, Index> f{Index(n)};
      for(int i = 0; i < n; ++i) if(fixed[i]) f.add(Index(i), 0.0);
      return f;
    }
  };

  inline Mat make_csr(const SysDef& sys)
  {
    const int n = sys.n;
    Index nnz = 0; for(auto q : sys.a) if(q != 0.0L) ++nnz;
    const Index nn = Index(n);
    Mat mat(nn, nn, nnz);
    Index k = 0;
    for(int i = 0; i < n; ++i) { mat.row_ptr()[i] = k; for(int j = 0; j < n; ++j) if(sys.at(i, j) != 0.0L) { mat.col_ind()[k] = Index(j); mat.val()[k] = double(sys.at(i, j)); ++k; } }
    mat.row_ptr()[n] = k;
    return mat;
  }

  /// the solvers that only need the sequential vector interface.
  /// path 0: configured by constructor / factory arguments; path 1: constructed with OTHER parameter values and configured by the
  /// setters afterwards; path 2: constructed from a PropertyMap section (pm holds the solver specific keys and the limits)
  template<typename MatT, typename FilT, typename VecT>
  std::shared_ptr<Solver::IterativeSolver<VecT>> make_common(int s, const MatT& A, const FilT& f, std::shared_ptr<Solver::SolverBase<VecT>> pr, std::shared_ptr<Solver::SolverBase<VecT>> pr2,
    int path = 0, PropertyMap* pm = nullptr)
  {
    typedef Solver::BiCGStabPreconVariant BV; typedef Solver::BiCGStabLPreconVariant LV;
    const bool right = (s == S_BICGSTAB_R || s == S_BICGSTABL2_R);
    const int kdim = (s == S_FGMRES2 || s == S_GMRES2) ? 2 : 3;
    const double delta = (s == S_FGMRES2 || s == S_GMRES2) ? 0.0 : 1.0;
    if(path == 2)
    {
      const String sec("verif");
      switch(s)
      {
      case S_PCG: return Solver::new_pcg(sec, pm, A, f, pr);
      case S_PCR: return Solver::new_pcr(sec, pm, A, f, pr);
      case S_BICGSTAB_L: case S_BICGSTAB_R: return Solver::new_bicgstab(sec, pm, A, f, pr);
      case S_BICGSTABL1_L: case S_BICGSTABL2_L: case S_BICGSTABL2_R: return Solver::new_bicgstabl(sec, pm, A, f, pr);
      case S_FGMRES2: case S_FGMRES3D: return Solver::new_fgmres(sec, pm, A, f, pr);
      case S_GMRES2: case S_GMRES3D: return Solver::new_gmres(sec, pm, A, f, pr);
      case S_RICHARDSON: case S_RICHARDSON1: return Solver::new_richardson(sec, pm, A, f, pr);
      case S_RGCR: return Solver::new_rgcr(sec, pm, A, f, pr);
      case S_IDRS1: case S_IDRS2: { auto q = Solver::new_idrs(sec, pm, A, f, pr); q->reset_shadow_space(false); return q; }
      case S_PCGNR: return Solver::new_pcgnr(sec, pm, A, f, pr, pr2);
      case S_PMR: return Solver::new_pmr(sec, pm, A, f, pr);
      case S_CHEBYSHEV: return Solver::new_chebyshev(sec, pm, A, f);
      }
      return nullptr;
    }
    if(path == 1)
    {
      switch(s)
      {
      case S_BICGSTAB_L: case S_BICGSTAB_R:
        { auto q = Solver::new_bicgstab(A, f, pr, right ? BV::left : BV::right); q->set_precon_variant(right ? BV::right : BV::left); return q; }
      case S_BICGSTABL1_L: case S_BICGSTABL2_L: case S_BICGSTABL2_R:
        { auto q = Solver::new_bicgstabl(A, f, s == S_BICGSTABL1_L ? 1 : 2, pr, right ? LV::left : LV::right); q->set_precon_variant(right ? LV::right : LV::left); return q; }
      case S_FGMRES2: case S_FGMRES3D: { auto q = Solver::new_fgmres(A, f, 7, 0.25, pr); q->set_krylov_dim(Index(kdim)); q->set_inner_res_scale(delta); return q; }
      case S_GMRES2: case S_GMRES3D: { auto q = Solver::new_gmres(A, f, 7, 0.25, pr); q->set_krylov_dim(Index(kdim)); q->set_inner_res_scale(delta); return q; }
      case S_RICHARDSON: case S_RICHARDSON1: { auto q = Solver::new_richardson(A, f, 0.125, pr); q->set_omega(s == S_RICHARDSON ? 0.5 : 1.0); return q; }
      case S_IDRS1: case S_IDRS2: { auto q = Solver::new_idrs(A, f, 5, pr); q->set_krylov_dim(Index(s == S_IDRS1 ? 1 : 2)); q->reset_shadow_space(false); return q; }
      case S_CHEBYSHEV: { auto q = std::make_shared<Solver::Chebyshev<MatT, FilT>>(A, f); q->set_fraction_min_ev(0.03); q->set_fraction_max_ev(1.1); return q; }
      default: break; // no solver specific parameters: as path 0
      }
    }
    switch(s)
    {
    case S_PCG: return Solver::new_pcg(A, f, pr);
    case S_PCR: return Solver::new_pcr(A, f, pr);
    case S_BICGSTAB_L: return Solver::new_bicgstab(A, f, pr, BV::left);
    case S_BICGSTAB_R: return Solver::new_bicgstab(A, f, pr, BV::right);
    case S_BICGSTABL1_L: return Solver::new_bicgstabl(A, f, 1, pr, LV::left);
    case S_BICGSTABL2_L: return Solver::new_bicgstabl(A, f, 2, pr, LV::left);
    case S_BICGSTABL2_R: return Solver::new_bicgstabl(A, f, 2, pr, LV::right);
    case S_FGMRES2: return Solver::new_fgmres(A, f, 2, 0.0, pr);
    case S_FGMRES3D: return Solver::new_fgmres(A, f, 3, 1.0, pr);
    case S_GMRES2: return Solver::new_gmres(A, f, 2, 0.0, pr);
    case S_GMRES3D: return Solver::new_gmres(A, f, 3, 1.0, pr);
    case S_RICHARDSON: return Solver::new_richardson(A, f, 0.5, pr);
    case S_RICHARDSON1: return Solver::new_richardson(A, f, 1.0, pr);
    case S_RGCR: return Solver::new_rgcr(A, f, pr);
    case S_IDRS1: { auto q = Solver::new_idrs(A, f, 1, pr); q->reset_shadow_space(false); return q; }
    case S_IDRS2: { auto q = Solver::new_idrs(A, f, 2, pr); q->reset_shadow_space(false); return q; }
    case S_PCGNR: return Solver::new_pcgnr(A, f, pr, pr2);
    case S_PMR: return Solver::new_pmr(A, f, pr);
    case S_CHEBYSHEV: return Solver::new_chebyshev(A, f);
    }
    return nullptr;
  }

  /// the solver specific keys of the PropertyMap configuration
  inline void solver_keys(int s, PropertyMap& pm)
  {
    switch(s)
    {
    case S_BICGSTAB_L: pm.add_entry("precon_variant", "left"); break;
    case S_BICGSTAB_R: pm.add_entry("precon_variant", "right"); break;
    case S_BICGSTABL1_L: pm.add_entry("precon_variant", "left"); pm.add_entry("polynomial_degree", "1"); break;
    case S_BICGSTABL2_L: pm.add_entry("precon_variant", "left"); pm.add_entry("polynomial_degree", "2"); break;
    case S_BICGSTABL2_R: pm.add_entry("precon_variant", "right"); pm.add_entry("polynomial_degree", "2"); break;
    case S_FGMRES2: case S_GMRES2: pm.add_entry("krylov_dim", "2"); pm.add_entry("inner_res_scale", "0"); break;
    case S_FGMRES3D: case S_GMRES3D: pm.add_entry("krylov_dim", "3"); pm.add_entry("inner_res_scale", "1"); break;
    case S_RICHARDSON: pm.add_entry("omega", "0.5"); break;
    case S_RICHARDSON1: pm.add_entry("omega", "1"); break;
    case S_IDRS1: pm.add_entry("krylov_dim", "1"); break;
    case S_IDRS2: pm.add_entry("krylov_dim", "2"); break;
    case S_CHEBYSHEV: pm.add_entry("fraction_min_ev", "0.03"); pm.add_entry("fraction_max_ev", "1.1"); break;
    default: break;
    }
  }

  /// sequential containers (SparseMatrixCSR / DenseVector)
  template<typename Filter>
  struct LocalPolicy
  {
    typedef Vec VecT;
    typedef Solver::IterativeSolver<VecT> ISolver;
    typedef Solver::SolverBase<VecT> PrecBase;
    static constexpr const char* tag = "";
    Mat mat; Filter filter;
    LocalPolicy(const SysDef& sys, const std::vector<char>& fixed) : mat(make_csr(sys)), filter(FilterMaker<Filter>::make(sys.n, fixed)) {}
    /// in-place update of the matrix values (same layout)
    void set_values(const SysDef& sys)
    {
      for(int i = 0; i < sys.n; ++i) for(Index k = mat.row_ptr()[i]; k < mat.row_ptr()[i + 1]; ++k) mat.val()[k] = double(sys.at(i, int(mat.col_ind()[k])));
    }
    VecT new_vec(int n) const { return VecT(Index(n)); }
    static double* raw(VecT& v) { return v.elements(); }
    static constexpr bool has(int s) { return s != S_PIPEPCG && s != S_GROPPPCG && s != S_RBICGSTAB; }
    std::shared_ptr<PrecBase> make_prec(int p) const
    {
      switch(p)
      {
      case P_JACOBI: return Solver::new_jacobi_precond(mat, filter);
      case P_SSOR: return Solver::new_ssor_precond(PreferredBackend::generic, mat, filter);
      case P_ILU0: return Solver::new_ilu_precond(PreferredBackend::generic, mat, filter, 0);
      default: return nullptr;
      }
    }
    std::shared_ptr<ISolver> make(int s, int p, int path = 0, PropertyMap* pm = nullptr) const { return make_common<Mat, Filter, VecT>(s, mat, filter, make_prec(p), make_prec(p), path, pm); }
  };

  /// Global:: containers on a single process (the pipelined solvers need dot_async / norm2_async)
  template<typename Filter>
  struct GlobalPolicy
  {
    typedef LAFEM::VectorMirror<double, Index> Mirror;
    typedef Global::Gate<Vec, Mirror> GateT;
    typedef Global::Vector<Vec, Mirror> VecT;
    typedef Global::Matrix<Mat, Mirror, Mirror> MatT;
    typedef Global::Filter<Filter, Mirror> FilT;
    typedef Solver::IterativeSolver<VecT> ISolver;
    typedef Solver::SolverBase<VecT> PrecBase;
    static constexpr const char* tag = "Global:: ";
    Dist::Comm comm;
    std::unique_ptr<GateT> gate;
    Mat local_mat_for_prec;   // the local solvers of the Schwarz preconditioner work on the local matrix
    Filter local_filter_for_prec;
    MatT mat; FilT filter;
    GlobalPolicy(const SysDef& sys, const std::vector<char>& fixed) :
      comm(Dist::Comm::world()), gate(new GateT(comm)),
      local_mat_for_prec(make_csr(sys)), local_filter_for_prec(FilterMaker<Filter>::make(sys.n, fixed)),
      mat((gate->compile(Vec(Index(sys.n))), gate.get()), gate.get(), make_csr(sys)),
      filter(FilterMaker<Filter>::make(sys.n, fixed))
    {
    }
    void set_values(const SysDef& sys)
    {
      Mat& lm = mat.local();
      for(int i = 0; i < sys.n; ++i) for(Index k = lm.row_ptr()[i]; k < lm.row_ptr()[i + 1]; ++k)
      { lm.val()[k] = double(sys.at(i, int(lm.col_ind()[k]))); local_mat_for_prec.val()[k] = lm.val()[k]; }
    }
    VecT new_vec(int n) const { return VecT(gate.get(), Index(n)); }
    static double* raw(VecT& v) { return v.local().elements(); }
    static constexpr bool has(int s) { return s == S_PCG || s == S_PIPEPCG || s == S_GROPPPCG || s == S_RBICGSTAB; }
    std::shared_ptr<PrecBase> make_prec(int p) const
    {
      switch(p)
      {
      case P_JACOBI: return Solver::new_jacobi_precond(mat, filter);
      case P_SSOR: return Solver::new_schwarz_precond(Solver::new_ssor_precond(PreferredBackend::generic, local_mat_for_prec, local_filter_for_prec), filter);
      case P_ILU0: return Solver::new_schwarz_precond(Solver::new_ilu_precond(PreferredBackend::generic, local_mat_for_prec, local_filter_for_prec, 0), filter);
      default: return nullptr;
      }
    }
    std::shared_ptr<ISolver> make(int s, int p, int path = 0, PropertyMap* pm = nullptr) const
    {
      auto pr = make_prec(p);
      if(path == 2)
      {
        const String sec("verif");
        switch(s)
        {
        case S_PCG: return Solver::new_pcg(sec, pm, mat, filter, pr);
        case S_PIPEPCG: return Solver::new_pipepcg(sec, pm, mat, filter, pr);
        case S_GROPPPCG: return Solver::new_gropppcg(sec, pm, mat, filter, pr);
        case S_RBICGSTAB: return Solver::new_rbicgstab(sec, pm, mat, filter, pr);
        }
        return nullptr;
      }
      switch(s)
      {
      case S_PCG: return Solver::new_pcg(mat, filter, pr);
      case S_PIPEPCG: return Solver::new_pipepcg(mat, filter, pr);
      case S_GROPPPCG: return Solver::new_gropppcg(mat, filter, pr);
      case S_RBICGSTAB: return Solver::new_rbicgstab(mat, filter, pr);
      }
      return nullptr;
    }
  };

  inline bool pairing_allowed(int s, int p, const SysDef& sys)
  {
    const Traits t = traits(s);
    if(t.needs_spd && !sys.symmetric) return false;
    if(s == S_CHEBYSHEV && p != P_NONE) return false;            // has no preconditioner
    if(s == S_PCGNR && !(p == P_NONE || p == P_JACOBI)) return false;
    if((s == S_RICHARDSON || s == S_RICHARDSON1) && p == P_NONE) return false;           // plain Richardson converges only for ||I - omega A|| < 1
    if((s == S_IDRS2) && sys.n < 3) return false;                // IDR(s) needs s < n
    if((s == S_IDRS1) && sys.n < 2) return false;
    return true;
  }

  // ------------------------------------------------------------------------------------------ operations and results
  struct Limits { Index max_iter, min_iter; double tol_rel; };
  struct Op { int kind; int rhs; int x0; };  // kind 0 apply (x0 = prefill selector 0/1/2 = 0,1,NaN), kind 1 correct (x0: 1 = ones, 2 = exact solution)
  struct Result
  {
    Status st = Status::undefined; Index iters = 0; double d0 = 0, d1 = 0; std::vector<double> x; bool rhs_ok = true;
    bool same(const Result& o) const
    {
      auto eq = [](double a, double b) { return (std::isnan(a) && std::isnan(b)) || std::memcmp(&a, &b, 8) == 0; }; // NaN sign/payload is not a result
      if(!(st == o.st && iters == o.iters && eq(d0, o.d0) && eq(d1, o.d1) && x.size() == o.x.size() && rhs_ok == o.rhs_ok)) return false;
      for(size_t i = 0; i < x.size(); ++i) if(!eq(x[i], o.x[i])) return false;
      return true;
    }
    uint64_t hash() const { verif::Hash h; int s = int(st); h.pod(s).pod(iters); for(double v : x) { if(std::isnan(v)) v = std::numeric_limits<double>::quiet_NaN(); h.pod(v); } return h.get(); }
  };
  inline const char* stname(Status s)
  {
    switch(s)
    {
    case Status::undefined: return "undefined"; case Status::progress: return "progress"; case Status::success: return "success";
    case Status::aborted: return "aborted"; case Status::diverged: return "diverged"; case Status::max_iter: return "max_iter";
    case Status::stagnated: return "stagnated";
    }
    return "?";
  }
  inline std::string vstr(const std::vector<double>& v) { std::string s = "["; for(size_t i = 0; i < v.size(); ++i) { char b[40]; snprintf(b, sizeof b, "%s%.10g", i ? "," : "", v[i]); s += b; } return s + "]"; }

  // ------------------------------------------------------------------------------------------ one case
  template<typename Policy>
  struct Case
  {
    typedef typename Policy::VecT VecT;
    typedef typename Policy::ISolver ISolver;
    verif::Ctx& c;
    const SysDef& sys;
    const int s, p;
    const Limits lim;
    const std::vector<char> fixed;
    const Traits tr;
    const int n;
    Policy pol;
    std::vector<std::vector<LD>> rhs;        // right hand sides (exactly representable)
    std::vector<std::vector<LD>> xref;       // reference solutions
    std::vector<char> xref_exact;            // reference solution exactly representable and A x = b exactly
    LD cond = 1, normA = 0;
    bool cheb_interval_ok = true;
    std::string where;
    std::string key_tag;   // appended to the truthfulness keys (which history class the judged solve belongs to)
    std::vector<Op> ops;
    std::vector<Result> fresh;
    std::set<uint64_t> states;

    Case(verif::Ctx& c_, const SysDef& sys_, int s_, int p_, const Limits& l_, const std::vector<char>& fx, bool thorough) :
      c(c_), sys(sys_), s(s_), p(p_), lim(l_), fixed(fx), tr(traits(s_)), n(sys_.n), pol(sys_, fx)
    {
      for(auto q : sys.a) normA += q * q;
      normA = sqrtl(normA);
      // right hand sides: e_first_free, ones, A * x_pc (x_pc position coded => exact solution known); thorough: all e_i
      auto add_rhs = [&](std::vector<LD> b, const std::vector<LD>* exact)
      {
        for(int i = 0; i < n; ++i) if(fixed[i]) b[i] = 0.0L;   // a filtered right hand side
        std::vector<LD> x; LD cd = 1;
        if(!dense_solve(n, sys.a, fixed, b, x, cd)) return;
        cond = cd;
        rhs.push_back(b);
        if(exact) { xref.push_back(*exact); xref_exact.push_back(1); } else { xref.push_back(x); xref_exact.push_back(0); }
      };
      int ff = 0; while(ff < n && fixed[ff]) ++ff;
      { std::vector<LD> e(n, 0.0L); e[ff] = 1.0L; add_rhs(e, nullptr); }
      if(thorough) for(int i = ff + 1; i < n; ++i) if(!fixed[i]) { std::vector<LD> e(n, 0.0L); e[i] = 1.0L; add_rhs(e, nullptr); }
      if(n > 1) add_rhs(std::vector<LD>(n, 1.0L), nullptr);
      { std::vector<LD> z(n, 0.0L); add_rhs(z, &z); } // b = 0: the initial defect already ends the iteration (apply must still deliver x = 0)
      {
        std::vector<LD> xp(n), b(n, 0.0L);
        for(int i = 0; i < n; ++i) xp[i] = fixed[i] ? 0.0L : ((i & 1) ? -1.0L : 1.0L) * LD(2 + i) / 4.0L;
        for(int i = 0; i < n; ++i) { LD t = 0; for(int j = 0; j < n; ++j) t += sys.at(i, j) * xp[j]; b[i] = t; }
        add_rhs(b, &xp);
      }
    }

    /// path 0: constructor arguments + limit setters; 1: everything by setters on an object constructed with other values;
    /// 2: PropertyMap section constructor (limits and solver parameters as strings)
    std::shared_ptr<ISolver> new_solver(int path = 0)
    {
      if(path == 2)
      {
        PropertyMap pm;
        char b[64];
        pm.add_entry("max_iter", std::to_string(lim.max_iter)); pm.add_entry("min_iter", std::to_string(lim.min_iter));
        snprintf(b, sizeof b, "%.17g", lim.tol_rel); pm.add_entry("tol_rel", b);
        pm.add_entry("plot_mode", "none"); pm.add_entry("min_stag_iter", "0");
        solver_keys(s, pm);
        return pol.make(s, p, 2, &pm);
      }
      auto sv = pol.make(s, p, path, nullptr);
      if(path == 1)
      {
        // every documented setter once, with the documented default where the case does not prescribe a value
        const double eps = std::numeric_limits<double>::epsilon();
        sv->set_tol_abs(1.0 / (eps * eps)); sv->set_tol_abs_low(0.0); sv->set_div_rel(1.0 / eps); sv->set_div_abs(1.0 / (eps * eps));
        sv->set_stag_rate(0.95); sv->set_min_stag_iter(Index(0)); sv->set_plot_mode(Solver::PlotMode::none); sv->set_plot_interval(Index(1));
        sv->set_plot_name("verif"); sv->skip_defect_calc(true);
        sv->set_max_iter(Index(77)); sv->set_min_iter(Index(5)); sv->set_tol_rel(0.25); // overwritten below: the last call counts
      }
      sv->set_max_iter(lim.max_iter); sv->set_min_iter(lim.min_iter); sv->set_tol_rel(lim.tol_rel);
      return sv;
    }

    /// executes op; the vectors (rhs, start values) are taken from 'data' (default: this case), the solver and vector layout from this case
    /// how: 0 = apply()/correct() of the solver, 1 = Solver::solve(IterativeSolver&, ...), 2 = Solver::solve(SolverBase&, ...) (defect correction around apply)
    Result exec(ISolver& sv, const Op& op, const Case* data = nullptr, int how = 0)
    {
      const std::vector<std::vector<LD>>& rhs = data ? data->rhs : this->rhs;
      const std::vector<std::vector<LD>>& xref = data ? data->xref : this->xref;
      Result r;
      VecT vb(pol.new_vec(n)), vx(pol.new_vec(n));
      double* pb = Policy::raw(vb); double* px = Policy::raw(vx);
      std::vector<double> b0(n);
      for(int i = 0; i < n; ++i) { b0[i] = double(rhs[op.rhs][i]); pb[i] = b0[i]; }
      const double NaN = std::numeric_limits<double>::quiet_NaN();
      for(int i = 0; i < n; ++i)
      {
        double v = 0.0;
        if(op.kind == 0) v = (op.x0 == 0 ? 0.0 : op.x0 == 1 ? 1.0 : NaN);
        else v = fixed[i] ? 0.0 : (op.x0 == 1 ? 1.0 : double(xref[op.rhs][i]));
        px[i] = v;
      }
      if(how == 1) r.st = Solver::solve(sv, vx, vb, pol.mat, pol.filter);
      else if(how == 2) r.st = Solver::solve(static_cast<Solver::SolverBase<VecT>&>(sv), vx, vb, pol.mat, pol.filter);
      else r.st = (op.kind == 0) ? sv.apply(vx, vb) : sv.correct(vx, vb);
      r.iters = sv.get_num_iter(); r.d0 = sv.get_def_initial(); r.d1 = sv.get_def_final();
      r.x.assign(Policy::raw(vx), Policy::raw(vx) + n);
      r.rhs_ok = (std::memcmp(Policy::raw(vb), b0.data(), 8 * size_t(n)) == 0);
      c.count("transitions");
      chk(c, sv.get_status() == r.st, "solvers.get_status!=returned " + std::string(cname(s)), [&]{ return where; });
      return r;
    }

    std::string opstr(const Op& op) const
    {
      std::string t = (op.kind == 0) ? "apply(b" : "correct(x0=";
      if(op.kind == 0) t += std::to_string(op.rhs) + ", out prefilled " + (op.x0 == 0 ? "0" : op.x0 == 1 ? "1" : "NaN") + ")";
      else t += std::string(op.x0 == 1 ? "1" : "x_exact") + ", b" + std::to_string(op.rhs) + ")";
      std::vector<double> b(n); for(int i = 0; i < n; ++i) b[size_t(i)] = double(rhs[op.rhs][i]);
      return t + " b=" + vstr(b);
    }

    LD true_defect(const std::vector<LD>& b, const std::vector<double>& x) const
    {
      LD t = 0;
      for(int i = 0; i < n; ++i) { if(fixed[i]) continue; LD r = b[i]; for(int j = 0; j < n; ++j) r -= sys.at(i, j) * LD(x[j]); t += r * r; }
      return sqrtl(t);
    }

    /// the truthfulness / convergence oracle for one solve
    void judge(const Op& op, const Result& r, const std::string& ctx)
    {
      const std::string sn = cname(s);
      const std::string sv = std::string(SNAME[s]) + " precond=" + PNAME[p] + key_tag; // variant + preconditioner class: keys of the truthfulness checks
      auto why = [&]{ char b[400]; snprintf(b, sizeof b, " -> status=%s iters=%u def_init=%.6g def_final=%.6g x=", stname(r.st), unsigned(r.iters), r.d0, r.d1);
        return where + " | " + ctx + opstr(op) + b + vstr(r.x); };
      const std::vector<LD>& b = rhs[op.rhs];
      std::vector<double> x0(n, 0.0);
      if(op.kind == 1) for(int i = 0; i < n; ++i) x0[i] = fixed[i] ? 0.0 : (op.x0 == 1 ? 1.0 : double(xref[op.rhs][i]));
      const LD d0_true = true_defect(b, x0);
      bool xfinite = true; for(double v : r.x) if(!std::isfinite(v)) xfinite = false;
      LD nx = 0, nb = 0; for(double v : r.x) nx += LD(v) * v; for(auto v : b) nb += v * v; nx = sqrtl(nx); nb = sqrtl(nb);
      const LD d_true = xfinite ? true_defect(b, r.x) : std::numeric_limits<LD>::quiet_NaN();
      LD nx0 = 0; for(double v : x0) nx0 += LD(v) * v; nx0 = sqrtl(nx0);
      const LD round = 1e4L * EPS * (normA * (nx + nx0) + nb);   // rounding level of the iteration: the iterates start at the size of x0
      const bool skip_active = (lim.min_iter >= lim.max_iter); // documented: defect computation may be skipped, convergence control is off
      const Index itmax = std::max<Index>(std::max(lim.max_iter, lim.min_iter), 1);
      const double tol_abs = 1.0 / (EPS * EPS), div_rel = 1.0 / EPS;
      auto conv = [&](double d, double di) { return (d <= tol_abs) && ((d <= lim.tol_rel * di) || (d <= 0.0)); };

      c.outcome(std::string(stname(r.st)) + (r.iters == 0 ? "@0" : r.iters >= itmax ? "@limit" : "@mid"));
      chk(c, r.st != Status::undefined && r.st != Status::progress, "solvers.status-undefined " + sn, why);
      chk(c, r.rhs_ok, "solvers.rhs-modified " + sn, why);
      // filtered dofs of the solution stay at the filter value
      { bool fz = true; for(int i = 0; i < n; ++i) if(fixed[i] && !(r.x[i] == 0.0)) fz = false; chk(c, fz || !xfinite, "solvers.filtered-dof-changed " + sn, why); }
      // the reported initial defect is the true one
      chk(c, fabsl(LD(r.d0) - d0_true) <= 1e-12L * std::max(d0_true, nb) + 1e-300L, "solvers.def_initial-untrue " + sn, why);
      // the reported final defect is the true residual of the returned iterate
      // (tol_rel = 0 with status max_iter / diverged: the solver was forced to iterate far beyond convergence; the recursively updated defect of
      //  the short-recurrence methods then drifts away from b-Ax. The status claims nothing there; counted, not reported.)
      if(xfinite && lim.tol_rel == 0.0 && (r.st == Status::max_iter || r.st == Status::diverged))
      { if(!(std::isfinite(r.d1) && fabsl(LD(r.d1) - d_true) <= 1e-6L * d0_true + round)) c.count("tol_rel=0: recursive defect drifted before max_iter/diverged"); }
      else if(lim.tol_rel == 0.0 && r.st == Status::success && r.iters > 0) {} // judged below under its own key
      else if(xfinite && r.st != Status::aborted && !skip_active)
        chk(c, std::isfinite(r.d1) && fabsl(LD(r.d1) - d_true) <= 1e-6L * d0_true + round, "solvers.def_final-untrue " + sv,
          [&]{ char q[80]; snprintf(q, sizeof q, " | true residual %.6Lg", d_true); return why() + q; });
      // iteration limits
      chk(c, r.iters <= itmax, "solvers.num_iter>max_iter " + sn, why);
      switch(r.st)
      {
      case Status::success:
        if(r.iters == 0)
          chk(c, d0_true <= EPS * EPS * (1 + 1e-6L) + 0.0L || r.d0 <= EPS * EPS, "solvers.success@0-but-defect " + sn, why);
        else
        {
          if(!skip_active) chk(c, conv(r.d1, r.d0), "solvers.success-but-criterion-unmet(reported) " + sn, why);
          if(lim.tol_rel == 0.0 && !skip_active)
            // tol_rel = 0: success is only possible on an exactly vanishing reported defect; it must then be the defect of the iterate
            chk(c, xfinite && d_true <= round, std::string("solvers.tol_rel=0 success on an exactly vanishing recursive defect although b-Ax != 0 ") + SNAME[s] + key_tag,
              [&]{ char q[120]; snprintf(q, sizeof q, " | true residual %.6Lg (rounding level %.3Lg)", d_true, round); return why() + q; });
          else if(skip_active) { if(!xfinite) c.outcome("skip-active: success/max_iter with non-finite x (defect never computed)"); }
          else chk(c, xfinite && d_true <= LD(lim.tol_rel) * d0_true * (1 + 1e-6L) + 1e-6L * LD(lim.tol_rel) * d0_true + round, "solvers.success-but-true-residual-large " + sv,
            [&]{ char q[120]; snprintf(q, sizeof q, " | true residual %.6Lg > tol_rel*d0 = %.6Lg", d_true, LD(lim.tol_rel) * d0_true); return why() + q; });
          if(!tr.half_step) chk(c, r.iters >= lim.min_iter, "solvers.success-before-min_iter " + sn, why);
        }
        break;
      case Status::max_iter:
        chk(c, r.iters >= lim.max_iter && r.iters >= lim.min_iter, "solvers.max_iter-status-before-limit " + sn, why);
        if(!skip_active) chk(c, !conv(r.d1, r.d0), "solvers.max_iter-but-converged " + sn, why);
        break;
      case Status::diverged:
        chk(c, r.d1 > div_rel * r.d0 || r.d1 > tol_abs, "solvers.diverged-but-defect-small " + sn, why);
        break;
      case Status::stagnated:
        chk(c, false, "solvers.stagnated-without-stagnation-check " + sn, why); // min_stag_iter is 0 in all configurations
        break;
      default: break;
      }
      // convergence to the dense reference solution under generous limits, within the scope of the method
      const bool generous = (lim.max_iter >= 100 && lim.min_iter == 0 && lim.tol_rel > 0.0); // tol_rel = 0: only an exactly vanishing defect may be reported as success
      bool in_scope = tr.conv_scope == 2 || (tr.conv_scope == 1 && !sys.scaled);
      {
        // restarted (F)GMRES(k) is only guaranteed to converge when one cycle spans the whole space
        int nfree = 0; for(int i = 0; i < n; ++i) if(!fixed[i]) ++nfree;
        const int kdim = (s == S_FGMRES2 || s == S_GMRES2) ? 2 : 3;
        if(tr.gmres_like && nfree > kdim) in_scope = false;
      }
      if((s == S_PMR || s == S_RICHARDSON1) && !sys.symmetric) in_scope = false;
      { bool anyfix = false; for(char f : fixed) anyfix = anyfix || f; if(s == S_RICHARDSON1 && anyfix) in_scope = false; } // the preconditioners are built on the unfiltered matrix // undamped Richardson: the Jacobi/SSOR iteration itself must contract       // one-dimensional residual projection: needs a definite symmetric part of the preconditioned operator
      if(s == S_CHEBYSHEV && !cheb_interval_ok) { in_scope = false; c.count("chebyshev_power_method_interval_misses_spectrum"); }
      if(generous && in_scope && !(op.kind == 0 && op.x0 != 0))
      {
        LD ex = 0, nr = 0, e0 = 0;
        for(int i = 0; i < n; ++i) { LD e = LD(r.x[i]) - xref[op.rhs][i]; ex += e * e; nr += xref[op.rhs][i] * xref[op.rhs][i]; LD d = LD(x0[i]) - xref[op.rhs][i]; e0 += d * d; }
        ex = sqrtl(ex); nr = sqrtl(nr); e0 = sqrtl(e0);
        // ||e|| <= ||A^-1|| ||r|| <= cond * tol_rel * ||e_0||  (+ rounding level 1e-6*cond*||x_ref||)
        const bool reached = xfinite && ex <= cond * (LD(lim.tol_rel) * 1.01L * e0 + 1e-6L * std::max(nr, LD(1e-30L)));
        if(r.st == Status::success) chk(c, reached, "solvers.success-but-far-from-reference " + sv, [&]{ char q[80]; snprintf(q, sizeof q, " | ||x-x_ref||=%.4Lg cond=%.3Lg", ex, cond); return why() + q; });
        else if(tr.fragile) { if(reached) c.count("lucky_breakdowns_accepted"); else { if(std::getenv("C07_STRICT_FRAGILE")) chk(c, false, "debug.fragile " + sn, why); c.count("fragile_method_breakdown_without_convergence"); c.count(std::string("breakdown-not-converged:") + sn + ":" + stname(r.st)); c.outcome(std::string("breakdown-not-converged ") + sn); } }
        else if((tr.conv_scope == 1 || tr.gmres_like) && r.st == Status::max_iter && xfinite && d_true <= 1e-3L * d0_true) c.count("slow_stationary_method_hit_max_iter_with_1e-3_reduction");
        else chk(c, false, "solvers.no-convergence-in-scope " + sn, [&]{ char q[80]; snprintf(q, sizeof q, " | ||x-x_ref||=%.4Lg cond=%.3Lg", ex, cond); return why() + q; });
        c.count("convergence_checks");
      }
      // correct() started at the exact solution: nothing to do
      if(op.kind == 1 && op.x0 == 2 && xref_exact[op.rhs])
      {
        bool unch = true; for(int i = 0; i < n; ++i) if(r.x[i] != double(xref[op.rhs][i])) unch = false;
        chk(c, r.st == Status::success && r.iters == 0 && unch, "solvers.correct-from-exact-solution " + sn, why);
      }
    }

    /// Chebyshev: does the interval estimated by the power method of init_numeric enclose the spectrum of the (filtered) matrix?
    void check_chebyshev_interval(ISolver& sv) { check_chebyshev_interval_impl(sv, std::integral_constant<bool, Policy::has(S_CHEBYSHEV)>()); }
    void check_chebyshev_interval_impl(ISolver&, std::false_type) {}
    void check_chebyshev_interval_impl(ISolver& sv, std::true_type)
    {
      if(s != S_CHEBYSHEV) return;
      typedef Solver::Chebyshev<typename std::remove_const<decltype(pol.mat)>::type, typename std::remove_const<decltype(pol.filter)>::type> Cheb;
      auto* ch = dynamic_cast<Cheb*>(&sv);
      if(!ch) return;
      // eigenvalues of the symmetric matrix on the free dofs by cyclic Jacobi rotations
      std::vector<int> fr; for(int i = 0; i < n; ++i) if(!fixed[i]) fr.push_back(i);
      const int m = int(fr.size());
      std::vector<LD> w(size_t(m) * m);
      for(int i = 0; i < m; ++i) for(int j = 0; j < m; ++j) w[size_t(i) * m + j] = sys.at(fr[i], fr[j]);
      for(int sweep = 0; sweep < 60; ++sweep)
        for(int pp = 0; pp < m; ++pp) for(int q = pp + 1; q < m; ++q)
        {
          const LD apq = w[size_t(pp) * m + q];
          if(fabsl(apq) < 1e-30L) continue;
          const LD th = (w[size_t(q) * m + q] - w[size_t(pp) * m + pp]) / (2 * apq);
          const LD t = (th >= 0 ? 1.0L : -1.0L) / (fabsl(th) + sqrtl(th * th + 1));
          const LD cs = 1 / sqrtl(t * t + 1), sn = t * cs;
          for(int k = 0; k < m; ++k) { const LD a = w[size_t(k) * m + pp], b = w[size_t(k) * m + q]; w[size_t(k) * m + pp] = cs * a - sn * b; w[size_t(k) * m + q] = sn * a + cs * b; }
          for(int k = 0; k < m; ++k) { const LD a = w[size_t(pp) * m + k], b = w[size_t(q) * m + k]; w[size_t(pp) * m + k] = cs * a - sn * b; w[size_t(q) * m + k] = sn * a + cs * b; }
        }
      LD lmin = w[0], lmax = w[0];
      for(int i = 0; i < m; ++i) { lmin = std::min(lmin, w[size_t(i) * m + i]); lmax = std::max(lmax, w[size_t(i) * m + i]); }
      cheb_interval_ok = (LD(ch->_min_ev) <= lmin && lmax <= LD(ch->_max_ev));
    }

    void run(bool thorough) { prepare(); histories(thorough); }

    /// alphabet, fresh-object results, oracle
    void prepare()
    {
      ops.clear();
      for(int j = 0; j < int(rhs.size()); ++j)
      {
        ops.push_back(Op{0, j, 0});
        ops.push_back(Op{1, j, 1});
        if(xref_exact[j]) ops.push_back(Op{1, j, 2});
      }
      // ---- fresh results + oracle
      fresh.assign(ops.size(), Result());
      for(size_t k = 0; k < ops.size(); ++k)
      {
        auto sv = new_solver();
        sv->init();
        if(k == 0) check_chebyshev_interval(*sv);
        fresh[k] = exec(*sv, ops[k]);
        sv->done();
        judge(ops[k], fresh[k], "fresh object: ");
        states.insert(fresh[k].hash());
        // the free functions Solver::solve: the IterativeSolver overload is correct(); the SolverBase overload corrects x by apply(b - A x)
        if(ops[k].kind == 1)
        {
          { auto s4 = new_solver(); s4->init(); Result r4 = exec(*s4, ops[k], nullptr, 1); s4->done();
            chk(c, r4.same(fresh[k]), std::string("solvers.solve(IterativeSolver&)!=correct ") + cname(s), [&]{ return where + " | " + opstr(ops[k]); }); }
          { auto s5 = new_solver(); s5->init(); Result r5 = exec(*s5, ops[k], nullptr, 2); s5->done();
            if(Solver::status_success(r5.st)) judge(ops[k], r5, "Solver::solve(SolverBase&): ");
            else
            {
              bool unch = true; for(int i = 0; i < n; ++i) { const double x0i = fixed[i] ? 0.0 : (ops[k].x0 == 1 ? 1.0 : double(xref[ops[k].rhs][i])); if(r5.x[i] != x0i) unch = false; }
              chk(c, unch && r5.rhs_ok, std::string("solvers.solve(SolverBase&)-changed-x-without-success ") + cname(s), [&]{ return where + " | " + opstr(ops[k]) + " status=" + stname(r5.st) + " x=" + vstr(r5.x); });
            }
            c.count("generic_solve_calls"); }
        }
        // the same solver configured by setters / from a PropertyMap section behaves identically
        for(int path = 1; path <= 2; ++path)
        {
          auto s3 = new_solver(path); s3->init();
          Result r3 = exec(*s3, ops[k]);
          s3->done();
          chk(c, r3.same(fresh[k]), std::string("solvers.configuration-path ") + (path == 1 ? "setters " : "PropertyMap ") + cname(s), [&]{ return where + " | " + opstr(ops[k]) + ": configured by "
            + (path == 1 ? "setters" : "a PropertyMap section") + " status=" + stname(r3.st) + " iters=" + std::to_string(r3.iters) + " x=" + vstr(r3.x) + " but by constructor arguments status="
            + stname(fresh[k].st) + " iters=" + std::to_string(fresh[k].iters) + " x=" + vstr(fresh[k].x); });
          c.count("configuration_path_solves");
        }
        c.count("traces_validated_against_impl");
        if(ops[k].kind == 0)
        {
          // apply() ignores the previous content of the output vector
          for(int pf = 1; pf <= 2; ++pf)
          {
            auto s2 = new_solver(); s2->init();
            Op o2 = ops[k]; o2.x0 = pf;
            Result r2 = exec(*s2, o2);
            s2->done();
            chk(c, r2.same(fresh[k]), std::string("solvers.apply-depends-on-start-vector ") + cname(s), [&]{ return where + " | " + opstr(o2) + " gives x=" + vstr(r2.x) + " status=" + stname(r2.st)
              + " but with zero prefill x=" + vstr(fresh[k].x) + " status=" + stname(fresh[k].st); });
          }
        }
      }
    }

    /// histories on one object
    void histories(bool thorough)
    {
      auto compare = [&](const Op& op, const Result& got, const Result& ref, const std::string& hist)
      {
        if(!tr.recycles)
          chk(c, got.same(ref), std::string("solvers.history-dependence ") + cname(s), [&]{ return where + " | history: " + hist + " | last result status=" + stname(got.st) + " iters=" + std::to_string(got.iters)
            + " x=" + vstr(got.x) + " but on a fresh object status=" + stname(ref.st) + " iters=" + std::to_string(ref.iters) + " x=" + vstr(ref.x); });
        else
          judge(op, got, "history: " + hist + " | "); // recycling solver: the result may differ, but must be truthful and converge
        states.insert(got.hash());
      };
      const size_t m = ops.size();
      for(size_t i = 0; i < m; ++i) for(size_t j = 0; j < m; ++j)
      {
        for(int reinit = 0; reinit < 2; ++reinit)
        {
          auto sv = new_solver();
          sv->init();
          Result r1 = exec(*sv, ops[i]);
          std::string h = "init " + opstr(ops[i]);
          compare(ops[i], r1, fresh[i], h);
          if(reinit) { sv->done(); sv->init(); h += " done init"; }
          Result r2 = exec(*sv, ops[j]);
          h += " " + opstr(ops[j]);
          compare(ops[j], r2, fresh[j], h);
          if(thorough && !reinit)
          {
            // third operation: the first one again, and the 'next' one
            for(size_t k3 : {i, (j + 1) % m})
            {
              Result r3 = exec(*sv, ops[k3]);
              compare(ops[k3], r3, fresh[k3], h + " " + opstr(ops[k3]));
              c.count("traces_validated_against_impl");
            }
          }
          sv->done();
          c.count("traces_validated_against_impl");
        }
      }
      c.count("states", states.size());
      c.maxi("depth", thorough ? 7 : 6);
    }

    /// histories with an in-place update of the MATRIX VALUES between two solves on one solver object:
    ///   init op_i(A0) update(A0->A1) <re-init> op_j(A1)    with <re-init> in {done_numeric init_numeric, done init, init_numeric}
    /// 'upd' is the prepared case of the updated system A1 (same pattern); every second result must equal the result of a fresh
    /// solver built on A1 (anything cached from A0 - transposed matrix, eigenvalue bounds, factorisations, inverse diagonals,
    /// recycled search directions - would show up here).
    void value_update_histories(Case& upd)
    {
      const char* const RE[] = {"done_numeric init_numeric", "done init", "init_numeric"};
      std::vector<size_t> first;                      // representatives for the first operation: first apply, first correct
      for(size_t i = 0; i < ops.size() && first.size() < 2; ++i) if(first.empty() || ops[i].kind != ops[first[0]].kind) first.push_back(i);
      for(size_t i : first) for(size_t j = 0; j < upd.ops.size(); ++j) for(int re = 0; re < 3; ++re)
      {
        pol.set_values(sys);
        auto sv = new_solver();
        sv->init();
        Result r1 = exec(*sv, ops[i]);
        std::string h = "init " + opstr(ops[i]) + " update_matrix_values(" + upd.sys.name + ") " + RE[re];
        chk(c, tr.recycles || r1.same(fresh[i]), std::string("solvers.history-dependence ") + cname(s), [&]{ return where + " | history: init " + opstr(ops[i]); });
        pol.set_values(upd.sys);
        if(re == 0) { sv->done_numeric(); sv->init_numeric(); }
        else if(re == 1) { sv->done(); sv->init(); }
        else sv->init_numeric();
        Result r2 = exec(*sv, upd.ops[j], &upd);
        h += " " + upd.opstr(upd.ops[j]);
        if(!tr.recycles)
          chk(c, r2.same(upd.fresh[j]), std::string("solvers.stale-after-matrix-update ") + cname(s) + " precond=" + PNAME[p], [&]{ return where + " | history: " + h + " | result status=" + stname(r2.st)
            + " iters=" + std::to_string(r2.iters) + " x=" + vstr(r2.x) + " but a fresh solver on the updated matrix gives status=" + stname(upd.fresh[j].st) + " iters=" + std::to_string(upd.fresh[j].iters) + " x=" + vstr(upd.fresh[j].x); });
        else
        { upd.key_tag = " after-matrix-update"; upd.judge(upd.ops[j], r2, "history: " + h + " | "); upd.key_tag.clear(); }
        sv->done();
        c.count("traces_validated_against_impl");
        c.count("matrix_update_histories");
      }
      pol.set_values(sys);
    }

    /// setter calls BETWEEN two solves on one initialised object: init op_i; set_max_iter/set_min_iter/set_tol_rel (and, for BiCGStab /
    /// BiCGStabL, set_precon_variant) to the configuration of 'other'; op_j  ==  the result of a fresh solver constructed like 'other'
    void setter_histories(Case& other)
    {
      std::vector<size_t> first;
      for(size_t i = 0; i < ops.size() && first.size() < 2; ++i) if(first.empty() || ops[i].kind != ops[first[0]].kind) first.push_back(i);
      for(size_t i : first) for(size_t j = 0; j < other.ops.size(); ++j)
      {
        auto sv = new_solver();
        sv->init();
        Result r1 = exec(*sv, ops[i]);
        chk(c, tr.recycles || r1.same(fresh[i]), std::string("solvers.history-dependence ") + cname(s), [&]{ return where + " | history: init " + opstr(ops[i]); });
        sv->set_max_iter(other.lim.max_iter); sv->set_min_iter(other.lim.min_iter); sv->set_tol_rel(other.lim.tol_rel);
        if(other.s != s) switch_variant(*sv, other.s, std::integral_constant<bool, Policy::has(S_BICGSTAB_L)>());
        Result r2 = exec(*sv, other.ops[j], &other);
        char lb[120]; snprintf(lb, sizeof lb, "set_max_iter(%u) set_min_iter(%u) set_tol_rel(%g)%s", unsigned(other.lim.max_iter), unsigned(other.lim.min_iter), other.lim.tol_rel, other.s != s ? " set_precon_variant(other)" : "");
        const std::string h = "init " + opstr(ops[i]) + " " + lb + " " + other.opstr(other.ops[j]);
        if(!tr.recycles)
          chk(c, r2.same(other.fresh[j]), std::string("solvers.setters-between-solves ") + cname(s), [&]{ return where + " | history: " + h + " | result status=" + stname(r2.st) + " iters=" + std::to_string(r2.iters)
            + " x=" + vstr(r2.x) + " but a fresh solver with that configuration gives status=" + stname(other.fresh[j].st) + " iters=" + std::to_string(other.fresh[j].iters) + " x=" + vstr(other.fresh[j].x); });
        else
        { other.key_tag = " after-setters"; other.judge(other.ops[j], r2, "history: " + h + " | "); other.key_tag.clear(); }
        sv->done();
        c.count("traces_validated_against_impl");
        c.count("setter_histories");
      }
    }
    void switch_variant(ISolver&, int, std::false_type) {}
    void switch_variant(ISolver& sv, int s2, std::true_type)
    {
      typedef typename std::remove_const<decltype(pol.mat)>::type MatT; typedef typename std::remove_const<decltype(pol.filter)>::type FilT;
      const bool right = (s2 == S_BICGSTAB_R || s2 == S_BICGSTABL2_R);
      if(auto* q = dynamic_cast<Solver::BiCGStab<MatT, FilT>*>(&sv)) q->set_precon_variant(right ? Solver::BiCGStabPreconVariant::right : Solver::BiCGStabPreconVariant::left);
      else if(auto* q2 = dynamic_cast<Solver::BiCGStabL<MatT, FilT>*>(&sv)) q2->set_precon_variant(right ? Solver::BiCGStabLPreconVariant::right : Solver::BiCGStabLPreconVariant::left);
    }
  };

  /// partner variant reachable by set_precon_variant on a live object
  inline int partner_variant(int s)
  {
    switch(s)
    {
    case S_BICGSTAB_L: return S_BICGSTAB_R; case S_BICGSTAB_R: return S_BICGSTAB_L;
    case S_BICGSTABL2_L: return S_BICGSTABL2_R; case S_BICGSTABL2_R: return S_BICGSTABL2_L;
    default: return s;
    }
  }

  /// the updated system of the value-update histories: same pattern, diagonal scaled by 3/2 (keeps symmetry and definiteness)
  inline SysDef updated_system(const SysDef& a)
  {
    SysDef b(a);
    b.name = a.name + " with diag*1.5";
    for(int i = 0; i < a.n; ++i) b.a[size_t(i) * a.n + i] *= 1.5L;
    return b;
  }

  inline void poison_heap()
  {
#ifndef VERIF_ASAN
    mallopt(M_PERTURB, 0x100); // every malloc'ed byte becomes 0xff (a NaN pattern for double), freed bytes 0x00
#endif
  }

  // ------------------------------------------------------------------------------------------ enumeration
  template<typename Policy>
  void enumerate(verif::Ctx& c, bool with_filter)
  {
    poison_heap();
    const std::vector<SysDef> sysv = systems(c.thorough);
    const Index MAXIT[] = {100, 0, 1, 2};
    const Index MINIT[] = {0, 2};
    const double TOLR[] = {1e-8, 1e-2, 0.0, 1.0};   // including exactly 0 (never converged unless the defect vanishes) and exactly 1
    for(size_t si = 0; si < sysv.size(); ++si)
    {
      const SysDef& sys = sysv[si];
      // filter sets
      std::vector<std::vector<char>> fsets;
      if(!with_filter) fsets.push_back(std::vector<char>(sys.n, 0));
      else
      {
        if(sys.n < 2) continue;
        { std::vector<char> f(sys.n, 0); f[0] = 1; fsets.push_back(f); }
        { std::vector<char> f(sys.n, 0); f[sys.n - 1] = 1; fsets.push_back(f); }
        if(sys.n >= 3 && c.thorough) { std::vector<char> f(sys.n, 0); f[1] = 1; fsets.push_back(f); }
      }
      for(size_t fi = 0; fi < fsets.size(); ++fi)
      for(int s = 0; s < S_COUNT; ++s)
      for(int p = 0; p < P_COUNT; ++p)
      {
        if(!Policy::has(s) || !pairing_allowed(s, p, sys)) continue;
        for(int imx = 0; imx < 4; ++imx) for(int imn = 0; imn < 2; ++imn) for(int itr = 0; itr < 4; ++itr)
        {
          // quick tier: the tolerance 1e-2 only together with the generous limits and max_iter = 2
          if(!c.thorough && itr >= 1 && !(imx == 0 || imx == 3)) continue;
          if(!c.thorough && itr >= 2 && !(imx == 0 && imn == 0)) continue;
          if(!c.want()) continue;
          Limits lim{MAXIT[imx], MINIT[imn], TOLR[itr]};
          std::string fstr; for(int i = 0; i < sys.n; ++i) if(fsets[fi][i]) fstr += (fstr.empty() ? "" : ",") + std::to_string(i);
          char lb[120]; snprintf(lb, sizeof lb, " max_iter=%u min_iter=%u tol_rel=%g", unsigned(lim.max_iter), unsigned(lim.min_iter), lim.tol_rel);
          const std::string where = std::string(Policy::tag) + SNAME[s] + " precond=" + PNAME[p] + " filter=" + (with_filter ? "Unit{" + fstr + "}" : std::string("None")) + " A=" + sys.name + lb;
          c.desc([&]{ return where; });
          c.nontrivial(verif::Hash().str(Policy::tag).pod(with_filter).pod(si).pod(fi).pod(s).pod(p).pod(imx).pod(imn).pod(itr).get());
          Case<Policy> cs(c, sys, s, p, lim, fsets[fi], c.thorough);
          cs.where = where;
          cs.run(c.thorough);
          // value-update histories (quick: for the tolerance 1e-8 only)
          if(c.thorough || itr == 0)
          {
            const SysDef sys1 = updated_system(sys);
            Case<Policy> cu(c, sys1, s, p, lim, fsets[fi], c.thorough);
            cu.where = where + " [updated matrix]";
            cu.prepare();
            cs.value_update_histories(cu);
            // setters between two solves (other limits; BiCGStab/BiCGStabL: the other preconditioning variant); quick: min_iter = 0 cases only
            if(c.thorough || imn == 0)
            {
            const Limits lim2{lim.max_iter == Index(100) ? Index(2) : Index(100), lim.min_iter == Index(0) ? Index(2) : Index(0), lim.tol_rel == 1e-8 ? 1e-2 : 1e-8};
            const int s2 = (Policy::has(partner_variant(s)) && pairing_allowed(partner_variant(s), p, sys)) ? partner_variant(s) : s;
            Case<Policy> co(c, sys, s2, p, lim2, fsets[fi], c.thorough);
            co.where = where + " [reconfigured by setters]";
            co.prepare();
            cs.setter_histories(co);
            }
          }
          c.heartbeat();
        }
      }
    }
  }

  inline void fill_spec(verif::Spec& spec, const char* harness, const char* filt)
  {
    spec.property = "C07"; spec.harness = harness;
    spec.rule = std::string("case = (solver variant (21), preconditioner none/Jacobi/SSOR/ILU(0) within the method's scope, system matrix, max_iter, min_iter, tol_rel, filter ") + filt + "); "
      "inside a case every operation {apply(b_j) with the output pre-filled by 0/1/NaN, correct(ones,b_j), correct(x_exact,b_j)} runs on a fresh solver and is judged by a long double "
      "recomputation; then all two-operation histories with and without done/init in between (thorough: three operations) run on ONE solver object and are compared bitwise with the "
      "fresh results. All cases are non-trivial (a real solve); states = distinct (status, iterations, solution bits) observed per case";
    spec.assumptions = {
      "oracle: own dense long double residuals / Gauss-Jordan reference solution; tolerances: reported defect vs true residual 1e-6*d0 + 1e4*eps*(|A||x|+|b|); x vs x_ref cond*(tol_rel*|x0-x_ref| + 1e-6*|x_ref|)",
      "malloc'ed memory is poisoned with NaN bytes (glibc M_PERTURB / ASan malloc_fill_byte) so that reads of never-initialised solver vectors become visible",
      "IDR(s) runs with reset_shadow_space(false) (deterministic shadow space; the default seeds from time())",
      "min_iter >= max_iter switches the defect computation off by documented design (skip_defect_calc): there only status/iteration-count/history checks are made",
      "BiCGStab-type half-step exits may return success before min_iter (documented early exit); BiCG/IDR family: a non-success status under generous limits is accepted iff x reached the reference solution, otherwise counted (fragile_method_breakdown_without_convergence), not reported",
      "RGCR recycles search directions between solves by design: its histories are judged by the truthfulness oracle instead of bitwise equality",
      "convergence is required only under generous limits (max_iter 100, min_iter 0) and within scope: SPD systems for CG-type/Chebyshev, unscaled systems for Richardson/PMR/PCGNR/Chebyshev"};
    spec.deadline_quick_s = 500; spec.deadline_thorough_s = 2400;
    spec.max_report = 40; spec.max_fail_per_worker = 4000; // many distinct keys (solver x check); every key is reported at most twice per worker
  }
} // namespace c07
