// C05 (part 2) -- several objects in one checkpoint are restored to the right object.
//
// Model-checking style: explicit-state BFS over operation histories of the real Control::CheckpointControl
//   alphabet { add_object(name, slot), remove_object(name), mutate(slot), save(BinaryStream), clear_input,
//              load(BinaryStream), restore_object(name, slot, add) }
// over 3 object slots (two of them of the same type, so that a mix-up of offsets is not caught by a type mismatch)
// and the prefix-colliding names {"a","b","ab"}. A state is the history reaching it: every transition replays
// hist+[op] on fresh objects, compares the implementation with a std::map based reference model after every step,
// and is deduplicated by a canonical key of the *implementation* state (registered identifiers -> slot, content
// fingerprints of the slots, bytes of the stream, _input_array and _offset_by_identifier of the control object).
// One case = one BFS from one start configuration (slot kinds x initial registration). Additional cases: file based
// save/load through DistFileIO (serial) for every assignment of names to slots.
#include "c05_common.hpp"
#include <control/checkpoint_control.hpp>
#include <kernel/util/dist.hpp>
#include <deque>
#include <unistd.h>

using namespace c05;

namespace
{
  typedef std::uint64_t u64;

  /// a user-defined checkpointable object (the Checkpointable interface is public): raw bytes
  struct Blob
  {
    std::string bytes;
    // an upper bound, as for compressed containers: the real size is what set_checkpoint_data returns
    std::uint64_t get_checkpoint_size(LAFEM::SerialConfig&) { return bytes.size() + 5; }
    std::uint64_t set_checkpoint_data(std::vector<char>& data, LAFEM::SerialConfig&) { data.insert(data.end(), bytes.begin(), bytes.end()); return bytes.size(); }
    void restore_from_checkpoint_data(std::vector<char>& data) { bytes.assign(data.begin(), data.end()); }
  };

  // while the probe of the load(BinaryStream) off-by-one fails, blobs get a trailing zero byte (the dropped byte is
  // then invisible) so that the Blob slots stay in the explored state space
  bool g_blob_pad = false;

  enum Kind { K_DV = 0, K_CSR = 1, K_BCSR = 2, K_BLOB = 3 };
  const char* kind_name[4] = {"DenseVector", "CSR", "BCSR<2,2>", "Blob"};
  const int NVAR = 3;

  struct Slot
  {
    int kind = K_DV;
    DenseVector<double, u64> dv;
    SparseMatrixCSR<double, u64> csr;
    SparseMatrixBCSR<double, u64, 2, 2> bcsr;
    Blob blob;
    // a bystander sharing the arrays of the slot's container (shallow clone), created by the 'share' operation
    bool has_by = false;
    DenseVector<double, u64> by_dv;
    SparseMatrixCSR<double, u64> by_csr;
    SparseMatrixBCSR<double, u64, 2, 2> by_bcsr;

    void share()
    {
      has_by = true;
      switch(kind)
      {
      case K_DV: by_dv = dv.clone(CloneMode::Shallow); break;
      case K_CSR: by_csr = csr.clone(CloneMode::Shallow); break;
      case K_BCSR: by_bcsr = bcsr.clone(CloneMode::Shallow); break;
      default: break;
      }
    }
    std::string by_fp() const
    {
      if(!has_by) return "";
      switch(kind)
      {
      case K_DV: return "DV:" + vfp(by_dv).str();
      case K_CSR: return "CSR:" + vfp(by_csr).str();
      case K_BCSR: return "BCSR:" + vfp(by_bcsr).str();
      default: return "";
      }
    }

    void set_variant(int slot, int var)
    {
      std::string d;
      switch(kind)
      {
      case K_DV:
        // lengths 0, 3+slot (extreme values: +-1e300, denormals, ...), 6: different serialised sizes per slot and variant
        { const Index len[3] = {Index(0), Index(3 + slot), Index(6)}; DenseVector<double, u64> x(len[var]);
          for(Index i = 0; i < len[var]; ++i) x(i, var == 1 ? xv<double>(u64(i) * 5 + u64(slot) * 7 + 1) : pv(i, u64(10 + slot * 3 + var))); dv = std::move(x); }
        break;
      case K_CSR:
        // 2x3 with an empty row; entry-free 3x2 (no arrays); 3x3 pattern depending on the slot
        if(var == 0) csr = MakeCSR<double, u64>::from_mask(2, 3, 0x5u + u64(slot), false);
        else if(var == 1) csr = SparseMatrixCSR<double, u64>(3, 2);
        else csr = MakeCSR<double, u64>::from_mask(3, 3, 0x1a3u + 8u * u64(slot), false);
        break;
      case K_BCSR:
        { const Index vv[3] = {Index(10), Index(14 + slot), Index(3)}; bcsr = MakeBCSR<double, u64, 2, 2>::make(vv[var], false, d); }
        break;
      case K_BLOB:
        // the last byte is non-zero on purpose
        { const char* b[3] = {"Q", "hello\xff", ""}; blob.bytes = b[var]; if(var != 2) blob.bytes += char('1' + slot); if(g_blob_pad) blob.bytes += '\0'; }
        break;
      }
    }
    std::string fp() const
    {
      switch(kind)
      {
      case K_DV: return "DV:" + vfp(dv).str();
      case K_CSR: return "CSR:" + vfp(csr).str();
      case K_BCSR: return "BCSR:" + vfp(bcsr).str();
      default: { std::string s = "BLOB:"; for(unsigned char ch : blob.bytes) { char b[4]; snprintf(b, sizeof b, "%02x", ch); s += b; } return s; }
      }
    }
    void add_to(Control::CheckpointControl& cp, const String& name)
    {
      switch(kind)
      {
      case K_DV: cp.add_object(name, dv); break;
      case K_CSR: cp.add_object(name, csr); break;
      case K_BCSR: cp.add_object(name, bcsr); break;
      default: cp.add_object(name, blob); break;
      }
    }
    void restore_from(Control::CheckpointControl& cp, const String& name, bool add)
    {
      switch(kind)
      {
      case K_DV: cp.restore_object(name, dv, add); break;
      case K_CSR: cp.restore_object(name, csr, add); break;
      case K_BCSR: cp.restore_object(name, bcsr, add); break;
      default: cp.restore_object(name, blob, add); break;
      }
    }
    const void* address() const
    {
      switch(kind)
      {
      case K_DV: return &dv;
      case K_CSR: return &csr;
      case K_BCSR: return &bcsr;
      default: return &blob;
      }
    }
  };

  const char* NAMES[3] = {"a", "b", "ab"};

  // operations
  enum OpKind { O_ADD, O_REMOVE, O_MUTATE, O_SAVE, O_CLEAR, O_LOAD, O_RESTORE, O_SHARE };
  struct Op { OpKind k; int name; int slot; bool add; };
  std::string op_str(const Op& o)
  {
    switch(o.k)
    {
    case O_ADD: return std::string("add(") + NAMES[o.name] + ",s" + std::to_string(o.slot) + ")";
    case O_REMOVE: return std::string("remove(") + NAMES[o.name] + ")";
    case O_MUTATE: return "mutate(s" + std::to_string(o.slot) + ")";
    case O_SAVE: return "save";
    case O_CLEAR: return "clear_input";
    case O_LOAD: return "load";
    case O_SHARE: return "share(s" + std::to_string(o.slot) + ")";
    default: return std::string("restore(") + NAMES[o.name] + ",s" + std::to_string(o.slot) + (o.add ? ",add)" : ",noadd)");
    }
  }

  typedef std::map<std::string, std::pair<int, std::string>> Snapshot; // name -> (kind, content fingerprint)

  /// the boring reference model
  struct Model
  {
    int kind[3];
    int var[3];
    std::string content[3];          // expected content fingerprint of each slot
    std::map<std::string, int> reg;  // registered identifier -> slot
    bool has_stream = false;
    Snapshot stream;
    bool loaded = false;
    Snapshot input;
    bool allow_empty_load = false;
    std::string by[3];               // content of the bystander of each slot ("" = none)
    // model-level history bits that enter the dedup key (a defective implementation could cache behind an identical state)
    bool stale = false;              // registration or registered content changed since the last save
    int nloads = 0;                  // loads so far, capped at 2
    bool restored = false;           // a restore happened since the last load   // loading a checkpoint without objects (only while the probe of that class passes)

    bool enabled(const Op& o) const
    {
      switch(o.k)
      {
      case O_ADD: return reg.count(NAMES[o.name]) == 0;
      case O_REMOVE: return reg.count(NAMES[o.name]) == 1;
      case O_MUTATE: case O_SAVE: case O_CLEAR: return true;
      case O_SHARE: return kind[o.slot] != K_BLOB && by[o.slot].empty();
      case O_LOAD: return has_stream && (allow_empty_load || !stream.empty()) && !loaded;
      case O_RESTORE:
        {
          if(!loaded) return false;
          auto it = input.find(NAMES[o.name]);
          if(it == input.end() || it->second.first != kind[o.slot]) return false;
          if(o.add && reg.count(NAMES[o.name]) != 0) return false;
          return true;
        }
      }
      return false;
    }
  };

  /// the real thing
  struct Impl
  {
    Dist::Comm comm;
    Control::CheckpointControl cp;
    Slot slot[3];
    BinaryStream bs;
    bool saved = false;
    Impl() : comm(Dist::Comm::world()), cp(comm, LAFEM::SerialConfig(false, false)) {}
    /// configuration through the setter instead of the constructor argument
    explicit Impl(bool) : comm(Dist::Comm::world()), cp(comm)
    {
      LAFEM::SerialConfig cfg;
      cfg.set_elements_compression(LAFEM::CompressionModes::elements_off);
      cfg.set_indices_compression(LAFEM::CompressionModes::indices_off);
      cp.set_config(cfg);
    }

    int slot_of(const std::string& name)
    {
      auto it = cp._checkpointable_by_identifier.find(name);
      if(it == cp._checkpointable_by_identifier.end()) return -1;
      Control::Checkpointable* p = it->second.get();
      const void* obj = nullptr;
      if(auto w = dynamic_cast<Control::CheckpointableWrapper<DenseVector<double, u64>>*>(p)) obj = &w->_object;
      else if(auto w2 = dynamic_cast<Control::CheckpointableWrapper<SparseMatrixCSR<double, u64>>*>(p)) obj = &w2->_object;
      else if(auto w3 = dynamic_cast<Control::CheckpointableWrapper<SparseMatrixBCSR<double, u64, 2, 2>>*>(p)) obj = &w3->_object;
      else if(auto w4 = dynamic_cast<Control::CheckpointableWrapper<Blob>*>(p)) obj = &w4->_object;
      for(int s = 0; s < 3; ++s) if(slot[s].address() == obj) return s;
      return -2;
    }
    /// canonical key of the implementation state
    std::string key()
    {
      std::string k;
      for(int s = 0; s < 3; ++s) { k += slot[s].fp(); k += "|"; }
      for(auto& it : cp._checkpointable_by_identifier) { k += it.first; k += "->"; k += std::to_string(slot_of(it.first)); k += ","; }
      k += "|S";
      k += std::to_string(verif::Hash().bytes(bs.container().data(), bs.container().size()).get());
      k += "|I";
      for(int s = 0; s < 3; ++s) { k += slot[s].by_fp(); k += "|"; }
      k += std::to_string(cp._input_array.size()); k += ":";
      k += std::to_string(verif::Hash().bytes(cp._input_array.data(), cp._input_array.size()).get());
      for(auto& it : cp._offset_by_identifier) { k += it.first; k += "@"; k += std::to_string(it.second); k += ","; }
      return k;
    }
  };

  /// independent parse of a saved stream: [u64 total] { [u64 idlen][id][u64 datalen][data] }*
  bool parse_stream(const std::vector<char>& b, std::vector<std::pair<std::string, u64>>& out, std::string& err)
  {
    out.clear();
    if(b.size() < 8) { err = "stream shorter than its length field"; return false; }
    u64 total; memcpy(&total, b.data(), 8);
    if(total != b.size() - 8) { err = "length field " + std::to_string(total) + " != stream size-8 " + std::to_string(b.size() - 8); return false; }
    size_t i = 8;
    while(i < b.size())
    {
      if(i + 8 > b.size()) { err = "truncated identifier length"; return false; }
      u64 il; memcpy(&il, b.data() + i, 8); i += 8;
      if(i + il + 8 > b.size()) { err = "truncated identifier"; return false; }
      std::string id(b.data() + i, il); i += il;
      u64 dl; memcpy(&dl, b.data() + i, 8); i += 8;
      if(i + dl > b.size()) { err = "data of '" + id + "' exceeds the stream"; return false; }
      out.push_back({id, dl}); i += dl;
    }
    return true;
  }

  std::string scratch_file()
  {
    std::string dir = verif::detail::getenv_s("VERIF_SCRATCH", verif::detail::verif_root() + "/build/scratch") + "/c05_checkpoint";
    std::string cmd = "mkdir -p '" + dir + "'";
    if(system(cmd.c_str()) != 0) {}
    return dir + "/p" + std::to_string(getpid());
  }

  int probe(const std::function<bool()>& f)
  {
    fflush(stdout); fflush(stderr);
    pid_t p = fork();
    if(p < 0) return 2;
    if(p == 0)
    {
      int dn = open("/dev/null", O_WRONLY);
      if(dn >= 0) { dup2(dn, 2); dup2(dn, 1); }
      alarm(20);
      bool ok = f();
      _exit(ok ? 0 : 7);
    }
    int st = 0;
    while(waitpid(p, &st, 0) < 0) {}
    if(WIFEXITED(st) && WEXITSTATUS(st) == 0) return 0;
    if(WIFEXITED(st) && WEXITSTATUS(st) == 7) return 1;
    return 2;
  }
  const char* probe_txt(int s) { return s == 0 ? "ok" : (s == 1 ? "wrong result" : "abort/crash"); }

  const char* KEY_LASTBYTE = "checkpoint.load(BinaryStream) drops the last byte of the checkpoint (std::copy(buffer+8, buffer+8+size-1, ...)): a user-defined Checkpointable saved last is restored with its final byte zeroed";
  const char* KEY_EMPTY_CP = "checkpoint.load(BinaryStream) of a checkpoint without objects copies a negative range (size-1 with size 0)";
}

int main(int argc, char** argv)
{
  Runtime::ScopeGuard guard(argc, argv);
  verif::Spec spec; spec.property = "C05"; spec.harness = "c05_checkpoint";
  spec.rule = "one case = one BFS over CheckpointControl histories from one start configuration (kinds of the 3 slots x which names are registered initially), states deduplicated on the "
    "implementation key (slot and bystander contents, identifier->slot map, stream bytes, _input_array, _offset_by_identifier) extended by model-level history bits (changed-since-save, number of loads capped at 2, restored-since-load); plus one case per (slot kinds, assignment of the 3 names to slots) for the "
    "file based save/load. Non-trivial: every distinct implementation state reached by >= 1 operation; every file case with >= 1 registered object.";
  spec.bounds_quick = "slot kind triples {DV,DV,CSR},{CSR,CSR,DV},{BCSR,DV,BCSR},{Blob,Blob,DV},{DV,CSR,Blob}; names {a,b,ab}; 3 content variants per slot (different serialised sizes, incl. length 0, "
    "entry-free, empty rows); alphabet add/remove/mutate/share(bystander shallow clone)/save/clear_input/load/restore(add|noadd); depth <= 5; file cases: all 4^3 assignments per triple";
  spec.bounds_thorough = "as quick with depth <= 7";
  spec.assumptions = {
    "reference model = std::map<name, (kind, content fingerprint)> for stream and loaded input, std::map<name, slot> for the registration; fingerprints are read from the raw arrays",
    "not generated (asserted preconditions of the API): add of a registered name, remove of an unknown name, load while input is loaded or before any save (loading a saved checkpoint without objects is generated), restore without loaded input / "
    "of an unknown name / with add=true for a registered name, restore into an object of another type than the one saved (not detectable by the format: all containers use fm_binary)",
    "serial build: Dist::Comm::world() without MPI; zlib/zfp configurations not available"};
  spec.max_samples = 8;

  return verif::run(spec, argc, argv, [&](verif::Ctx& c) {
    const int kinds[5][3] = {{K_DV, K_DV, K_CSR}, {K_CSR, K_CSR, K_DV}, {K_BCSR, K_DV, K_BCSR}, {K_BLOB, K_BLOB, K_DV}, {K_DV, K_CSR, K_BLOB}};
    const size_t depth = c.thorough ? 7 : 5;

    // ---- probe: empty checkpoint
    const int hz_empty = probe([]{
      Dist::Comm comm(Dist::Comm::world());
      Control::CheckpointControl cp(comm, LAFEM::SerialConfig(false, false));
      BinaryStream bs; cp.save(bs); bs.seekg(0); cp.load(bs);
      return cp._input_array.size() == 0; });
    const int hz_last = probe([]{
      Dist::Comm comm(Dist::Comm::world());
      Control::CheckpointControl cp(comm, LAFEM::SerialConfig(false, false));
      Blob x; x.bytes = "Q1"; cp.add_object(String("a"), x);
      BinaryStream bs; cp.save(bs); bs.seekg(0); cp.load(bs);
      Blob y; cp.restore_object(String("a"), y, false);
      return y.bytes == "Q1"; });
    g_blob_pad = (hz_last != 0);
    if(c.want())
    {
      c.desc([]{ return std::string("probe: one user-defined Checkpointable with bytes 'Q1': add_object; save(BinaryStream); load(BinaryStream); restore_object"); });
      c.check(hz_last == 0, KEY_LASTBYTE, [&]{ return std::string(probe_txt(hz_last)); });
    }
    if(c.want())
    {
      c.desc([]{ return std::string("probe: CheckpointControl without objects: save(BinaryStream); load(BinaryStream)"); });
      c.check(hz_empty == 0, KEY_EMPTY_CP, [&]{ return std::string(probe_txt(hz_empty)); });
    }

    // the alphabet
    std::vector<Op> ops;
    for(int n = 0; n < 3; ++n) for(int s = 0; s < 3; ++s) ops.push_back({O_ADD, n, s, false});
    for(int n = 0; n < 3; ++n) ops.push_back({O_REMOVE, n, 0, false});
    for(int s = 0; s < 3; ++s) ops.push_back({O_MUTATE, 0, s, false});
    ops.push_back({O_SAVE, 0, 0, false});
    ops.push_back({O_CLEAR, 0, 0, false});
    ops.push_back({O_LOAD, 0, 0, false});
    for(int s = 0; s < 3; ++s) ops.push_back({O_SHARE, 0, s, false});
    for(int n = 0; n < 3; ++n) for(int s = 0; s < 3; ++s) { ops.push_back({O_RESTORE, n, s, false}); ops.push_back({O_RESTORE, n, s, true}); }

    for(int cfg = 0; cfg < 5; ++cfg) for(int init = 0; init < 8; ++init)
    {
      if(!c.want()) continue;
      c.desc([&]{ return std::string("BFS slots {") + kind_name[kinds[cfg][0]] + "," + kind_name[kinds[cfg][1]] + "," + kind_name[kinds[cfg][2]] + "} initial registration mask " + std::to_string(init)
        + " (bit n: name n registered to slot n)"; });

      // replays a history on fresh objects; validates against the model after every step
      auto replay = [&](const std::vector<int>& hist, Model& m, std::string& key, bool& enabled_last) -> bool
      {
        Impl im;
        for(int s = 0; s < 3; ++s) { im.slot[s].kind = kinds[cfg][s]; m.kind[s] = kinds[cfg][s]; m.var[s] = 0; im.slot[s].set_variant(s, 0); m.content[s] = im.slot[s].fp(); }
        m.allow_empty_load = (hz_empty == 0);
        for(int s = 0; s < 3; ++s) m.by[s].clear();
        m.stale = false; m.nloads = 0; m.restored = false;
        m.reg.clear(); m.has_stream = false; m.stream.clear(); m.loaded = false; m.input.clear();
        for(int n = 0; n < 3; ++n) if(init & (1 << n)) { im.slot[n].add_to(im.cp, NAMES[n]); m.reg[NAMES[n]] = n; }
        enabled_last = true;
        auto hist_str = [&]{ std::string s; for(int h : hist) s += op_str(ops[size_t(h)]) + ";"; return s; };
        for(size_t step = 0; step <= hist.size(); ++step)
        {
          if(step > 0)
          {
            const Op& o = ops[size_t(hist[step - 1])];
            if(!m.enabled(o)) { enabled_last = false; return false; }
            switch(o.k)
            {
            case O_ADD: im.slot[o.slot].add_to(im.cp, NAMES[o.name]); m.reg[NAMES[o.name]] = o.slot; m.stale = true; break;
            case O_REMOVE: im.cp.remove_object(NAMES[o.name]); m.reg.erase(NAMES[o.name]); m.stale = true; break;
            case O_SHARE: im.slot[o.slot].share(); m.by[o.slot] = m.content[o.slot]; break;
            case O_MUTATE: m.stale = true; m.var[o.slot] = (m.var[o.slot] + 1) % NVAR; im.slot[o.slot].set_variant(o.slot, m.var[o.slot]); m.content[o.slot] = im.slot[o.slot].fp(); break;
            case O_SAVE:
              {
                im.bs.clear();
                im.cp.save(im.bs);
                m.has_stream = true; m.stream.clear(); m.stale = false;
                for(auto& r : m.reg) m.stream[r.first] = {m.kind[r.second], m.content[r.second]};
                // layout of the written stream
                std::vector<std::pair<std::string, u64>> entries; std::string err;
                bool ok = parse_stream(im.bs.container(), entries, err);
                if(ok)
                {
                  if(entries.size() != m.stream.size()) { ok = false; err = "number of entries"; }
                  size_t k = 0;
                  for(auto& e : m.stream) { if(ok && entries[k].first != e.first) { ok = false; err = "identifier order/name: " + entries[k].first + " vs " + e.first; } ++k; }
                }
                c.check(ok, "checkpoint.save stream layout", [&]{ return err + " after " + hist_str(); });
              }
              break;
            case O_CLEAR: im.cp.clear_input(); m.loaded = false; m.input.clear(); break;
            case O_LOAD: im.bs.seekg(0); im.cp.load(im.bs); m.loaded = !m.stream.empty(); m.input = m.stream; m.nloads = std::min(2, m.nloads + 1); m.restored = false; break;
            case O_RESTORE:
              im.slot[o.slot].restore_from(im.cp, NAMES[o.name], o.add);
              m.content[o.slot] = m.input[NAMES[o.name]].second; m.stale = true; m.restored = true;
              if(o.add) m.reg[NAMES[o.name]] = o.slot;
              break;
            }
          }
          // compare implementation and model (after the last two steps: earlier prefixes were validated when they were expanded)
          if(step + 2 >= hist.size() + 1)
          {
            bool ok = true; std::string err;
            for(int s = 0; s < 3 && ok; ++s) if(im.slot[s].fp() != m.content[s]) { ok = false; err = "slot " + std::to_string(s) + " holds " + im.slot[s].fp() + " expected " + m.content[s]; }
            for(int s = 0; s < 3 && ok; ++s) if(im.slot[s].by_fp() != m.by[s]) { ok = false; err = "a container sharing the former arrays of slot " + std::to_string(s) + " changed: " + im.slot[s].by_fp() + " expected " + m.by[s]; }
            std::string ids;
            for(auto& r : m.reg) { if(!ids.empty()) ids += "\n"; ids += r.first; }
            if(ok && im.cp.get_identifier_list() != ids) { ok = false; err = "identifier list '" + im.cp.get_identifier_list() + "' expected '" + ids + "'"; }
            for(auto& r : m.reg) if(ok && im.slot_of(r.first) != r.second) { ok = false; err = "identifier " + r.first + " bound to slot " + std::to_string(im.slot_of(r.first)) + " expected " + std::to_string(r.second); }
            if(ok && (im.cp._input_array.size() > 0) != m.loaded) { ok = false; err = "loaded flag"; }
            if(ok && m.loaded)
            {
              if(im.cp._offset_by_identifier.size() != m.input.size()) { ok = false; err = "number of loaded identifiers"; }
              for(auto& e : m.input) if(ok && im.cp._offset_by_identifier.count(e.first) != 1) { ok = false; err = "loaded identifier " + e.first + " missing"; }
            }
            if(ok && !m.loaded && !im.cp._offset_by_identifier.empty()) { ok = false; err = "offsets survive clear_input"; }
            if(!ok)
            {
              const std::string lastop = step > 0 ? op_str(ops[size_t(hist[step - 1])]) : std::string("init");
              std::string opk = lastop.substr(0, lastop.find('('));
              c.check(false, "checkpoint." + opk + ": implementation differs from the reference model", [&]{ return err + " after " + hist_str(); });
              return false;
            }
          }
        }
        key = im.key() + "|M" + (m.stale ? "s" : "-") + std::to_string(m.nloads) + (m.restored ? "r" : "-");
        return true;
      };

      std::set<std::string> seen;
      std::deque<std::vector<int>> frontier;
      {
        Model m; std::string key; bool en;
        if(replay({}, m, key, en)) { seen.insert(key); frontier.push_back({}); c.count("states"); }
      }
      size_t maxdepth = 0;
      while(!frontier.empty() && !c.cut())
      {
        std::vector<int> hist = frontier.front(); frontier.pop_front();
        c.heartbeat();
        if(hist.size() >= depth) continue;
        // which operations are enabled in the model state reached by hist
        Model mh; std::string kh; bool en;
        if(!replay(hist, mh, kh, en)) continue;
        for(int oi = 0; oi < int(ops.size()); ++oi)
        {
          if(!mh.enabled(ops[size_t(oi)])) { c.count("disabled_ops_skipped"); continue; }
          std::vector<int> h2 = hist; h2.push_back(oi);
          Model m; std::string key;
          bool ok = replay(h2, m, key, en);
          c.count("transitions");
          c.count("traces_validated_against_impl");
          if(!ok) continue;
          if(seen.insert(key).second)
          {
            c.count("states");
            frontier.push_back(h2);
            maxdepth = std::max(maxdepth, h2.size());
            c.nontrivial(verif::Hash().pod(cfg).pod(init).str(key).get());
          }
        }
      }
      c.maxi("depth", maxdepth);
      c.outcome("bfs");
    }

    // ---- file based save / load (DistFileIO, serial): every assignment of the names to the slots
    for(int cfg = 0; cfg < 5; ++cfg) for(int asg = 0; asg < 64; ++asg) for(int var = 0; var < NVAR; ++var)
    {
      if(!c.want()) continue;
      c.desc([&]{ return std::string("file save/load slots {") + kind_name[kinds[cfg][0]] + "," + kind_name[kinds[cfg][1]] + "," + kind_name[kinds[cfg][2]] + "} assignment " + std::to_string(asg)
        + " (base-4 digit n: 0 = name n unused, k = slot k-1) variant " + std::to_string(var); });
      int to_slot[3]; int nreg = 0;
      for(int n = 0; n < 3; ++n) { to_slot[n] = ((asg >> (2 * n)) & 3) - 1; if(to_slot[n] >= 0) ++nreg; }
      const std::string fn = scratch_file() + ".cp";
      if(nreg == 0)
      {
        if(var != 0) continue;
        Impl a0, b0;
        a0.cp.save(fn);
        b0.cp.load(fn);
        c.check(b0.cp._input_array.empty() && b0.cp._offset_by_identifier.empty(), "checkpoint.file without objects", "");
        unlink(fn.c_str());
        c.count("file_checkpoints");
        continue;
      }
      Impl a_ctor, a_set(true);
      Impl& a = (var == 1) ? a_set : a_ctor; // variant 1: control configured by set_config()
      for(int s = 0; s < 3; ++s) { a.slot[s].kind = kinds[cfg][s]; a.slot[s].set_variant(s, (var + s) % NVAR); }
      for(int n = 0; n < 3; ++n) if(to_slot[n] >= 0) a.slot[to_slot[n]].add_to(a.cp, NAMES[n]);
      a.cp.save(fn);
      {
        // the BinaryStream written by a control configured the other way is byte-identical
        Impl& o = (var == 1) ? a_ctor : a_set;
        for(int s = 0; s < 3; ++s) { o.slot[s].kind = kinds[cfg][s]; o.slot[s].set_variant(s, (var + s) % NVAR); }
        for(int n = 0; n < 3; ++n) if(to_slot[n] >= 0) o.slot[to_slot[n]].add_to(o.cp, NAMES[n]);
        a.cp.save(a.bs); o.cp.save(o.bs);
        c.check(a.bs.container() == o.bs.container(), "checkpoint.set_config: stream differs from the one of a constructor-configured control", "");
      }
      Impl b;
      for(int s = 0; s < 3; ++s) { b.slot[s].kind = kinds[cfg][s]; b.slot[s].set_variant(s, (var + s + 1) % NVAR); }
      b.cp.load(fn);
      // restore in reverse name order into the slots of the second control
      for(int n = 2; n >= 0; --n) if(to_slot[n] >= 0)
      {
        b.slot[to_slot[n]].set_variant(to_slot[n], (var + to_slot[n] + 1) % NVAR);
        b.slot[to_slot[n]].restore_from(b.cp, NAMES[n], true);
        c.check(b.slot[to_slot[n]].fp() == a.slot[to_slot[n]].fp(), "checkpoint.file restore differs", [&]{ return std::string(NAMES[n]) + ": " + b.slot[to_slot[n]].fp() + " expected " + a.slot[to_slot[n]].fp(); });
        c.check(b.slot_of(NAMES[n]) == to_slot[n], "checkpoint.file restore registered the wrong object", "");
      }
      unlink(fn.c_str());
      c.count("file_checkpoints");
      c.nontrivial(verif::Hash().str("file").pod(cfg).pod(asg).pod(var).get());
      c.outcome("file");
    }
  });
}
