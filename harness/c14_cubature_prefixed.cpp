// C14 -- same enumeration with the tensor:/scalar: name prefixes switched on (configuration of tools/cub_list).
#define FEAT_CUBATURE_TENSOR_PREFIX 1
#define FEAT_CUBATURE_SCALAR_PREFIX 1
#define C14_HARNESS_NAME "c14_cubature_prefixed"
#include "c14_body.hpp"
int main(int argc, char** argv) { return c14::main_(argc, argv); }
