// C16 assembly entry points on already structured / filled objects, tetra/hexa; see c16_history_impl.hpp.
#include <c16_history_impl.hpp>
int main(int argc, char** argv) { return c16h::history_main<true>(argc, argv, "c16_history3d"); }
