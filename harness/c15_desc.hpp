// c15_desc.hpp -- harness-side descriptions ("specification tables") of the FEAT element families: DOFs per entity,
// local polynomial spaces, capabilities, conformity class. These tables are the oracle side of C15; they are written
// from the mathematical definition of the families, not derived from FEAT code at run time.
#pragma once
#include <c15_core.hpp>

namespace c15
{
  /// defaults shared by all descriptors
  struct DescBase
  {
    template<typename Shape_> static constexpr bool has_grad() { return true; }
    template<typename Shape_> static constexpr bool has_hess() { return false; }
    static constexpr bool has_node_func() { return true; }
    static constexpr bool linearised_local_space() { return false; }
    static constexpr bool affine_only() { return false; }
    template<typename Checker_, typename Space_, typename Geoms_> static void extra(Checker_&, const Space_&, const Geoms_&) {}
    static Conformity conformity() { return conf_h1; }
    template<typename Shape_> static int qk() { return -1; }
    template<typename Shape_> static bool qk_is_complete() { return false; }
    template<typename Shape_> static bool pk_is_complete() { return false; }
    template<typename Shape_> static std::vector<Poly<Shape_::dimension>> extra_base_space() { return {}; }
  };

  /// P_k (simplex) or Q_k (hypercube) monomials in reference coordinates
  template<typename Shape_>
  std::vector<Poly<Shape_::dimension>> ref_pk_or_qk(int k)
  {
    constexpr int D = Shape_::dimension;
    if(ShapeInfo<Shape_>::is_simplex) return monomials<D>(exps_total_degree<D>(k));
    return monomials<D>(exps_max_degree<D>(k));
  }

  /// standard Lagrange-type descriptor of degree K_
  template<int K_>
  struct DescLagrangeBase : DescBase
  {
    template<typename Shape_> static int degree() { return K_; }
    template<typename Shape_> static int pk() { return K_; }
    template<typename Shape_> static int qk() { return ShapeInfo<Shape_>::is_simplex ? -1 : K_; }
    template<typename Shape_> static bool qk_is_complete() { return true; }
    template<typename Shape_> static bool pk_is_complete() { return true; }
    template<typename Shape_> static std::vector<Poly<Shape_::dimension>> ref_space() { return ref_pk_or_qk<Shape_>(K_); }
  };
} // namespace c15
