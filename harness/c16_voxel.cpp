// C16 (voxel route, variant omp): VoxelPoissonAssembler / VoxelDefoAssembler / VoxelBurgersAssembler (Q2 on quads and
// hexas) against the classic assemblers and the harness polynomial integrator, with 1 and 4 OpenMP threads. The
// colouring is computed by the harness (greedy over vertex-adjacent cells), so every mesh of the c16 family is usable.
#include <c16_blocked_impl.hpp>
#include <c16_history_impl.hpp>

#include <kernel/backend.hpp>
#include <kernel/voxel_assembly/burgers_assembler.hpp>
#include <kernel/voxel_assembly/defo_assembler.hpp>
#include <kernel/voxel_assembly/poisson_assembler.hpp>

#ifdef _OPENMP
#include <omp.h>
#endif

using namespace FEAT;
using namespace c16;
using namespace c16b;

namespace
{
  /// greedy colouring: cells sharing a vertex get different colours
  template<typename Mesh_>
  std::vector<int> greedy_coloring(const Mesh_& mesh)
  {
    constexpr int D = Mesh_::shape_dim;
    const auto& vc = mesh.template get_index_set<D, 0>();
    const Index nc = mesh.get_num_entities(D);
    std::vector<std::vector<Index>> cells_at_vertex(mesh.get_num_entities(0));
    for(Index k = 0; k < nc; ++k) for(int i = 0; i < vc.num_indices; ++i) cells_at_vertex[vc(k, i)].push_back(k);
    std::vector<int> col(nc, -1);
    for(Index k = 0; k < nc; ++k)
    {
      std::set<int> used;
      for(int i = 0; i < vc.num_indices; ++i) for(Index l : cells_at_vertex[vc(k, i)]) if(col[l] >= 0) used.insert(col[l]);
      int cc = 0; while(used.count(cc)) ++cc;
      col[k] = cc;
    }
    return col;
  }

  template<typename Shape_>
  struct VoxelChecker
  {
    static constexpr int D = Shape_::dimension;
    typedef BlockChecker<Shape_, VL2, VL1> Base;
    typedef typename Base::VeloSpace SpaceType;
    Base base;
    verif::Ctx& c;
    MeshCtx<Shape_>& mc;
    std::string kp;
    std::vector<int> coloring;

    VoxelChecker(verif::Ctx& c_, MeshCtx<Shape_>& mc_) : base(c_, mc_), c(c_), mc(mc_)
    {
      kp = std::string(ShapeInfo<Shape_>::name()) + " voxel";
      coloring = greedy_coloring(*mc.mesh);
    }

    void run(int nthreads)
    {
#ifdef _OPENMP
      omp_set_num_threads(nthreads);
#else
      (void)nthreads;
#endif
      const std::string kt = kp; // thread count is an input, not part of the key
      const int extra = mc.affine ? 0 : D - 1;
      const String cn = String("gauss-legendre:") + stringify((6 + extra) / 2 + 1);
      Cubature::DynamicFactory cf(cn);
      auto& velo = base.velo;
      // ---------------------------------------------------------------- negatively oriented cells
      // The voxel kernels weight with the signed Jacobian determinant (classic assemblers: absolute value); voxel meshes
      // are positively oriented by construction, so meshes with mirrored cells are excluded (and counted).
      {
        bool negative = false;
        for(auto& g : mc.geoms)
        {
          std::array<LD, D> ctr; ctr.fill(LD(0));
          negative = negative || (g.det.eval(ctr) < 0);
        }
        if(negative)
        {
          // out of scope: the voxel assemblers are defined for voxel meshes, which are positively oriented by construction
          c.excluded("voxel route on negatively oriented cells");
          return;
        }
      }
      // ---------------------------------------------------------------- existing contents (see c16_history_impl.hpp): all voxel routes accumulate
      if(nthreads == 1)
      {
        using c16h::history; using c16h::ACC;
        const std::string kh = kp + " history ";
        auto mk_csr = [&]{ CSR m; Assembly::SymbolicAssembler::assemble_matrix_std1(m, velo); m.format(); return m; };
        auto mk_bcsr = [&]{ BCSR<D, D> m; Assembly::SymbolicAssembler::assemble_matrix_std1(m, velo); m.format(); return m; };
        auto mk_bvec = [&]{ BVec<D> v(velo.get_num_dofs()); v.format(); return v; };
        const BVec<D>& vv = base.vu.back();
        const BVec<D>& primal = base.vu[base.vu.size() / 2];
        VoxelAssembly::VoxelPoissonAssembler<SpaceType, double, Index> vp(velo, coloring, -1);
        history(c, kh + "voxel.poisson", ACC, mk_csr, [&](CSR& m) { vp.assemble_matrix1(m, velo, cf, 0.75); });
        VoxelAssembly::VoxelDefoAssembler<SpaceType, double, Index> vd(velo, coloring, -1);
        vd.nu = 0.625;
        history(c, kh + "voxel.defo", ACC, mk_bcsr, [&](BCSR<D, D>& m) { vd.assemble_matrix1(m, velo, cf, 1.25); });
        VoxelAssembly::VoxelBurgersAssembler<SpaceType, double, Index> vb(velo, coloring, -1);
        vb.deformation = true; vb.nu = 0.5; vb.theta = 2.0; vb.beta = 1.5; vb.frechet_beta = 0.25;
        history(c, kh + "voxel.burgers-matrix", ACC, mk_bcsr, [&](BCSR<D, D>& m) { vb.assemble_matrix1(m, vv, velo, cf, 1.25); });
        VoxelAssembly::VoxelBurgersAssembler<SpaceType, double, Index> vb2(velo, coloring, -1);
        vb2.deformation = true; vb2.nu = 0.5; vb2.theta = 2.0; vb2.beta = 1.5;
        history(c, kh + "voxel.burgers-vector", ACC, mk_bvec, [&](BVec<D>& r) { vb2.assemble_vector(r, vv, primal, velo, cf, 1.25); });
      }
      // ---------------------------------------------------------------- Poisson
      {
        CSR A, B;
        Assembly::SymbolicAssembler::assemble_matrix_std1(A, velo);
        B = A.clone(LAFEM::CloneMode::Layout);
        A.format(); B.format();
        Assembly::Common::LaplaceOperator lap;
        Assembly::BilinearOperatorAssembler::assemble_matrix1(A, lap, velo, cf, 0.75);
        VoxelAssembly::VoxelPoissonAssembler<SpaceType, double, Index> va(velo, coloring, -1);
        va.assemble_matrix1(B, velo, cf, 0.75);
        c.count("voxel_matrices");
        bool lay = false, bit = false;
        double d = max_rel_diff(A, B, &lay, &bit);
        c.check(lay && d <= 1e-12, kt + " poisson.route", [&]{ return "voxel Poisson matrix differs from the classic Laplace matrix by " + std::to_string(d) + " (" + std::to_string(nthreads) + " threads)"; });
        auto ms = monomials<D>(exps_total_degree<D>(2));
        auto vs = interpolate_all(velo, ms);
        for(size_t a = 0; a < ms.size(); ++a) for(size_t b = 0; b < ms.size(); ++b)
        {
          Poly<D> in; for(int j = 0; j < D; ++j) in += ms[a].diff(j) * ms[b].diff(j) * LD(0.75);
          LD sc = 0, got = bilinear(B, vs[b], vs[a], &sc);
          if(!base.compare(kt + " poisson.oracle", got, mc.integrate(in), sc, mc.integrate_abs(in), "u=[" + ms[a].str() + "] v=[" + ms[b].str() + "]")) return;
        }
      }
      // ---------------------------------------------------------------- deformation tensor
      {
        BCSR<D, D> A, B;
        Assembly::SymbolicAssembler::assemble_matrix_std1(A, velo);
        Assembly::SymbolicAssembler::assemble_matrix_std1(B, velo);
        A.format(); B.format();
        BVec<D> zero(velo.get_num_dofs()); zero.format();
        Assembly::BurgersAssembler<double, Index, D> ba;
        ba.deformation = true; ba.nu = 0.625;
        ba.assemble_matrix(A, zero, velo, cf);
        VoxelAssembly::VoxelDefoAssembler<SpaceType, double, Index> va(velo, coloring, -1);
        va.nu = 0.625;
        va.assemble_matrix1(B, velo, cf);
        c.count("voxel_matrices");
        bool lay = false;
        double d = max_rel_diff_b<D, D>(A, B, &lay);
        c.check(lay && d <= 1e-12, kt + " defo.route", [&]{ return "voxel deformation matrix differs from BurgersAssembler by " + std::to_string(d) + " (" + std::to_string(nthreads) + " threads)"; });
        for(size_t a = 0; a < base.fu.size(); a += 2) for(size_t b = 0; b < base.fu.size(); b += 3)
        {
          Poly<D> in = (grad_grad<D>(base.fu[a], base.fu[b]) + gradT_grad<D>(base.fu[a], base.fu[b])) * LD(0.625);
          LD sc = 0, got = bilinear_b<D, D>(B, base.vu[b], base.vu[a], &sc);
          if(!base.compare(kt + " defo.oracle", got, mc.integrate(in), sc, mc.integrate_abs(in), "u=" + Base::fstr(base.fu[a]) + " w=" + Base::fstr(base.fu[b]))) return;
        }
      }
      // ---------------------------------------------------------------- Burgers
      {
        const Field<D>& v = base.fu.back();
        const BVec<D>& vv = base.vu.back();
        struct Cfg { bool defo; double nu, theta, beta, fbeta, sd; const char* name; };
        static const Cfg cfgs[] = {
          {false, 1.0, 0.0, 0.0, 0.0, 0.0, "nu"}, {true, 1.0, 0.0, 0.0, 0.0, 0.0, "nu-defo"}, {false, 0.0, 1.0, 0.0, 0.0, 0.0, "theta"},
          {false, 0.0, 0.0, 1.0, 0.0, 0.0, "beta"}, {false, 0.0, 0.0, 0.0, 1.0, 0.0, "frechet"}, {true, 0.5, 2.0, 1.5, 0.25, 0.0, "all"},
          {true, 0.5, 2.0, 1.5, 0.25, 0.5, "all+sd"}};
        for(const Cfg& cg : cfgs)
        {
          Assembly::BurgersAssembler<double, Index, D> ba;
          ba.deformation = cg.defo; ba.nu = cg.nu; ba.theta = cg.theta; ba.beta = cg.beta; ba.frechet_beta = cg.fbeta;
          ba.sd_delta = cg.sd; ba.sd_nu = cg.nu; if(cg.sd != 0.0) ba.set_sd_v_norm(vv);
          VoxelAssembly::VoxelBurgersAssembler<SpaceType, double, Index> va(velo, coloring, -1);
          va.deformation = cg.defo; va.nu = cg.nu; va.theta = cg.theta; va.beta = cg.beta; va.frechet_beta = cg.fbeta;
          va.sd_delta = cg.sd; va.sd_nu = cg.nu; if(cg.sd != 0.0) va.set_sd_v_norm(vv);
          if(cg.sd != 0.0)
            c.check(std::fabs(va.sd_v_norm - ba.sd_v_norm) <= 1e-14 * (1 + ba.sd_v_norm), kt + " burgers.sd_v_norm", "voxel and classic assembler compute different convection norms");
          BCSR<D, D> A, B;
          Assembly::SymbolicAssembler::assemble_matrix_std1(A, velo);
          Assembly::SymbolicAssembler::assemble_matrix_std1(B, velo);
          A.format(); B.format();
          ba.assemble_matrix(A, vv, velo, cf, 1.25);
          va.assemble_matrix1(B, vv, velo, cf, 1.25);
          c.count("voxel_matrices");
          bool lay = false;
          double d = max_rel_diff_b<D, D>(A, B, &lay);
          bool frechet_dropped = false;
          if(!(lay && d <= 1e-12) && cg.fbeta != 0.0 && cg.beta == 0.0 && cg.sd == 0.0 && cg.nu == 0.0 && cg.theta == 0.0)
          {
            // only the Frechet term is requested: is the voxel matrix simply zero?
            double mx = 0;
            for(Index kk = 0; kk < B.used_elements(); ++kk) for(int a = 0; a < D; ++a) for(int b = 0; b < D; ++b) mx = std::max(mx, std::fabs(B.val()[kk][a][b]));
            frechet_dropped = (mx == 0.0);
          }
          if(frechet_dropped)
            c.fail(kt + " burgers.frechet-without-beta-dropped", "frechet_beta != 0 with beta == 0 and sd_delta == 0: the voxel Burgers matrix is zero (convection dofs are only gathered for beta != 0 or streamline diffusion)");
          else
            c.check(lay && d <= 1e-12, kt + " burgers.route-matrix." + cg.name, [&]{ return "voxel Burgers matrix differs from BurgersAssembler by " + std::to_string(d) + " (" + std::to_string(nthreads) + " threads)"; });
          if(cg.sd == 0.0 && !frechet_dropped)
          {
            auto form = [&](const Field<D>& u, const Field<D>& w)
            {
              Poly<D> r;
              if(cg.nu != 0.0) { Poly<D> t = grad_grad<D>(u, w); if(cg.defo) t += gradT_grad<D>(u, w); r += t * LD(cg.nu); }
              if(cg.theta != 0.0) r += dot_of<D>(u, w) * LD(cg.theta);
              if(cg.beta != 0.0) { Poly<D> t; for(int a = 0; a < D; ++a) for(int j = 0; j < D; ++j) t += v[(size_t)j] * u[(size_t)a].diff(j) * w[(size_t)a]; r += t * LD(cg.beta); }
              if(cg.fbeta != 0.0) { Poly<D> t; for(int a = 0; a < D; ++a) for(int b = 0; b < D; ++b) t += v[(size_t)a].diff(b) * u[(size_t)b] * w[(size_t)a]; r += t * LD(cg.fbeta); }
              return r * LD(1.25);
            };
            for(size_t a = 0; a < base.fu.size(); a += 2) for(size_t b = 1; b < base.fu.size(); b += 3)
            {
              Poly<D> in = form(base.fu[a], base.fu[b]);
              LD sc = 0, got = bilinear_b<D, D>(B, base.vu[b], base.vu[a], &sc);
              if(!base.compare(kt + " burgers.oracle." + cg.name, got, mc.integrate(in), sc, mc.integrate_abs(in), "u=" + Base::fstr(base.fu[a]) + " w=" + Base::fstr(base.fu[b]))) return;
            }
          }
          // vector: voxel assemble_vector == (voxel matrix) * primal
          {
            const BVec<D>& primal = base.vu[base.vu.size() / 2];
            BVec<D> r1(velo.get_num_dofs()), r2(velo.get_num_dofs());
            r1.format(); r2.format();
            va.assemble_vector(r1, vv, primal, velo, cf, 1.25);
            B.apply(r2, primal);
            double dd = 0, big = 1e-300;
            for(Index i = 0; i < r1.size(); ++i) for(int m = 0; m < D; ++m) { dd = std::max(dd, std::fabs(r1(i)[m] - r2(i)[m])); big = std::max(big, std::fabs(r2(i)[m])); }
            for(Index kk = 0; kk < B.used_elements(); ++kk) for(int a = 0; a < D; ++a) for(int b = 0; b < D; ++b) big = std::max(big, std::fabs(B.val()[kk][a][b]));
            // the vector (defect) route has no Frechet / streamline diffusion terms by design
            if(cg.fbeta != 0.0 || cg.sd != 0.0)
              c.excluded("voxel Burgers vector assembly with frechet_beta != 0 or sd_delta != 0 (defect route)");
            else
              c.check(dd <= 1e-11 * big, kt + " burgers.vector." + cg.name, [&]{ return "VoxelBurgersAssembler::assemble_vector differs from (voxel matrix)*primal by " + std::to_string(dd); });
          }
        }
      }
    }
  };

  /// orientation preserving local numbering next to g (hypercubes: toggles one axis flip if g is a reflection)
  template<typename Shape_>
  int make_proper(int g)
  {
    constexpr int D = Shape_::dimension;
    int flips = g & ((1 << D) - 1), pidx = g >> D;
    int p[3] = {0, 1, 2};
    for(int n = 0; n < pidx; ++n) std::next_permutation(p, p + D);
    int inv = 0;
    for(int i = 0; i < D; ++i) for(int j = i + 1; j < D; ++j) if(p[i] > p[j]) ++inv;
    int par = inv;
    for(int j = 0; j < D; ++j) par += (flips >> j) & 1;
    return (par & 1) ? (g ^ 1) : g;
  }

  template<typename Shape_>
  void enumerate_voxel_shape(verif::Ctx& c)
  {
    const std::string sn = ShapeInfo<Shape_>::name();
    auto fam = mesh_family<Shape_>(c.thorough);
    // voxel meshes are positively oriented: use the rotation next to every reflection of the family
    for(auto& ms : fam) { ms.gA = make_proper<Shape_>(ms.gA); ms.gB = make_proper<Shape_>(ms.gB); }
    for(size_t im = 0; im < fam.size(); ++im)
      for(int nt : {1, 4})
      {
        const MeshSpec& ms = fam[im];
        if(nt > 1 && ms.kind != 2 && ms.refine == 0) continue; // several threads only where there are several cells per colour
        if(!c.want()) continue;
        c.desc([&]{ return sn + " voxel threads=" + std::to_string(nt) + " mesh " + ms.str(); });
        MeshCtx<Shape_> mc = make_mesh<Shape_>(ms);
        VoxelChecker<Shape_> vc(c, mc);
        vc.run(nt);
        c.nontrivial(verif::Hash().str(sn).pod(nt).str(ms.str()).get());
        c.outcome(sn + " threads=" + std::to_string(nt));
        c.count("cases");
        c.count("cells", mc.geoms.size());
        c.maxi("colors", (uint64_t)(*std::max_element(vc.coloring.begin(), vc.coloring.end()) + 1));
      }
  }
}

int main(int argc, char** argv)
{
  Runtime::ScopeGuard guard(argc, argv);
  verif::Spec spec;
  spec.property = "C16";
  spec.harness = "c16_voxel";
  spec.rule = "cases = (quad|hexa, mesh of the c16 family, OpenMP thread count in {1,4}); per case: voxel Poisson / deformation / Burgers (7 parameter "
    "configurations incl. one with streamline diffusion) matrices == classic assemblers (1e-12 relative) and == exact integrals for polynomial test "
    "fields, scaling factor alpha, voxel Burgers vector == (voxel matrix)*primal. Colouring by the harness (greedy, vertex adjacency). Non-trivial: every case.";
  spec.bounds_quick = "Lagrange-2 on quads and hexas (the only spaces the voxel assemblers support), mesh family of c16_core.hpp";
  spec.bounds_thorough = "3D: larger mesh family (2D uses the full family in both tiers)";
  spec.assumptions = {
    "OpenMP runtime is not explored: fixed thread counts as a sequential input check (threads: C17)",
    "harness colouring instead of UnitCubeColoring (which only exists for refined unit cubes)",
    "meshes with negatively oriented cells are excluded on the voxel route (voxel meshes are positively oriented by construction; the kernels use the signed determinant)",
    "the voxel Burgers vector (defect) route has no Frechet/streamline-diffusion terms by design: checked only for frechet_beta == 0 and sd_delta == 0",
    "only the host (generic/OpenMP) double/Index instantiations are covered: CUDA kernels (grouped_*, *_cuda), the float and std::uint32_t explicit instantiations and set_sd_v_norm for Global::Vector (MPI) are out of scope",
    "oracle integrates polynomials only"};
  spec.max_fail_per_worker = 100000;
  spec.max_jobs = 8; // each case may run 4 OpenMP threads
  return verif::run(spec, argc, argv, [&](verif::Ctx& c) {
    enumerate_voxel_shape<Shape::Hypercube<2>>(c);
    enumerate_voxel_shape<Shape::Hypercube<3>>(c);
  });
}
