// C16 (jobs part): the entry points of error_computer.hpp / function_integral_jobs.hpp / trace_assembler.hpp /
// unit_filter_assembler.hpp that c16_misc does not reach: VectorErrorComputer, the function integral jobs for blocked vectors and
// vector valued functions, CellErrorFunctionIntegralJob (scalar and blocked), L1 / Lmax norms, blocked surface integrals,
// the jump and jump-stabilisation matrices of the TraceAssembler, and the vector / blocked versions of the UnitFilterAssembler.
// Oracle: the harness polynomial integrator (per cell, per domain, per facet).
#include <c16_blocked_impl.hpp>
#include <c16_boundary.hpp>

#include <kernel/assembly/common_functionals.hpp>
#include <kernel/assembly/error_computer.hpp>
#include <kernel/assembly/function_integral_jobs.hpp>
#include <kernel/assembly/trace_assembler.hpp>
#include <kernel/assembly/unit_filter_assembler.hpp>
#include <kernel/geometry/boundary_factory.hpp>
#include <kernel/geometry/mesh_part.hpp>
#include <kernel/lafem/unit_filter.hpp>
#include <kernel/lafem/unit_filter_blocked.hpp>

using namespace c16b;

namespace
{
  struct EL1 { static const char* name() { return "lagrange1"; } template<typename T_> using Space = FEAT::Space::Lagrange1::Element<T_>; static constexpr int pk = 1; static constexpr bool has_hess = false; static constexpr bool nodal = true; static constexpr bool disc = false; static constexpr bool vertex_dofs = true; };
  struct EL2 { static const char* name() { return "lagrange2"; } template<typename T_> using Space = FEAT::Space::Lagrange2::Element<T_>; static constexpr int pk = 2; static constexpr bool has_hess = true; static constexpr bool nodal = true; static constexpr bool disc = false; static constexpr bool vertex_dofs = false; };
  struct ECR { static const char* name() { return "cro_rav_ran_tur"; } template<typename T_> using Space = FEAT::Space::CroRavRanTur::Element<T_>; static constexpr int pk = 1; static constexpr bool has_hess = false; static constexpr bool nodal = false; static constexpr bool disc = false; static constexpr bool vertex_dofs = false; };
  struct EP1 { static const char* name() { return "discontinuous-p1"; } template<typename T_> using Space = FEAT::Space::Discontinuous::Element<T_, FEAT::Space::Discontinuous::Variant::StdPolyP<1>>; static constexpr int pk = 1; static constexpr bool has_hess = false; static constexpr bool nodal = false; static constexpr bool disc = true; static constexpr bool vertex_dofs = false; };

  /// exact integral of a polynomial (real coordinates) over one cell
  template<typename Shape_>
  LD cell_integral(const MeshCtx<Shape_>& mc, Index k, const Poly<Shape_::dimension>& p)
  {
    constexpr int D = Shape_::dimension;
    auto q = ref_quadrature<Shape_>(ShapeInfo<Shape_>::is_simplex ? p.degree() : p.degree() + D - 1);
    const auto& g = mc.geoms[(size_t)k];
    LD s = 0;
    for(size_t iq = 0; iq < q.pts.size(); ++iq)
      s += q.wts[iq] * std::fabs(g.det.eval(q.pts[iq])) * p.eval(g.map(q.pts[iq]));
    return s;
  }

  template<int D> Poly<D> grad_sqr(const Poly<D>& e) { Poly<D> r; for(int i = 0; i < D; ++i) r += e.diff(i) * e.diff(i); return r; }
  /// H2 semi norm integrand over multi-indices: mixed derivatives once (Tiny::Matrix::norm_hessian_sqr)
  template<int D> Poly<D> hess_sqr(const Poly<D>& e) { Poly<D> r; for(int i = 0; i < D; ++i) for(int j = i; j < D; ++j) r += e.diff(i).diff(j) * e.diff(i).diff(j); return r; }
  template<int D> Poly<D> vort_sqr(const std::array<Poly<D>, D>& e)
  {
    Poly<D> r;
    if constexpr(D == 2) { Poly<D> w = e[1].diff(0) - e[0].diff(1); r = w * w; }
    else
    {
      Poly<D> w0 = e[2].diff(1) - e[1].diff(2), w1 = e[0].diff(2) - e[2].diff(0), w2 = e[1].diff(0) - e[0].diff(1);
      r = w0 * w0 + w1 * w1 + w2 * w2;
    }
    return r;
  }

  template<typename Shape_, typename El_>
  struct JobsChecker
  {
    static constexpr int D = Shape_::dimension;
    static constexpr int N = D;
    typedef typename MeshCtx<Shape_>::MeshType MeshType;
    typedef Trafo::Standard::Mapping<MeshType> TrafoType;
    typedef typename El_::template Space<TrafoType> SpaceType;
    typedef std::array<Poly<D>, N> PF;
    typedef BVec<N> BV;
    static constexpr int max_der = El_::has_hess ? 2 : 1;

    verif::Ctx& c;
    MeshCtx<Shape_>& mc;
    std::string kp;
    TrafoType trafo;
    SpaceType space;
    std::vector<Poly<D>> ms;
    std::vector<Vec> vs;

    JobsChecker(verif::Ctx& c_, MeshCtx<Shape_>& mc_) : c(c_), mc(mc_), trafo(*mc_.mesh), space(trafo)
    {
      kp = std::string(ShapeInfo<Shape_>::name()) + " " + El_::name();
      ms = monomials<D>(exps_total_degree<D>(El_::pk));
      vs = interpolate_all(space, ms);
    }

    bool near(double got, LD exact, LD scale, double tol = 1e-9) const { return std::fabs(LD(got) - exact) <= LD(tol) * (scale + std::fabs(exact)) + LD(1e-13); }

    /// in-space field number `which` and its coefficient vector
    void make_field(int which, PF& p, BV& v) const
    {
      v = BV(space.get_num_dofs()); v.format();
      for(int i = 0; i < N; ++i)
      {
        p[(size_t)i] = Poly<D>();
        for(size_t a = 0; a < ms.size(); ++a)
        {
          double cf = 0.5 - 0.25 * double((int(a) + 2 * i + which) % 3) + 0.125 * double((a + 1) * size_t(i + 1)) * (((int(a) + i + which) % 2) ? 1.0 : -1.0);
          if(which == 1 && int(a) % N != i) cf = 0.0;
          p[(size_t)i] += ms[a] * LD(cf);
          for(Index j = 0; j < v.size(); ++j) { auto t = v(j); t[i] += cf * vs[a](j); v(j, t); }
        }
      }
    }

    static PF analytic_field()
    {
      PF f;
      for(int i = 0; i < N; ++i)
      {
        Poly<D> q(LD(0.25 * (i + 1)));
        for(int j = 0; j < D; ++j)
        {
          q += Poly<D>::var(j) * LD(0.5 * (j + 1 + i));
          q += Poly<D>::var(j) * Poly<D>::var((j + 1) % D) * LD(0.75 / (i + 1));
          q += Poly<D>::var(j) * Poly<D>::var(j) * Poly<D>::var((j + D - 1) % D) * LD(0.125 * (j + 1) * ((i % 2) ? -1 : 1));
        }
        f[(size_t)i] = q;
      }
      return f;
    }

    struct Exact
    {
      LD h0 = 0, h1 = 0, h2 = 0, div2 = 0, vort2 = 0, l1 = 0, s0 = 0;
      std::array<LD, N> h0c, h1c, h2c, val, sval, l1c;
      std::array<std::array<LD, D>, N> grad;
    };

    /// exact norms of a field over the whole domain (cell < 0) or one cell
    Exact exact_of(const PF& e, long cell = -1)
    {
      Exact x;
      auto I = [&](const Poly<D>& p) { return cell < 0 ? mc.integrate(p) : cell_integral(mc, Index(cell), p); };
      for(int i = 0; i < N; ++i)
      {
        const Poly<D>& ei = e[(size_t)i];
        x.h0c[(size_t)i] = I(ei * ei); x.h1c[(size_t)i] = I(grad_sqr(ei)); x.h2c[(size_t)i] = I(hess_sqr(ei));
        x.val[(size_t)i] = I(ei); x.l1c[(size_t)i] = std::fabs(x.val[(size_t)i]); // L1 norm: only used for components of fixed sign
        x.sval[(size_t)i] = mc.integrate_abs(ei);
        for(int j = 0; j < D; ++j) x.grad[(size_t)i][(size_t)j] = I(ei.diff(j));
        x.h0 += x.h0c[(size_t)i]; x.h1 += x.h1c[(size_t)i]; x.h2 += x.h2c[(size_t)i]; x.l1 += x.l1c[(size_t)i];
      }
      Poly<D> dv; for(int i = 0; i < N; ++i) dv += e[(size_t)i].diff(i);
      x.div2 = I(dv * dv); x.vort2 = I(vort_sqr<D>(e));
      return x;
    }

    /// compares a FunctionIntegralInfo of a vector valued (error) function with the exact numbers; abs_value: sign of value/grad not fixed
    template<typename Info_>
    void compare_info(const Info_& fi, const Exact& x, LD s0, int md, bool abs_value, const std::string& k)
    {
      c.check(near(fi.norm_h0_sqr, x.h0, s0), k + ".h0", [&]{ return "H0^2 " + std::to_string(fi.norm_h0_sqr) + " vs exact " + std::to_string(double(x.h0)); });
      if(md >= 1) c.check(near(fi.norm_h1_sqr, x.h1, s0 * 16), k + ".h1", [&]{ return "H1^2 " + std::to_string(fi.norm_h1_sqr) + " vs exact " + std::to_string(double(x.h1)); });
      if(md >= 2) c.check(near(fi.norm_h2_sqr, x.h2, s0 * 64), k + ".h2", [&]{ return "H2^2 " + std::to_string(fi.norm_h2_sqr) + " vs exact " + std::to_string(double(x.h2)); });
      bool okc = true, okv = true, okg = true;
      for(int i = 0; i < N; ++i)
      {
        okc = okc && near(fi.norm_h0_sqr_comp[i], x.h0c[(size_t)i], s0);
        if(md >= 1) okc = okc && near(fi.norm_h1_sqr_comp[i], x.h1c[(size_t)i], s0 * 16);
        if(md >= 2) okc = okc && near(fi.norm_h2_sqr_comp[i], x.h2c[(size_t)i], s0 * 64);
        okv = okv && (abs_value ? near(std::fabs(fi.value[i]), std::fabs(x.val[(size_t)i]), x.sval[(size_t)i] + s0) : near(fi.value[i], x.val[(size_t)i], x.sval[(size_t)i] + s0));
        if(md >= 1) for(int j = 0; j < D; ++j)
          okg = okg && (abs_value ? near(std::fabs(fi.grad[i][j]), std::fabs(x.grad[(size_t)i][(size_t)j]), s0 * 4 + 1) : near(fi.grad[i][j], x.grad[(size_t)i][(size_t)j], s0 * 4 + 1));
      }
      c.check(okc, k + ".components", "component-wise squared norms differ from the exact integrals");
      c.check(okv, k + ".value", "integral of the function differs from the exact integral");
      c.check(okg, k + ".grad", "integral of the gradient differs from the exact integral");
      if(md >= 1)
      {
        c.check(near(fi.divergence_l2_sqr, x.div2, s0 * 16), k + ".divergence", [&]{ return "||div||^2 " + std::to_string(fi.divergence_l2_sqr) + " vs exact " + std::to_string(double(x.div2)); });
        c.check(near(fi.vorticity_l2_sqr, x.vort2, s0 * 16), k + ".vorticity", [&]{ return "||curl||^2 " + std::to_string(fi.vorticity_l2_sqr) + " vs exact " + std::to_string(double(x.vort2)); });
      }
    }

    // ------------------------------------------------------------------ vector valued errors and integrals
    void check_vector()
    {
      const std::string k = kp + " vector";
      const int extra = mc.affine ? 0 : D - 1;
      const String cub = ShapeInfo<Shape_>::is_simplex ? String("auto-degree:6") : String("gauss-legendre:") + stringify(4 + (extra + 1) / 2);
      Cubature::DynamicFactory cf(cub);
      Assembly::DomainAssembler<TrafoType> dom_asm(trafo);
      dom_asm.set_max_worker_threads(0);
      dom_asm.compile_all_elements();
      const Index ncells = mc.mesh->get_num_entities(D);
      const PF F = analytic_field();
      for(int field = 0; field < 2; ++field)
      {
        PF P; BV vec;
        make_field(field, P, vec);
        // which 0: function == FE function, 1: analytic cubic field, 2: FE function + field with components of fixed sign (L1), 3: FE function + constants of both signs (Lmax)
        for(int which = 0; which < 4; ++which)
        {
          PF fn = P;
          if(which == 1) fn = F;
          // components of fixed sign: even components negative, odd components positive
          if(which == 2) for(int i = 0; i < N; ++i) { const LD sg = (i % 2 == 0) ? LD(-1) : LD(1); fn[(size_t)i] += Poly<D>(sg * LD(0.375 * (i + 1))); for(int j = 0; j < D; ++j) fn[(size_t)i] += Poly<D>::var(j) * Poly<D>::var(j) * (sg * LD(0.25 * (j + i + 1))); }
          if(which == 3) for(int i = 0; i < N; ++i) fn[(size_t)i] += Poly<D>(((i % 2 == 0) ? LD(-1) : LD(1)) * LD(0.375 * (i + 1)));
          PF e; LD s0 = 0;
          for(int i = 0; i < N; ++i) { e[(size_t)i] = fn[(size_t)i] - P[(size_t)i]; s0 += mc.integrate_abs(fn[(size_t)i] * fn[(size_t)i]) + mc.integrate_abs(P[(size_t)i] * P[(size_t)i]); }
          Exact x = exact_of(e);
          PolyVectorFunction<D, N> ff(fn);
          c.count("vector_error_evaluations");
          // classic computer
          {
            auto info = Assembly::VectorErrorComputer<max_der>::compute(vec, ff, space, cf);
            c.check(info.have_h0 && info.have_h1 == (max_der >= 1) && info.have_h2 == (max_der >= 2) && info.have_l1 && info.have_lmax, k + " computer.flags", "have_* flags do not correspond to max_norm");
            c.check(near(info.norm_h0 * info.norm_h0, x.h0, s0), k + " computer.h0", [&]{ return "H0 error " + std::to_string(info.norm_h0) + " vs exact " + std::to_string(double(std::sqrt(x.h0))); });
            c.check(near(info.norm_h1 * info.norm_h1, x.h1, s0 * 16), k + " computer.h1", [&]{ return "H1 error " + std::to_string(info.norm_h1) + " vs exact " + std::to_string(double(std::sqrt(x.h1))); });
            if constexpr(max_der >= 2)
              c.check(near(info.norm_h2 * info.norm_h2, x.h2, s0 * 64), k + " computer.h2", [&]{ return "H2 error " + std::to_string(info.norm_h2) + " vs exact " + std::to_string(double(std::sqrt(x.h2))); });
            bool okc = true;
            for(int i = 0; i < N; ++i)
            {
              okc = okc && near(info.norm_h0_comp[i] * info.norm_h0_comp[i], x.h0c[(size_t)i], s0) && near(info.norm_h1_comp[i] * info.norm_h1_comp[i], x.h1c[(size_t)i], s0 * 16);
              if constexpr(max_der >= 2) okc = okc && near(info.norm_h2_comp[i] * info.norm_h2_comp[i], x.h2c[(size_t)i], s0 * 64);
            }
            c.check(okc, k + " computer.components", "component-wise error norms differ from the exact norms");
            if(which == 2 || which == 3)
            {
              bool okl = near(info.norm_l1, x.l1, s0);
              for(int i = 0; i < N; ++i) okl = okl && near(info.norm_l1_comp[i], x.l1c[(size_t)i], s0);
              c.check(okl, k + " computer.l1", [&]{ return "L1 error " + std::to_string(info.norm_l1) + " vs exact " + std::to_string(double(x.l1)); });
            }
            if(which == 3)
            {
              bool okm = near(info.norm_lmax, LD(0.375 * N), LD(1 + std::sqrt(double(s0))), 1e-10);
              for(int i = 0; i < N; ++i) okm = okm && near(info.norm_lmax_comp[i], LD(0.375 * (i + 1)), LD(1 + std::sqrt(double(s0))), 1e-10);
              c.check(okm, k + " computer.lmax", [&]{ return "Lmax error " + std::to_string(info.norm_lmax) + " for the constant error field with maximal component " + std::to_string(0.375 * N); });
            }
            // scalar computer: L1 and Lmax on component 0
            if(which >= 2)
            {
              PolyFunction<D> f0(fn[0]);
              Vec v0(space.get_num_dofs());
              for(Index j = 0; j < v0.size(); ++j) v0(j, vec(j)[0]);
              auto si = Assembly::ScalarErrorComputer<max_der>::compute(v0, f0, space, cf);
              c.check(near(si.norm_l1, x.l1c[0], s0), kp + " error computer.l1", [&]{ return "L1 error " + std::to_string(si.norm_l1) + " vs exact " + std::to_string(double(x.l1c[0])); });
              if(which == 3) c.check(near(si.norm_lmax, LD(0.375), LD(1 + std::sqrt(double(s0))), 1e-10), kp + " error computer.lmax", [&]{ return "Lmax error " + std::to_string(si.norm_lmax) + " for the constant error 0.375"; });
              auto sj = Assembly::integrate_error_function<max_der>(dom_asm, f0, v0, space, cub);
              c.check(near(sj.norm_l1, x.l1c[0], s0), kp + " error job.l1", [&]{ return "L1 error " + std::to_string(sj.norm_l1) + " vs exact " + std::to_string(double(x.l1c[0])); });
              if(which == 3) c.check(near(sj.norm_lmax, LD(0.375), LD(1 + std::sqrt(double(s0))), 1e-10), kp + " error job.lmax", [&]{ return "Lmax error " + std::to_string(sj.norm_lmax) + " for the constant error 0.375"; });
            }
          }
          // job route
          {
            auto ji = Assembly::integrate_error_function<max_der>(dom_asm, ff, vec, space, cub);
            compare_info(ji, x, s0, max_der, true, k + " job");
            if(which >= 2)
            {
              bool okl = near(ji.norm_l1, x.l1, s0);
              for(int i = 0; i < N; ++i) okl = okl && near(ji.norm_l1_comp[i], x.l1c[(size_t)i], s0);
              c.check(okl, k + " job.l1", [&]{ return "L1 error " + std::to_string(ji.norm_l1) + " vs exact " + std::to_string(double(x.l1)); });
            }
            if(which == 3)
            {
              bool okm = near(ji.norm_lmax, LD(0.375 * N), LD(1 + std::sqrt(double(s0))), 1e-10);
              for(int i = 0; i < N; ++i) okm = okm && near(ji.norm_lmax_comp[i], LD(0.375 * (i + 1)), LD(1 + std::sqrt(double(s0))), 1e-10);
              c.check(okm, k + " job.lmax", [&]{ return "Lmax error " + std::to_string(ji.norm_lmax) + " for the constant error field with maximal component " + std::to_string(0.375 * N); });
            }
          }
          // order 0 variants of the computers and jobs (separate helper specialisations)
          if(which == 1)
          {
            auto i0 = Assembly::VectorErrorComputer<0>::compute(vec, ff, space, cf);
            bool ok0 = i0.have_h0 && !i0.have_h1 && !i0.have_h2 && near(i0.norm_h0 * i0.norm_h0, x.h0, s0) && i0.norm_h1 == 0.0 && i0.norm_h2 == 0.0;
            for(int i = 0; i < N; ++i) ok0 = ok0 && near(i0.norm_h0_comp[i] * i0.norm_h0_comp[i], x.h0c[(size_t)i], s0);
            c.check(ok0, k + " computer0", [&]{ return "VectorErrorComputer<0>: H0 error " + std::to_string(i0.norm_h0) + " vs exact " + std::to_string(double(std::sqrt(x.h0))) + " / H1, H2 parts not zero / flags"; });
            auto j0 = Assembly::integrate_error_function<0>(dom_asm, ff, vec, space, cub);
            compare_info(j0, x, s0, 0, true, k + " job0");
            c.check(j0.norm_h1_sqr == 0.0 && j0.norm_h2_sqr == 0.0 && j0.divergence_l2_sqr == 0.0, k + " job0.unused", "order 0 error job fills first/second order quantities");
            auto d0 = Assembly::integrate_discrete_function<0>(dom_asm, vec, space, cub);
            LD sp = 0; for(int i = 0; i < N; ++i) sp += mc.integrate_abs(P[(size_t)i] * P[(size_t)i]);
            compare_info(d0, exact_of(P), sp, 0, false, k + " discrete0");
            // scalar, component 0
            PolyFunction<D> f0(fn[0]);
            Vec v0(space.get_num_dofs());
            for(Index j = 0; j < v0.size(); ++j) v0(j, vec(j)[0]);
            auto s0i = Assembly::ScalarErrorComputer<0>::compute(v0, f0, space, cf);
            c.check(s0i.have_h0 && !s0i.have_h1 && !s0i.have_h2 && near(s0i.norm_h0 * s0i.norm_h0, x.h0c[0], s0) && s0i.norm_h1 == 0.0 && s0i.norm_h2 == 0.0, kp + " error computer0",
              [&]{ return "ScalarErrorComputer<0>: H0 error " + std::to_string(s0i.norm_h0) + " vs exact " + std::to_string(double(std::sqrt(x.h0c[0]))) + " / H1, H2 parts not zero / flags"; });
            auto sj0 = Assembly::integrate_error_function<0>(dom_asm, f0, v0, space, cub);
            c.check(near(sj0.norm_h0_sqr, x.h0c[0], s0) && near(std::fabs(sj0.value), std::fabs(x.val[0]), x.sval[0] + s0) && sj0.norm_h1_sqr == 0.0, kp + " error job0", "order 0 scalar error job: wrong H0 norm / value, or first order quantities filled");
            auto sd0 = Assembly::integrate_discrete_function<0>(dom_asm, v0, space, cub);
            c.check(near(sd0.norm_h0_sqr, mc.integrate(P[0] * P[0]), sp) && near(sd0.value, mc.integrate(P[0]), mc.integrate_abs(P[0])) && sd0.norm_h1_sqr == 0.0, kp + " error discrete0", "order 0 scalar discrete integral job: wrong H0 norm / value, or first order quantities filled");
            // blocked cell job of order 0: plain dense cell vector
            Assembly::CellErrorFunctionIntegralJob<PolyVectorFunction<D, N>, BV, SpaceType, 0> cj0(ff, vec, space, cub);
            dom_asm.assemble(cj0);
            auto r0 = cj0.result();
            c.count("cell_error_jobs");
            bool okn = (r0.vec.size() == ncells);
            for(Index cell = 0; okn && cell < ncells; ++cell) okn = near(r0.vec(cell), exact_of(e, long(cell)).h0, s0);
            c.check(okn && near(r0.integral_info.norm_h0_sqr, x.h0, s0), k + " cell-job0", "order 0 blocked cell error job: cell values or total differ from the exact H0 integrals");
            // result holder built from (info, const vector&)
            typename decltype(cj0)::FunctionCellIntegralType holder(r0.integral_info, r0.vec);
            bool okh = (holder.integral_info.norm_h0_sqr == r0.integral_info.norm_h0_sqr) && (holder.vec.size() == r0.vec.size());
            for(Index cell = 0; okh && cell < ncells; ++cell) okh = (holder.vec(cell) == r0.vec(cell));
            c.check(okh, k + " cell-job.holder", "FunctionCellIntegralInfo(info, vector) holds other numbers");
          }
          // cell-wise job: blocked
          if(which == 1 || which == 2)
          {
            Assembly::CellErrorFunctionIntegralJob<PolyVectorFunction<D, N>, BV, SpaceType, max_der> job(ff, vec, space, cub);
            dom_asm.assemble(job);
            auto res = job.result();
            c.count("cell_error_jobs");
            compare_info(res.integral_info, x, s0, max_der, true, k + " cell-job.total");
            bool okn = (res.vec.size() == ncells);
            c.check(okn, k + " cell-job.size", "cell vector has not one entry per cell");
            LD sum[3] = {0, 0, 0};
            for(Index cell = 0; okn && cell < ncells; ++cell)
            {
              Exact xc = exact_of(e, long(cell));
              auto t = res.vec(cell);
              bool ok = near(t[0], xc.h0, s0) && near(t[1], xc.h1, s0 * 16);
              sum[0] += LD(t[0]); sum[1] += LD(t[1]);
              if constexpr(max_der >= 2) { ok = ok && near(t[2], xc.h2, s0 * 64); sum[2] += LD(t[2]); }
              c.check(ok, k + " cell-job.cell", [&]{ return "cell " + std::to_string(cell) + ": H0^2 " + std::to_string(t[0]) + " vs exact " + std::to_string(double(xc.h0)) + ", H1^2 " + std::to_string(t[1]) + " vs exact " + std::to_string(double(xc.h1)); });
            }
            if(okn) c.check(near(res.integral_info.norm_h0_sqr, sum[0], s0, 1e-12) && near(res.integral_info.norm_h1_sqr, sum[1], s0 * 16, 1e-12) && (max_der < 2 || near(res.integral_info.norm_h2_sqr, sum[2], s0 * 64, 1e-12)),
              k + " cell-job.sum", "sum of the cell values differs from the global value");
            // a second result() of the same job after a second assembly gives the same numbers (the cell vector is re-created)
            dom_asm.assemble(job);
            auto res2 = job.result();
            bool same = (res2.vec.size() == res.vec.size());
            for(Index cell = 0; same && cell < ncells; ++cell) same = (res2.vec(cell)[0] == res.vec(cell)[0]) && (res2.vec(cell)[1] == res.vec(cell)[1]);
            c.check(same, k + " cell-job.reuse", "second assembly of the same cell error job gives another cell vector");
            // copies share the numbers
            auto cp(res);
            bool okcp = (cp.integral_info.norm_h0_sqr == res.integral_info.norm_h0_sqr) && (cp.integral_info.norm_h1_sqr == res.integral_info.norm_h1_sqr) && (cp.vec.size() == res.vec.size());
            for(Index cell = 0; okcp && cell < ncells; ++cell) okcp = (cp.vec(cell)[0] == res.vec(cell)[0]) && (cp.vec(cell)[1] == res.vec(cell)[1]);
            c.check(okcp, k + " cell-job.copy", "copy of the cell integral info has other numbers");
          }
          // cell-wise job: scalar, component 0, max_der and max_der 0 (plain dense out vector)
          if(which == 1)
          {
            PolyFunction<D> f0(fn[0]);
            Vec v0(space.get_num_dofs());
            for(Index j = 0; j < v0.size(); ++j) v0(j, vec(j)[0]);
            Assembly::CellErrorFunctionIntegralJob<PolyFunction<D>, Vec, SpaceType, max_der> job(f0, v0, space, cub);
            dom_asm.assemble(job);
            auto res = job.result();
            Assembly::CellErrorFunctionIntegralJob<PolyFunction<D>, Vec, SpaceType, 0> job0(f0, v0, space, cub);
            dom_asm.assemble(job0);
            auto res0 = job0.result();
            c.count("cell_error_jobs", 2);
            bool okn = (res.vec.size() == ncells) && (res0.vec.size() == ncells);
            c.check(okn, kp + " scalar cell-job.size", "cell vector has not one entry per cell");
            for(Index cell = 0; okn && cell < ncells; ++cell)
            {
              Exact xc = exact_of(e, long(cell));
              auto t = res.vec(cell);
              bool ok = near(t[0], xc.h0c[0], s0) && near(t[1], xc.h1c[0], s0 * 16) && near(res0.vec(cell), xc.h0c[0], s0);
              if constexpr(max_der >= 2) ok = ok && near(t[2], xc.h2c[0], s0 * 64);
              c.check(ok, kp + " scalar cell-job.cell", [&]{ return "cell " + std::to_string(cell) + ": H0^2 " + std::to_string(t[0]) + " / " + std::to_string(res0.vec(cell)) + " vs exact " + std::to_string(double(xc.h0c[0])) + ", H1^2 " + std::to_string(t[1]) + " vs exact " + std::to_string(double(xc.h1c[0])); });
            }
            c.check(near(res.integral_info.norm_h0_sqr, x.h0c[0], s0) && near(res.integral_info.norm_h1_sqr, x.h1c[0], s0 * 16) && near(res0.integral_info.norm_h0_sqr, x.h0c[0], s0),
              kp + " scalar cell-job.total", "global numbers of the scalar cell error job differ from the exact norms");
          }
        }
        // plain integrals of the discrete field and of the analytic field
        {
          LD sp = 0, sq = 0;
          for(int i = 0; i < N; ++i) { sp += mc.integrate_abs(P[(size_t)i] * P[(size_t)i]); sq += mc.integrate_abs(F[(size_t)i] * F[(size_t)i]); }
          auto di = Assembly::integrate_discrete_function<max_der>(dom_asm, vec, space, cub);
          compare_info(di, exact_of(P), sp, max_der, false, k + " discrete");
          if(field == 0)
          {
            PolyVectorFunction<D, N> Ff(F);
            auto ai = Assembly::integrate_analytic_function<2, double>(dom_asm, Ff, cub);
            compare_info(ai, exact_of(F), sq, 2, false, k + " analytic");
            auto a1 = Assembly::integrate_analytic_function<1, double>(dom_asm, Ff, cub);
            compare_info(a1, exact_of(F), sq, 1, false, k + " analytic1");
            auto a0 = Assembly::integrate_analytic_function<0, double>(dom_asm, Ff, cub);
            compare_info(a0, exact_of(F), sq, 0, false, k + " analytic0");
          }
        }
      }
    }

    // ------------------------------------------------------------------ boundary: blocked surface integral, unit filters
    void check_boundary()
    {
      Boundary<Shape_> bd(*mc.mesh);
      if(D == 3 && !bd.planar) { c.count("boundary_checks_skipped_nonplanar_faces"); return; }
      const String cub = ShapeInfo<Shape_>::is_simplex ? String("auto-degree:5") : String("gauss-legendre:3");
      Cubature::DynamicFactory cf(cub);
      PF P; BV vec;
      make_field(0, P, vec);
      {
        Assembly::TraceAssembler<TrafoType> tr(trafo);
        tr.compile_all_facets(false, true);
        auto got = tr.assemble_discrete_integral(vec, space, cf);
        bool ok = true; std::string why;
        for(int i = 0; i < N; ++i)
        {
          LD sa = 0, ex = bd.integrate(P[(size_t)i], &sa);
          if(!(std::fabs(LD(got[i]) - ex) <= LD(1e-10) * (sa + 1))) { ok = false; why = "component " + std::to_string(i) + ": surface integral " + std::to_string(got[i]) + ", exact " + std::to_string(double(ex)); }
        }
        c.count("blocked_surface_integrals");
        c.check(ok, kp + " trace blocked-discrete-integral", [&]{ return why; });
      }
      // unit filters: vector version, blocked versions. Expected DOFs: those whose "node point" (interpolant of the coordinates)
      // lies on a boundary facet.
      if constexpr(!El_::disc)
      {
        const std::string ku = kp + " unit-filter";
        Geometry::BoundaryFactory<MeshType> bfac(*mc.mesh);
        Geometry::MeshPart<MeshType> part(bfac);
        Assembly::UnitFilterAssembler<MeshType> ufa;
        ufa.add_mesh_part(part);
        std::vector<Vec> xc;
        for(int j = 0; j < D; ++j) { PolyFunction<D> xf(Poly<D>::var(j)); Vec v; Assembly::Interpolator::project(v, xf, space); xc.push_back(std::move(v)); }
        std::set<Index> expect;
        for(Index i = 0; i < space.get_num_dofs(); ++i)
        {
          std::array<LD, D> x; for(int j = 0; j < D; ++j) x[(size_t)j] = LD(xc[(size_t)j](i));
          if(bd.contains(x)) expect.insert(i);
        }
        c.count("unit_filters", 4);
        // scalar filter from a vector
        {
          Vec v0(space.get_num_dofs());
          for(Index j = 0; j < v0.size(); ++j) v0(j, 0.25 + 0.5 * double(j % 7) - 0.125 * double(j));
          LAFEM::UnitFilter<double, Index> filter;
          ufa.assemble(filter, space, v0);
          bool ok = (filter.used_elements() == Index(expect.size())) && filter.size() == space.get_num_dofs();
          for(Index l = 0; ok && l < filter.used_elements(); ++l) ok = expect.count(filter.get_indices()[l]) && filter.get_values()[l] == v0(filter.get_indices()[l]);
          c.check(ok, ku + " from-vector", "filter from a vector selects other dofs than those on the boundary or other values than the vector entries");
        }
        auto check_blocked = [&](const LAFEM::UnitFilterBlocked<double, Index, N>& filter, const std::function<double(Index, int)>& val, const std::string& key, bool exact)
        {
          bool ok = (filter.used_elements() == Index(expect.size())) && filter.size() == space.get_num_dofs();
          std::string why = "filter has " + std::to_string(filter.used_elements()) + " entries, " + std::to_string(expect.size()) + " dofs lie on the boundary";
          for(Index l = 0; ok && l < filter.used_elements(); ++l)
          {
            const Index i = filter.get_indices()[l];
            if(!expect.count(i)) { ok = false; why = "dof " + std::to_string(i) + " is in the filter but not on the boundary"; break; }
            for(int a = 0; a < N; ++a)
            {
              const double g = filter.get_values()[l][a], e = val(i, a);
              if(exact ? (g != e) : !(std::fabs(g - e) <= 1e-12 * (1.0 + std::fabs(e)))) { ok = false; why = "dof " + std::to_string(i) + " component " + std::to_string(a) + " has value " + std::to_string(g) + ", expected " + std::to_string(e); }
            }
          }
          c.check(ok, ku + " " + key, [&]{ return why; });
        };
        {
          LAFEM::UnitFilterBlocked<double, Index, N> filter;
          ufa.assemble(filter, space);
          check_blocked(filter, [&](Index, int) { return 0.0; }, "blocked-homogeneous", true);
        }
        {
          LAFEM::UnitFilterBlocked<double, Index, N> filter;
          ufa.assemble(filter, space, vec);
          check_blocked(filter, [&](Index i, int a) { return vec(i)[a]; }, "blocked-from-vector", true);
        }
        if constexpr(El_::nodal)
        {
          PF f;
          for(int i = 0; i < N; ++i) { f[(size_t)i] = Poly<D>(LD(0.5 + i)); for(int j = 0; j < D; ++j) f[(size_t)i] += Poly<D>::var(j) * LD(j + 1 + i) + Poly<D>::var(j) * Poly<D>::var((j + 1) % D) * LD(0.25 * (i + 1)); }
          PolyVectorFunction<D, N> ff(f);
          LAFEM::UnitFilterBlocked<double, Index, N> filter;
          ufa.assemble(filter, space, ff);
          check_blocked(filter, [&](Index i, int a) { std::array<LD, D> x; for(int j = 0; j < D; ++j) x[(size_t)j] = LD(xc[(size_t)j](i)); return double(f[(size_t)a].eval(x)); }, "blocked-from-function", false);
        }
      }
    }

    // ------------------------------------------------------------------ jump operators on the facets
    /// piecewise polynomial FE function number `which`: per-cell polynomials and the coefficient vector
    void make_piecewise(int which, std::vector<Poly<D>>& pc, Vec& v) const
    {
      const Index ncells = mc.mesh->get_num_entities(D);
      pc.assign((size_t)ncells, Poly<D>());
      v = Vec(space.get_num_dofs(), 0.0);
      if constexpr(El_::vertex_dofs && ShapeInfo<Shape_>::is_simplex)
      {
        if(which >= 2)
        {
          // arbitrary nodal values; the P1 polynomial on each simplex from its vertex values
          for(Index j = 0; j < v.size(); ++j) v(j, 0.5 + 0.25 * double((j * 5 + Index(which)) % 7) - 0.125 * double(j % 3));
          const auto& vtx = mc.mesh->get_vertex_set();
          const auto& vc = mc.mesh->template get_index_set<D, 0>();
          for(Index k = 0; k < ncells; ++k)
          {
            // solve [1 x_l] coef = u_l
            LD A[D + 1][D + 2];
            for(int l = 0; l <= D; ++l) { A[l][0] = 1; for(int j = 0; j < D; ++j) A[l][j + 1] = LD(vtx[vc(k, l)][j]); A[l][D + 1] = LD(v(vc(k, l))); }
            for(int col = 0; col <= D; ++col)
            {
              int piv = col; for(int r = col + 1; r <= D; ++r) if(std::fabs(A[r][col]) > std::fabs(A[piv][col])) piv = r;
              for(int t = 0; t <= D + 1; ++t) std::swap(A[col][t], A[piv][t]);
              for(int r = 0; r <= D; ++r) if(r != col) { LD f = A[r][col] / A[col][col]; for(int t = col; t <= D + 1; ++t) A[r][t] -= f * A[col][t]; }
            }
            Poly<D> p(A[0][D + 1] / A[0][0]);
            for(int j = 0; j < D; ++j) p += Poly<D>::var(j) * (A[j + 1][D + 1] / A[j + 1][j + 1]);
            pc[(size_t)k] = p;
          }
          return;
        }
      }
      typename SpaceType::DofMappingType dm(space);
      for(Index k = 0; k < ncells; ++k)
      {
        const Index kk = El_::disc ? k : Index(0);
        Poly<D> p;
        dm.prepare(k);
        for(size_t a = 0; a < ms.size(); ++a)
        {
          const double cf = 0.5 + 0.25 * double((a + 3 * kk + size_t(which)) % 4) - 0.375 * double((a * 2 + kk + size_t(which)) % 3);
          p += ms[a] * LD(cf);
          if(El_::disc || k == 0)
          {
            if(El_::disc) { for(int i = 0; i < dm.get_num_local_dofs(); ++i) v(dm.get_index(i), v(dm.get_index(i)) + cf * vs[a](dm.get_index(i))); }
            else v.axpy(vs[a], cf);
          }
        }
        dm.finish();
        pc[(size_t)k] = p;
      }
    }

    void check_jumps()
    {
      Boundary<Shape_> bd(*mc.mesh);
      if(D == 3 && !(bd.planar && bd.inner_planar)) { c.count("jump_checks_skipped_nonplanar_faces"); return; }
      const std::string k = kp + " trace";
      typedef typename Boundary<Shape_>::FacetShape FacetShape;
      const String cub = ShapeInfo<Shape_>::is_simplex ? String("auto-degree:5") : String("gauss-legendre:3");
      Cubature::DynamicFactory cf(cub);
      const int nfun = (El_::vertex_dofs && ShapeInfo<Shape_>::is_simplex) ? 4 : 2;
      std::vector<std::vector<Poly<D>>> pcs((size_t)nfun); std::vector<Vec> vv((size_t)nfun);
      for(int w = 0; w < nfun; ++w) make_piecewise(w, pcs[(size_t)w], vv[(size_t)w]);
      auto q = ref_quadrature<FacetShape>(2 * El_::pk + 2);
      // exact value of the facet sums; mode 0: [u][v], 1: (s ds)^p [grad u].[grad v]
      auto exact = [&](int mode, bool inner, bool outer, int a, int b, double s, double p, LD& scale)
      {
        LD r = 0; scale = 0;
        auto add = [&](const typename Boundary<Shape_>::Facet& f)
        {
          const bool two = (f.cells.size() == 2u);
          const Poly<D>& u1 = pcs[(size_t)a][(size_t)f.cells[0]]; const Poly<D>& w1 = pcs[(size_t)b][(size_t)f.cells[0]];
          Poly<D> ju = u1, jw = w1;
          if(two) { ju = u1 - pcs[(size_t)a][(size_t)f.cells[1]]; jw = w1 - pcs[(size_t)b][(size_t)f.cells[1]]; }
          Poly<D> integrand = (mode == 0) ? ju * jw : Poly<D>();
          if(mode == 1) for(int i = 0; i < D; ++i) integrand += ju.diff(i) * jw.diff(i);
          for(size_t iq = 0; iq < q.pts.size(); ++iq)
          {
            std::array<LD, D> x; LD ds;
            bd.eval(f, q.pts[iq], x, ds);
            LD w = q.wts[iq] * ds;
            if(mode == 1) w *= std::pow(LD(s) * ds, LD(p));
            r += w * integrand.eval(x);
            // scale: the one-sided products
            LD sc = (mode == 0) ? u1.eval_abs(x) * w1.eval_abs(x) : LD(0);
            if(mode == 1) for(int i = 0; i < D; ++i) sc += u1.diff(i).eval_abs(x) * w1.diff(i).eval_abs(x);
            scale += w * sc * (two ? 4 : 1);
          }
        };
        if(inner) for(auto& f : bd.inner) add(f);
        if(outer) for(auto& f : bd.facets) add(f);
        return r;
      };
      for(int sel = 0; sel < 3; ++sel)
      {
        const bool inner = (sel != 2), outer = (sel != 0);
        if(inner && !outer && bd.inner.empty()) continue;
        const std::string ks = std::string(sel == 0 ? "inner" : sel == 1 ? "all" : "outer");
        Assembly::TraceAssembler<TrafoType> tr(trafo);
        tr.compile_all_facets(inner, outer);
        // jump operator
        {
          const double alpha = (sel == 1) ? -0.75 : 1.0;
          CSR M;
          Assembly::SymbolicAssembler::assemble_matrix_ext_facet1(M, space);
          M.format();
          if(sel == 1) tr.assemble_jump_operator_matrix(M, space, cf, alpha); else tr.assemble_jump_operator_matrix(M, space, cf);
          c.count("jump_matrices");
          for(int a = 0; a < nfun; ++a) for(int b = 0; b < nfun; ++b)
          {
            LD sa = 0, ex = LD(alpha) * exact(0, inner, outer, a, b, 0, 0, sa), sc = 0;
            LD got = bilinear(M, vv[(size_t)b], vv[(size_t)a], &sc);
            c.check(std::fabs(got - ex) <= LD(1e-10) * (sc + sa + LD(1e-30)), k + " jump-operator " + ks, [&]{ return "v^T J u = " + std::to_string(double(got)) + ", exact sum of the facet integrals of [u][v] " + std::to_string(double(ex)) + " (functions " + std::to_string(a) + "," + std::to_string(b) + ")"; });
          }
        }
        // jump stabilisation operator: default parameters and two other sets
        for(int par = 0; par < 3; ++par)
        {
          const double gamma = par == 0 ? 1.0 : par == 1 ? 0.5 : -2.0;
          const double s = par == 0 ? 2.0 : par == 1 ? 1.5 : 1.0;
          const double p = par == 0 ? 2.0 : par == 1 ? 1.0 : 0.5;
          if(par > 0 && sel == 2) continue;
          CSR M;
          Assembly::SymbolicAssembler::assemble_matrix_ext_facet1(M, space);
          M.format();
          if(par == 0) tr.assemble_jump_stabil_operator_matrix(M, space, cf); else tr.assemble_jump_stabil_operator_matrix(M, space, cf, gamma, s, p);
          c.count("jump_matrices");
          for(int a = 0; a < nfun; ++a) for(int b = 0; b < nfun; ++b)
          {
            LD sa = 0, ex = LD(gamma) * exact(1, inner, outer, a, b, s, p, sa), sc = 0;
            LD got = bilinear(M, vv[(size_t)b], vv[(size_t)a], &sc);
            c.check(std::fabs(got - ex) <= LD(1e-10) * (sc + std::fabs(LD(gamma)) * sa + LD(1e-30)), k + " jump-stabil " + ks, [&]{ return "v^T J u = " + std::to_string(double(got)) + ", exact sum of (s J_E)^p * facet integrals of [grad u].[grad v] " + std::to_string(double(ex)) + " (functions " + std::to_string(a) + "," + std::to_string(b) + ", gamma " + std::to_string(gamma) + ", s " + std::to_string(s) + ", p " + std::to_string(p) + ")"; });
          }
        }
      }
    }
  };

  template<typename Shape_>
  void enumerate_shape_jobs(verif::Ctx& c)
  {
    const std::string sn = ShapeInfo<Shape_>::name();
    auto fam = mesh_family<Shape_>(c.thorough);
    for(size_t im = 0; im < fam.size(); ++im)
    {
      const MeshSpec& ms = fam[im];
      auto one = [&](const char* el, auto fn)
      {
        if(!c.want()) return;
        c.desc([&]{ return sn + " " + el + " mesh " + ms.str(); });
        MeshCtx<Shape_> mc = make_mesh<Shape_>(ms);
        fn(mc);
        c.nontrivial(verif::Hash().str(sn).str(el).str(ms.str()).get());
        c.outcome(sn + " " + el);
        c.count("cases");
      };
      one("L1", [&](MeshCtx<Shape_>& mc) { JobsChecker<Shape_, EL1> ch(c, mc); ch.check_vector(); ch.check_boundary(); ch.check_jumps(); });
      one("L2", [&](MeshCtx<Shape_>& mc) { JobsChecker<Shape_, EL2> ch(c, mc); ch.check_vector(); ch.check_boundary(); ch.check_jumps(); });
      one("CR", [&](MeshCtx<Shape_>& mc) { JobsChecker<Shape_, ECR> ch(c, mc); ch.check_vector(); ch.check_boundary(); ch.check_jumps(); });
      one("P1dc", [&](MeshCtx<Shape_>& mc) { JobsChecker<Shape_, EP1> ch(c, mc); ch.check_boundary(); ch.check_jumps(); });
    }
  }
}

int main(int argc, char** argv)
{
  Runtime::ScopeGuard guard(argc, argv);
  verif::Spec spec;
  spec.property = "C16";
  spec.harness = "c16_jobs";
  spec.rule = "cases = (shape, mesh of the c16 family, element in {Lagrange-1, Lagrange-2, CroRavRanTur, discontinuous P1}); per case: VectorErrorComputer and the "
    "error / discrete / analytic function integral jobs for blocked vectors and vector valued functions (H0/H1/H2 and component-wise norms, value, gradient, "
    "divergence, vorticity, L1 for errors of fixed sign, Lmax for constant errors) against exact integrals of polynomials; CellErrorFunctionIntegralJob scalar and "
    "blocked (every cell value == exact integral over that cell, sum == total, job reuse, copy); TraceAssembler: blocked surface integral, jump operator and jump "
    "stabilisation operator (v^T J u == sum over the selected facets of the exact facet integrals of [u][v] resp. (s J_E)^p [grad u].[grad v] for piecewise "
    "polynomial FE functions: global polynomials for the continuous spaces, cell-wise different polynomials for the discontinuous space, arbitrary nodal values "
    "for Lagrange-1 on simplices; facet selections inner / all / outer; three parameter sets); UnitFilterAssembler: filter from a vector, blocked homogeneous / "
    "from blocked vector / from vector valued function on the full boundary (DOF set == DOFs whose node point lies on a boundary facet).";
  spec.bounds_quick = "tria/quad/tetra/hexa, mesh family of c16_core.hpp";
  spec.bounds_thorough = "3D: larger mesh family (2D uses the full family in both tiers)";
  spec.assumptions = {
    "facet checks in 3D only on meshes whose faces are planar parallelograms/triangles (surface element constant per face)",
    "sign convention of value/gradient of the error function integral is not fixed by the documentation: absolute values are compared",
    "boundary facets in the jump operators are treated as jumps against zero (as implemented: only one adjacent cell contributes)",
    "Lmax is a maximum over cubature points: checked for constant errors only",
    "TraceAssembler::assemble_flow_accum is marked provisional ('use at own risk') and has no stated integral: not covered",
    "FunctionIntegralInfo::synchronize (MPI), print_norms/print_field_info (printing) are out of scope",
    "copy/conversion assignment of the result holders (FunctionCellIntegralInfo::operator=, ScalarErrorInfo/VectorErrorInfo converting operator=) is not an assembly entry point and not exercised (they flow off the end of a non-void function in /repo: observation); copy construction is",
    "ScalarErrorComputer<.., sub_dimensional_=true> (surface meshes with world dim > shape dim), Scalar/VectorErrorInfo::synchronize (MPI), format_string / operator<< (printing) are out of scope",
    "oracle integrates polynomials only"};
  spec.max_fail_per_worker = 100000;
  return verif::run(spec, argc, argv, [&](verif::Ctx& c) {
    enumerate_shape_jobs<Shape::Simplex<2>>(c);
    enumerate_shape_jobs<Shape::Hypercube<2>>(c);
    enumerate_shape_jobs<Shape::Simplex<3>>(c);
    enumerate_shape_jobs<Shape::Hypercube<3>>(c);
  });
}
