// C12 -- partitions cover each cell once; neighbouring patches agree on their interface.
//
// Every surjective cell->rank assignment of small meshes is pushed through the real patch extraction path
// RootMeshNode::extract_patch(comm_ranks, elems_at_rank, rank) (PatchMeshPartFactory, PatchMeshFactory,
// PatchMeshPartSplitter, PatchHaloFactory) for every rank, followed by joint refinement of base and patches.
// Two-level (recursive) partitions additionally run PatchHaloSplitter exactly as
// Control::Domain::PartiDomainControlBase::_split_basemesh_halos does, with the message exchange replaced by passing
// the serialized buffers directly.  The built-in partitioners Parti2Lvl and PartiIterative (virtual clock, all seeds of
// a range) are checked for "exactly p non-empty patches covering every cell once" and fed through the same path.
//
// Oracle: all relations are evaluated geometrically -- an entity is identified by the (exact, fixed point) coordinates
// of its vertices, never by FEAT's target maps.
#include <verif.hpp>
#include <kernel/runtime.hpp>
#include <kernel/geometry/mesh_node.hpp>
#include <kernel/geometry/mesh_atlas.hpp>
#include <kernel/geometry/mesh_file_reader.hpp>
#include <kernel/geometry/boundary_factory.hpp>
#include <kernel/geometry/parti_2lvl.hpp>
#include <kernel/geometry/parti_iterative.hpp>
#include <kernel/geometry/patch_halo_splitter.hpp>
#include <kernel/util/dist.hpp>
#include <c10_meshlib.hpp>

#include <csignal>
#include <fstream>
#include <malloc.h>
#include <sys/time.h>
#include <time.h>

using namespace FEAT;
using namespace FEAT::Geometry;

// ---------------------------------------------------------------------------------------------------------------
// virtual clock: PartiIterative seeds its generator with time(nullptr) and bounds its loops with TimeStamp
// (gettimeofday).  Both are interposed; when the virtual clock is on, every gettimeofday call advances it by 1 s.
static bool g_vclock_on = false;
static long g_vclock_s = 0;
static long g_fake_time = 0;
extern "C" int gettimeofday(struct timeval* tv, void*) noexcept
{
  if(g_vclock_on) { g_vclock_s += 1; tv->tv_sec = 1000 + g_vclock_s; tv->tv_usec = 0; return 0; }
  struct timespec ts; clock_gettime(CLOCK_REALTIME, &ts);
  tv->tv_sec = ts.tv_sec; tv->tv_usec = ts.tv_nsec / 1000; return 0;
}
extern "C" time_t time(time_t* t) noexcept
{
  time_t v;
  if(g_vclock_on) v = (time_t)g_fake_time;
  else { struct timespec ts; clock_gettime(CLOCK_REALTIME, &ts); v = ts.tv_sec; }
  if(t) *t = v;
  return v;
}

namespace
{
  typedef std::vector<std::array<vm::i64, 3>> GKey;
  GKey gkey(const vm::PMesh& M, int d, Index e)
  {
    GKey k;
    if(d == 0) k.push_back(M.vtx[size_t(e)]);
    else for(int j = 0; j < M.cnt(d, 0); ++j) k.push_back(M.vtx[size_t(M.tup(d, 0, e)[j])]);
    std::sort(k.begin(), k.end());
    return k;
  }

  std::string assign_str(const std::vector<int>& a) { std::string s; for(int x : a) s += char(x < 10 ? '0' + x : 'a' + x - 10); return s; }

  /// order: 0 ascending cell indices per rank, 1 descending, 2 non-monotone (odd positions first)
  Adjacency::Graph make_graph(const std::vector<int>& a, int p, int order)
  {
    const Index n = Index(a.size());
    Adjacency::Graph g(Index(p), n, n);
    Index* ptr = g.get_domain_ptr(); Index* idx = g.get_image_idx();
    Index k = 0;
    for(int r = 0; r < p; ++r)
    {
      ptr[r] = k;
      std::vector<Index> cl;
      for(Index i = 0; i < n; ++i) if(a[size_t(i)] == r) cl.push_back(i);
      if(order == 1) std::reverse(cl.begin(), cl.end());
      if(order == 2) { std::vector<Index> o; for(size_t i = 1; i < cl.size(); i += 2) o.push_back(cl[i]); for(size_t i = 0; i < cl.size(); i += 2) o.push_back(cl[i]); cl = o; }
      for(Index x : cl) idx[k++] = x;
    }
    ptr[p] = k;
    return g;
  }

  /// iterates all surjective maps {0..n-1} -> {0..p-1}; returns false when exhausted
  bool next_assign(std::vector<int>& a, int p)
  {
    for(;;)
    {
      size_t i = 0;
      while(i < a.size() && a[i] == p - 1) { a[i] = 0; ++i; }
      if(i == a.size()) return false;
      ++a[i];
      std::vector<char> seen(size_t(p), 0); int ns = 0;
      for(int x : a) if(!seen[size_t(x)]) { seen[size_t(x)] = 1; ++ns; }
      if(ns == p) return true;
    }
  }
  bool first_assign(std::vector<int>& a, size_t n, int p)
  {
    a.assign(n, 0);
    if(p == 1) return n > 0;
    if(size_t(p) > n) return false;
    return next_assign(a, p);
  }

  template<typename Shape_>
  struct P12
  {
    typedef ConformalMesh<Shape_, Shape_::dimension, double> MeshType;
    typedef MeshPart<MeshType> PartType;
    typedef RootMeshNode<MeshType> NodeType;
    static constexpr int dim = Shape_::dimension;

    struct Leaf
    {
      int rank = 0;
      std::unique_ptr<NodeType> node;
      std::set<int> comm;        // neighbour ranks reported by FEAT
      bool comm_dup = false;
      // filled per level
      vm::PMesh pm;
      std::vector<Index> tobase[4];
      std::map<GKey, Index> ent[4];
    };

    static void flush(verif::Ctx& c, vm::Rep& r) { for(auto& x : r.f) c.fail(x.first, x.second); r.f.clear(); }

    /// all relations of one refinement level
    static bool check_level(verif::Ctx& c, const NodeType& base, std::vector<Leaf>& leaves, int qtot, const std::string& ctx, bool base_has_patches)
    {
      vm::Rep r; r.ctx = ctx;
      vm::PMesh B; std::string err;
      if(!vm::extract_mesh(B, *base.get_mesh(), qtot, &err)) { c.fail("harness.base-lattice", err); return false; }
      std::map<GKey, Index> bmap[4];
      for(int d = 0; d <= dim; ++d) for(Index e = 0; e < B.n[d]; ++e) if(!bmap[d].emplace(gkey(B, d, e), e).second) { c.fail("harness.base-duplicate", "duplicate geometric entity in base mesh"); return false; }
      std::vector<int> cover(size_t(B.n[dim]), 0);
      std::vector<std::vector<int>> vert_ranks(size_t(B.n[0])); // ranks touching each base vertex
      for(Leaf& L : leaves)
      {
        const std::string rs = "rank " + vm::str(L.rank);
        if(!vm::extract_mesh(L.pm, *L.node->get_mesh(), qtot, &err)) { r.fail("patch.lattice", rs + ": " + err); continue; }
        vm::Rep rt; rt.ctx = ctx + " " + rs + " patch mesh";
        vm::check_topology(L.pm, rt, "patch.topology");
        for(auto& x : rt.f) r.f.push_back(x);
        if(!rt.ok()) continue;
        for(int d = 0; d <= dim; ++d)
        {
          L.tobase[d].assign(size_t(L.pm.n[d]), vm::NIL);
          L.ent[d].clear();
          std::set<Index> img;
          for(Index e = 0; e < L.pm.n[d]; ++e)
          {
            GKey k = gkey(L.pm, d, e);
            auto it = bmap[d].find(k);
            if(it == bmap[d].end()) { r.fail("patch.entity-not-in-base.dim" + vm::str(d), rs + ": patch entity dim " + vm::str(d) + " #" + vm::str(e) + " does not exist in the base mesh"); continue; }
            L.tobase[d][size_t(e)] = it->second;
            if(!img.insert(it->second).second) r.fail("patch.not-injective.dim" + vm::str(d), rs + ": two patch entities of dim " + vm::str(d) + " map to base entity #" + vm::str(it->second));
            L.ent[d].emplace(k, e);
          }
        }
        if(!r.ok()) continue;
        for(Index e = 0; e < L.pm.n[dim]; ++e)
        {
          const Index be = L.tobase[dim][size_t(e)];
          cover[size_t(be)] += 1;
          int s1 = 0, s2 = 0; vm::cell_volume(L.pm, e, &s1); vm::cell_volume(B, be, &s2);
          if(s1 != s2) r.fail("patch.orientation", rs + ": patch cell #" + vm::str(e) + " has orientation sign " + vm::str(s1) + ", base cell #" + vm::str(be) + " has " + vm::str(s2));
        }
        for(Index v = 0; v < L.pm.n[0]; ++v) vert_ranks[size_t(L.tobase[0][size_t(v)])].push_back(L.rank);
        // the patch mesh part stored in the base node is the patch->base map
        if(base_has_patches)
        {
          const PartType* pp = base.get_patch(L.rank);
          if(pp == nullptr) r.fail("patchpart.missing", rs + ": base node has no patch mesh part");
          else
          {
            vm::PPart P; vm::extract_part(P, *pp);
            for(int d = 0; d <= dim; ++d) if(P.trg[d] != L.tobase[d])
              r.fail("patchpart.target.dim" + vm::str(d), rs + ": target set of the patch mesh part (dim " + vm::str(d) + ") is not the geometric patch->base map");
          }
        }
      }
      if(!r.ok()) { flush(c, r); return false; }
      for(Index e = 0; e < B.n[dim]; ++e) if(cover[size_t(e)] != 1) { r.fail("cover", "base cell #" + vm::str(e) + " is contained in " + vm::str(cover[size_t(e)]) + " patches"); break; }
      // neighbours: share at least one vertex
      std::map<int, std::set<int>> nb;
      for(auto& vr : vert_ranks) for(int a : vr) for(int b : vr) if(a != b) nb[a].insert(b);
      std::map<int, Leaf*> byrank; for(Leaf& L : leaves) byrank[L.rank] = &L;
      for(Leaf& L : leaves)
      {
        const std::string rs = "rank " + vm::str(L.rank);
        if(L.comm_dup) r.fail("neighbours.duplicate", rs + ": comm_ranks lists a rank twice");
        if(L.comm != nb[L.rank])
        {
          std::string a, b; for(int x : L.comm) a += vm::str(x) + " "; for(int x : nb[L.rank]) b += vm::str(x) + " ";
          r.fail("neighbours.set", rs + ": reported neighbour ranks {" + a + "} but the patches sharing a vertex are {" + b + "}");
        }
        std::set<int> hk; for(auto& h : L.node->get_halo_map()) hk.insert(h.first);
        if(hk != nb[L.rank]) r.fail("halo.keys", rs + ": halo map has " + vm::str(hk.size()) + " entries, " + vm::str(nb[L.rank].size()) + " neighbours share a vertex");
      }
      if(!r.ok()) { flush(c, r); return false; }
      // halos
      for(Leaf& L : leaves) for(int o : nb[L.rank])
      {
        Leaf& O = *byrank[o];
        const std::string ps = "halo " + vm::str(L.rank) + "->" + vm::str(o);
        const PartType* h1 = L.node->get_halo(o); const PartType* h2 = O.node->get_halo(L.rank);
        if(h1 == nullptr || h2 == nullptr) { r.fail("halo.missing", ps + ": halo mesh part is null"); continue; }
        vm::PPart H1, H2; vm::extract_part(H1, *h1); vm::extract_part(H2, *h2);
        for(int d = 0; d <= dim; ++d)
        {
          std::vector<Index> s1, s2; bool bad = false;
          for(Index x : H1.trg[d]) { if(x >= L.pm.n[d]) { bad = true; break; } s1.push_back(L.tobase[d][size_t(x)]); }
          for(Index x : H2.trg[d]) { if(x >= O.pm.n[d]) { bad = true; break; } s2.push_back(O.tobase[d][size_t(x)]); }
          if(bad) { r.fail("halo.bound.dim" + vm::str(d), ps + ": halo target index out of range"); continue; }
          // the shared entities: in both closures
          std::set<Index> want;
          for(Index x : L.tobase[d]) want.insert(x);
          std::set<Index> wo(O.tobase[d].begin(), O.tobase[d].end()), shared;
          for(Index x : want) if(wo.count(x)) shared.insert(x);
          std::set<Index> have(s1.begin(), s1.end());
          if(have.size() != s1.size()) r.fail("halo.duplicates.dim" + vm::str(d), ps + ": an entity is listed twice");
          if(have != shared) r.fail("halo.set.dim" + vm::str(d), ps + ": halo lists " + vm::str(have.size()) + " entities of dim " + vm::str(d) + ", the two patches share " + vm::str(shared.size()));
          if(L.rank < o && s1 != s2)
          {
            size_t i = 0; while(i < s1.size() && i < s2.size() && s1[i] == s2[i]) ++i;
            r.fail("halo.order.dim" + vm::str(d), ps + ": the two sides enumerate the shared entities of dim " + vm::str(d) + " differently (first difference at position " + vm::str(i) + ", sizes " + vm::str(s1.size()) + "/" + vm::str(s2.size()) + ")");
          }
          c.count("halo_pairs_dims_checked");
        }
      }
      // mesh parts of the base mesh, restricted to the patches
      for(const auto& nm : base.get_mesh_part_names())
      {
        const PartType* bp = base.find_mesh_part(nm);
        if(bp == nullptr) continue;
        vm::PPart BP; vm::extract_part(BP, *bp);
        for(Leaf& L : leaves)
        {
          const std::string ps = "rank " + vm::str(L.rank) + " part '" + nm + "'";
          const auto* pn = L.node->find_mesh_part_node(nm);
          if(pn == nullptr) { r.fail("part.node-missing", ps + ": patch node has no entry"); continue; }
          const PartType* pp = pn->get_mesh();
          vm::PPart PP; if(pp) vm::extract_part(PP, *pp);
          bool any = false;
          for(int d = 0; d <= dim; ++d)
          {
            std::set<Index> inpatch(L.tobase[d].begin(), L.tobase[d].end());
            std::map<Index, long> want, have;
            for(Index x : BP.trg[d]) if(inpatch.count(x)) { want[x] += 1; any = true; }
            if(pp) for(Index x : PP.trg[d]) { if(x >= L.pm.n[d]) { r.fail("part.bound", ps + ": target out of range"); continue; } have[L.tobase[d][size_t(x)]] += 1; }
            if(want != have) r.fail("part.split.dim" + vm::str(d), ps + ": the split part has " + vm::str(have.size()) + " distinct entities of dim " + vm::str(d) + ", the base part has " + vm::str(want.size()) + " inside this patch");
          }
          if(any && pp == nullptr) r.fail("part.null", ps + ": patch touches the part but the split part is null");
          if(pp) { vm::Rep rp; rp.ctx = ctx + " " + ps; vm::check_part_valid(L.pm, PP, rp, "part.split"); for(auto& x : rp.f) r.f.push_back(x); }
          c.count("split_parts_checked");
        }
      }
      const bool ok = r.ok();
      flush(c, r);
      return ok;
    }

    /// Mesh parts of the base node.  extract_patch reuses ONE PatchMeshPartSplitter for all parts in alphabetical name
    /// order, so the list alternates "rich" parts (cells+closure, boundary, facets with topology) with "poor" parts that
    /// have empty target sets in some dimensions (vertex-only pins, edge-only parts); the name prefix is rotated with the
    /// variant so that every kind comes first and last.
    static void attach_base_parts(NodeType& base, int qtot, int variant)
    {
      vm::PMesh M; vm::extract_mesh(M, *base.get_mesh(), qtot);
      vm::Rep r; vm::TopoInfo ti; vm::check_topology(M, r, "base", &ti);
      std::vector<std::pair<std::string, std::unique_ptr<PartType>>> parts;
      auto zone = [&](Index first, Index step) {
        vm::PartSpec ps; for(Index i = first; i < M.n[dim]; i += step) ps.trg[dim].push_back(i);
        if(ps.trg[dim].empty()) ps.trg[dim].push_back(0);
        vm::close_part(M, ps); return vm::build_part<MeshType>(ps, M, qtot); };
      auto pin = [&](std::vector<Index> v) { vm::PartSpec ps; for(Index x : v) ps.trg[0].push_back(x % M.n[0]); return vm::build_part<MeshType>(ps, M, qtot); };
      auto edges = [&](Index first, Index step) { vm::PartSpec ps; for(Index i = first; i < M.n[1]; i += step) ps.trg[1].push_back(i); return vm::build_part<MeshType>(ps, M, qtot); };
      parts.emplace_back("zone", zone(0, 2));
      parts.emplace_back("pin", pin({0}));                       // one corner vertex: does not touch every patch
      {
        BoundaryFactory<MeshType> bf(*base.get_mesh());
        parts.emplace_back("bnd", bf.make_unique());
      }
      parts.emplace_back("edges", edges(Index(variant % 2), 2));  // edges only, no vertices
      parts.emplace_back("pin2", pin({M.n[0] - 1, M.n[0] / 2}));
      parts.emplace_back("zoneall", zone(0, 1));
      parts.emplace_back("edges2", edges(0, 3));
      {
        std::vector<Index> top;
        for(Index f = 0; f < M.n[dim - 1]; ++f) if(((Index(variant) + f) % 3) != 1) top.push_back(f);
        if(top.empty()) top.push_back(0);
        vm::PartSpec ps = vm::topo_part(M, ti, top, dim - 1, variant, "topo");
        parts.emplace_back("topo", vm::build_part<MeshType>(ps, M, qtot));
      }
      parts.emplace_back("pin3", pin({M.n[0] / 3}));
      const size_t np = parts.size();
      const bool rev = ((variant / int(np)) & 1) != 0;
      for(size_t i = 0; i < np; ++i)
      {
        size_t pos = (i + size_t(variant)) % np; if(rev) pos = np - 1 - pos;
        base.add_mesh_part(std::string(1, char('a' + pos)) + "_" + parts[i].first, std::move(parts[i].second));
      }
    }

    static void collect_comm(Leaf& L, const std::vector<int>& comm)
    {
      for(int x : comm) if(!L.comm.insert(x).second) L.comm_dup = true;
    }

    /// the second overload extract_patch(elements, split_meshparts, split_halos, split_patches) (used by the voxel domain
    /// control) must produce the same patch as the graph overload, and split the registered patch parts of the base node
    static bool check_vector_overload(verif::Ctx& c, NodeType& base, const Adjacency::Graph& graph, std::vector<Leaf>& leaves, int qtot)
    {
      vm::Rep r; r.ctx = "extract_patch(elements,true,false,split_patches) for rank 0";
      std::vector<Index> el;
      for(auto it = graph.image_begin(0); it != graph.image_end(0); ++it) el.push_back(*it);
      Leaf& L = leaves[0];
      // split_patches=true aborts in add_patch(nullptr) as soon as one registered patch does not touch the new patch
      // (no caller in the repository uses that flag): it is only exercised when every other patch is a neighbour
      bool all_nb = true;
      for(Leaf& O : leaves) if(O.rank != L.rank && !L.comm.count(O.rank)) all_nb = false;
      if(!all_nb) c.excluded("extract_patch(elements,..,split_patches=true) with a registered patch that does not touch the new patch (XASSERT in add_patch; flag unused in the repository)");
      std::unique_ptr<NodeType> alt = base.extract_patch(std::move(el), true, false, all_nb);
      vm::PMesh A; std::string err;
      if(!vm::extract_mesh(A, *alt->get_mesh(), qtot, &err)) { c.fail("overload.lattice", err); return false; }
      bool same = (A.vtx == L.pm.vtx);
      for(int d = 1; d <= dim && same; ++d) for(int f = 0; f < d; ++f) if(A.idx[d][f] != L.pm.idx[d][f]) same = false;
      if(!same) r.fail("overload.mesh", "patch mesh differs from the one extracted through the elements-at-rank graph");
      for(const auto& nm : base.get_mesh_part_names())
      {
        const PartType* p1 = L.node->find_mesh_part(nm); const PartType* p2 = alt->find_mesh_part(nm);
        if((p1 == nullptr) != (p2 == nullptr)) { r.fail("overload.part", "part '" + nm + "' present in only one of the two extractions"); continue; }
        if(p1 == nullptr) continue;
        vm::PPart P1, P2; vm::extract_part(P1, *p1); vm::extract_part(P2, *p2);
        for(int d = 0; d <= dim; ++d) if(P1.trg[d] != P2.trg[d]) r.fail("overload.part", "part '" + nm + "' differs between the two extractions (dim " + vm::str(d) + ")");
      }
      // registered patches of the base node, restricted to this patch: own patch = everything, others = shared entities
      for(Leaf& O : leaves)
      {
        if(!all_nb) break;
        const PartType* sp = alt->get_patch(O.rank);
        std::set<Index> shared[4]; bool any = false;
        for(int d = 0; d <= dim; ++d)
        {
          std::set<Index> mine(L.tobase[d].begin(), L.tobase[d].end());
          for(Index x : O.tobase[d]) if(mine.count(x)) { shared[d].insert(x); any = true; }
        }
        if(sp == nullptr) { if(any) r.fail("overload.patch-null", "split of patch " + vm::str(O.rank) + " is null although it shares entities with patch 0"); continue; }
        vm::PPart SP; vm::extract_part(SP, *sp);
        for(int d = 0; d <= dim; ++d)
        {
          std::set<Index> have; bool bad = false;
          for(Index x : SP.trg[d]) { if(x >= L.pm.n[d]) { bad = true; break; } have.insert(L.tobase[d][size_t(x)]); }
          if(bad || have.size() != SP.trg[d].size() || have != shared[d])
            r.fail("overload.patch-split.dim" + vm::str(d), "split of registered patch " + vm::str(O.rank) + " lists " + vm::str(SP.trg[d].size()) + " entities of dim " + vm::str(d) + ", shared with patch 0 are " + vm::str(shared[d].size()));
        }
      }
      c.count("vector_overload_checked");
      const bool ok = r.ok();
      flush(c, r);
      return ok;
    }

    /// extract_patch(elements, true, split_halos=true, false) on a parent patch: every halo of the parent restricted to the
    /// child must be exactly the halo entities lying in the child (all dimensions, empty ones included); the mesh parts too
    static bool check_split_halos(verif::Ctx& c, const NodeType& parent, const std::vector<int>& a2, int ch, int qtot)
    {
      vm::Rep r; r.ctx = "extract_patch(elements,true,split_halos=true,false) child " + vm::str(ch);
      std::unique_ptr<NodeType> pc = parent.clone_unique();
      pc->clear_patches();
      vm::PMesh PM; std::string err;
      if(!vm::extract_mesh(PM, *pc->get_mesh(), qtot, &err)) { c.fail("overload.lattice", err); return false; }
      std::vector<Index> el; for(size_t i = 0; i < a2.size(); ++i) if(a2[i] == ch) el.push_back(Index(i));
      // child closure in parent indices
      std::set<Index> inchild[4];
      for(Index e : el) { inchild[dim].insert(e); for(int d = 0; d < dim; ++d) for(int j = 0; j < PM.cnt(dim, d); ++j) inchild[d].insert(PM.tup(dim, d, e)[j]); }
      // every parent halo must touch the child, otherwise add_halo(nullptr) aborts (latent defect, flag unused in the repo)
      std::map<int, vm::PPart> PH;
      for(const auto& h : pc->get_halo_map())
      {
        vm::PPart H; vm::extract_part(H, *h.second);
        bool touch = false; for(int d = 0; d <= dim; ++d) for(Index x : H.trg[d]) if(inchild[d].count(x)) touch = true;
        if(!touch) { c.excluded("extract_patch(elements,..,split_halos=true) with a halo that does not touch the new patch (XASSERT in add_halo; flag unused in the repository)"); return true; }
        PH[h.first] = H;
      }
      std::map<std::string, vm::PPart> PP;
      for(const auto& nm : pc->get_mesh_part_names()) { const PartType* q = pc->find_mesh_part(nm); if(q) { vm::PPart x; vm::extract_part(x, *q); PP[nm] = x; } }
      std::unique_ptr<NodeType> alt = pc->extract_patch(std::move(el), true, true, false);
      vm::PMesh A;
      if(!vm::extract_mesh(A, *alt->get_mesh(), qtot, &err)) { c.fail("overload.lattice", err); return false; }
      std::map<GKey, Index> pent[4];
      for(int d = 0; d <= dim; ++d) for(Index e = 0; e < PM.n[d]; ++e) pent[d].emplace(gkey(PM, d, e), e);
      auto restricted = [&](const vm::PPart& whole, const PartType* split, const std::string& what)
      {
        vm::PPart S; if(split) vm::extract_part(S, *split);
        for(int d = 0; d <= dim; ++d)
        {
          std::map<Index, long> want, have;
          for(Index x : whole.trg[d]) if(inchild[d].count(x)) want[x] += 1;
          if(split) for(Index x : S.trg[d])
          {
            if(x >= A.n[d]) { r.fail("overload.split.bound", what + ": target out of range (dim " + vm::str(d) + ")"); continue; }
            auto it = pent[d].find(gkey(A, d, x));
            if(it == pent[d].end()) { r.fail("overload.split.foreign", what + ": entity not in the parent mesh"); continue; }
            have[it->second] += 1;
          }
          if(want != have) r.fail("overload.split.dim" + vm::str(d), what + ": restricted part lists " + vm::str(have.size()) + " distinct entities of dim " + vm::str(d) + ", the original has " + vm::str(want.size()) + " inside the new patch");
        }
      };
      for(auto& h : PH) restricted(h.second, alt->get_halo(h.first), "halo towards " + vm::str(h.first));
      for(auto& q : PP) restricted(q.second, alt->find_mesh_part(q.first), "part '" + q.first + "'");
      c.count("split_halo_overload_checked");
      const bool ok = r.ok();
      flush(c, r);
      return ok;
    }

    /// one partition given as elements-at-rank graph: extract every patch, check, refine jointly, check again
    /// complete comparison of two mesh nodes (mesh, parts, halos, patches); empty string if equal
    static std::string node_diff(const NodeType& a, const NodeType& b, int qtot)
    {
      vm::PMesh A, B; std::string err;
      vm::extract_mesh(A, *a.get_mesh(), qtot, &err); vm::extract_mesh(B, *b.get_mesh(), qtot, &err);
      std::string d = vm::diff_mesh(A, B); if(!d.empty()) return "mesh: " + d;
      auto names = a.get_mesh_part_names();
      if(names != b.get_mesh_part_names()) return "mesh part names differ";
      for(const auto& nm : names)
      {
        const PartType* pa = a.find_mesh_part(nm); const PartType* pb = b.find_mesh_part(nm);
        if((pa == nullptr) != (pb == nullptr)) return "part '" + nm + "' is null in one node only";
        if(pa == nullptr) continue;
        vm::PPart X, Y; vm::extract_part(X, *pa); vm::extract_part(Y, *pb);
        d = vm::diff_part(X, Y); if(!d.empty()) return "part '" + nm + "': " + d;
      }
      auto cmpmap = [&](const std::map<int, std::unique_ptr<PartType>>& ma, const std::map<int, std::unique_ptr<PartType>>& mb, const std::string& what) -> std::string
      {
        if(ma.size() != mb.size()) return what + " map sizes differ (" + vm::str(ma.size()) + " vs " + vm::str(mb.size()) + ")";
        auto ia = ma.begin(); auto ib = mb.begin();
        for(; ia != ma.end(); ++ia, ++ib)
        {
          if(ia->first != ib->first) return what + " keys differ";
          if((ia->second == nullptr) != (ib->second == nullptr)) return what + " " + vm::str(ia->first) + " null in one node only";
          if(!ia->second) continue;
          vm::PPart X, Y; vm::extract_part(X, *ia->second); vm::extract_part(Y, *ib->second);
          std::string dd = vm::diff_part(X, Y); if(!dd.empty()) return what + " " + vm::str(ia->first) + ": " + dd;
        }
        return "";
      };
      d = cmpmap(a.get_halo_map(), b.get_halo_map(), "halo"); if(!d.empty()) return d;
      return cmpmap(a.get_patch_map(), b.get_patch_map(), "patch");
    }

    /// one partition given as elements-at-rank graph: extract every patch, check, refine jointly, check again.
    /// variant selects: order in which the ranks are extracted, which overload is used (Graph / Partition), which nodes
    /// are replaced by their clones before the joint refinement.
    static void run_partition(verif::Ctx& c, std::unique_ptr<NodeType> base, const Adjacency::Graph& graph, int depth, int qtot, int variant = 0)
    {
      const int p = int(graph.get_num_nodes_domain());
      std::vector<Leaf> leaves{size_t(p)};
      std::vector<int> order;
      for(int r = 0; r < p; ++r) order.push_back(r);
      if(variant % 3 == 1) std::reverse(order.begin(), order.end());
      if(variant % 3 == 2) std::rotate(order.begin(), order.begin() + p / 2, order.end());
      // variant: the base mesh is permuted first and the partition follows through Partition::permute (cell indices mapped by the
      // inverse cell permutation); every rank must then still own the same geometric cells
      Partition partition(graph.clone(), "vf");
      std::vector<std::set<GKey>> owned;
      const bool permute_base = ((variant / 12) % 2 == 1);
      if(permute_base)
      {
        vm::PMesh B0; std::string err; vm::extract_mesh(B0, *base->get_mesh(), qtot, &err);
        owned.resize(size_t(p));
        for(int r = 0; r < p; ++r) for(auto it = graph.image_begin(Index(r)); it != graph.image_end(Index(r)); ++it) owned[size_t(r)].insert(gkey(B0, dim, *it));
        static const PermutationStrategy strat[4] = {PermutationStrategy::random, PermutationStrategy::lexicographic, PermutationStrategy::colored, PermutationStrategy::cuthill_mckee_reversed};
        base->create_permutation(strat[(variant / 24) % 4]);
        partition.permute(base->get_mesh()->get_mesh_permutation().get_inv_perm(dim));
        c.count("permuted_partitions");
      }
      const Adjacency::Graph& graph_used = permute_base ? partition.get_patches() : graph;
      for(int r : order)
      {
        std::vector<int> comm;
        leaves[size_t(r)].rank = r;
        if((variant / 3) % 2 == 0) leaves[size_t(r)].node = base->extract_patch(comm, graph_used, r);
        else leaves[size_t(r)].node = base->extract_patch(comm, partition, r);
        collect_comm(leaves[size_t(r)], comm);
        c.count("patches_extracted");
      }
      // re-invocation: extracting a rank again from the same (now fully populated) base node gives the same patch
      {
        const int r = order[0];
        std::vector<int> comm;
        std::unique_ptr<NodeType> again = base->extract_patch(comm, graph_used, r);
        std::string d = node_diff(*leaves[size_t(r)].node, *again, qtot);
        std::set<int> cs(comm.begin(), comm.end());
        if(d.empty() && (cs != leaves[size_t(r)].comm || cs.size() != comm.size())) d = "comm_ranks differ";
        c.check(d.empty(), "reinvoke.extract_patch", [&]{ return "second extract_patch of rank " + vm::str(r) + " on the same base node differs from the first: " + d; });
        // create_patch_meshpart on a clone without patches must create the same patch parts as extract_patch did
        std::unique_ptr<NodeType> bc = base->clone_unique();
        d = node_diff(*base, *bc, qtot);
        c.check(d.empty(), "clone.base", [&]{ return "clone_unique() of the base node differs: " + d; });
        bc->clear_patches();
        for(int q : order) bc->create_patch_meshpart(graph_used, q);
        for(int q = 0; q < p; ++q)
        {
          const PartType* p1 = base->get_patch(q); const PartType* p2 = bc->get_patch(q);
          if(p1 == nullptr || p2 == nullptr) { c.fail("create_patch_meshpart.missing", "patch part " + vm::str(q) + " missing"); continue; }
          vm::PPart X, Y; vm::extract_part(X, *p1); vm::extract_part(Y, *p2);
          std::string dd = vm::diff_part(X, Y);
          c.check(dd.empty(), "create_patch_meshpart.differs", [&]{ return "create_patch_meshpart(graph, " + vm::str(q) + ") differs from the patch part registered by extract_patch: " + dd; });
        }
        c.count("reinvocations_checked");
      }
      // derived objects: clones take the place of the originals for the rest of the pipeline
      if((variant / 6) % 2 == 1)
      {
        for(Leaf& L : leaves) if(L.rank % 2 == 0)
        {
          std::unique_ptr<NodeType> cl = L.node->clone_unique();
          std::string d = node_diff(*L.node, *cl, qtot);
          c.check(d.empty(), "clone.patch", [&]{ return "clone_unique() of patch node " + vm::str(L.rank) + " differs: " + d; });
          L.node = std::move(cl);
        }
        base = base->clone_unique();
        c.count("clones_substituted");
      }
      for(int lvl = 0; lvl <= depth; ++lvl)
      {
        if(lvl > 0)
        {
          base = base->refine_unique(AdaptMode::none);
          for(Leaf& L : leaves) L.node = L.node->refine_unique(AdaptMode::none);
        }
        if(!check_level(c, *base, leaves, qtot, "level " + vm::str(lvl), true)) return;
        c.count("levels_checked");
        if(lvl == 0 && permute_base)
        {
          for(Leaf& L : leaves)
          {
            std::set<GKey> have; for(Index e = 0; e < L.pm.n[dim]; ++e) have.insert(gkey(L.pm, dim, e));
            c.check(have == owned[size_t(L.rank)], "partition.permute", [&]{ return "after Partition::permute with the mesh's inverse cell permutation rank " + vm::str(L.rank) + " owns " + vm::str(have.size()) + " cells, not the " + vm::str(owned[size_t(L.rank)].size()) + " geometric cells assigned to it"; });
          }
        }
        if(lvl == 0 && !check_vector_overload(c, *base, graph_used, leaves, qtot)) return;
        // every patch re-extracted as a whole through the vector overload with split_halos=true: all its halos
        // (ascending neighbour rank: edge halos followed by single-vertex halos and vice versa) and parts must survive unchanged
        if(lvl == 0) for(Leaf& L : leaves)
          if(!check_split_halos(c, *L.node, std::vector<int>(size_t(L.pm.n[dim]), 0), 0, qtot)) return;
      }
      // finally every patch node is permuted on its own (RootMeshNode::create_permutation moves halos, patches and parts along):
      // the halos of neighbouring patches must still describe the same shared entities in the same order
      if((variant / 2) % 2 == 1)
      {
        static const PermutationStrategy strat[5] = {PermutationStrategy::random, PermutationStrategy::lexicographic, PermutationStrategy::colored, PermutationStrategy::cuthill_mckee, PermutationStrategy::geometric_cuthill_mckee_reversed};
        for(Leaf& L : leaves) if(!L.node->get_mesh()->is_permuted()) L.node->create_permutation(strat[size_t(L.rank + variant) % 5]);
        if(!check_level(c, *base, leaves, qtot, "after create_permutation of every patch node", false)) return;
        c.count("permuted_patch_levels_checked");
      }
      c.outcome("ok ranks=" + vm::str(p));
    }

    /// recursive partition: parents from graph1, every parent patch (refined pref times) split again by graphs2
    static void run_two_level(verif::Ctx& c, std::unique_ptr<NodeType> base, const std::vector<int>& a1, int P,
      const std::vector<std::vector<int>>& a2, const std::vector<int>& K, int pref, int depth, int qtot)
    {
      Adjacency::Graph g1 = make_graph(a1, P, 0);
      std::vector<std::unique_ptr<NodeType>> par{size_t(P)};
      for(int p = 0; p < P; ++p) { std::vector<int> comm; par[size_t(p)] = base->extract_patch(comm, g1, p); }
      for(int i = 0; i < pref; ++i)
      {
        base = base->refine_unique(AdaptMode::none);
        for(auto& n : par) n = n->refine_unique(AdaptMode::none);
      }
      std::vector<int> off(size_t(P) + 1, 0);
      for(int p = 0; p < P; ++p) off[size_t(p) + 1] = off[size_t(p)] + K[size_t(p)];
      std::vector<Leaf> leaves{size_t(off[size_t(P)])};
      std::vector<std::vector<std::unique_ptr<PatchHaloSplitter<MeshType>>>> spl{size_t(P)};
      // buffers[q][d][p] = serialized split of halo(q->p) restricted to child d of q
      std::vector<std::vector<std::map<int, std::vector<Index>>>> buf{size_t(P)};
      for(int p = 0; p < P; ++p)
      {
        NodeType& pn = *par[size_t(p)];
        Adjacency::Graph g2 = make_graph(a2[size_t(p)], K[size_t(p)], (p + int(a2[size_t(p)].size())) % 3);
        buf[size_t(p)].resize(size_t(K[size_t(p)]));
        for(int ch = 0; ch < K[size_t(p)]; ++ch)
        {
          Leaf& L = leaves[size_t(off[size_t(p)] + ch)];
          L.rank = off[size_t(p)] + ch;
          std::vector<int> comm;
          L.node = pn.extract_patch(comm, g2, ch);
          std::map<int, int> ren; std::vector<int> gcomm;
          for(int x : comm) { ren[x] = off[size_t(p)] + x; gcomm.push_back(off[size_t(p)] + x); }
          // rename via a temporary offset to avoid collisions between old and new keys
          std::map<int, int> r1, r2; for(auto& x : ren) { r1[x.first] = 100000 + x.second; r2[100000 + x.second] = x.second; }
          L.node->rename_halos(r1); L.node->rename_halos(r2);
          collect_comm(L, gcomm);
          c.count("patches_extracted");
          // split the parent halos as PartiDomainControlBase::_split_basemesh_halos does
          spl[size_t(p)].emplace_back(new PatchHaloSplitter<MeshType>(*pn.get_mesh(), *pn.get_patch(ch)));
          for(const auto& h : pn.get_halo_map())
          {
            const std::size_t sz = spl[size_t(p)].back()->add_halo(h.first, *h.second);
            if(sz > 0)
            {
              std::vector<Index> b = spl[size_t(p)].back()->serialize_split_halo(h.first, L.rank);
              if(b.size() != sz) c.fail("halosplit.size", "serialized split halo has " + vm::str(b.size()) + " entries, add_halo announced " + vm::str(sz));
              buf[size_t(p)][size_t(ch)][h.first] = b;
            }
          }
        }
      }
      for(int p = 0; p < P; ++p) for(int ch = 0; ch < K[size_t(p)]; ++ch)
      {
        Leaf& L = leaves[size_t(off[size_t(p)] + ch)];
        for(const auto& h : par[size_t(p)]->get_halo_map())
        {
          const int q = h.first;
          for(int d = 0; d < K[size_t(q)]; ++d)
          {
            auto it = buf[size_t(q)][size_t(d)].find(p);
            if(it == buf[size_t(q)][size_t(d)].end()) continue;
            if(!spl[size_t(p)][size_t(ch)]->intersect_split_halo(q, it->second, Index(0))) continue;
            const int nrank = int(it->second.at(0));
            L.node->add_halo(nrank, spl[size_t(p)][size_t(ch)]->make_unique());
            collect_comm(L, std::vector<int>{nrank});
            c.count("split_halos_created");
          }
        }
      }
      // vector overload with split_halos=true on a fresh clone of the parent: parent halos restricted to the child
      for(int p = 0; p < P; ++p) for(int ch = 0; ch < K[size_t(p)]; ++ch)
        if(!check_split_halos(c, *par[size_t(p)], a2[size_t(p)], ch, qtot)) return;
      for(int lvl = 0; lvl <= depth; ++lvl)
      {
        if(lvl > 0)
        {
          base = base->refine_unique(AdaptMode::none);
          for(Leaf& L : leaves) L.node = L.node->refine_unique(AdaptMode::none);
        }
        if(!check_level(c, *base, leaves, qtot, "two-level, level " + vm::str(lvl), false)) return;
        c.count("levels_checked");
      }
      c.outcome("ok two-level leaves=" + vm::str(leaves.size()));
    }

    /// the partition graph a partitioner returns: exactly p non-empty rows, every cell once
    static bool check_graph(verif::Ctx& c, const Adjacency::Graph& g, Index p, Index ncells, const std::string& who)
    {
      bool ok = true;
      ok = c.check(g.get_num_nodes_domain() == p, who + ".patch-count", [&]{ return "graph has " + vm::str(g.get_num_nodes_domain()) + " patches, " + vm::str(p) + " requested"; }) && ok;
      ok = c.check(g.get_num_nodes_image() == ncells, who + ".cell-count", [&]{ return "graph refers to " + vm::str(g.get_num_nodes_image()) + " cells, mesh has " + vm::str(ncells); }) && ok;
      if(!ok) return false;
      std::vector<int> cnt(size_t(ncells), 0);
      for(Index r = 0; r < p; ++r)
      {
        if(g.degree(r) == 0) { c.fail(who + ".empty-patch", "patch " + vm::str(r) + " is empty"); ok = false; }
        for(auto it = g.image_begin(r); it != g.image_end(r); ++it) { if(*it >= ncells) { c.fail(who + ".cell-range", "cell index out of range"); return false; } cnt[size_t(*it)] += 1; }
      }
      for(Index i = 0; i < ncells; ++i) if(cnt[size_t(i)] != 1) { c.fail(who + ".cover", "cell " + vm::str(i) + " is assigned " + vm::str(cnt[size_t(i)]) + " times"); ok = false; break; }
      return ok;
    }

    static std::unique_ptr<NodeType> make_base(const vm::MeshSpec& ms, int qtot, int part_variant)
    {
      std::unique_ptr<NodeType> base = NodeType::make_unique(vm::build_mesh<MeshType>(ms, true));
      if(part_variant >= 0) attach_base_parts(*base, qtot, part_variant);
      return base;
    }
  };

  // ---- mesh catalogue -----------------------------------------------------------------------------------------
  vm::MeshSpec rotate_cells(vm::MeshSpec ms)
  {
    const std::vector<vm::Sym> G = vm::symmetries(ms.simplex, ms.dim);
    std::vector<size_t> rot; for(size_t i = 0; i < G.size(); ++i) if(G[i].sign > 0) rot.push_back(i);
    for(size_t c = 0; c < ms.cells.size(); ++c) vm::renumber_cell(ms, c, G[rot[(c * 5 + 1) % rot.size()]]);
    ms.name += "-rot";
    return ms;
  }

  vm::MeshSpec load_file_spec(const std::string& path, bool simplex, int dim)
  {
    // reads vertices and the top-dimensional topology of a shipped mesh file (coordinates snapped to 1/64)
    vm::MeshSpec ms; ms.simplex = simplex; ms.dim = dim;
    std::ifstream in(path);
    std::string all((std::istreambuf_iterator<char>(in)), std::istreambuf_iterator<char>());
    size_t m = all.find("<Mesh ");
    if(m == std::string::npos) return ms;
    size_t v0 = all.find("<Vertices>", m), v1 = all.find("</Vertices>", m);
    std::istringstream vs(all.substr(v0 + 10, v1 - v0 - 10));
    std::string line;
    while(std::getline(vs, line))
    {
      std::istringstream ls(line); double x; std::array<int, 3> p = {0, 0, 0}; int k = 0;
      while(k < 3 && (ls >> x)) p[size_t(k++)] = int(std::lround(x * 64.0));
      if(k == dim) ms.vtx.push_back(p);
    }
    const std::string tag = "<Topology dim=\"" + std::to_string(dim) + "\">";
    size_t t0 = all.find(tag, m), t1 = all.find("</Topology>", t0);
    std::istringstream ts(all.substr(t0 + tag.size(), t1 - t0 - tag.size()));
    const size_t nv = size_t(vm::refcell(simplex, dim).nv);
    while(std::getline(ts, line))
    {
      std::istringstream ls(line); std::vector<Index> cl; Index x;
      while(ls >> x) cl.push_back(x);
      if(cl.size() == nv) ms.cells.push_back(cl);
    }
    ms.name = path.substr(path.rfind('/') + 1);
    return ms;
  }

  template<typename Shape_>
  void do_assignments(verif::Ctx& c, const vm::MeshSpec& ms, int pmin, int pmax, int depth, const std::string& what)
  {
    typedef P12<Shape_> X;
    const size_t n = ms.cells.size();
    for(int p = pmin; p <= pmax && size_t(p) <= n; ++p)
    {
      std::vector<int> a;
      if(!first_assign(a, n, p)) continue;
      long code = 0;
      do
      {
        ++code;
        if(!c.want()) continue;
        c.desc([&]{ return what + " " + vm::spec_str(ms) + " ranks=" + std::to_string(p) + " cell->rank=" + assign_str(a) + " depth=" + std::to_string(depth); });
        const int qtot = 3 * depth;
        auto base = X::make_base(ms, qtot, int(code % 18));
        Adjacency::Graph g = make_graph(a, p, int(code % 3));
        X::run_partition(c, std::move(base), g, depth, qtot, int(code % 96));
        c.nontrivial(verif::Hash().pod(ms.simplex).pod(ms.dim).str(ms.name).pod(ms.cells.size()).pod(p).str(assign_str(a)).pod(depth).get());
      } while(next_assign(a, p));
    }
  }

  template<typename Shape_>
  void do_two_level(verif::Ctx& c, const vm::MeshSpec& ms, int depth, int P = 2)
  {
    typedef P12<Shape_> X;
    const size_t n = ms.cells.size();
    std::vector<int> a1;
    if(!first_assign(a1, n, P)) return;
    do
    {
      // parent cell counts
      std::vector<size_t> pc(size_t(P), 0); for(int x : a1) pc[size_t(x)]++;
      for(int pref = 0; pref < 2; ++pref)
      {
        const size_t mult = pref ? size_t(vm::nchild(ms.simplex, ms.dim, ms.dim)) : 1;
        if(pref == 1 && (n > 4 || P > 2)) continue; // refined parents only for the smaller configurations
        // refined parents: the children of every coarse parent cell are split into two halves (groups) that are
        // assigned as a whole, which bounds the space; unrefined parents: one group per cell
        const size_t gmul = pref ? 2 : 1, gsize = mult / gmul;
        // odometer over (number of children K_p in {1,2}, surjective group assignment) for every parent
        std::vector<int> K(size_t(P), 1);
        std::vector<std::vector<int>> G{size_t(P)};
        auto init = [&](int q) { for(K[size_t(q)] = 1; K[size_t(q)] <= 2; ++K[size_t(q)]) if(first_assign(G[size_t(q)], pc[size_t(q)] * gmul, K[size_t(q)])) return true; return false; };
        auto advance = [&](int q) {
          if(next_assign(G[size_t(q)], K[size_t(q)])) return true;
          for(++K[size_t(q)]; K[size_t(q)] <= 2; ++K[size_t(q)]) if(first_assign(G[size_t(q)], pc[size_t(q)] * gmul, K[size_t(q)])) return true;
          return false; };
        bool okinit = true; for(int q = 0; q < P; ++q) okinit = init(q) && okinit;
        if(!okinit) continue;
        for(bool more = true; more; )
        {
          if(c.want())
          {
            std::vector<std::vector<int>> b{size_t(P)};
            std::string bs;
            for(int q = 0; q < P; ++q)
            {
              b[size_t(q)].resize(pc[size_t(q)] * mult);
              for(size_t i = 0; i < b[size_t(q)].size(); ++i) b[size_t(q)][i] = G[size_t(q)][i / gsize];
              bs += " children" + std::to_string(q) + "=" + assign_str(b[size_t(q)]);
            }
            c.desc([&]{ return "two-level " + vm::spec_str(ms) + " cell->parent=" + assign_str(a1) + " parent-refinements=" + std::to_string(pref) + bs + " depth=" + std::to_string(depth); });
            const int qtot = 3 * (depth + pref);
            auto base = X::make_base(ms, qtot, int((c.index() * 7 + 1) % 18));
            X::run_two_level(c, std::move(base), a1, P, b, K, pref, depth, qtot);
            c.nontrivial(verif::Hash().pod(ms.simplex).pod(ms.dim).str(ms.name).str(assign_str(a1)).pod(pref).str(bs).get());
          }
          // next configuration
          int q = P - 1;
          while(q >= 0 && !advance(q)) { init(q); --q; }
          more = (q >= 0);
        }
      }
    } while(next_assign(a1, P));
  }

  template<typename Shape_>
  void do_parti2lvl(verif::Ctx& c, const vm::MeshSpec& ms, int pmax)
  {
    typedef P12<Shape_> X;
    for(int p = 1; p <= pmax; ++p)
    {
      if(!c.want()) continue;
      c.desc([&]{ return "Parti2Lvl " + vm::spec_str(ms) + " ranks=" + std::to_string(p); });
      auto mesh = vm::build_mesh<typename X::MeshType>(ms, true);
      Parti2Lvl<typename X::MeshType> parti(*mesh, Index(p));
      // harness formula: p = n * f^k; hypercubes f = 2, simplices f = number of children
      const long f = ms.simplex ? vm::nchild(true, ms.dim, ms.dim) : 2;
      long q = long(ms.cells.size()); while(q < p) q *= f;
      const bool possible = (q == p);
      c.check(parti.success() == possible, "parti2lvl.success-flag", [&]{ return std::string("success() = ") + (parti.success() ? "true" : "false") + " but a 2-level partition " + (possible ? "exists" : "cannot exist"); });
      c.nontrivial(verif::Hash().pod(ms.simplex).pod(ms.dim).str(ms.name).pod(ms.cells.size()).pod(p).get());
      if(!parti.success()) { c.outcome("parti2lvl: reports failure"); continue; }
      const int lvl = int(parti.parti_level());
      long nref = long(ms.cells.size()); for(int i = 0; i < lvl; ++i) nref *= vm::nchild(ms.simplex, ms.dim, ms.dim);
      Adjacency::Graph g = parti.build_elems_at_rank();
      if(!X::check_graph(c, g, Index(p), Index(nref), "parti2lvl")) continue;
      c.outcome("parti2lvl: partition at level " + std::to_string(lvl));
      if(nref > 600) { c.count("parti2lvl_graph_only"); continue; }
      // feed the partition through the patch extraction path
      auto base = X::NodeType::make_unique(std::move(mesh));
      for(int i = 0; i < lvl; ++i) base = base->refine_unique(AdaptMode::none);
      X::run_partition(c, std::move(base), g, nref > 100 ? 0 : 1, 3 * (lvl + 1));
    }
  }

  /// number of connected components of the cell graph in which cells sharing a facet are adjacent
  int facet_components(const vm::MeshSpec& ms)
  {
    const vm::RefCell& rc = vm::refcell(ms.simplex, ms.dim);
    std::map<vm::VKey, std::vector<size_t>> fm;
    for(size_t c = 0; c < ms.cells.size(); ++c) for(auto& lf : rc.faces[ms.dim - 1])
    { std::vector<Index> v; for(int l : lf) v.push_back(ms.cells[c][size_t(l)]); fm[vm::mkkey(v.data(), int(v.size()))].push_back(c); }
    std::vector<size_t> par(ms.cells.size()); for(size_t i = 0; i < par.size(); ++i) par[i] = i;
    auto find = [&](size_t x) { while(par[x] != x) x = par[x] = par[par[x]]; return x; };
    for(auto& f : fm) for(size_t i = 1; i < f.second.size(); ++i) par[find(f.second[i])] = find(f.second[0]);
    int n = 0; for(size_t i = 0; i < par.size(); ++i) if(find(i) == i) ++n;
    return n;
  }

  template<typename Shape_>
  void do_iterative(verif::Ctx& c, const vm::MeshSpec& ms, int pmax, int nseeds)
  {
    typedef P12<Shape_> X;
    static const double budgets[4][2] = {{0.0, 0.0}, {1.5, 0.0}, {0.0, 2.5}, {1.5, 10.5}};
    for(int p = 1; p <= pmax && size_t(p) <= ms.cells.size(); ++p) for(int b = 0; b < 4; ++b) for(int seed = 0; seed < nseeds; ++seed)
    {
      if(b > 0 && seed >= nseeds / 4) continue;
      if(!c.want()) continue;
      c.desc([&]{ return "PartiIterative " + vm::spec_str(ms) + " patches=" + std::to_string(p) + " time_init=" + std::to_string(budgets[b][0]) + " time_mutate=" + std::to_string(budgets[b][1]) + " (virtual seconds, 1 per clock read) seed=time()=" + std::to_string(seed); });
      auto mesh = vm::build_mesh<typename X::MeshType>(ms, true);
      Dist::Comm comm = Dist::Comm::world();
      c.nontrivial(verif::Hash().pod(ms.simplex).pod(ms.dim).str(ms.name).pod(ms.cells.size()).pod(p).pod(b).pod(seed).get());
      // first in a forked child: the constructor may die
      const int rc = c.run_forked([&]{
        g_vclock_on = true; g_vclock_s = 0; g_fake_time = seed;
        try { PartiIterative<typename X::MeshType> parti(*mesh, comm, Index(p), budgets[b][0], budgets[b][1]); Adjacency::Graph gg = parti.build_elems_at_rank(); (void)gg; }
        catch(const std::out_of_range&) { _exit(42); }
      }, 5);
      if(rc == 1042)
      {
        c.fail("partiiterative: std::out_of_range in constructor (cells not reached by any centre keep an uninitialised patch index)",
          "PartiIterative(mesh, comm, " + std::to_string(p) + ", ...) throws std::out_of_range from _cells_per_patch.at(items[i].patch)");
        c.outcome("partiiterative: dies (out_of_range)");
        continue;
      }
      if(rc == SIGALRM && p < facet_components(ms))
      {
        c.fail("partiiterative: does not terminate when there are fewer patches than facet-connected components (centres are re-drawn forever)",
          "PartiIterative(mesh, comm, " + std::to_string(p) + ", ...) still running after 5 s; mesh has " + std::to_string(facet_components(ms)) + " facet-connected components");
        c.outcome("partiiterative: hangs");
        continue;
      }
      if(rc != 0) { c.fail("partiiterative.dies", "PartiIterative construction died, run_forked code " + std::to_string(rc)); continue; }
      g_vclock_on = true; g_vclock_s = 0; g_fake_time = seed;
      Adjacency::Graph g;
      {
        PartiIterative<typename X::MeshType> parti(*mesh, comm, Index(p), budgets[b][0], budgets[b][1]);
        g = parti.build_elems_at_rank();
      }
      g_vclock_on = false;
      c.nontrivial(verif::Hash().pod(ms.simplex).pod(ms.dim).str(ms.name).pod(ms.cells.size()).pod(p).pod(b).pod(seed).get());
      if(!X::check_graph(c, g, Index(p), Index(ms.cells.size()), "partiiterative")) continue;
      c.outcome("partiiterative: valid partition");
      auto base = X::NodeType::make_unique(std::move(mesh));
      X::run_partition(c, std::move(base), g, ms.cells.size() > 20 ? 0 : 1, 3);
    }
  }
}

int main(int argc, char** argv)
{
  // deterministic poison for memory that is read before it is written (glibc: malloc'ed blocks are filled with ~0x5a)
  if(!std::getenv("C12_NO_POISON")) mallopt(M_PERTURB, 0x5a);
  Runtime::ScopeGuard guard(argc, argv);
  verif::Spec spec; spec.property = "C12"; spec.harness = "c12_partition";
  spec.rule = "cases = (mesh, number of ranks, surjective cell->rank assignment, refinement depth) resp. (mesh, parent assignment, child assignments) "
    "for recursive partitions resp. (mesh, p[, budgets, seed]) for the partitioners; every case extracts every patch with the real "
    "RootMeshNode::extract_patch and is non-trivial (>= 1 patch extracted); hash = mesh name, size, assignment strings, depth/seed";
  spec.bounds_quick = "all surjective assignments: quads 2x2 (aligned and rotated cells) all p, two quads touching in one vertex, 3x2 p<=3, triangles 4 cells all p / fan of 5 p<=3, hexa 2x2x1 all p, 2x2x2 p<=2, "
    "6 tetrahedra p<=2, unit_circle_quad_5 p<=3; depth 2 (2D) / 1 (3D); recursive: 2x2 quads and 3x2 quads with 2 parents x (1..2 children each), parents refined 0/1 times, 2x2 quads / 4 triangles with 3 parents; rank extraction order, Graph/Partition overload, cell order per rank, clone substitution vary with the case; "
    "Parti2Lvl p=1..64 on 9 meshes; PartiIterative strips 1xN (N<=10), blocks, hexa, triangles, p<=4, 4 budget pairs, seeds 0..15; two quads touching in one vertex p<=2";
  spec.bounds_thorough = "as quick plus 3x2 quads all p, fan all p, 2x2x2 hexa p<=3, tetra p<=3, unit_circle_quad_5 all p, flowbench_s3d_01_hexa_11 p=2, depth 2 in 3D; "
    "recursive also on 2x2x1 hexa; Parti2Lvl p<=256; PartiIterative seeds 0..63, p<=6";
  spec.assumptions = {
    "entities of patch and base meshes are identified by exact vertex coordinates (integer lattice); refined base meshes come from FEAT's StandardRefinery (verified by C10)",
    "the message exchange of the recursive halo splitting (Dist::Comm gather/send/bcast) is replaced by handing over the serialized buffers; the buffer layout and all PatchHaloSplitter calls are the real ones",
    "PartiIterative: time(nullptr) and gettimeofday are interposed (seed enumerated, 1 virtual second per clock read); freshly allocated memory is poisoned with mallopt(M_PERTURB)",
    "partitions are disjoint (one rank per cell); overlapping partitions are not generated",
    "the control layer (control/domain/parti_domain_control*.hpp: partitioner selection incl. naive / extern / 2-level / genetic, real message exchange of the halo splitting) is driven by the companion harness c12_control.mpi over the MPI model; METIS / Zoltan are not in the build",
    "out of scope here: bytes()/name(), MeshNode::adapt/adapt_by_name, rename/remove of mesh parts (exercised in c10_refine), chart adaption of patches (exercised in c12_control)"};
  spec.case_timeout_s = 120;
  const char* vr = std::getenv("VERIF_REPO");
  const std::string repo = vr ? vr : "/repo";
  return verif::run(spec, argc, argv, [&](verif::Ctx& c) {
    typedef Shape::Hypercube<2> Q; typedef Shape::Simplex<2> T; typedef Shape::Hypercube<3> H; typedef Shape::Simplex<3> S;
    const bool th = c.thorough;
    // ---- part 1: explicit assignments
    {
      vm::MeshSpec q22 = vm::gen_block(2, 2, 2, 1), q32 = vm::gen_block(2, 3, 2, 1);
      do_assignments<Q>(c, q22, 1, 4, 2, "assign");
      {
        vm::MeshSpec bt; bt.simplex = false; bt.dim = 2; bt.name = "bowtie";
        bt.vtx = {{0,0,0},{8,0,0},{0,8,0},{8,8,0},{16,8,0},{8,16,0},{16,16,0}};
        bt.cells = {{0,1,2,3},{3,4,5,6}};
        do_assignments<Q>(c, bt, 1, 2, 2, "assign");
      }
      do_assignments<Q>(c, rotate_cells(q22), 1, 4, 2, "assign");
      { vm::MeshSpec m = rotate_cells(q22); vm::renumber_vertices(m, 2); vm::reorder_cells(m, 2); vm::shift_coords(m); m.name += "-scrambled-negative"; do_assignments<Q>(c, m, 1, 4, 2, "assign"); }
      { vm::MeshSpec m = vm::gen_block(3, 2, 2, 1); vm::renumber_vertices(m, 1); vm::reorder_cells(m, 1); vm::shift_coords(m); m.name += "-reversed-negative"; do_assignments<H>(c, m, 2, 3, 1, "assign"); }
      do_assignments<Q>(c, q32, 1, th ? 6 : 3, 2, "assign");
      do_assignments<Q>(c, rotate_cells(q32), 2, 2, 1, "assign");
      do_assignments<T>(c, vm::gen_simplex_block(2, 2, 1, 1), 1, 4, 2, "assign");
      do_assignments<T>(c, rotate_cells(vm::gen_star(true, 2, 5)), 1, th ? 5 : 3, 2, "assign");
      do_assignments<H>(c, vm::gen_block(3, 2, 2, 1), 1, 4, 1, "assign");
      do_assignments<H>(c, rotate_cells(vm::gen_block(3, 2, 2, 2)), 1, th ? 3 : 2, th ? 2 : 1, "assign");
      do_assignments<S>(c, rotate_cells(vm::gen_simplex_block(3, 1, 1, 1)), 1, th ? 3 : 2, th ? 2 : 1, "assign");
      vm::MeshSpec uc = load_file_spec(repo + "/data/meshes/unit_circle_quad_5.xml", false, 2);
      if(!uc.cells.empty()) do_assignments<Q>(c, uc, 1, th ? 5 : 3, 2, "assign");
      if(th)
      {
        vm::MeshSpec fb = load_file_spec(repo + "/data/meshes/flowbench_s3d_01_hexa_11.xml", false, 3);
        if(!fb.cells.empty()) do_assignments<H>(c, fb, 2, 2, 1, "assign");
      }
    }
    // ---- part 1b: Partition / PartitionSet (selection of an extern partition by size, names and priority)
    if(c.want())
    {
      c.desc([&]{ return std::string("PartitionSet::find_partition over all sets of <= 2 partitions (size 2|3, name a|b, priority -1..2) x queries (size 2..4, name lists, priority 0..3)"); });
      struct PS { int size; const char* name; int prio; };
      std::vector<PS> opts;
      for(int sz : {2, 3}) for(const char* nm : {"a", "b"}) for(int pr : {-1, 0, 1, 2}) opts.push_back({sz, nm, pr});
      auto mk = [&](const PS& o, int level) {
        std::vector<int> a(4, 0); for(int i = 0; i < 4; ++i) a[size_t(i)] = i % o.size;
        return Partition(make_graph(a, o.size, 0), o.name, o.prio, level); };
      const std::vector<std::deque<String>> qnames = {{}, {"a"}, {"b"}, {"a", "b"}, {"c"}, {"c", "b"}};
      uint64_t nq = 0;
      for(size_t i = 0; i <= opts.size(); ++i) for(size_t j = 0; j <= opts.size(); ++j)
      {
        if(i == opts.size() && j != opts.size()) continue;
        PartitionSet ps; std::vector<PS> in;
        if(i < opts.size()) { ps.add_partition(mk(opts[i], 0)); in.push_back(opts[i]); }
        if(j < opts.size()) { ps.add_partition(mk(opts[j], 1)); in.push_back(opts[j]); }
        c.check(ps.get_partitions().size() == in.size(), "partitionset.size", "add_partition lost a partition");
        for(size_t k = 0; k < in.size(); ++k)
        {
          const Partition& P = ps.get_partitions().at(k);
          c.check(int(P.size()) == in[k].size && int(P.get_num_patches()) == in[k].size && P.get_num_elements() == 4 && P.get_name() == in[k].name && P.get_priority() == in[k].prio && P.get_level() == int(k),
            "partition.getters", "Partition getters do not return the constructor arguments");
        }
        for(int qs = 2; qs <= 4; ++qs) for(const auto& qn : qnames) for(int qp = 0; qp <= 3; ++qp)
        {
          // oracle: candidates = size matches, name in list (or list empty), priority > 0 and >= qp; the highest priority wins, later entries win ties
          int want = -1;
          for(size_t k = 0; k < in.size(); ++k)
          {
            bool nameok = qn.empty(); for(const auto& n : qn) if(n == in[k].name) nameok = true;
            if(in[k].size != qs || !nameok || in[k].prio <= 0 || in[k].prio < qp) continue;
            if(want < 0 || in[size_t(want)].prio <= in[k].prio) want = int(k);
          }
          const Partition* got = ps.find_partition(qs, qn, qp);
          const int gi = got == nullptr ? -1 : (got == &ps.get_partitions().at(0) ? 0 : 1);
          c.check(gi == want, "partitionset.find_partition", [&]{ return "find_partition(size " + std::to_string(qs) + ", " + std::to_string(qn.size()) + " names, prio " + std::to_string(qp) + ") returned entry " + std::to_string(gi) + ", expected " + std::to_string(want); });
          if(qn.size() <= 1)
          {
            const Partition* g1 = ps.find_partition(qs, qn.empty() ? String("") : qn.front(), qp);
            c.check(g1 == got, "partitionset.find_partition.single-name", "single-name overload disagrees with the name-list overload");
          }
          ++nq;
        }
        PartitionSet moved(std::move(ps));
        c.check(moved.get_partitions().size() == in.size(), "partitionset.move", "move construction lost partitions");
        moved.clear();
        c.check(moved.get_partitions().empty() && moved.find_partition(2) == nullptr, "partitionset.clear", "clear() left partitions behind");
      }
      c.count("partitionset_queries", nq);
      c.nontrivial(verif::Hash().str("partitionset").get());
    }
    // ---- part 2: recursive partitions
    {
      do_two_level<Q>(c, vm::gen_block(2, 2, 2, 1), 1);
      do_two_level<Q>(c, rotate_cells(vm::gen_block(2, 3, 2, 1)), 1);
      do_two_level<T>(c, vm::gen_simplex_block(2, 2, 1, 1), 1);
      // three parents: every PatchHaloSplitter holds two parent halos and is intersected with the children of both
      do_two_level<Q>(c, vm::gen_block(2, 2, 2, 1), 1, 3);
      do_two_level<T>(c, vm::gen_simplex_block(2, 2, 1, 1), 1, 3);
      if(th) do_two_level<Q>(c, rotate_cells(vm::gen_block(2, 3, 2, 1)), 1, 3);
      if(th) do_two_level<H>(c, vm::gen_block(3, 2, 2, 1), 1);
    }
    // ---- part 3: Parti2Lvl
    {
      const int pm = th ? 256 : 64;
      do_parti2lvl<Q>(c, vm::gen_single(false, 2), pm);
      do_parti2lvl<Q>(c, vm::gen_pair(false, 2), pm);
      do_parti2lvl<Q>(c, vm::gen_star(false, 2, 3), pm);
      do_parti2lvl<Q>(c, vm::gen_block(2, 3, 2, 1), pm);
      do_parti2lvl<T>(c, vm::gen_single(true, 2), pm);
      do_parti2lvl<T>(c, vm::gen_star(true, 2, 5), pm);
      do_parti2lvl<H>(c, vm::gen_single(false, 3), pm);
      do_parti2lvl<H>(c, vm::gen_star(false, 3, 3), pm);
      do_parti2lvl<S>(c, vm::gen_single(true, 3), pm);
    }
    // ---- part 4: PartiIterative
    {
      const int ns = th ? 64 : 16, pm = th ? 6 : 4;
      for(int n = 2; n <= (th ? 14 : 10); n += (n < 6 ? 1 : 2)) { vm::MeshSpec s = vm::gen_block(2, n, 1, 1); s.name = "strip1x" + std::to_string(n); do_iterative<Q>(c, s, pm, ns); }
      do_iterative<Q>(c, vm::gen_block(2, 3, 3, 1), pm, ns);
      do_iterative<Q>(c, vm::gen_block(2, 4, 4, 1), pm, ns);
      do_iterative<T>(c, vm::gen_simplex_block(2, 2, 2, 1), pm, ns);
      do_iterative<H>(c, vm::gen_block(3, 2, 2, 2), pm, ns);
      do_iterative<H>(c, vm::gen_block(3, 6, 1, 1), pm, ns);
      // two quads touching in a single vertex: a conforming mesh whose facet graph is disconnected
      {
        vm::MeshSpec bt; bt.simplex = false; bt.dim = 2; bt.name = "bowtie";
        bt.vtx = {{0,0,0},{8,0,0},{0,8,0},{8,8,0},{16,8,0},{8,16,0},{16,16,0}};
        bt.cells = {{0,1,2,3},{3,4,5,6}};
        do_iterative<Q>(c, bt, 2, 4);
      }
    }
  });
}
