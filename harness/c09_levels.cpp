// C09 part 3 (DESIGN.md 3/C09 (3)): level independence of the multigrid contraction on real nested Poisson
// discretisations. Everything is real FEAT code: meshes (RefineFactory), Lagrange-1/2 spaces, Laplace matrices,
// UnitFilter, GridTransfer prolongation, LAFEM::Transfer, Richardson/Jacobi smoothers, PCG coarse solvers,
// MultiGridHierarchy / MultiGrid with every (top,coarse) sub-range of one hierarchy.
//
// Oracle (the only non-exact one of C09): the asymptotic contraction factor rho of the error propagation
// e <- e - MG(A e), measured by a deterministic power iteration, satisfies rho(top,crs) <= rho_bar < 1 with rho_bar fixed
// per family independently of the number of levels, and adding one more coarse level increases rho by <= 0.05 (0.10 with MinDefect and for the step from the two-grid method, whose coarse solve is exact, to three levels).
#include <verif.hpp>
#include <kernel/runtime.hpp>
#include <kernel/geometry/boundary_factory.hpp>
#include <kernel/geometry/conformal_mesh.hpp>
#include <kernel/geometry/common_factories.hpp>
#include <kernel/geometry/mesh_part.hpp>
#include <kernel/trafo/standard/mapping.hpp>
#include <kernel/space/lagrange1/element.hpp>
#include <kernel/space/lagrange2/element.hpp>
#include <kernel/cubature/dynamic_factory.hpp>
#include <kernel/assembly/symbolic_assembler.hpp>
#include <kernel/assembly/unit_filter_assembler.hpp>
#include <kernel/assembly/bilinear_operator_assembler.hpp>
#include <kernel/assembly/common_operators.hpp>
#include <kernel/assembly/grid_transfer.hpp>
#include <kernel/lafem/dense_vector.hpp>
#include <kernel/lafem/sparse_matrix_csr.hpp>
#include <kernel/lafem/unit_filter.hpp>
#include <kernel/lafem/transfer.hpp>
#include <kernel/solver/pcg.hpp>
#include <kernel/solver/richardson.hpp>
#include <kernel/solver/jacobi_precond.hpp>
#include <kernel/solver/multigrid.hpp>
#include <kernel/util/dist.hpp>
#include <kernel/lafem/vector_mirror.hpp>
#include <kernel/global/gate.hpp>
#include <kernel/global/muxer.hpp>
#include <kernel/global/vector.hpp>
#include <kernel/global/matrix.hpp>
#include <kernel/global/filter.hpp>
#include <kernel/global/transfer.hpp>
#include <algorithm>
#include <cmath>
#include <deque>

using namespace FEAT;

namespace
{
  typedef double DataType;
  typedef LAFEM::DenseVector<DataType, Index> VectorType;
  typedef LAFEM::SparseMatrixCSR<DataType, Index> MatrixType;
  typedef LAFEM::UnitFilter<DataType, Index> FilterType;
  typedef LAFEM::Transfer<MatrixType> TransferType;
  typedef Solver::MultiGridHierarchy<MatrixType, FilterType, TransferType> HierarchyType;
  typedef Solver::MultiGrid<MatrixType, FilterType, TransferType> MultiGridType;

  struct Rate { int top, crs; double rho; };

  struct Config
  {
    int cycle;   // 0 V, 1 F, 2 W
    int steps;   // smoothing steps (pre = post = peak)
    int adapt;   // 0 fixed, 1 MinEnergy, 2 MinDefect
    double omega;
  };

  template<typename Shape_, template<typename> class Element_>
  struct Family
  {
    typedef Geometry::ConformalMesh<Shape_> MeshType;
    typedef Geometry::MeshPart<MeshType> MeshPartType;
    typedef Trafo::Standard::Mapping<MeshType> TrafoType;
    typedef Element_<TrafoType> SpaceType;

    struct Level
    {
      MeshType mesh;
      TrafoType trafo;
      SpaceType space;
      MatrixType matrix;
      FilterType filter;
      TransferType transfer;
      explicit Level(Geometry::Factory<MeshType>& f) : mesh(f), trafo(mesh), space(trafo) {}
    };

    /// builds levels lvl_min..lvl_max (index 0 = finest), returns the rates of all sub-ranges
    static std::vector<Rate> run(int lvl_min, int lvl_max, const Config& cfg, const String& cubature, uint64_t& n_apply, std::vector<Index>& dofs)
    {
      std::deque<std::shared_ptr<Level>> levels;
      {
        Geometry::RefinedUnitCubeFactory<MeshType> f{Index(lvl_min)};
        levels.push_front(std::make_shared<Level>(f));
      }
      for(int l = lvl_min; l < lvl_max; ++l)
      {
        Geometry::StandardRefinery<MeshType> f(levels.front()->mesh);
        levels.push_front(std::make_shared<Level>(f));
      }
      Cubature::DynamicFactory cub(cubature);
      for(auto& pl : levels)
      {
        Level& lvl = *pl;
        Assembly::SymbolicAssembler::assemble_matrix_std1(lvl.matrix, lvl.space);
        lvl.matrix.format();
        Assembly::Common::LaplaceOperator op;
        Assembly::BilinearOperatorAssembler::assemble_matrix1(lvl.matrix, op, lvl.space, cub);
        Geometry::BoundaryFactory<MeshType> bf(lvl.mesh);
        MeshPartType boundary(bf);
        Assembly::UnitFilterAssembler<MeshType> ua;
        ua.add_mesh_part(boundary);
        ua.assemble(lvl.filter, lvl.space);
        dofs.push_back(lvl.space.get_num_dofs());
      }
      for(std::size_t i = 0; i + 1 < levels.size(); ++i)
      {
        Level& f = *levels[i];
        Level& c = *levels[i + 1];
        MatrixType& prol = f.transfer.get_mat_prol();
        Assembly::SymbolicAssembler::assemble_matrix_2lvl(prol, f.space, c.space);
        prol.format();
        Assembly::GridTransfer::assemble_prolongation_direct(prol, f.space, c.space, cub);
        f.transfer.get_mat_rest() = prol.transpose();
      }

      auto hier = std::make_shared<HierarchyType>(levels.size());
      for(std::size_t i = 0; i < levels.size(); ++i)
      {
        Level& lvl = *levels[i];
        auto cg = Solver::new_pcg(lvl.matrix, lvl.filter, Solver::new_jacobi_precond(lvl.matrix, lvl.filter));
        cg->set_tol_rel(1e-13);
        cg->set_max_iter(2000);
        cg->set_plot_mode(Solver::PlotMode::none);
        if(i + 1 < levels.size())
        {
          auto jac = Solver::new_jacobi_precond(lvl.matrix, lvl.filter);
          auto smoother = Solver::new_richardson(lvl.matrix, lvl.filter, cfg.omega, jac);
          smoother->set_min_iter(Index(cfg.steps));
          smoother->set_max_iter(Index(cfg.steps));
          smoother->set_plot_mode(Solver::PlotMode::none);
          hier->push_level(lvl.matrix, lvl.filter, lvl.transfer, smoother, smoother, smoother, cg);
        }
        else
          hier->push_level(lvl.matrix, lvl.filter, cg);
      }
      hier->init();

      std::vector<Rate> rates;
      const int nl = int(levels.size());
      for(int top = 0; top < nl; ++top) for(int crs = top + 1; crs < nl; ++crs)
      {
        auto mg = Solver::new_multigrid(hier, cfg.cycle == 0 ? Solver::MultiGridCycle::V : cfg.cycle == 1 ? Solver::MultiGridCycle::F : Solver::MultiGridCycle::W, top, crs);
        mg->set_adapt_cgc(cfg.adapt == 0 ? Solver::MultiGridAdaptCGC::Fixed : cfg.adapt == 1 ? Solver::MultiGridAdaptCGC::MinEnergy : Solver::MultiGridAdaptCGC::MinDefect);
        mg->init();
        Level& T = *levels[std::size_t(top)];
        const Index n = T.matrix.rows();
        VectorType e(n), d(n), cor(n);
        // deterministic start error with all frequencies, zero on the boundary
        for(Index i = 0; i < n; ++i) e(i, double(int((i * 7919u + 13u) % 17u) - 8) / 8.0 + ((i % 2) ? 0.25 : -0.125));
        T.filter.filter_cor(e);
        // FEAT's iterative solvers treat a defect norm <= eps^2 as zero, so the (linear, resp. homogeneous) iteration is
        // re-normalised after every cycle and the per-cycle energy norm ratios are recorded
        const int K = 36, W = 12;
        std::vector<double> ratios;
        bool ok = true;
        {
          const double nr = e.norm2();
          e.scale(e, 1.0 / nr);
        }
        for(int k = 0; k < K && ok; ++k)
        {
          T.matrix.apply(d, e);
          T.filter.filter_def(d);
          const double en0 = std::sqrt(std::fabs(d.dot(e))); // energy norm
          mg->apply(cor, d);
          ++n_apply;
          e.axpy(cor, -1.0);
          T.matrix.apply(d, e);
          T.filter.filter_def(d);
          const double en1 = std::sqrt(std::fabs(d.dot(e)));
          if(!std::isfinite(en1) || !(en0 > 0.0)) { ok = false; break; }
          ratios.push_back(en1 / en0);
          const double nr = e.norm2();
          if(!(nr > 1e-280)) break; // converged to (numerically) zero: exact solver
          e.scale(e, 1.0 / nr);
        }
        Rate r; r.top = top; r.crs = crs;
        if(!ok) r.rho = 1e300;
        else if(int(ratios.size()) < K) r.rho = 0.0;
        else { double lg = 0.0; for(int k = K - W; k < K; ++k) lg += std::log(std::max(ratios[std::size_t(k)], 1e-300)); r.rho = std::exp(lg / double(W)); }
        rates.push_back(r);
        mg->done();
      }
      // ---- the same multigrid through the Global:: containers on one process (Global::Matrix / Vector / Filter / Transfer
      // with real gates on the world communicator, no muxer): must reproduce the result of the local containers
      {
        typedef LAFEM::VectorMirror<DataType, Index> Mir;
        typedef Global::Gate<VectorType, Mir> GateT;
        typedef Global::Vector<VectorType, Mir> GVec;
        typedef Global::Matrix<MatrixType, Mir, Mir> GMat;
        typedef Global::Filter<FilterType, Mir> GFil;
        typedef Global::Transfer<TransferType, Mir> GTra;
        typedef Solver::MultiGridHierarchy<GMat, GFil, GTra> GHier;
        Dist::Comm comm = Dist::Comm::world();
        std::deque<GateT> gates; std::deque<GMat> gmats; std::deque<GFil> gfils; std::deque<GTra> gtras;
        for(std::size_t i = 0; i < levels.size(); ++i)
        {
          Level& lvl = *levels[i];
          gates.emplace_back(comm);
          gates.back().compile(VectorType(lvl.matrix.rows()));
          gmats.emplace_back(&gates.back(), &gates.back(), lvl.matrix.clone(LAFEM::CloneMode::Shallow));
          gfils.emplace_back(lvl.filter.clone());
          if(i + 1 < levels.size()) gtras.emplace_back(nullptr, lvl.transfer.get_mat_prol().clone(LAFEM::CloneMode::Shallow), lvl.transfer.get_mat_rest().clone(LAFEM::CloneMode::Shallow));
        }
        auto ghier = std::make_shared<GHier>(levels.size());
        for(std::size_t i = 0; i < levels.size(); ++i)
        {
          auto cg = Solver::new_pcg(gmats[i], gfils[i], Solver::new_jacobi_precond(gmats[i], gfils[i]));
          cg->set_tol_rel(1e-13); cg->set_max_iter(2000); cg->set_plot_mode(Solver::PlotMode::none);
          if(i + 1 < levels.size())
          {
            auto smoother = Solver::new_richardson(gmats[i], gfils[i], cfg.omega, Solver::new_jacobi_precond(gmats[i], gfils[i]));
            smoother->set_min_iter(Index(cfg.steps)); smoother->set_max_iter(Index(cfg.steps)); smoother->set_plot_mode(Solver::PlotMode::none);
            ghier->push_level(gmats[i], gfils[i], gtras[i], smoother, smoother, smoother, cg);
          }
          else ghier->push_level(gmats[i], gfils[i], cg);
        }
        ghier->init();
        const int nl = int(levels.size());
        double worst = 0.0;
        for(int top = 0; top + 1 < nl; top += (nl > 3 ? nl - 2 : 1)) // finest and second coarsest top level
        {
          const auto cyc = cfg.cycle == 0 ? Solver::MultiGridCycle::V : cfg.cycle == 1 ? Solver::MultiGridCycle::F : Solver::MultiGridCycle::W;
          const auto acg = cfg.adapt == 0 ? Solver::MultiGridAdaptCGC::Fixed : cfg.adapt == 1 ? Solver::MultiGridAdaptCGC::MinEnergy : Solver::MultiGridAdaptCGC::MinDefect;
          auto mgl = Solver::new_multigrid(hier, cyc, top, -1); mgl->set_adapt_cgc(acg); mgl->init();
          auto mgg = Solver::new_multigrid(ghier, cyc, top, -1); mgg->set_adapt_cgc(acg); mgg->init();
          Level& T = *levels[std::size_t(top)];
          const Index n = T.matrix.rows();
          VectorType d(n), xl(n);
          for(Index i = 0; i < n; ++i) d(i, double(int((i * 31u + 7u) % 19u) - 9) / 8.0);
          T.filter.filter_def(d);
          mgl->apply(xl, d);
          GVec gd(&gates[std::size_t(top)], d.clone()), gx(&gates[std::size_t(top)], VectorType(n, 77.0));
          mgg->apply(gx, gd);
          n_apply += 2;
          double nx = 0.0, e = 0.0;
          for(Index i = 0; i < n; ++i) { nx = std::max(nx, std::fabs(xl(i))); const double di = std::fabs(gx.local()(i) - xl(i)); if(!(di <= e)) e = di; }
          const double rel = (nx > 0.0 && std::isfinite(e)) ? e / nx : 1e300;
          if(!(rel <= worst)) worst = rel;
          mgg->done(); mgl->done();
        }
        ghier->done();
        Rate r; r.top = -1; r.crs = 4; r.rho = worst; rates.push_back(r);
      }
      // ---- operators change, hierarchy re-initialised: MG(2A) d = MG(A) d / 2 (all sub-solvers are homogeneous of degree -1
      // in the matrix, the adaptive step lengths of degree 0); then values restored and a full symbolic+numeric re-init
      {
        auto mg = Solver::new_multigrid(hier, cfg.cycle == 0 ? Solver::MultiGridCycle::V : cfg.cycle == 1 ? Solver::MultiGridCycle::F : Solver::MultiGridCycle::W);
        mg->set_adapt_cgc(cfg.adapt == 0 ? Solver::MultiGridAdaptCGC::Fixed : cfg.adapt == 1 ? Solver::MultiGridAdaptCGC::MinEnergy : Solver::MultiGridAdaptCGC::MinDefect);
        mg->init();
        Level& T = *levels.front();
        const Index n = T.matrix.rows();
        VectorType d(n), x1(n), x2(n), x3(n);
        for(Index i = 0; i < n; ++i) d(i, double(int((i * 31u + 7u) % 19u) - 9) / 8.0);
        T.filter.filter_def(d);
        mg->apply(x1, d);
        for(auto& pl : levels) pl->matrix.scale(pl->matrix, 2.0);
        mg->done_numeric(); hier->done_numeric();
        hier->init_numeric(); mg->init_numeric();
        mg->apply(x2, d);
        for(auto& pl : levels) pl->matrix.scale(pl->matrix, 0.5);
        mg->done(); hier->done();
        hier->init(); mg->init();
        mg->apply(x3, d);
        n_apply += 3;
        double nx = 0.0, e2 = 0.0, e3 = 0.0;
        for(Index i = 0; i < n; ++i) { nx = std::max(nx, std::fabs(x1(i))); e2 = std::max(e2, std::fabs(2.0 * x2(i) - x1(i))); e3 = std::max(e3, std::fabs(x3(i) - x1(i))); }
        Rate r; r.top = -1; r.crs = 2; r.rho = (nx > 0.0 && std::isfinite(e2)) ? e2 / nx : 1e300; rates.push_back(r);
        r.crs = 3; r.rho = (nx > 0.0 && std::isfinite(e3)) ? e3 / nx : 1e300; rates.push_back(r);
        mg->done();
      }
      hier->done();
      return rates;
    }
  };

  struct FamilyDesc { const char* name; int lvl_min, lvl_max_quick, lvl_max_thorough; const char* cubature; double bound_v, bound_fw; };
  const FamilyDesc FAMS[] = {
    {"1D-P1",   1, 9, 11, "auto-degree:3", 0.50, 0.40},
    {"2D-Q1",   1, 6, 7,  "auto-degree:5", 0.50, 0.40},
    {"2D-P1",   1, 6, 7,  "auto-degree:3", 0.50, 0.40},
    {"2D-Q2",   1, 5, 6,  "auto-degree:7", 0.50, 0.40},
    {"3D-Q1",   1, 4, 5,  "auto-degree:5", 0.50, 0.40},
  };

  std::vector<Rate> run_family(int fam, int lmax, const Config& cfg, uint64_t& n_apply, std::vector<Index>& dofs)
  {
    const FamilyDesc& F = FAMS[fam];
    switch(fam)
    {
    case 0: return Family<Shape::Hypercube<1>, Space::Lagrange1::Element>::run(F.lvl_min, lmax, cfg, F.cubature, n_apply, dofs);
    case 1: return Family<Shape::Hypercube<2>, Space::Lagrange1::Element>::run(F.lvl_min, lmax, cfg, F.cubature, n_apply, dofs);
    case 2: return Family<Shape::Simplex<2>, Space::Lagrange1::Element>::run(F.lvl_min, lmax, cfg, F.cubature, n_apply, dofs);
    case 3: return Family<Shape::Hypercube<2>, Space::Lagrange2::Element>::run(F.lvl_min, lmax, cfg, F.cubature, n_apply, dofs);
    default: return Family<Shape::Hypercube<3>, Space::Lagrange1::Element>::run(F.lvl_min, lmax, cfg, F.cubature, n_apply, dofs);
    }
  }
} // namespace

int main(int argc, char** argv)
{
  Runtime::ScopeGuard guard(argc, argv);
  verif::Spec spec; spec.property = "C09"; spec.harness = "c09_levels";
  spec.rule = "case = (mesh/element family, smoothing steps, adaptive CGC mode) x cycles V,F,W inside; one hierarchy per cycle, contraction factor of every "
    "(top,coarse) sub-range by power iteration (36 cycles, geometric mean of the last 12 energy-norm ratios); every case is non-trivial, hashed by its parameters";
  spec.bounds_quick = "1D P1 levels 1..9 (2..512 cells), 2D Q1 and P1 levels 1..6 (<=4225 dofs), 2D Q2 levels 1..5, 3D Q1 levels 1..4 (4913 dofs); Jacobi(0.7) x {1,2} steps; Fixed/MinEnergy/MinDefect";
  spec.bounds_thorough = "1D levels 1..11, 2D Q1/P1 levels 1..7 (16641 dofs), 2D Q2 levels 1..6, 3D Q1 levels 1..5 (35937 dofs)";
  spec.assumptions = {
    "rho_bar per family is a fixed constant chosen from theory/measurement with margin (it does not depend on the number of levels); a slightly slower smoother cannot be flagged, only loss of level independence or divergence",
    "power iteration from one deterministic start vector; for the non-normal F-cycle operator the value is an estimate of the asymptotic rate",
    "with adaptive CGC the iteration is nonlinear; the measured value is the observed asymptotic reduction", "the same hierarchy is also run through Global::Matrix/Vector/Filter/Transfer (real gates on the world communicator of the single process, no muxer) and must reproduce the local result; ghost/muxed operation needs MPI (C13)", "re-initialisation history per (family, steps, CGC mode, cycle): apply; scale all level matrices by 2; done/init numeric; apply (must be half); restore; full done/init; apply (must be the first result)"};
  spec.deadline_quick_s = 540;

  return verif::run(spec, argc, argv, [&](verif::Ctx& c) {
    const int nfam = int(sizeof(FAMS) / sizeof(FAMS[0]));
    for(int fam = 0; fam < nfam; ++fam)
    for(int steps = 2; steps >= 1; --steps)
    for(int adapt = 0; adapt < 3; ++adapt)
    {
      if(!c.want()) continue;
      const FamilyDesc& F = FAMS[fam];
      const int lmax = c.thorough ? F.lvl_max_thorough : F.lvl_max_quick;
      c.desc([&]{ return std::string(F.name) + " steps=" + std::to_string(steps) + " adapt=" + std::to_string(adapt) + " cycles V,F,W levels " + std::to_string(F.lvl_min) + ".." + std::to_string(lmax); });
      std::map<std::pair<int, int>, double> rho_cycle[3];
     for(int cycle = 0; cycle < 3; ++cycle)
     {
      const std::string key = std::string(F.name) + " " + "VFW"[cycle] + " steps=" + std::to_string(steps) + " adapt=" + std::to_string(adapt);
      Config cfg; cfg.cycle = cycle; cfg.steps = steps; cfg.adapt = adapt; cfg.omega = 0.7;
      uint64_t n_apply = 0;
      std::vector<Index> dofs;
      std::vector<Rate> rates = run_family(fam, lmax, cfg, n_apply, dofs);
      // bounds (fixed per family and cycle, independent of the number of levels): with one smoothing step the square root
      // of the two-step bound; the defect-minimising step length under-corrects smooth errors (it is measured here in the
      // energy norm) and gets its own, weaker constant
      double bound = (cycle == 0) ? F.bound_v : F.bound_fw;
      if(steps == 1) bound = std::sqrt(bound);
      if(adapt == 2) bound = (steps == 2) ? 0.75 : 0.85;
      const double inc_bound = (adapt == 2) ? 0.10 : 0.05;
      std::map<std::pair<int, int>, double> rho;
      double worst = 0.0;
      std::string table;
      // the two re-initialisation results (top = -1) are checked here and removed from the rate table
      for(auto& r : rates) if(r.top < 0)
      {
        if(r.crs == 2) c.check(r.rho <= 1e-11, "matrices scaled by 2 + numeric re-init: MG(2A)d != MG(A)d/2; " + key, [&]{ char m[120]; snprintf(m, sizeof m, "relative difference %.3e", r.rho); return std::string(m); });
        if(r.crs == 4) { c.check(r.rho <= 1e-11, "multigrid through Global::Matrix/Vector/Filter/Transfer differs from the local containers; " + key, [&]{ char m[120]; snprintf(m, sizeof m, "relative difference %.3e", r.rho); return std::string(m); }); c.count(r.rho == 0.0 ? "global_container_results_bitwise" : "global_container_results_within_1e-11"); continue; }
        if(r.crs == 3) c.check(r.rho <= 1e-11, "values restored + full re-init: result differs from the first application; " + key, [&]{ char m[120]; snprintf(m, sizeof m, "relative difference %.3e", r.rho); return std::string(m); });
        c.count(r.rho == 0.0 ? "reinit_results_bitwise" : "reinit_results_within_1e-11");
      }
      rates.erase(std::remove_if(rates.begin(), rates.end(), [](const Rate& r){ return r.top < 0; }), rates.end());
      for(auto& r : rates)
      {
        rho[std::make_pair(r.top, r.crs)] = r.rho;
        worst = std::max(worst, r.rho);
        char b[64]; snprintf(b, sizeof b, " (%d,%d):%.3f", r.top, r.crs, r.rho); table += b;
        c.check(r.rho <= bound, "contraction bound; " + key, [&]{ char m[200]; snprintf(m, sizeof m, "rho(top=%d,crs=%d)=%.4f > %.3f (%u dofs on top)", r.top, r.crs, r.rho, bound, unsigned(dofs[std::size_t(r.top)])); return std::string(m); });
        c.count("rates_measured");
      }
      for(auto& r : rates)
      {
        auto it = rho.find(std::make_pair(r.top, r.crs - 1));
        if(it == rho.end()) continue;
        c.check(r.rho - it->second <= ((r.crs - r.top == 2) ? 0.10 : inc_bound), "level independence (one more coarse level); " + key, [&]{ char m[200]; snprintf(m, sizeof m, "rho(%d,%d)=%.4f vs rho(%d,%d)=%.4f", r.top, r.crs, r.rho, r.top, r.crs - 1, it->second); return std::string(m); });
      }
      c.sample(key + ":" + table);
      c.count("mg_applications", n_apply);
      c.maxi("worst_rho_x1000", uint64_t(worst * 1000.0));
      c.maxi("levels", uint64_t(lmax - F.lvl_min + 1));
      c.nontrivial(verif::Hash().str(key).get());
      c.outcome(worst < 0.1 ? "rho<0.1" : worst < 0.2 ? "rho<0.2" : worst < 0.3 ? "rho<0.3" : worst < 0.5 ? "rho<0.5" : worst < 1.0 ? "rho<1" : "rho>=1");
      if(c.replaying) fprintf(stdout, "%s:%s\n", key.c_str(), table.c_str());
      rho_cycle[cycle] = rho;
     }
      // more coarse grid work must not make it worse: rho_W <= rho_F <= rho_V (with a margin for the estimate)
      const std::string key3 = std::string(F.name) + " steps=" + std::to_string(steps) + " adapt=" + std::to_string(adapt);
      for(auto& kv : rho_cycle[0])
      {
        const double v = kv.second, f = rho_cycle[1][kv.first], w = rho_cycle[2][kv.first];
        // (with an adaptive step length the iteration is nonlinear and F was observed slightly slower than V: only W <= V there)
        const bool ordered = (adapt != 0) ? (w <= v + 0.03) : (f <= v + 0.03 && w <= f + 0.03);
        c.check(ordered, "cycle ordering rho_W <= rho_F <= rho_V; " + key3, [&]{ char m[200]; snprintf(m, sizeof m, "(top=%d,crs=%d): V %.4f F %.4f W %.4f", kv.first.first, kv.first.second, v, f, w); return std::string(m); });
      }
    }
  });
}
