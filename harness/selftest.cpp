// Self test of the runner (not a property check): a tiny enumeration with an optional injected
// failure / crash, used to validate sharding, crash bisection, replay and known-finding handling.
#include <verif.hpp>
#include <kernel/runtime.hpp>
#include <kernel/lafem/dense_vector.hpp>
using namespace FEAT;
int main(int argc, char** argv)
{
  Runtime::ScopeGuard guard(argc, argv);
  verif::Spec spec; spec.property = "C00"; spec.harness = "selftest";
  spec.rule = "all (n,k) with n<40,k<25; non-trivial if n>0";
  spec.case_timeout_s = 3; // self test only
  const char* inj = std::getenv("SELFTEST_INJECT");
  std::string inject = inj ? inj : "";
  return verif::run(spec, argc, argv, [&](verif::Ctx& c) {
    for(int n = 0; n < 40; ++n) for(int k = 0; k < 25; ++k)
    {
      if(!c.want()) continue;
      c.desc([&]{ return "n=" + std::to_string(n) + " k=" + std::to_string(k); });
      LAFEM::DenseVector<double, Index> v{Index(n), double(k)};
      double s = 0; for(Index i = 0; i < v.size(); ++i) s += v(i);
      c.check(s == double(n * k), "sum", [&]{ return std::string("wrong sum"); });
      if(inject == "fail" && n == 7 && k == 3) c.fail("injected n=7 k=3", "injected failure");
      if(inject == "crash" && n == 9 && k == 4) { XABORTM("injected abort"); }
      if(inject == "segv" && n == 11 && k == 5) { volatile int* p = nullptr; *p = 1; }
      if(inject == "hang" && n == 13 && k == 6) { for(volatile long q = 0;; ++q) {} }
      if(n == 3 && k == 3) { int r = c.run_forked([&]{ XABORTM("expected"); }); c.check(r == SIGABRT, "dies", "expected abort did not happen"); }
      if(n > 0) c.nontrivial(verif::Hash().pod(n).pod(k).get());
      c.outcome(std::to_string((n * k) % 5));
      c.count("states");
    }
  });
}
