// c13_sync_hexa -- C13 Tier 1 on hexahedral base meshes (see c13_sync_impl.hpp / c13_core.hpp)
#define C13_FAMILY 2
#define C13_HARNESS "c13_sync_hexa"
#include "c13_sync_impl.hpp"
int main(int argc, char** argv) { return c13::main_family(argc, argv); }
