// C16 (local-to-global transfer): SparseMatrixCSR/BCSR::ScatterAxpy / GatherAxpy, DenseVector(Blocked) Scatter/GatherAxpy and
// the standalone LAFEM::MatrixGatherScatterHelper (policies useLocalOps and useLocalSortHelper) /
// VectorGatherScatterHelper used by the voxel assemblers, bounded-exhaustively: every 0/1 pattern of a 3x4 CSR matrix,
// every ordered pair of distinct rows and every ordered pair / triple of distinct columns present in all mapped rows,
// scaling factors {1, 0, -1, 0.5}, position coded dyadic values, against a dense reference -- bitwise.
#include <verif.hpp>

#include <kernel/lafem/dense_vector.hpp>
#include <kernel/lafem/dense_vector_blocked.hpp>
#include <kernel/lafem/matrix_gather_scatter_helper.hpp>
#include <kernel/lafem/sparse_matrix_bcsr.hpp>
#include <kernel/lafem/sparse_matrix_csr.hpp>
#include <kernel/lafem/vector_gather_scatter_helper.hpp>
#include <kernel/runtime.hpp>

#include <array>
#include <string>
#include <vector>

using namespace FEAT;

namespace
{
  typedef LAFEM::SparseMatrixCSR<double, Index> CSR;
  typedef LAFEM::SparseMatrixBCSR<double, Index, 2, 2> BCSR;
  struct DummySpace {};
  typedef LAFEM::MatrixGatherScatterHelper<DummySpace, double, Index, FEAT::Intern::MatrixGatherScatterPolicy::useLocalOps> HelpOps;
  typedef LAFEM::MatrixGatherScatterHelper<DummySpace, double, Index, FEAT::Intern::MatrixGatherScatterPolicy::useLocalSortHelper> HelpSort;
  typedef LAFEM::VectorGatherScatterHelper<DummySpace, double, Index> HelpVec;

  struct Map
  {
    std::vector<Index> idx;
    int get_num_local_dofs() const { return int(idx.size()); }
    Index get_index(int i) const { return idx[(size_t)i]; }
  };

  constexpr int M = 3, N = 4;
  const double alphas[4] = {1.0, 0.0, -1.0, 0.5};

  double mval(size_t k) { return (double(1 + k % 11u) / 4.0) * ((k & 1u) ? -1.0 : 1.0); }
  double lval(int i, int j) { return double(2 + 3 * i + j) / 8.0; }

  struct Pattern
  {
    std::vector<Index> row_ptr, col_idx;
    explicit Pattern(unsigned bits)
    {
      row_ptr.push_back(0);
      for(int i = 0; i < M; ++i) { for(int j = 0; j < N; ++j) if(bits & (1u << (i * N + j))) col_idx.push_back(Index(j)); row_ptr.push_back(Index(col_idx.size())); }
    }
    long pos(Index i, Index j) const { for(Index k = row_ptr[i]; k < row_ptr[i + 1]; ++k) if(col_idx[k] == j) return long(k); return -1; }
    size_t nnz() const { return col_idx.size(); }
  };

  template<int NC>
  void run_maps(verif::Ctx& c, const Pattern& pt, unsigned bits)
  {
    const size_t nnz = pt.nnz();
    // all ordered pairs of distinct rows
    for(Index r0 = 0; r0 < Index(M); ++r0) for(Index r1 = 0; r1 < Index(M); ++r1)
    {
      if(r0 == r1) continue;
      // all ordered NC-tuples of distinct columns present in both rows
      Index cols[3] = {0, 0, 0};
      int tot = 1; for(int q = 0; q < NC; ++q) tot *= N;
      for(int code = 0; code < tot; ++code)
      {
        int t = code; bool ok = true;
        for(int q = 0; q < NC; ++q) { cols[q] = Index(t % N); t /= N; }
        for(int q = 0; q < NC && ok; ++q)
        {
          for(int p = 0; p < q; ++p) ok = ok && (cols[p] != cols[q]);
          ok = ok && pt.pos(r0, cols[q]) >= 0 && pt.pos(r1, cols[q]) >= 0;
        }
        if(!ok) continue;
        const Index rmap[2] = {r0, r1};
        Index cmap[NC], sorter[NC];
        for(int q = 0; q < NC; ++q) { cmap[q] = cols[q]; sorter[q] = Index(q); }
        std::sort(sorter, sorter + NC, [&](Index a, Index b) { return cmap[a] < cmap[b]; });
        Tiny::Matrix<double, 2, NC> loc;
        for(int i = 0; i < 2; ++i) for(int j = 0; j < NC; ++j) loc[i][j] = lval(i, j);
        for(double alpha : alphas)
        {
          // dense expectation of the scatter and of the gather
          std::vector<double> base(nnz), exp_s(nnz);
          for(size_t k = 0; k < nnz; ++k) base[k] = exp_s[k] = mval(k);
          double exp_g[2][3];
          for(int i = 0; i < 2; ++i) for(int j = 0; j < NC; ++j)
          {
            size_t k = size_t(pt.pos(rmap[i], cmap[j]));
            exp_s[k] += alpha * loc[i][j];
            exp_g[i][j] = lval(i, j) + alpha * base[k];
          }
          auto cmp_s = [&](const double* got, const char* route)
          {
            c.count("scatter_checks");
            for(size_t k = 0; k < nnz; ++k) if(got[k] != exp_s[k])
            {
              c.fail(std::string("scatter ") + route, "pattern " + std::to_string(bits) + " rows (" + std::to_string(r0) + "," + std::to_string(r1) + ") cols code " + std::to_string(code) + " alpha " + std::to_string(alpha) + ": value " + std::to_string(k) + " is " + std::to_string(got[k]) + ", expected " + std::to_string(exp_s[k]));
              return false;
            }
            return true;
          };
          auto cmp_g = [&](const Tiny::Matrix<double, 2, NC>& got, const char* route)
          {
            c.count("gather_checks");
            for(int i = 0; i < 2; ++i) for(int j = 0; j < NC; ++j) if(got[i][j] != exp_g[i][j])
            {
              c.fail(std::string("gather ") + route, "pattern " + std::to_string(bits) + " rows (" + std::to_string(r0) + "," + std::to_string(r1) + ") cols code " + std::to_string(code) + " alpha " + std::to_string(alpha) + ": local entry (" + std::to_string(i) + "," + std::to_string(j) + ") is " + std::to_string(got[i][j]) + ", expected " + std::to_string(exp_g[i][j]));
              return false;
            }
            return true;
          };
          // standalone helpers
          {
            std::vector<double> d = base;
            HelpOps::template scatter_matrix_csr<double, 2, NC>(loc, d.data(), rmap, cmap, Index(M), Index(N), pt.row_ptr.data(), pt.col_idx.data(), alpha);
            if(!cmp_s(d.data(), "helper.local-ops")) return;
            d = base;
            HelpSort::template scatter_matrix_csr<double, 2, NC>(loc, d.data(), rmap, cmap, Index(M), Index(N), pt.row_ptr.data(), pt.col_idx.data(), alpha, sorter);
            if(!cmp_s(d.data(), "helper.sort")) return;
            Tiny::Matrix<double, 2, NC> g = loc;
            HelpOps::template gather_matrix_csr<double, 2, NC>(g, base.data(), rmap, cmap, Index(M), Index(N), pt.row_ptr.data(), pt.col_idx.data(), alpha);
            if(!cmp_g(g, "helper.local-ops")) return;
            g = loc;
            HelpSort::template gather_matrix_csr<double, 2, NC>(g, base.data(), rmap, cmap, Index(M), Index(N), pt.row_ptr.data(), pt.col_idx.data(), alpha, sorter);
            if(!cmp_g(g, "helper.sort")) return;
          }
          // LAFEM::SparseMatrixCSR::ScatterAxpy / GatherAxpy
          {
            LAFEM::DenseVector<Index, Index> ci{Index(nnz)}, rp{Index(M + 1)};
            LAFEM::DenseVector<double, Index> va{Index(nnz)};
            for(size_t k = 0; k < nnz; ++k) { ci(Index(k), pt.col_idx[k]); va(Index(k), base[k]); }
            for(int i = 0; i <= M; ++i) rp(Index(i), pt.row_ptr[(size_t)i]);
            CSR A(Index(M), Index(N), ci, va, rp);
            Map mr, mcl; mr.idx = {r0, r1}; for(int q = 0; q < NC; ++q) mcl.idx.push_back(cmap[q]);
            {
              Tiny::Matrix<double, 2, NC> g = loc;
              typename CSR::GatherAxpy gather(A);
              gather(g, mr, mcl, alpha);
              if(!cmp_g(g, "csr.gather-axpy")) return;
            }
            {
              typename CSR::ScatterAxpy scatter(A);
              scatter(loc, mr, mcl, alpha);
            }
            if(!cmp_s(A.val(), "csr.scatter-axpy")) return;
          }
        }
      }
    }
  }

  /// blocked variant (2x2 blocks) and the vector helpers on one pattern
  void run_blocked_and_vectors(verif::Ctx& c, const Pattern& pt, unsigned bits)
  {
    const size_t nnz = pt.nnz();
    typedef Tiny::Matrix<double, 2, 2> Blk;
    for(Index r0 = 0; r0 < Index(M); ++r0) for(Index r1 = 0; r1 < Index(M); ++r1)
    {
      if(r0 == r1) continue;
      for(Index c0 = 0; c0 < Index(N); ++c0) for(Index c1 = 0; c1 < Index(N); ++c1)
      {
        if(c0 == c1 || pt.pos(r0, c0) < 0 || pt.pos(r0, c1) < 0 || pt.pos(r1, c0) < 0 || pt.pos(r1, c1) < 0) continue;
        const Index rmap[2] = {r0, r1}, cmap[2] = {c0, c1};
        Index sorter[2] = {Index(c0 < c1 ? 0 : 1), Index(c0 < c1 ? 1 : 0)};
        Tiny::Matrix<Blk, 2, 2> loc;
        for(int i = 0; i < 2; ++i) for(int j = 0; j < 2; ++j) for(int a = 0; a < 2; ++a) for(int b = 0; b < 2; ++b) loc[i][j][a][b] = lval(2 * i + a, 2 * j + b);
        for(double alpha : alphas)
        {
          std::vector<Blk> base(nnz), exp_s(nnz);
          for(size_t k = 0; k < nnz; ++k) for(int a = 0; a < 2; ++a) for(int b = 0; b < 2; ++b) base[k][a][b] = exp_s[k][a][b] = mval(4 * k + size_t(2 * a + b));
          for(int i = 0; i < 2; ++i) for(int j = 0; j < 2; ++j)
          {
            size_t k = size_t(pt.pos(rmap[i], cmap[j]));
            for(int a = 0; a < 2; ++a) for(int b = 0; b < 2; ++b) exp_s[k][a][b] += alpha * loc[i][j][a][b];
          }
          auto same = [&](const Blk* got)
          {
            for(size_t k = 0; k < nnz; ++k) for(int a = 0; a < 2; ++a) for(int b = 0; b < 2; ++b) if(got[k][a][b] != exp_s[k][a][b]) return false;
            return true;
          };
          c.count("scatter_checks", 3);
          std::vector<Blk> d = base;
          HelpOps::template scatter_matrix_csr<Blk, 2, 2>(loc, d.data(), rmap, cmap, Index(M), Index(N), pt.row_ptr.data(), pt.col_idx.data(), alpha);
          if(!c.check(same(d.data()), "scatter helper.local-ops blocked", [&]{ return "pattern " + std::to_string(bits); })) return;
          d = base;
          HelpSort::template scatter_matrix_csr<Blk, 2, 2>(loc, d.data(), rmap, cmap, Index(M), Index(N), pt.row_ptr.data(), pt.col_idx.data(), alpha, sorter);
          if(!c.check(same(d.data()), "scatter helper.sort blocked", [&]{ return "pattern " + std::to_string(bits); })) return;
          {
            LAFEM::DenseVector<Index, Index> ci{Index(nnz)}, rp{Index(M + 1)};
            LAFEM::DenseVector<double, Index> va{Index(4 * nnz)};
            for(size_t k = 0; k < nnz; ++k)
            {
              ci(Index(k), pt.col_idx[k]);
              for(int a = 0; a < 2; ++a) for(int b = 0; b < 2; ++b) va(Index(4 * k + size_t(2 * a + b)), base[k][a][b]);
            }
            for(int i = 0; i <= M; ++i) rp(Index(i), pt.row_ptr[(size_t)i]);
            BCSR A(Index(M), Index(N), ci, va, rp);
            Map mr, mcl; mr.idx = {r0, r1}; mcl.idx = {c0, c1};
            typename BCSR::ScatterAxpy scatter(A);
            scatter(loc, mr, mcl, alpha);
            if(!c.check(same(A.val()), "scatter bcsr.scatter-axpy", [&]{ return "pattern " + std::to_string(bits); })) return;
          }
        }
      }
    }
    // vectors: every ordered pair of distinct entries of a length-4 vector
    for(Index i0 = 0; i0 < 4; ++i0) for(Index i1 = 0; i1 < 4; ++i1)
    {
      if(i0 == i1) continue;
      const Index map[2] = {i0, i1};
      for(double alpha : alphas)
      {
        double base[4], exp_s[4];
        for(int k = 0; k < 4; ++k) base[k] = exp_s[k] = mval(size_t(k) + 3u);
        Tiny::Vector<double, 2> loc; loc[0] = lval(0, 1); loc[1] = lval(1, 2);
        exp_s[i0] += alpha * loc[0]; exp_s[i1] += alpha * loc[1];
        double d[4]; for(int k = 0; k < 4; ++k) d[k] = base[k];
        HelpVec::template scatter_vector_dense<double, 2>(loc, d, Index(4), map, alpha);
        bool ok = true; for(int k = 0; k < 4; ++k) ok = ok && d[k] == exp_s[k];
        Tiny::Vector<double, 2> g = loc;
        HelpVec::template gather_vector_dense<double, 2>(g, base, Index(4), map, alpha);
        ok = ok && g[0] == loc[0] + alpha * base[i0] && g[1] == loc[1] + alpha * base[i1];
        LAFEM::DenseVector<double, Index> v(4);
        for(int k = 0; k < 4; ++k) v(Index(k), base[k]);
        Map mm; mm.idx = {i0, i1};
        {
          Tiny::Vector<double, 2> g2 = loc;
          typename LAFEM::DenseVector<double, Index>::GatherAxpy ga(v);
          ga(g2, mm, alpha);
          ok = ok && g2[0] == g[0] && g2[1] == g[1];
          typename LAFEM::DenseVector<double, Index>::ScatterAxpy sa(v);
          sa(loc, mm, alpha);
          for(int k = 0; k < 4; ++k) ok = ok && v(Index(k)) == exp_s[k];
        }
        c.count("vector_checks");
        if(!c.check(ok, "vector gather/scatter", [&]{ return "entries (" + std::to_string(i0) + "," + std::to_string(i1) + ") alpha " + std::to_string(alpha); })) return;
      }
    }
  }
}

int main(int argc, char** argv)
{
  Runtime::ScopeGuard guard(argc, argv);
  verif::Spec spec;
  spec.property = "C16";
  spec.harness = "c16_scatter";
  spec.rule = "cases = all 4096 zero/one patterns of a 3x4 CSR matrix; per case every ordered pair of distinct rows x every ordered pair and triple of distinct columns "
    "contained in both rows x alpha in {1, 0, -1, 0.5}: MatrixGatherScatterHelper<useLocalOps> and <useLocalSortHelper> scatter_matrix_csr / gather_matrix_csr, "
    "SparseMatrixCSR::ScatterAxpy / GatherAxpy (scalar); for every 8th pattern also 2x2 blocked values (helpers, SparseMatrixBCSR::ScatterAxpy) and "
    "VectorGatherScatterHelper / DenseVector::ScatterAxpy / GatherAxpy; result == dense reference bitwise (position coded dyadic values), all other matrix entries "
    "unchanged. Non-trivial: patterns in which at least one admissible (rows, columns) map exists.";
  spec.bounds_quick = "3x4 patterns, local sizes 2x2 and 2x3";
  spec.bounds_thorough = "same (the space is complete)";
  spec.assumptions = {
    "columns of the local map must be present in every mapped row (precondition of all routes: no bounds checks in release builds); maps violating it are not generated",
    "policy useColPtr has no implementation in the header; the CUDA grouped_* device functions are out of scope"};
  return verif::run(spec, argc, argv, [&](verif::Ctx& c) {
    for(unsigned bits = 0; bits < (1u << (M * N)); ++bits)
    {
      if(!c.want()) continue;
      c.desc([&]{ return "pattern bits " + std::to_string(bits); });
      Pattern pt(bits);
      const uint64_t before = c._counters["scatter_checks"];
      run_maps<2>(c, pt, bits);
      run_maps<3>(c, pt, bits);
      if((bits % 8u) == 7u) run_blocked_and_vectors(c, pt, bits);
      if(c._counters["scatter_checks"] != before) c.nontrivial(verif::Hash().pod(bits).get());
      c.outcome(std::to_string(pt.nnz()) + " entries");
    }
  });
}
