// C08: Solver::AmaVanka against its defining operator (dense oracle, see c08_block.hpp) on
//  (a) SparseMatrixCSR with user-defined macros (overlapping, nested, single-dof, unsorted, singular macros with skip_singular),
//  (b) SaddlePointMatrix<BCSR<2,2>,BCSR<2,1>,BCSR<1,2>> with user-defined and with automatically deducted macros,
// omega {1, 1/2}, num_steps {1,2}, skip_singular {off,on}, velocity unit filter {none, dof 0}; plus the life-cycle BFS.
#include <c08_block.hpp>
#include <kernel/solver/amavanka.hpp>
#include <kernel/lafem/tuple_matrix.hpp>

using namespace c08b;

namespace
{
  // ---------------------------------------------------------------------------------------- (a) plain CSR
  struct PlainLayout { const char* name; int N; std::vector<std::vector<int>> macros; int zero_diag; };
  std::vector<PlainLayout> plain_layouts()
  {
    return {
      {"one macro with all dofs", 3, {{0, 1, 2}}, -1},
      {"chain of overlapping macros", 4, {{0, 1}, {1, 2}, {2, 3}}, -1},
      {"single-dof macro, unsorted macro", 5, {{0, 1, 2}, {2}, {3, 4}, {4, 0}}, -1},
      {"five overlapping macros of different size", 8, {{0, 1, 2}, {2, 3}, {3, 4, 5}, {5, 6, 7}, {0, 7}}, -1},
      {"nested macros", 4, {{3, 2, 1, 0}, {1, 2}, {3}}, -1},
      {"singular single-dof macro {3} (a_33 = 0), dof 3 also in a regular macro", 4, {{0, 1}, {1, 2, 3}, {3}}, 3},
      {"dof 2 only in a singular macro (a_22 = 0)", 3, {{0, 1}, {2}}, 2},
    };
  }
  Dense plain_dense(const PlainLayout& L)
  {
    Dense K; K.N = L.N;
    for(int ver = 0; ver < 4; ++ver)
    {
      const int dver = ver / 2, over = ver % 2;
      K.k[ver].assign(size_t(L.N) * L.N, 0.0L);
      for(int i = 0; i < L.N; ++i) for(int j = 0; j < L.N; ++j)
      {
        const int dd = std::abs(i - j);
        if(!(dd <= 2 || dd == L.N - 1)) continue;
        LD x = (i == j) ? LD(4 + (i + dver) % 3) : (((i + j + over) & 1) ? -1.0L : 1.0L) * LD(1 + (i + 3 * j + 5 * over) % 8) / 8.0L;
        if(i == j && i == L.zero_diag) x = 0.0L;
        K.k[ver][size_t(i) * L.N + j] = x;
      }
    }
    return K;
  }
  struct PlainBox
  {
    typedef LAFEM::SparseMatrixCSR<double, Index> Mat;
    typedef LAFEM::DenseVector<double, Index> Vec;
    typedef LAFEM::UnitFilter<double, Index> Fil;
    const Dense& K; int N;
    Mat mat; Fil filter;
    std::shared_ptr<Solver::AmaVanka<Mat, Fil>> prec;
    PlainBox(const Dense& k, const std::vector<char>& fixed) : K(k), N(k.N), filter(Index(k.N))
    {
      Index nnz = 0;
      for(int i = 0; i < N; ++i) for(int j = 0; j < N; ++j) { const int dd = std::abs(i - j); if(dd <= 2 || dd == N - 1) ++nnz; }
      const Index nn = Index(N);
      mat = Mat(nn, nn, nnz);
      Index q = 0;
      for(int i = 0; i < N; ++i) { mat.row_ptr()[i] = q; for(int j = 0; j < N; ++j) { const int dd = std::abs(i - j); if(dd <= 2 || dd == N - 1) mat.col_ind()[q++] = Index(j); } }
      mat.row_ptr()[N] = q;
      set_values(0);
      for(int i = N - 1; i >= 0; --i) if(fixed[i]) filter.add(Index(i), 0.0);
    }
    void set_values(int ver) { for(int i = 0; i < N; ++i) for(Index p = mat.row_ptr()[i]; p < mat.row_ptr()[i + 1]; ++p) mat.val()[p] = double(K.at(ver, i, int(mat.col_ind()[p]))); }
    std::vector<double> apply(const LVec& d, double prefill, Status& st, bool& unch)
    {
      Vec vin{Index(N)}, vout{Index(N)};
      std::vector<double> din(N);
      for(int i = 0; i < N; ++i) { din[i] = double(d[i]); vin.elements()[i] = din[i]; vout.elements()[i] = prefill; }
      st = prec->apply(vout, vin);
      unch = std::memcmp(vin.elements(), din.data(), sizeof(double) * size_t(N)) == 0;
      return std::vector<double>(vout.elements(), vout.elements() + N);
    }
  };

  Adjacency::Graph make_graph(Index num_dofs, const std::vector<std::vector<int>>& macros)
  {
    std::vector<Index> dp(1, 0), ii;
    for(const auto& m : macros) { for(int d : m) ii.push_back(Index(d)); dp.push_back(Index(ii.size())); }
    return Adjacency::Graph(num_dofs, dp, ii);
  }

  std::string par_str(double omega, int steps, bool skip, bool fix)
  {
    char b[120]; snprintf(b, sizeof b, " omega=%g num_steps=%d skip_singular=%d filter=%s", omega, steps, int(skip), fix ? "Unit{0}" : "none");
    return b;
  }

  // ---------------------------------------------------------------------------------------- (b),(c) saddle point
  template<int dim>
  void saddle_cases(verif::Ctx& c, int lc_depth)
  {
    typedef SaddleBox<dim> Box;
    const std::vector<Layout> lays = layouts();
    for(size_t li = 0; li < lays.size(); ++li)
    for(int avar = 0; avar < (c.thorough ? 3 : 2); ++avar)
    for(int automac = 0; automac < (dim > 1 ? 2 : 1); ++automac)
    for(int io = 0; io < 2; ++io) for(int steps = 1; steps <= 2; ++steps) for(int skip = 0; skip < 2; ++skip) for(int fix = 0; fix < 2; ++fix)
    {
      if(!c.thorough && skip == 1 && !(io == 0 && steps == 1)) continue;
      if(!c.want()) continue;
      const Layout& L = lays[li];
      const double omega = io ? 0.5 : 1.0;
      auto S = std::make_shared<Saddle>(); S->build(L, dim, avar);
      std::vector<char> fixed_vb(L.nvb, 0); if(fix) fixed_vb[0] = 1;
      const std::vector<char> fixed = fixed_scalar(*S, fixed_vb);
      // macros: user defined = the elements; automatic = deducted from the patterns of B and D
      std::vector<std::vector<int>> mv, mp;
      if(automac) { mp = S->pressure_macros(); for(auto& p : mp) mv.push_back(S->velocity_of(p)); }
      else for(const auto& e : L.el) { mv.push_back(e.V); mp.push_back(e.P); }
      std::vector<std::vector<int>> macros;
      for(size_t m = 0; m < mv.size(); ++m) macros.push_back(S->scalar_dofs(mv[m], mp[m]));
      const std::string kname = std::string("AmaVanka SaddlePoint<") + (dim > 1 ? "BCSR2" : "CSR") + "> " + (automac ? "auto-macros" : "user-macros");
      const std::string where = kname + " layout=[" + L.name + "] avar=" + std::to_string(avar) + par_str(omega, steps, skip != 0, fix != 0);
      c.desc([&]{ return where; });
      c.nontrivial(verif::Hash().str("saddle").pod(dim).pod(li).pod(avar).pod(automac).pod(io).pod(steps).pod(skip).pod(fix).get());
      c.outcome(kname);
      Factory make = [=]() -> Live
      {
        auto box = std::make_shared<Box>(*S, fixed_vb);
        auto av = Solver::new_amavanka(box->mat, box->filter, omega, Index(steps));
        if(!automac)
        {
          av->push_macro_dofs(make_graph(Index(S->nvb), mv));
          av->push_macro_dofs(make_graph(Index(S->np), mp));
        }
        av->set_skip_singular(skip != 0);
        box->prec = av;
        Live l = box->live(box);
        l.keep = std::shared_ptr<void>(new std::pair<std::shared_ptr<Saddle>, std::shared_ptr<Box>>(S, box), [](void* p){ delete static_cast<std::pair<std::shared_ptr<Saddle>, std::shared_ptr<Box>>*>(p); });
        return l;
      };
      OracleFn orc = [=](int v, const LVec& d, LVec& out) { return oracle_amavanka(S->K, v, macros, omega, steps, skip != 0, fixed, d, out); };
      // the deducted macro graphs themselves
      if(automac)
      {
        auto box = std::make_shared<Box>(*S, fixed_vb);
        auto av = Solver::new_amavanka(box->mat, box->filter, omega, Index(steps));
        av->init_symbolic();
        bool same = (av->_macro_dofs.size() == 2u) && (av->_macro_dofs[0].get_num_nodes_domain() == Index(mv.size()));
        for(int blk = 0; same && blk < 2; ++blk)
        {
          const auto& g = av->_macro_dofs[size_t(blk)]; const auto& ref = blk ? mp : mv;
          for(size_t m = 0; same && m < ref.size(); ++m)
          {
            std::vector<int> got; for(Index q = g.get_domain_ptr()[m]; q < g.get_domain_ptr()[m + 1]; ++q) got.push_back(int(g.get_image_idx()[q]));
            std::sort(got.begin(), got.end());
            if(got != ref[m]) same = false;
          }
        }
        chk(c, same, "block.amavanka-auto-macros", [&]{ return where + ": deducted macro graphs differ from the definition"; });
        av->done_symbolic();
      }
      run_subject(c, S->N, kname, where, make, orc, true, lc_depth);
    }
  }

  // ---------------------------------------------------------------------------------------- (c) TupleMatrix of CSR blocks (2 x 2, with a pressure-pressure block)
  struct TupleBox
  {
    typedef LAFEM::SparseMatrixCSR<double, Index> M;
    typedef LAFEM::DenseVector<double, Index> V;
    typedef LAFEM::TupleMatrix<LAFEM::TupleMatrixRow<M, M>, LAFEM::TupleMatrixRow<M, M>> Mat;
    typedef LAFEM::TupleVector<V, V> Vec;
    typedef LAFEM::TupleFilter<LAFEM::UnitFilter<double, Index>, LAFEM::NoneFilter<double, Index>> Fil;
    const Saddle& S; const Dense& K;
    Mat mat; Fil filter;
    std::shared_ptr<Solver::AmaVanka<Mat, Fil>> prec;
    TupleBox(const Saddle& s, const Dense& k, const std::vector<char>& fixed_vb) : S(s), K(k)
    {
      std::vector<char> pc(size_t(s.np) * s.np, 0); for(int i = 0; i < s.np; ++i) pc[size_t(i) * s.np + i] = 1;
      mat.template at<0, 0>() = SaddleBox<1>::make_block<M>(s.nvb, s.nvb, s.pa);
      mat.template at<0, 1>() = SaddleBox<1>::make_block<M>(s.nvb, s.np, s.pb);
      mat.template at<1, 0>() = SaddleBox<1>::make_block<M>(s.np, s.nvb, s.pd);
      mat.template at<1, 1>() = SaddleBox<1>::make_block<M>(s.np, s.np, pc);
      LAFEM::UnitFilter<double, Index> fv{Index(s.nvb)};
      for(int b = s.nvb - 1; b >= 0; --b) if(fixed_vb[b]) fv.add(Index(b), 0.0);
      filter.template at<0>() = std::move(fv);
      set_values(0);
    }
    void set_values(int ver)
    {
      const int nv = S.nv, N = S.N;
      auto fill = [&](M& m, int roff, int coff) { for(Index i = 0; i < m.rows(); ++i) for(Index p = m.row_ptr()[i]; p < m.row_ptr()[i + 1]; ++p) m.val()[p] = double(K.at(ver, roff + int(i), coff + int(m.col_ind()[p]))); };
      fill(mat.template at<0, 0>(), 0, 0); fill(mat.template at<0, 1>(), 0, nv); fill(mat.template at<1, 0>(), nv, 0); fill(mat.template at<1, 1>(), nv, nv);
      (void)N;
    }
    std::vector<double> apply(const LVec& d, double prefill, Status& st, bool& unch)
    {
      Vec vin(V(Index(S.nv)), V(Index(S.np))), vout(V(Index(S.nv)), V(Index(S.np)));
      double* iv = vin.template at<0>().elements(); double* ip = vin.template at<1>().elements();
      double* ov = vout.template at<0>().elements(); double* op = vout.template at<1>().elements();
      for(int i = 0; i < S.nv; ++i) { iv[i] = double(d[i]); ov[i] = prefill; }
      for(int i = 0; i < S.np; ++i) { ip[i] = double(d[S.nv + i]); op[i] = prefill; }
      st = prec->apply(vout, vin);
      unch = true;
      for(int i = 0; i < S.nv; ++i) if(iv[i] != double(d[i])) unch = false;
      for(int i = 0; i < S.np; ++i) if(ip[i] != double(d[S.nv + i])) unch = false;
      std::vector<double> out(S.N);
      for(int i = 0; i < S.nv; ++i) out[i] = ov[i];
      for(int i = 0; i < S.np; ++i) out[S.nv + i] = op[i];
      return out;
    }
  };

  void tuple_cases(verif::Ctx& c, int lc_depth)
  {
    const std::vector<Layout> lays = layouts();
    for(size_t li = 0; li < lays.size(); ++li)
    for(int io = 0; io < 2; ++io) for(int steps = 1; steps <= 2; ++steps) for(int skip = 0; skip < 2; ++skip) for(int fix = 0; fix < 2; ++fix)
    {
      if(!c.thorough && skip == 1 && !(io == 0 && steps == 1)) continue;
      if(!c.want()) continue;
      const Layout& L = lays[li];
      const double omega = io ? 0.5 : 1.0;
      auto S = std::make_shared<Saddle>(); S->build(L, 1, int(li % 2));
      // a pressure-pressure block C (diagonal): K = [A B; D C]
      auto K = std::make_shared<Dense>(S->K);
      for(int ver = 0; ver < 4; ++ver) for(int p = 0; p < S->np; ++p) K->k[ver][size_t(S->nv + p) * S->N + S->nv + p] = -LD(1 + (p + ver / 2) % 2) / 2.0L;
      std::vector<char> fixed_vb(L.nvb, 0); if(fix) fixed_vb[0] = 1;
      const std::vector<char> fixed = fixed_scalar(*S, fixed_vb);
      std::vector<std::vector<int>> mv, mp, macros;
      for(const auto& e : L.el) { mv.push_back(e.V); mp.push_back(e.P); macros.push_back(S->scalar_dofs(e.V, e.P)); }
      const std::string kname = "AmaVanka TupleMatrix<CSR 2x2> user-macros";
      const std::string where = kname + " layout=[" + L.name + "]" + par_str(omega, steps, skip != 0, fix != 0);
      c.desc([&]{ return where; });
      c.nontrivial(verif::Hash().str("tuple").pod(li).pod(io).pod(steps).pod(skip).pod(fix).get());
      c.outcome(kname);
      Factory make = [=]() -> Live
      {
        auto box = std::make_shared<TupleBox>(*S, *K, fixed_vb);
        box->prec = Solver::new_amavanka(box->mat, box->filter, omega, Index(steps));
        box->prec->push_macro_dofs(make_graph(Index(S->nvb), mv));
        box->prec->push_macro_dofs(make_graph(Index(S->np), mp));
        box->prec->set_skip_singular(skip != 0);
        Live l; TupleBox* b = box.get();
        struct Keep { std::shared_ptr<Saddle> s; std::shared_ptr<Dense> k; std::shared_ptr<TupleBox> b; };
        l.keep = std::shared_ptr<void>(new Keep{S, K, box}, [](void* p){ delete static_cast<Keep*>(p); });
        l.init_symbolic = [b]{ b->prec->init_symbolic(); }; l.init_numeric = [b]{ b->prec->init_numeric(); };
        l.done_numeric = [b]{ b->prec->done_numeric(); }; l.done_symbolic = [b]{ b->prec->done_symbolic(); };
        l.update = [b](int v){ b->set_values(v); };
        l.apply = [b](const LVec& d, double pf, Status& st, bool& u){ return b->apply(d, pf, st, u); };
        return l;
      };
      OracleFn orc = [=](int v, const LVec& d, LVec& out) { return oracle_amavanka(*K, v, macros, omega, steps, skip != 0, fixed, d, out); };
      run_subject(c, S->N, kname, where, make, orc, true, lc_depth);
    }
  }
}

int main(int argc, char** argv)
{
  Runtime::ScopeGuard guard(argc, argv);
  verif::Spec spec; spec.property = "C08"; spec.harness = "c08_amavanka";
  spec.rule = "case = (matrix kind {CSR, SaddlePoint<BCSR<2,2>,BCSR<2,1>,BCSR<1,2>>, TupleMatrix of 2x2 CSR blocks with a pressure-pressure block}, macro layout, user/automatic macros, diagonal variant, omega, num_steps, skip_singular, velocity unit filter); "
    "per case apply on all unit vectors + a dense vector vs the dense long double operator omega*diag(1/#macros)*sum P^T K_m^-1 P (see c08_block.hpp), output prefill, input unchanged, "
    "linearity, then BFS over all life-cycle histories {init_symbolic, init_numeric (also repeated without done_numeric), apply, in-place update of the A-diagonal / of all values, "
    "done_numeric, done_symbolic} replayed on fresh objects, state key = matrix values + phase + versions + 'apply since init' bits + capped init_numeric count";
  spec.bounds_quick = "7 CSR macro layouts (N 3..8; overlapping, nested, single-dof, unsorted, singular macros), 7 saddle point layouts (2-6 velocity, 1-3 pressure dofs; overlapping elements, "
    "2 pressure dofs per element, scrambled element order) with 2x2-blocked velocity; omega {1,1/2}, num_steps {1,2}, skip_singular {off,on}, filter {none, Unit{0}}; life-cycle depth 12";
  spec.bounds_thorough = "additionally the all-negative A-diagonal variant and all parameter combinations with skip_singular; life-cycle depth 14";
  spec.assumptions = {"oracle: dense long double algebra of c08_common.hpp/c08_block.hpp; exactly singular macros are recognised by a vanishing pivot of the exact elimination",
    "every dof belongs to at least one macro (asserted by AmaVankaCore::scale_rows); layouts violating this are not generated",
    "cases whose reference local systems are (nearly) singular without skip_singular are excluded and counted", "comparison tolerance 1e-10 relative to max(1,|ref|)"};
  spec.deadline_quick_s = 500; spec.deadline_thorough_s = 2400;
  return verif::run(spec, argc, argv, [&](verif::Ctx& c)
  {
    const int lc_depth = c.thorough ? 14 : 12;
    // (a) plain CSR
    const std::vector<PlainLayout> pl = plain_layouts();
    for(size_t li = 0; li < pl.size(); ++li)
    for(int io = 0; io < 2; ++io) for(int steps = 1; steps <= 2; ++steps) for(int skip = 0; skip < 2; ++skip) for(int fix = 0; fix < 2; ++fix)
    {
      if(!c.want()) continue;
      const PlainLayout& L = pl[li];
      const double omega = io ? 0.5 : 1.0;
      auto K = std::make_shared<Dense>(plain_dense(L));
      std::vector<char> fixed(L.N, 0); if(fix) fixed[0] = 1;
      const std::string kname = "AmaVanka CSR user-macros";
      const std::string where = kname + " layout=[" + L.name + "]" + par_str(omega, steps, skip != 0, fix != 0);
      c.desc([&]{ return where; });
      c.nontrivial(verif::Hash().str("plain").pod(li).pod(io).pod(steps).pod(skip).pod(fix).get());
      c.outcome(kname);
      const std::vector<std::vector<int>> macros = L.macros;
      Factory make = [=]() -> Live
      {
        auto box = std::make_shared<PlainBox>(*K, fixed);
        box->prec = Solver::new_amavanka(box->mat, box->filter, omega, Index(steps));
        box->prec->push_macro_dofs(make_graph(Index(K->N), macros));
        box->prec->set_skip_singular(skip != 0);
        Live l; PlainBox* b = box.get();
        l.keep = std::shared_ptr<void>(new std::pair<std::shared_ptr<Dense>, std::shared_ptr<PlainBox>>(K, box), [](void* p){ delete static_cast<std::pair<std::shared_ptr<Dense>, std::shared_ptr<PlainBox>>*>(p); });
        l.init_symbolic = [b]{ b->prec->init_symbolic(); }; l.init_numeric = [b]{ b->prec->init_numeric(); };
        l.done_numeric = [b]{ b->prec->done_numeric(); }; l.done_symbolic = [b]{ b->prec->done_symbolic(); };
        l.update = [b](int v){ b->set_values(v); };
        l.apply = [b](const LVec& d, double pf, Status& st, bool& u){ return b->apply(d, pf, st, u); };
        l.hash_state = [b](verif::Hash& h){ h.bytes(b->mat.val(), sizeof(double) * size_t(b->mat.used_elements())); };
        return l;
      };
      OracleFn orc = [=](int v, const LVec& d, LVec& out) { std::vector<std::vector<int>> ms(macros); for(auto& m : ms) std::sort(m.begin(), m.end());
        return oracle_amavanka(*K, v, ms, omega, steps, skip != 0, fixed, d, out); };
      run_subject(c, L.N, kname, where, make, orc, true, lc_depth);
    }
    // (b) blocked saddle point (SaddlePointMatrix with CSR sub-blocks is not supported by AmaVanka: the class documentation lists BCSR only)
    saddle_cases<2>(c, lc_depth);
    tuple_cases(c, lc_depth);
  });
}
