// c16_pattern_impl.hpp -- C16 clause "the sparsity pattern from the symbolic assembler contains every coupling that
// receives a value", on meshes WITH mesh permutations: every SymbolicAssembler entry point (graph/matrix std1, std2,
// diag, ext_facet1/2, ext_node1/2, 2lvl, intermesh) on the four permutation combinations {none, fine only, coarse only,
// both} x every permutation strategy, against coupling sets computed by the harness from cell geometry (which fine cell
// lies in which coarse cell: barycentre test with the harness' own inverse map; which cells share a facet / a vertex:
// vertex coordinates) and the dof mappings; then the numeric assemblers that scatter into these patterns (2-level:
// GridTransfer prolongation and truncation; one mesh: mass and Laplace, classic and job route): explicit superset check
// BEFORE the assembly (a missing coupling would be an out-of-pattern scatter), values only inside the required couplings,
// and the same matrix as on the unpermuted meshes up to the dof renumbering (dofs matched by their node points).
#pragma once
#include <c16_core.hpp>

#include <kernel/assembly/asm_traits.hpp>
#include <kernel/assembly/bilinear_operator_assembler.hpp>
#include <kernel/assembly/basic_assembly_jobs.hpp>
#include <kernel/assembly/common_operators.hpp>
#include <kernel/assembly/domain_assembler.hpp>
#include <kernel/assembly/domain_assembler_helpers.hpp>
#include <kernel/assembly/grid_transfer.hpp>
#include <kernel/assembly/symbolic_assembler.hpp>
#include <kernel/cubature/dynamic_factory.hpp>
#include <kernel/geometry/mesh_permutation.hpp>
#include <kernel/runtime.hpp>
#include <kernel/space/discontinuous/element.hpp>
#include <kernel/space/lagrange1/element.hpp>
#include <kernel/space/lagrange2/element.hpp>

namespace c16p
{
  using namespace FEAT;
  using namespace c16;

  typedef std::set<std::pair<Index, Index>> PairSet;

  inline PairSet graph_pairs(const Adjacency::Graph& g)
  {
    PairSet s;
    for(Index i = 0; i < g.get_num_nodes_domain(); ++i)
      for(auto it = g.image_begin(i); it != g.image_end(i); ++it) s.emplace(i, *it);
    return s;
  }

  static const Geometry::PermutationStrategy strategies[] = {
    Geometry::PermutationStrategy::random, Geometry::PermutationStrategy::lexicographic, Geometry::PermutationStrategy::colored,
    Geometry::PermutationStrategy::cuthill_mckee, Geometry::PermutationStrategy::cuthill_mckee_reversed,
    Geometry::PermutationStrategy::geometric_cuthill_mckee, Geometry::PermutationStrategy::geometric_cuthill_mckee_reversed};
  static const char* strategy_names[] = {"random", "lexicographic", "colored", "cuthill_mckee", "cuthill_mckee_reversed", "geometric_cuthill_mckee", "geometric_cuthill_mckee_reversed"};
  static constexpr int num_strategies = 7;

  struct EL1 { static const char* name() { return "lagrange1"; } template<typename T_> using Space = FEAT::Space::Lagrange1::Element<T_>; };
  struct EL2 { static const char* name() { return "lagrange2"; } template<typename T_> using Space = FEAT::Space::Lagrange2::Element<T_>; };
  struct EP0 { static const char* name() { return "discontinuous-p0"; } template<typename T_> using Space = FEAT::Space::Discontinuous::Element<T_, FEAT::Space::Discontinuous::Variant::StdPolyP<0>>; };

  /// a coarse/fine mesh pair built from a mesh spec, permuted after the refinement
  template<typename Shape_>
  struct MeshPair
  {
    static constexpr int D = Shape_::dimension;
    typedef typename MeshCtx<Shape_>::MeshType MeshType;
    MeshCtx<Shape_> coarse, fine;
    MeshPair(const MeshSpec& ms, int perm_coarse, int perm_fine)
    {
      coarse = make_mesh<Shape_>(ms);
      Geometry::StandardRefinery<MeshType> ref(*coarse.mesh);
      fine.mesh.reset(new MeshType(ref));
      if(perm_coarse >= 0) coarse.mesh->create_permutation(strategies[perm_coarse]);
      if(perm_fine >= 0) fine.mesh->create_permutation(strategies[perm_fine]);
      coarse.init_geoms();
      fine.init_geoms();
    }
  };

  /// which coarse cell contains fine cell f (barycentre test with the harness inverse map)
  template<typename Shape_>
  std::vector<Index> parents(const MeshCtx<Shape_>& coarse, const MeshCtx<Shape_>& fine)
  {
    constexpr int D = Shape_::dimension;
    std::vector<Index> par(fine.geoms.size(), ~Index(0));
    std::array<LD, D> ctr; for(int j = 0; j < D; ++j) ctr[(size_t)j] = ShapeInfo<Shape_>::is_simplex ? LD(1) / LD(D + 1) : LD(0);
    for(size_t f = 0; f < fine.geoms.size(); ++f)
    {
      auto x = fine.geoms[f].map(ctr);
      for(size_t cidx = 0; cidx < coarse.geoms.size(); ++cidx)
      {
        std::array<LD, D> eta;
        if(coarse.geoms[cidx].unmap(x, eta) && coarse.geoms[cidx].on_ref(eta, LD(-1e-6))) { par[f] = Index(cidx); break; }
      }
    }
    return par;
  }

  /// node point key of every dof of a nodal space (Lagrange: interpolation of the coordinate functions; P0: cell centre)
  template<typename Space_>
  std::vector<std::array<double, Space_::shape_dim>> node_points(const Space_& space)
  {
    constexpr int D = Space_::shape_dim;
    std::vector<std::array<double, D>> r((size_t)space.get_num_dofs());
    for(int j = 0; j < D; ++j)
    {
      PolyFunction<D> xf(Poly<D>::var(j));
      Vec v;
      Assembly::Interpolator::project(v, xf, space);
      for(Index i = 0; i < v.size(); ++i) r[(size_t)i][(size_t)j] = v(i);
    }
    return r;
  }

  /// dof map a -> b between two spaces on geometrically identical meshes (matched by node points, rounded)
  template<int D>
  bool match_dofs(const std::vector<std::array<double, D>>& a, const std::vector<std::array<double, D>>& b, std::vector<Index>& map)
  {
    auto key = [](const std::array<double, D>& p) { std::array<long long, D> k; for(int j = 0; j < D; ++j) k[(size_t)j] = std::llround(p[(size_t)j] * 1048576.0); return k; };
    std::map<std::array<long long, D>, Index> mb;
    for(size_t i = 0; i < b.size(); ++i) if(!mb.emplace(key(b[i]), Index(i)).second) return false;
    map.assign(a.size(), ~Index(0));
    for(size_t i = 0; i < a.size(); ++i) { auto it = mb.find(key(a[i])); if(it == mb.end()) return false; map[i] = it->second; }
    return a.size() == b.size();
  }

  /// A (on permuted meshes) against A0 (unpermuted): A[rmap(i), cmap(j)] == A0[i,j] for all stored entries of both
  inline double mapped_diff(const CSR& A, const CSR& A0, const std::vector<Index>& rmap, const std::vector<Index>& cmap)
  {
    double nrm = 1e-300, d = 0;
    for(Index k = 0; k < A0.used_elements(); ++k) nrm = std::max(nrm, std::fabs(A0.val()[k]));
    if(A.used_elements() != A0.used_elements()) return 1e300;
    for(Index i = 0; i < A0.rows(); ++i)
      for(Index k = A0.row_ptr()[i]; k < A0.row_ptr()[i + 1]; ++k)
      {
        bool pres = false;
        LD v = entry(A, rmap[i], cmap[A0.col_ind()[k]], &pres);
        if(!pres) return 1e300;
        d = std::max(d, std::fabs(double(v) - A0.val()[k]) / nrm);
      }
    return d;
  }

  template<typename Shape_>
  struct PatternChecker
  {
    static constexpr int D = Shape_::dimension;
    typedef typename MeshCtx<Shape_>::MeshType MeshType;
    typedef Trafo::Standard::Mapping<MeshType> TrafoType;

    verif::Ctx& c;
    std::string kp;
    PatternChecker(verif::Ctx& c_) : c(c_) { kp = std::string(ShapeInfo<Shape_>::name()) + " "; }

    // ---------------------------------------------------------------- one mesh: std / diag / ext patterns + numeric
    template<typename Test_, typename Trial_>
    void check_one_mesh(MeshCtx<Shape_>& mc, MeshCtx<Shape_>& mc0, const std::string& tag)
    {
      typedef typename Test_::template Space<TrafoType> TestSpace;
      typedef typename Trial_::template Space<TrafoType> TrialSpace;
      constexpr bool same = std::is_same<Test_, Trial_>::value;
      const std::string k = kp + Test_::name() + "x" + Trial_::name() + " " + tag + " ";
      TrafoType trafo(*mc.mesh), trafo0(*mc0.mesh);
      TestSpace test(trafo), test0(trafo0);
      TrialSpace trial(trafo), trial0(trafo0);
      // harness cell adjacency from vertex index sets
      const auto& vc = mc.mesh->template get_index_set<D, 0>();
      const Index nc = mc.mesh->get_num_entities(D);
      std::vector<std::set<Index>> cv((size_t)nc);
      for(Index q = 0; q < nc; ++q) for(int l = 0; l < vc.num_indices; ++l) cv[(size_t)q].insert(vc(q, l));
      const int nfv = int(local_face_vertices<Shape_>(D - 1, 0).size());
      typename TestSpace::DofMappingType dmt(test);
      typename TrialSpace::DofMappingType dms(trial);
      std::vector<std::vector<Index>> dt((size_t)nc), ds((size_t)nc);
      for(Index q = 0; q < nc; ++q)
      {
        dmt.prepare(q); for(int i = 0; i < dmt.get_num_local_dofs(); ++i) dt[(size_t)q].push_back(dmt.get_index(i)); dmt.finish();
        dms.prepare(q); for(int i = 0; i < dms.get_num_local_dofs(); ++i) ds[(size_t)q].push_back(dms.get_index(i)); dms.finish();
      }
      PairSet e_std, e_facet, e_node;
      for(Index a = 0; a < nc; ++a) for(Index b = 0; b < nc; ++b)
      {
        int shared = 0;
        for(Index v : cv[(size_t)a]) shared += int(cv[(size_t)b].count(v));
        if(shared == 0) continue;
        const bool facet = (a == b) || shared >= nfv;
        for(Index i : dt[(size_t)a]) for(Index j : ds[(size_t)b])
        {
          if(a == b) e_std.emplace(i, j);
          if(facet) e_facet.emplace(i, j);
          e_node.emplace(i, j);
        }
      }
      auto cmp = [&](const char* name, const PairSet& got, const PairSet& exp)
      {
        c.count("patterns");
        size_t missing = 0, extra = 0;
        for(auto& p : exp) if(!got.count(p)) ++missing;
        for(auto& p : got) if(!exp.count(p)) ++extra;
        c.check(missing == 0, k + name + " missing", [&]{ return std::to_string(missing) + " of " + std::to_string(exp.size()) + " required couplings are not in the pattern"; });
        c.check(extra == 0, k + name + " extra", [&]{ return std::to_string(extra) + " couplings of the pattern are not required"; });
        return missing == 0;
      };
      bool std_ok;
      if constexpr(same)
      {
        std_ok = cmp("graph_std1", graph_pairs(Assembly::SymbolicAssembler::assemble_graph_std1(test)), e_std);
        cmp("graph_ext_facet1", graph_pairs(Assembly::SymbolicAssembler::assemble_graph_ext_facet1(test)), e_facet);
        cmp("graph_ext_node1", graph_pairs(Assembly::SymbolicAssembler::assemble_graph_ext_node1(test)), e_node);
        PairSet e_diag; for(Index i = 0; i < test.get_num_dofs(); ++i) e_diag.emplace(i, i);
        cmp("graph_diag", graph_pairs(Assembly::SymbolicAssembler::assemble_graph_diag(test)), e_diag);
        CSR m1, mf, mn, md;
        Assembly::SymbolicAssembler::assemble_matrix_std1(m1, test); cmp("matrix_std1", pattern_set(m1), e_std);
        Assembly::SymbolicAssembler::assemble_matrix_ext_facet1(mf, test); cmp("matrix_ext_facet1", pattern_set(mf), e_facet);
        Assembly::SymbolicAssembler::assemble_matrix_ext_node1(mn, test); cmp("matrix_ext_node1", pattern_set(mn), e_node);
        Assembly::SymbolicAssembler::assemble_matrix_diag(md, test); cmp("matrix_diag", pattern_set(md), e_diag);
      }
      else
      {
        std_ok = cmp("graph_std2", graph_pairs(Assembly::SymbolicAssembler::assemble_graph_std2(test, trial)), e_std);
        cmp("graph_ext_facet2", graph_pairs(Assembly::SymbolicAssembler::assemble_graph_ext_facet2(test, trial)), e_facet);
        cmp("graph_ext_node2", graph_pairs(Assembly::SymbolicAssembler::assemble_graph_ext_node2(test, trial)), e_node);
        CSR m2, mf, mn;
        Assembly::SymbolicAssembler::assemble_matrix_std2(m2, test, trial); cmp("matrix_std2", pattern_set(m2), e_std);
        Assembly::SymbolicAssembler::assemble_matrix_ext_facet2(mf, test, trial); cmp("matrix_ext_facet2", pattern_set(mf), e_facet);
        Assembly::SymbolicAssembler::assemble_matrix_ext_node2(mn, test, trial); cmp("matrix_ext_node2", pattern_set(mn), e_node);
      }
      if(!std_ok) { c.count("numeric_assembly_skipped_pattern_incomplete"); return; }
      // numeric: mass (and Laplace for equal spaces with gradients) on the permuted mesh == unpermuted mesh up to the dof maps
      std::vector<Index> rmap, cmap;
      if(!match_dofs<D>(node_points(test0), node_points(test), rmap) || !match_dofs<D>(node_points(trial0), node_points(trial), cmap))
      { c.fail(k + "dof-match", "dofs of the permuted and the unpermuted mesh cannot be matched by their node points (machinery)"); return; }
      const String cn = ShapeInfo<Shape_>::is_simplex ? String("auto-degree:4") : String("gauss-legendre:4");
      Cubature::DynamicFactory cf(cn);
      Assembly::Common::IdentityOperator ident;
      CSR A, A0, J;
      if constexpr(same) { Assembly::SymbolicAssembler::assemble_matrix_std1(A, test); Assembly::SymbolicAssembler::assemble_matrix_std1(A0, test0); }
      else { Assembly::SymbolicAssembler::assemble_matrix_std2(A, test, trial); Assembly::SymbolicAssembler::assemble_matrix_std2(A0, test0, trial0); }
      J = A.clone(LAFEM::CloneMode::Layout);
      A.format(); A0.format(); J.format();
      Assembly::DomainAssembler<TrafoType> dom_asm(trafo);
      dom_asm.set_max_worker_threads(0);
      dom_asm.compile_all_elements();
      if constexpr(same)
      {
        Assembly::BilinearOperatorAssembler::assemble_matrix1(A, ident, test, cf);
        Assembly::BilinearOperatorAssembler::assemble_matrix1(A0, ident, test0, cf);
        Assembly::assemble_bilinear_operator_matrix_1(dom_asm, J, ident, test, cn);
      }
      else
      {
        Assembly::BilinearOperatorAssembler::assemble_matrix2(A, ident, test, trial, cf);
        Assembly::BilinearOperatorAssembler::assemble_matrix2(A0, ident, test0, trial0, cf);
        Assembly::assemble_bilinear_operator_matrix_2(dom_asm, J, ident, test, trial, cn);
      }
      c.count("numeric_assemblies", 3);
      double d = mapped_diff(A, A0, rmap, cmap);
      c.check(d <= 1e-12, k + "mass permuted-vs-unpermuted", [&]{ return "mass matrix on the permuted mesh differs from the unpermuted one (up to the dof renumbering) by " + std::to_string(d); });
      bool lay = false, bit = false;
      double dj = max_rel_diff(A, J, &lay, &bit);
      c.check(lay && dj <= 1e-12, k + "mass route.job", [&]{ return "job route differs on the permuted mesh by " + std::to_string(dj); });
      {
        // sum of all entries == volume (partition of unity in both spaces)
        LD s = 0; for(Index q = 0; q < A.used_elements(); ++q) s += LD(A.val()[q]);
        LD vol = mc.volume();
        c.check(std::fabs(s - vol) <= LD(1e-11) * (1 + vol), k + "mass volume", [&]{ return "mass entries sum to " + std::to_string(double(s)) + ", volume " + std::to_string(double(vol)); });
      }
      if constexpr(same && !std::is_same<Test_, EP0>::value)
      {
        Assembly::Common::LaplaceOperator lap;
        CSR L = A.clone(LAFEM::CloneMode::Layout), L0 = A0.clone(LAFEM::CloneMode::Layout);
        L.format(); L0.format();
        Assembly::BilinearOperatorAssembler::assemble_matrix1(L, lap, test, cf);
        Assembly::BilinearOperatorAssembler::assemble_matrix1(L0, lap, test0, cf);
        double dl = mapped_diff(L, L0, rmap, cmap);
        c.check(dl <= 1e-12, k + "laplace permuted-vs-unpermuted", [&]{ return "Laplace matrix on the permuted mesh differs from the unpermuted one by " + std::to_string(dl); });
      }
    }

    // ---------------------------------------------------------------- two meshes: 2lvl / intermesh + grid transfer
    template<typename El_>
    void check_two_level(MeshPair<Shape_>& mp, MeshPair<Shape_>& mp0, const std::string& tag)
    {
      typedef typename El_::template Space<TrafoType> SpaceType;
      const std::string k = kp + El_::name() + " " + tag + " ";
      TrafoType tc(*mp.coarse.mesh), tf(*mp.fine.mesh), tc0(*mp0.coarse.mesh), tf0(*mp0.fine.mesh);
      SpaceType sc(tc), sf(tf), sc0(tc0), sf0(tf0);
      // required couplings from geometry + dof mappings
      auto par = parents<Shape_>(mp.coarse, mp.fine);
      for(Index p : par) if(p == ~Index(0)) { c.fail(k + "parents", "a fine cell has no coarse parent by the harness geometry test (machinery)"); return; }
      typename SpaceType::DofMappingType dmf(sf), dmc(sc);
      PairSet req;
      for(size_t f = 0; f < par.size(); ++f)
      {
        dmf.prepare(Index(f)); dmc.prepare(par[f]);
        for(int i = 0; i < dmf.get_num_local_dofs(); ++i) for(int j = 0; j < dmc.get_num_local_dofs(); ++j) req.emplace(dmf.get_index(i), dmc.get_index(j));
        dmc.finish(); dmf.finish();
      }
      auto cmp = [&](const char* name, const PairSet& got)
      {
        c.count("patterns");
        size_t missing = 0, extra = 0;
        for(auto& p : req) if(!got.count(p)) ++missing;
        for(auto& p : got) if(!req.count(p)) ++extra;
        c.check(missing == 0, k + name + " missing", [&]{ return std::to_string(missing) + " of " + std::to_string(req.size()) + " required (fine dof, coarse dof) couplings are not in the pattern"; });
        c.check(extra == 0, k + name + " extra", [&]{ return std::to_string(extra) + " couplings of the pattern are not required"; });
        return missing == 0;
      };
      bool ok = cmp("graph_2lvl", graph_pairs(Assembly::SymbolicAssembler::assemble_graph_2lvl(sf, sc)));
      {
        Geometry::Intern::CoarseFineCellMapping<MeshType, MeshType> adj(*mp.fine.mesh, *mp.coarse.mesh);
        ok = cmp("graph_intermesh", graph_pairs(Assembly::SymbolicAssembler::assemble_graph_intermesh(sf, sc, adj))) && ok;
        CSR mi;
        Assembly::SymbolicAssembler::assemble_matrix_intermesh(mi, sf, sc, adj);
        ok = cmp("matrix_intermesh", pattern_set(mi)) && ok;
      }
      CSR P;
      Assembly::SymbolicAssembler::assemble_matrix_2lvl(P, sf, sc);
      ok = cmp("matrix_2lvl", pattern_set(P)) && ok;
      if(!ok) { c.count("numeric_assembly_skipped_pattern_incomplete"); return; }
      // numeric two-level assembly into the pattern
      const String cn = ShapeInfo<Shape_>::is_simplex ? String("auto-degree:5") : String("gauss-legendre:4");
      Cubature::DynamicFactory cf(cn);
      CSR P0;
      Assembly::SymbolicAssembler::assemble_matrix_2lvl(P0, sf0, sc0);
      Assembly::GridTransfer::assemble_prolongation_direct(P, sf, sc, cf);
      Assembly::GridTransfer::assemble_prolongation_direct(P0, sf0, sc0, cf);
      c.count("numeric_assemblies", 2);
      std::vector<Index> fmap, cmap;
      if(!match_dofs<D>(node_points(sf0), node_points(sf), fmap) || !match_dofs<D>(node_points(sc0), node_points(sc), cmap))
      { c.fail(k + "dof-match", "dofs of the permuted and the unpermuted meshes cannot be matched (machinery)"); return; }
      double d = mapped_diff(P, P0, fmap, cmap);
      c.check(d <= 1e-12, k + "prolongation permuted-vs-unpermuted", [&]{ return "prolongation on the permuted meshes differs from the unpermuted one (up to the dof renumbering) by " + std::to_string(d); });
      {
        // prolongation reproduces coarse grid functions: P * I_H(x_j) = I_h(x_j)
        auto xc = node_points(sc), xf = node_points(sf);
        double e = 0;
        for(int j = 0; j < D; ++j)
        {
          Vec uc(sc.get_num_dofs()), uf(sf.get_num_dofs(), 0.0);
          for(Index i = 0; i < uc.size(); ++i) uc(i, 1.0 + xc[(size_t)i][(size_t)j]);
          P.apply(uf, uc);
          for(Index i = 0; i < uf.size(); ++i) e = std::max(e, std::fabs(uf(i) - 1.0 - xf[(size_t)i][(size_t)j]));
        }
        c.check(e <= 1e-11, k + "prolongation linear", [&]{ return "P * I_H(1 + x_j) differs from I_h(1 + x_j) by " + std::to_string(e); });
      }
      // truncation into the transposed pattern
      {
        CSR T, T0;
        T.transpose(P); T0.transpose(P0);
        T.format(); T0.format();
        Assembly::GridTransfer::assemble_truncation_direct(T, sf, sc, cf);
        Assembly::GridTransfer::assemble_truncation_direct(T0, sf0, sc0, cf);
        c.count("numeric_assemblies", 2);
        double dt = mapped_diff(T, T0, cmap, fmap);
        c.check(dt <= 1e-12, k + "truncation permuted-vs-unpermuted", [&]{ return "truncation on the permuted meshes differs from the unpermuted one by " + std::to_string(dt); });
      }
    }
  };

  template<typename Shape_>
  void enumerate_pattern_shape(verif::Ctx& c)
  {
    constexpr int D = Shape_::dimension;
    const std::string sn = ShapeInfo<Shape_>::name();
    // coarse meshes: multi-cell meshes of the family (refined unit cubes and refined 2-cell meshes)
    std::vector<MeshSpec> specs;
    for(auto& ms : mesh_family<Shape_>(false))
    {
      if(ms.kind == 2 && ms.refine == 1) specs.push_back(ms);
      if(ms.kind == 1 && ms.refine == 1) specs.push_back(ms);
    }
    if(c.thorough) for(auto& ms : mesh_family<Shape_>(true)) if(ms.kind == 2 && ms.refine == 2 && ms.geo <= 1 && D == 2) specs.push_back(ms);
    if(!c.thorough && D == 3)
    {
      // quick tier in 3D: one refined unit cube and one refined 2-cell mesh
      std::vector<MeshSpec> few;
      for(auto& ms : specs) if(ms.kind == 2) { few.push_back(ms); break; }
      for(auto& ms : specs) if(ms.kind == 1) { few.push_back(ms); break; }
      specs = few;
    }
    for(size_t is = 0; is < specs.size(); ++is)
      for(int st = 0; st < num_strategies; ++st)
      {
        for(int combo = 1; combo < 4; ++combo) // bit 0: coarse permuted, bit 1: fine permuted (combo 0 = reference)
        {
          // quick tier in 3D: every strategy with one combination (rotating, so that each combination meets >= 2 strategies per mesh)
          if(!c.thorough && D == 3 && combo != 1 + ((st + int(is)) % 3)) continue;
          if(!c.want()) continue;
          const MeshSpec& ms = specs[is];
          const int pc = (combo & 1) ? st : -1, pf = (combo & 2) ? st : -1;
          const std::string tag = std::string(combo == 1 ? "coarse-permuted" : combo == 2 ? "fine-permuted" : "both-permuted");
          c.desc([&]{ return sn + " pattern " + tag + " strategy=" + strategy_names[st] + " coarse mesh " + ms.str(); });
          MeshPair<Shape_> mp(ms, pc, pf), mp0(ms, -1, -1);
          PatternChecker<Shape_> pcx(c);
          pcx.kp += std::string("pattern ");
          // two-level entry points
          pcx.template check_two_level<EL1>(mp, mp0, tag);
          pcx.template check_two_level<EL2>(mp, mp0, tag);
          // one-mesh entry points on the permuted mesh of this combination (coarse for combo 1, fine otherwise)
          if(combo != 2)
          {
            MeshCtx<Shape_>& m = (combo == 1) ? mp.coarse : mp.fine;
            MeshCtx<Shape_>& m0 = (combo == 1) ? mp0.coarse : mp0.fine;
            pcx.template check_one_mesh<EL1, EL1>(m, m0, "one-mesh");
            pcx.template check_one_mesh<EL2, EL2>(m, m0, "one-mesh");
            pcx.template check_one_mesh<EL2, EL1>(m, m0, "one-mesh");
            pcx.template check_one_mesh<EL1, EP0>(m, m0, "one-mesh");
          }
          c.nontrivial(verif::Hash().str(sn).str(tag).pod(st).str(ms.str()).get());
          c.outcome(sn + " " + tag + " " + strategy_names[st]);
          c.count("cases");
          c.count("fine_cells", mp.fine.geoms.size());
        }
      }
    // reference: no permutation at all (the oracle itself on the unpermuted meshes)
    for(size_t is = 0; is < specs.size(); ++is)
    {
      if(!c.want()) continue;
      const MeshSpec& ms = specs[is];
      c.desc([&]{ return sn + " pattern unpermuted coarse mesh " + ms.str(); });
      MeshPair<Shape_> mp(ms, -1, -1), mp0(ms, -1, -1);
      PatternChecker<Shape_> pcx(c);
      pcx.kp += std::string("pattern ");
      pcx.template check_two_level<EL1>(mp, mp0, "unpermuted");
      pcx.template check_two_level<EL2>(mp, mp0, "unpermuted");
      pcx.template check_one_mesh<EL2, EL1>(mp.fine, mp0.fine, "one-mesh");
      c.nontrivial(verif::Hash().str(sn).str("unpermuted").str(ms.str()).get());
      c.outcome(sn + " unpermuted");
      c.count("cases");
    }
  }

  template<bool three_d>
  int pattern_main(int argc, char** argv, const char* harness_name)
  {
    Runtime::ScopeGuard guard(argc, argv);
    verif::Spec spec;
    spec.property = "C16";
    spec.harness = harness_name;
    spec.rule = "cases = (shape, coarse mesh from the c16 family with its 2-level refinement, permutation combination in {coarse only, fine only, both} (+ unpermuted "
      "reference), permutation strategy in {random, lexicographic, colored, cuthill_mckee(+reversed), geometric_cuthill_mckee(+reversed)}); per case every "
      "SymbolicAssembler entry point: graph/matrix 2lvl and intermesh for L1 and L2 against the couplings required by geometry (fine cell barycentre in coarse cell, harness "
      "inverse map) x dof mappings; graph/matrix std1, std2, diag, ext_facet1/2, ext_node1/2 for L1xL1, L2xL2, L2xL1, L1xP0 against the couplings of cells that are equal / "
      "share a facet / share a vertex (vertex sets); missing and extra couplings are separate keys. If the pattern is complete: GridTransfer prolongation and truncation "
      "(direct) on the permuted pair == unpermuted pair up to the dof renumbering (dofs matched by node points), P reproduces linear functions; mass (classic, job) and "
      "Laplace on the permuted mesh == unpermuted, mass sums to the volume. Non-trivial: every case.";
    spec.bounds_quick = "this binary: tria/quad (c16_pattern) all 7 strategies; tetra/hexa (c16_pattern3d): two coarse meshes, every strategy with one rotating permutation combination";
    spec.bounds_thorough = "3D: all coarse meshes of the family x 7 strategies x 3 combinations; additional level-2 coarse meshes in 2D";
    spec.assumptions = {
      "numeric assembly is only run when the pattern contains all required couplings (a missing coupling is reported by the pattern check; scattering into it would be undefined)",
      "GridTransfer::assemble_intermesh_transfer (needs an inverse mapping adjactor) is not covered",
      "dof matching by node points: nodal spaces (Lagrange-1/2, P0) only"};
    spec.max_fail_per_worker = 100000;
    return verif::run(spec, argc, argv, [&](verif::Ctx& c) {
      if constexpr(!three_d) { enumerate_pattern_shape<Shape::Simplex<2>>(c); enumerate_pattern_shape<Shape::Hypercube<2>>(c); }
      else { enumerate_pattern_shape<Shape::Simplex<3>>(c); enumerate_pattern_shape<Shape::Hypercube<3>>(c); }
    });
  }
} // namespace c16p
