// C07 (b) real iterative solvers, NoneFilter. Body in c07_solvers.hpp.
#include <c07_solvers.hpp>
int main(int argc, char** argv)
{
  FEAT::Runtime::ScopeGuard guard(argc, argv);
  verif::Spec spec; c07::fill_spec(spec, "c07_solvers", "None");
  spec.bounds_quick = "21 solver variants (PCG, PCR, BiCGStab left/right, BiCGStabL(1) left, BiCGStabL(2) left/right, FGMRES(2,delta=0), FGMRES(3,delta=1), GMRES(2,delta=0), GMRES(3,delta=1), Richardson(0.5), RGCR, IDR(1), IDR(2), PCGNR, PMR, Chebyshev) x admissible preconditioners none/Jacobi/SSOR/ILU(0); "
    "systems: tridiag(b,a,b) a{2,4} b{-1,0,1} n 1..4, diag-scaled 2^(k i) k{1,2} (n=4 and one n=2), full SPD n 2..4, 5-point 2x2/3x3, nonsymmetric tridiag+skew n{2,4} and 5-point+skew; "
    "rhs {e_0, ones, A*x_dyadic}; max_iter {100,0,1,2} x min_iter {0,2} x tol_rel {1e-8, 1e-2 (with max_iter 100/2)}; histories of 2 operations with/without done+init in between";
  spec.bounds_thorough = "all scalings for n 2..4, nonsymmetric n=3, rhs all e_i, all 16 limit combinations, additionally histories of 3 operations";
  return verif::run(spec, argc, argv, [&](verif::Ctx& c) { c07::enumerate<c07::LocalPolicy<FEAT::LAFEM::NoneFilter<double, FEAT::Index>>>(c, false); });
}
