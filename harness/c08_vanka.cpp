// C08: Solver::Vanka (all eight variants nodal/block x diag/full x multiplicative/additive) on SaddlePointMatrix<CSR,CSR,CSR>
// and SaddlePointMatrix<BCSR<2,2>,BCSR<2,1>,BCSR<1,2>> against a dense implementation of the documented local solves
// (c08_block.hpp: oracle_vanka), omega {1,1/2}, num_iter {1,2}, velocity unit filter {none, dof 0}; plus the life-cycle BFS.
#include <c08_block.hpp>
#include <kernel/solver/vanka.hpp>
#include <kernel/lafem/power_diag_matrix.hpp>
#include <kernel/lafem/power_full_matrix.hpp>
#include <kernel/lafem/power_col_matrix.hpp>
#include <kernel/lafem/power_row_matrix.hpp>
#include <kernel/lafem/power_vector.hpp>
#include <kernel/lafem/power_filter.hpp>

using namespace c08b;

namespace
{
  const Solver::VankaType VT[8] = {Solver::VankaType::nodal_diag_mult, Solver::VankaType::nodal_full_mult, Solver::VankaType::block_diag_mult, Solver::VankaType::block_full_mult,
    Solver::VankaType::nodal_diag_add, Solver::VankaType::nodal_full_add, Solver::VankaType::block_diag_add, Solver::VankaType::block_full_add};
  const char* const VN[8] = {"nodal_diag_mult", "nodal_full_mult", "block_diag_mult", "block_full_mult", "nodal_diag_add", "nodal_full_add", "block_diag_add", "block_full_add"};

  template<int dim>
  void vanka_cases(verif::Ctx& c, int lc_depth)
  {
    typedef SaddleBox<dim> Box;
    const std::vector<Layout> lays = layouts();
    for(size_t li = 0; li < lays.size(); ++li)
    for(int avar = 0; avar < (c.thorough ? 3 : 2); ++avar)
    for(int vt = 0; vt < 8; ++vt)
    for(int io = 0; io < 2; ++io) for(int iters = 1; iters <= 2; ++iters) for(int fix = 0; fix < 2; ++fix)
    {
      if(!c.want()) continue;
      const Layout& L = lays[li];
      const double omega = io ? 0.5 : 1.0;
      auto S = std::make_shared<Saddle>(); S->build(L, dim, avar);
      std::vector<char> fixed_vb(L.nvb, 0); if(fix) fixed_vb[0] = 1;
      const std::vector<char> fixed = fixed_scalar(*S, fixed_vb);
      const int code = int(VT[vt]);
      const bool block = (code & 0x010) != 0, full = (code & 0x001) != 0, multi = (code & 0x100) == 0;
      const std::string kname = std::string("Vanka ") + VN[vt] + (dim > 1 ? " BCSR2" : " CSR");
      char pb[120]; snprintf(pb, sizeof pb, " omega=%g num_iter=%d filter=%s", omega, iters, fix ? "Unit{0}" : "none");
      const std::string where = kname + " layout=[" + L.name + "] avar=" + std::to_string(avar) + pb;
      c.desc([&]{ return where; });
      c.nontrivial(verif::Hash().pod(dim).pod(li).pod(avar).pod(vt).pod(io).pod(iters).pod(fix).get());
      c.outcome(std::string("Vanka ") + VN[vt]);
      Factory make = [=]() -> Live
      {
        auto box = std::make_shared<Box>(*S, fixed_vb);
        box->prec = Solver::new_vanka(box->mat, box->filter, VT[vt], omega, Index(iters));
        Live l = box->live(box);
        l.keep = std::shared_ptr<void>(new std::pair<std::shared_ptr<Saddle>, std::shared_ptr<Box>>(S, box), [](void* p){ delete static_cast<std::pair<std::shared_ptr<Saddle>, std::shared_ptr<Box>>*>(p); });
        return l;
      };
      OracleFn orc = [=](int v, const LVec& d, LVec& out) { return oracle_vanka(*S, v, block, full, multi, omega, iters, fixed, d, out); };
      run_subject(c, S->N, kname, where, make, orc, true, lc_depth);
    }
  }

  // ---------------------------------------------------------------------------------------- component-wise (Power*) containers
  /// SaddlePointMatrix<PowerDiagMatrix|PowerFullMatrix<CSR,2>, PowerColMatrix<CSR,2>, PowerRowMatrix<CSR,2>>: the velocity components are stored
  /// in separate scalar matrices / vectors (the containers of the library's own vanka-test)
  template<bool fullA>
  struct PowerBox
  {
    typedef LAFEM::SparseMatrixCSR<double, Index> Sub;
    typedef LAFEM::DenseVector<double, Index> DV;
    typedef typename std::conditional<fullA, LAFEM::PowerFullMatrix<Sub, 2, 2>, LAFEM::PowerDiagMatrix<Sub, 2>>::type MatA;
    typedef LAFEM::PowerColMatrix<Sub, 2> MatB;
    typedef LAFEM::PowerRowMatrix<Sub, 2> MatD;
    typedef LAFEM::SaddlePointMatrix<MatA, MatB, MatD> Mat;
    typedef LAFEM::PowerVector<DV, 2> VecV;
    typedef LAFEM::TupleVector<VecV, DV> Vec;
    typedef LAFEM::PowerFilter<LAFEM::UnitFilter<double, Index>, 2> FilV;
    typedef LAFEM::TupleFilter<FilV, LAFEM::NoneFilter<double, Index>> Fil;
    const Saddle& S;
    Mat mat; Fil filter;
    std::shared_ptr<Solver::SolverBase<Vec>> prec;

    static Sub sub(int rows, int cols, const std::vector<char>& pat) { return SaddleBox<1>::make_block<Sub>(rows, cols, pat); }
    template<int r, int s2> void set_a(std::true_type) { mat.block_a().template at<r, s2>() = sub(S.nvb, S.nvb, S.pa); }
    template<int r, int s2> void set_a(std::false_type) { if(r == s2) mat.block_a().template at<r, r>() = sub(S.nvb, S.nvb, S.pa); }
    template<int r, int s2> Sub* get_a(std::true_type) { return &mat.block_a().template at<r, s2>(); }
    template<int r, int s2> Sub* get_a(std::false_type) { return (r == s2) ? &mat.block_a().template at<r, r>() : nullptr; }

    PowerBox(const Saddle& s, const std::vector<char>& fixed_vb) : S(s)
    {
      typedef std::integral_constant<bool, fullA> FA;
      set_a<0, 0>(FA()); set_a<0, 1>(FA()); set_a<1, 0>(FA()); set_a<1, 1>(FA());
      mat.block_b().template at<0, 0>() = sub(s.nvb, s.np, s.pb); mat.block_b().template at<1, 0>() = sub(s.nvb, s.np, s.pb);
      mat.block_d().template at<0, 0>() = sub(s.np, s.nvb, s.pd); mat.block_d().template at<0, 1>() = sub(s.np, s.nvb, s.pd);
      LAFEM::UnitFilter<double, Index> f0{Index(s.nvb)}, f1{Index(s.nvb)};
      for(int b = s.nvb - 1; b >= 0; --b) if(fixed_vb[b]) { f0.add(Index(b), 0.0); f1.add(Index(b), 0.0); }
      filter.template at<0>().template at<0>() = std::move(f0);
      filter.template at<0>().template at<1>() = std::move(f1);
      set_values(0);
    }
    /// dense index of (velocity block dof bi, component r) is bi*2 + r (as in Saddle); the storage is component-wise
    void fill(Sub* m, int ver, bool rowv, int r, bool colv, int s2)
    {
      if(!m) return;
      const int N = S.N, nv = S.nv;
      for(Index i = 0; i < m->rows(); ++i) for(Index p = m->row_ptr()[i]; p < m->row_ptr()[i + 1]; ++p)
      {
        const int I = rowv ? int(i) * 2 + r : nv + int(i);
        const int J = colv ? int(m->col_ind()[p]) * 2 + s2 : nv + int(m->col_ind()[p]);
        m->val()[p] = double(S.K.k[ver][size_t(I) * N + J]);
      }
    }
    void set_values(int ver)
    {
      typedef std::integral_constant<bool, fullA> FA;
      fill(get_a<0, 0>(FA()), ver, true, 0, true, 0); fill(get_a<0, 1>(FA()), ver, true, 0, true, 1);
      fill(get_a<1, 0>(FA()), ver, true, 1, true, 0); fill(get_a<1, 1>(FA()), ver, true, 1, true, 1);
      fill(&mat.block_b().template at<0, 0>(), ver, true, 0, false, 0); fill(&mat.block_b().template at<1, 0>(), ver, true, 1, false, 0);
      fill(&mat.block_d().template at<0, 0>(), ver, false, 0, true, 0); fill(&mat.block_d().template at<0, 1>(), ver, false, 0, true, 1);
    }
    std::vector<double> apply(const LVec& d, double prefill, Status& st, bool& unch)
    {
      Vec vin = mat.create_vector_l(), vout = mat.create_vector_l();
      double* iv[2] = {vin.template at<0>().template at<0>().elements(), vin.template at<0>().template at<1>().elements()};
      double* ov[2] = {vout.template at<0>().template at<0>().elements(), vout.template at<0>().template at<1>().elements()};
      double* ip = vin.template at<1>().elements(); double* op = vout.template at<1>().elements();
      for(int b = 0; b < S.nvb; ++b) for(int r = 0; r < 2; ++r) { iv[r][b] = double(d[b * 2 + r]); ov[r][b] = prefill; }
      for(int i = 0; i < S.np; ++i) { ip[i] = double(d[S.nv + i]); op[i] = prefill; }
      st = prec->apply(vout, vin);
      unch = true;
      for(int b = 0; b < S.nvb; ++b) for(int r = 0; r < 2; ++r) if(iv[r][b] != double(d[b * 2 + r])) unch = false;
      for(int i = 0; i < S.np; ++i) if(ip[i] != double(d[S.nv + i])) unch = false;
      std::vector<double> out(S.N);
      for(int b = 0; b < S.nvb; ++b) for(int r = 0; r < 2; ++r) out[b * 2 + r] = ov[r][b];
      for(int i = 0; i < S.np; ++i) out[S.nv + i] = op[i];
      return out;
    }
  };

  template<bool fullA>
  void vanka_power_cases(verif::Ctx& c, int lc_depth)
  {
    typedef PowerBox<fullA> Box;
    const std::vector<Layout> lays = layouts();
    for(size_t li = 0; li < lays.size(); ++li)
    for(int vt = 0; vt < 8; ++vt)
    for(int io = 0; io < 2; ++io) for(int iters = 1; iters <= 2; ++iters) for(int fix = 0; fix < 2; ++fix)
    {
      if(!c.thorough && io == 1 && iters == 1) continue;
      if(!c.want()) continue;
      const Layout& L = lays[li];
      const double omega = io ? 0.5 : 1.0;
      auto S = std::make_shared<Saddle>(); S->build(L, 2, int(li % 2));
      if(!fullA) // PowerDiagMatrix: no coupling between the velocity components in A
        for(int ver = 0; ver < 4; ++ver) for(int I = 0; I < S->nv; ++I) for(int J = 0; J < S->nv; ++J) if((I % 2) != (J % 2)) S->K.k[ver][size_t(I) * S->N + J] = 0.0L;
      std::vector<char> fixed_vb(L.nvb, 0); if(fix) fixed_vb[0] = 1;
      const std::vector<char> fixed = fixed_scalar(*S, fixed_vb);
      const int code = int(VT[vt]);
      const bool block = (code & 0x010) != 0, full = (code & 0x001) != 0, multi = (code & 0x100) == 0;
      const std::string kname = std::string("Vanka ") + VN[vt] + (fullA ? " PowerFull" : " PowerDiag");
      char pb[120]; snprintf(pb, sizeof pb, " omega=%g num_iter=%d filter=%s", omega, iters, fix ? "Unit{0}" : "none");
      const std::string where = kname + " layout=[" + L.name + "]" + pb;
      c.desc([&]{ return where; });
      c.nontrivial(verif::Hash().str("power").pod(fullA).pod(li).pod(vt).pod(io).pod(iters).pod(fix).get());
      c.outcome(std::string("Vanka Power ") + VN[vt]);
      Factory make = [=]() -> Live
      {
        auto box = std::make_shared<Box>(*S, fixed_vb);
        box->prec = Solver::new_vanka(box->mat, box->filter, VT[vt], omega, Index(iters));
        Live l; Box* b = box.get();
        l.keep = std::shared_ptr<void>(new std::pair<std::shared_ptr<Saddle>, std::shared_ptr<Box>>(S, box), [](void* p){ delete static_cast<std::pair<std::shared_ptr<Saddle>, std::shared_ptr<Box>>*>(p); });
        l.init_symbolic = [b]{ b->prec->init_symbolic(); }; l.init_numeric = [b]{ b->prec->init_numeric(); };
        l.done_numeric = [b]{ b->prec->done_numeric(); }; l.done_symbolic = [b]{ b->prec->done_symbolic(); };
        l.update = [b](int v){ b->set_values(v); };
        l.apply = [b](const LVec& d, double pf, Status& st, bool& u){ return b->apply(d, pf, st, u); };
        return l;
      };
      OracleFn orc = [=](int v, const LVec& d, LVec& out) { return oracle_vanka(*S, v, block, full, multi, omega, iters, fixed, d, out); };
      run_subject(c, S->N, kname, where, make, orc, li < 3, lc_depth);
    }
  }

  /// the documented exception of the diagonal variants: a vanishing main diagonal entry of A  =>  VankaFactorError; name()
  void vanka_misc(verif::Ctx& c)
  {
    const std::vector<Layout> lays = layouts();
    for(int vt = 0; vt < 8; ++vt)
    {
      if(!c.want()) continue;
      c.desc([&]{ return std::string("Vanka ") + VN[vt] + " CSR: zero diagonal entry a_00"; });
      c.nontrivial(verif::Hash().str("misc").pod(vt).get());
      Saddle S; S.build(lays[1], 1, 0);
      for(int ver = 0; ver < 4; ++ver) S.K.k[ver][0] = 0.0L;
      std::vector<char> fx(S.nvb, 0);
      SaddleBox<1> box(S, fx);
      auto vk = Solver::new_vanka(box.mat, box.filter, VT[vt], 1.0, Index(1));
      c08b::chk(c, std::string(vk->name()) == "Vanka", "block.vanka-name", [&]{ return std::string(vk->name()); });
      vk->init_symbolic();
      bool thrown = false;
      try { vk->init_numeric(); } catch(const Solver::VankaFactorError&) { thrown = true; }
      const bool diag = (int(VT[vt]) & 0x001) == 0;
      c08b::chk(c, thrown == diag, std::string("block.vanka-factor-error ") + VN[vt], [&]{ return std::string(diag ? "no VankaFactorError for a zero diagonal entry" : "unexpected VankaFactorError of a full variant"); });
      vk->done_symbolic();
    }
  }
}

int main(int argc, char** argv)
{
  Runtime::ScopeGuard guard(argc, argv);
  verif::Spec spec; spec.property = "C08"; spec.harness = "c08_vanka";
  spec.rule = "case = (containers {SaddlePoint<CSR>, SaddlePoint<BCSR2>, SaddlePoint<PowerDiag|PowerFull<CSR,2>, PowerCol, PowerRow>}, element layout, A-diagonal variant, Vanka type (8), omega, num_iter, velocity unit filter); per case apply on all unit vectors + "
    "a dense vector vs the dense long double implementation of the documented local solves (blocks from the D*B pattern, local matrix [A B; D 0] or [diag(A) B; D 0], multiplicative = "
    "successive with relaxation omega, additive = summed and divided by the block count of each dof, correction filter after every iteration), output prefill, input unchanged, linearity; "
    "then the life-cycle BFS of c08_block.hpp";
  spec.bounds_quick = "7 layouts (2-6 velocity (block) dofs, 1-3 pressure dofs; overlapping elements, an element with 2 pressure dofs, scrambled element order), 2 diagonal variants, "
    "8 Vanka types, omega {1,1/2}, num_iter {1,2}, filter {none, Unit{0}}; the Power* containers with a reduced parameter grid and the life cycle on 3 layouts; VankaFactorError for a zero diagonal entry; life-cycle depth 12";
  spec.bounds_thorough = "additionally the all-negative A-diagonal variant; life-cycle depth 14";
  spec.assumptions = {"oracle: dense long double algebra (c08_common.hpp, c08_block.hpp)", "every velocity dof is coupled to a pressure dof (otherwise the additive variants divide by zero)",
    "comparison tolerance 1e-10 relative to max(1,|ref|); cases with (nearly) singular reference local systems are excluded and counted"};
  spec.deadline_quick_s = 500; spec.deadline_thorough_s = 2400;
  return verif::run(spec, argc, argv, [&](verif::Ctx& c)
  {
    const int lc_depth = c.thorough ? 14 : 12;
    vanka_cases<1>(c, lc_depth);
    vanka_cases<2>(c, lc_depth);
    vanka_power_cases<false>(c, lc_depth);
    vanka_power_cases<true>(c, lc_depth);
    vanka_misc(c);
  });
}
