// C08: Solver::Vanka (all eight variants nodal/block x diag/full x multiplicative/additive) on SaddlePointMatrix<CSR,CSR,CSR>
// and SaddlePointMatrix<BCSR<2,2>,BCSR<2,1>,BCSR<1,2>> against a dense implementation of the documented local solves
// (c08_block.hpp: oracle_vanka), omega {1,1/2}, num_iter {1,2}, velocity unit filter {none, dof 0}; plus the life-cycle BFS.
#include <c08_block.hpp>
#include <kernel/solver/vanka.hpp>

using namespace c08b;

namespace
{
  const Solver::VankaType VT[8] = {Solver::VankaType::nodal_diag_mult, Solver::VankaType::nodal_full_mult, Solver::VankaType::block_diag_mult, Solver::VankaType::block_full_mult,
    Solver::VankaType::nodal_diag_add, Solver::VankaType::nodal_full_add, Solver::VankaType::block_diag_add, Solver::VankaType::block_full_add};
  const char* const VN[8] = {"nodal_diag_mult", "nodal_full_mult", "block_diag_mult", "block_full_mult", "nodal_diag_add", "nodal_full_add", "block_diag_add", "block_full_add"};

  template<int dim>
  void vanka_cases(verif::Ctx& c, int lc_depth)
  {
    typedef SaddleBox<dim> Box;
    const std::vector<Layout> lays = layouts();
    for(size_t li = 0; li < lays.size(); ++li)
    for(int avar = 0; avar < (c.thorough ? 3 : 2); ++avar)
    for(int vt = 0; vt < 8; ++vt)
    for(int io = 0; io < 2; ++io) for(int iters = 1; iters <= 2; ++iters) for(int fix = 0; fix < 2; ++fix)
    {
      if(!c.want()) continue;
      const Layout& L = lays[li];
      const double omega = io ? 0.5 : 1.0;
      auto S = std::make_shared<Saddle>(); S->build(L, dim, avar);
      std::vector<char> fixed_vb(L.nvb, 0); if(fix) fixed_vb[0] = 1;
      const std::vector<char> fixed = fixed_scalar(*S, fixed_vb);
      const int code = int(VT[vt]);
      const bool block = (code & 0x010) != 0, full = (code & 0x001) != 0, multi = (code & 0x100) == 0;
      const std::string kname = std::string("Vanka ") + VN[vt] + (dim > 1 ? " BCSR2" : " CSR");
      char pb[120]; snprintf(pb, sizeof pb, " omega=%g num_iter=%d filter=%s", omega, iters, fix ? "Unit{0}" : "none");
      const std::string where = kname + " layout=[" + L.name + "] avar=" + std::to_string(avar) + pb;
      c.desc([&]{ return where; });
      c.nontrivial(verif::Hash().pod(dim).pod(li).pod(avar).pod(vt).pod(io).pod(iters).pod(fix).get());
      c.outcome(std::string("Vanka ") + VN[vt]);
      Factory make = [=]() -> Live
      {
        auto box = std::make_shared<Box>(*S, fixed_vb);
        box->prec = Solver::new_vanka(box->mat, box->filter, VT[vt], omega, Index(iters));
        Live l = box->live(box);
        l.keep = std::shared_ptr<void>(new std::pair<std::shared_ptr<Saddle>, std::shared_ptr<Box>>(S, box), [](void* p){ delete static_cast<std::pair<std::shared_ptr<Saddle>, std::shared_ptr<Box>>*>(p); });
        return l;
      };
      OracleFn orc = [=](int v, const LVec& d, LVec& out) { return oracle_vanka(*S, v, block, full, multi, omega, iters, fixed, d, out); };
      run_subject(c, S->N, kname, where, make, orc, true, lc_depth);
    }
  }
}

int main(int argc, char** argv)
{
  Runtime::ScopeGuard guard(argc, argv);
  verif::Spec spec; spec.property = "C08"; spec.harness = "c08_vanka";
  spec.rule = "case = (velocity block size {1 (CSR), 2 (BCSR)}, element layout, A-diagonal variant, Vanka type (8), omega, num_iter, velocity unit filter); per case apply on all unit vectors + "
    "a dense vector vs the dense long double implementation of the documented local solves (blocks from the D*B pattern, local matrix [A B; D 0] or [diag(A) B; D 0], multiplicative = "
    "successive with relaxation omega, additive = summed and divided by the block count of each dof, correction filter after every iteration), output prefill, input unchanged, linearity; "
    "then the life-cycle BFS of c08_block.hpp";
  spec.bounds_quick = "7 layouts (2-6 velocity (block) dofs, 1-3 pressure dofs; overlapping elements, an element with 2 pressure dofs, scrambled element order), 2 diagonal variants, "
    "8 Vanka types, omega {1,1/2}, num_iter {1,2}, filter {none, Unit{0}}; life-cycle depth 12";
  spec.bounds_thorough = "additionally the all-negative A-diagonal variant; life-cycle depth 14";
  spec.assumptions = {"oracle: dense long double algebra (c08_common.hpp, c08_block.hpp)", "every velocity dof is coupled to a pressure dof (otherwise the additive variants divide by zero)",
    "comparison tolerance 1e-10 relative to max(1,|ref|); cases with (nearly) singular reference local systems are excluded and counted"};
  spec.deadline_quick_s = 500; spec.deadline_thorough_s = 2400;
  return verif::run(spec, argc, argv, [&](verif::Ctx& c)
  {
    const int lc_depth = c.thorough ? 14 : 12;
    vanka_cases<1>(c, lc_depth);
    vanka_cases<2>(c, lc_depth);
  });
}
