// C15 (isoparametric trafo): Trafo::Isoparam::Mapping of degree 1..3 on quadrilaterals adjacent to a circle chart.
// Oracles (harness-owned): degree 1 equals the standard trafo; the interpolation nodes on a chart edge are the chord
// points projected onto the circle, on other edges the equidistant points; jac_mat / hess_ten are the derivatives of
// map_point (4th order central differences are exact for the polynomial map up to rounding); jac_inv*jac_mat = I; the
// integral of jac_det equals the area enclosed by the boundary curves (Green's formula on the harness' own Lagrange
// interpolants of the edge nodes).
#include <c16_core.hpp>

#include <kernel/geometry/atlas/circle.hpp>
#include <kernel/geometry/mesh_part.hpp>
#include <kernel/runtime.hpp>
#include <kernel/trafo/isoparam/mapping.hpp>
#include <kernel/trafo/standard/mapping.hpp>

using namespace FEAT;
using namespace c16;

namespace
{
  typedef Shape::Hypercube<2> ShapeType;
  typedef Geometry::ConformalMesh<ShapeType, 2, double> MeshType;
  typedef Geometry::MeshPart<MeshType> PartType;
  typedef ShapeInfo<ShapeType> SI;

  const LD radius = 5;

  /// mesh: cell A = (2,1),(4,3),(1,2),(3,4), optional cell B = (1,2),(3,4),(-1,2)..: second cell on the circle as well
  MeshData<ShapeType> make_data(int ncells, int gA, int gB, bool reverse_edges)
  {
    MeshData<ShapeType> md;
    // vertices: inner (2,1) (1,2) (-1,2)->use (0,3)?; on the circle r=5: (4,3) (3,4) (0,5)
    const double v[6][2] = {{2, 1}, {4, 3}, {1, 2}, {3, 4}, {-1, 3}, {0, 5}};
    for(int i = 0; i < (ncells == 1 ? 4 : 6); ++i) md.vtx.push_back({{v[i][0], v[i][1]}});
    std::array<Index, 4> a{{0, 1, 2, 3}}, b{{2, 3, 4, 5}}, ca, cb;
    for(int i = 0; i < 4; ++i) { ca[(size_t)i] = a[(size_t)SI::sym(gA, i)]; cb[(size_t)i] = b[(size_t)SI::sym(gB, i)]; }
    md.cells.push_back(ca);
    if(ncells == 2) md.cells.push_back(cb);
    Twist tw; tw.edge_mode = reverse_edges ? 1 : 0;
    md.build_entities(tw);
    md.desc = "iso quad cells=" + std::to_string(ncells) + " gA=" + std::to_string(gA) + " gB=" + std::to_string(gB) + (reverse_edges ? " edges reversed" : "");
    return md;
  }

  bool on_circle(const std::array<double, 2>& p) { return std::fabs(LD(p[0]) * p[0] + LD(p[1]) * p[1] - radius * radius) < LD(1e-12); }

  std::array<LD, 2> project(const std::array<LD, 2>& p)
  {
    LD n = std::sqrt(p[0] * p[0] + p[1] * p[1]);
    return {{p[0] * radius / n, p[1] * radius / n}};
  }

  /// Lagrange basis on equidistant nodes of [-1,1], value and derivative (harness)
  void lagrange(int n, LD t, std::vector<LD>& val, std::vector<LD>& der)
  {
    val.assign((size_t)(n + 1), LD(0)); der.assign((size_t)(n + 1), LD(0));
    for(int j = 0; j <= n; ++j)
    {
      LD tj = LD(-1) + LD(2 * j) / LD(n);
      LD v = 1;
      for(int i = 0; i <= n; ++i) if(i != j) { LD ti = LD(-1) + LD(2 * i) / LD(n); v *= (t - ti) / (tj - ti); }
      val[(size_t)j] = v;
      LD d = 0;
      for(int k = 0; k <= n; ++k)
      {
        if(k == j) continue;
        LD tk = LD(-1) + LD(2 * k) / LD(n);
        LD pr = LD(1) / (tj - tk);
        for(int i = 0; i <= n; ++i) if(i != j && i != k) { LD ti = LD(-1) + LD(2 * i) / LD(n); pr *= (t - ti) / (tj - ti); }
        d += pr;
      }
      der[(size_t)j] = d;
    }
  }

  template<int degree_>
  void check_degree(verif::Ctx& c, const MeshData<ShapeType>& md, MeshType& mesh, PartType& part, Geometry::Atlas::Circle<MeshType>& chart)
  {
    typedef Trafo::Isoparam::Mapping<MeshType, degree_> IsoTrafo;
    typedef typename IsoTrafo::template Evaluator<ShapeType, double>::Type IsoEval;
    static constexpr TrafoTags tags = TrafoTags::dom_point | TrafoTags::img_point | TrafoTags::jac_mat | TrafoTags::jac_inv | TrafoTags::jac_det | TrafoTags::hess_ten;
    const std::string kp = "isoparam" + std::to_string(degree_) + "/quad";
    IsoTrafo trafo(mesh);
    trafo.add_meshpart_chart(part, chart);
    IsoEval te(trafo);
    typename IsoEval::template ConfigTraits<tags>::EvalDataType td;
    Trafo::Standard::Mapping<MeshType> strafo(mesh);
    typedef typename Trafo::Standard::Mapping<MeshType>::template Evaluator<ShapeType, double>::Type StdEval;
    StdEval se(strafo);
    typename StdEval::template ConfigTraits<tags>::EvalDataType sd;
    const int n = degree_;
    for(Index k = 0; k < Index(md.cells.size()); ++k)
    {
      te.prepare(k); se.prepare(k);
      // harness nodes of the four edges in cell-local edge order (edge e: local vertices of FaceIndexMapping)
      std::array<std::vector<std::array<LD, 2>>, 4> enodes;
      for(int e = 0; e < 4; ++e)
      {
        auto lv = local_face_vertices<ShapeType>(1, e);
        std::array<double, 2> pa = md.vtx[md.cells[k][(size_t)lv[0]]], pb = md.vtx[md.cells[k][(size_t)lv[1]]];
        const bool curved = on_circle(pa) && on_circle(pb);
        for(int i = 0; i <= n; ++i)
        {
          LD al = LD(i) / LD(n);
          std::array<LD, 2> p{{LD(pa[0]) + al * (LD(pb[0]) - LD(pa[0])), LD(pa[1]) + al * (LD(pb[1]) - LD(pa[1]))}};
          if(curved && i > 0 && i < n) p = project(p);
          enodes[(size_t)e].push_back(p);
        }
      }
      // (a) nodes of the map: reference points of edge e: e0: y=-1, e1: y=+1, e2: x=-1, e3: x=+1
      for(int e = 0; e < 4; ++e) for(int i = 0; i <= n; ++i)
      {
        LD t = LD(-1) + LD(2 * i) / LD(n);
        typename IsoEval::DomainPointType p;
        p[0] = (e < 2) ? double(t) : (e == 2 ? -1.0 : 1.0);
        p[1] = (e < 2) ? (e == 0 ? -1.0 : 1.0) : double(t);
        te(td, p);
        c.count("iso_nodes");
        for(int j = 0; j < 2; ++j)
          if(!(std::fabs(LD(td.img_point[j]) - enodes[(size_t)e][(size_t)i][(size_t)j]) <= LD(1e-13) * 8))
          {
            c.fail(kp + " node", "cell " + std::to_string(k) + " edge " + std::to_string(e) + " node " + std::to_string(i) + ": map_point gives " + std::to_string(td.img_point[j]) + ", expected " + std::to_string(double(enodes[(size_t)e][(size_t)i][(size_t)j])));
            te.finish(); se.finish(); return;
          }
      }
      // (b) derivative consistency on a lattice
      const LD h = LD(1) / LD(64);
      LD area_feat = 0;
      auto q = ref_quadrature<ShapeType>(2 * n + 1);
      auto lattice = ref_lattice<ShapeType>(5);
      for(auto& xi : lattice)
      {
        typename IsoEval::DomainPointType p; p[0] = double(xi[0]); p[1] = double(xi[1]);
        te(td, p);
        auto td0 = td;
        c.count("iso_points");
        static const int off[4] = {2, 1, -1, -2};
        static const LD wgt[4] = {-1, 8, -8, 1};
        for(int dir = 0; dir < 2; ++dir)
        {
          LD dx[2] = {0, 0}, dj[2][2] = {{0, 0}, {0, 0}};
          for(int s = 0; s < 4; ++s)
          {
            auto pp = p; pp[dir] += double(LD(off[s]) * h);
            te(td, pp);
            for(int i = 0; i < 2; ++i) { dx[i] += wgt[s] * LD(td.img_point[i]); for(int j = 0; j < 2; ++j) dj[i][j] += wgt[s] * LD(td.jac_mat[i][j]); }
          }
          for(int i = 0; i < 2; ++i)
          {
            LD fd = dx[i] / (12 * h);
            if(!(std::fabs(fd - LD(td0.jac_mat[i][dir])) <= LD(1e-9) * (1 + std::fabs(fd))))
            { c.fail(kp + " jac_mat", "cell " + std::to_string(k) + ": jac_mat(" + std::to_string(i) + "," + std::to_string(dir) + ")=" + std::to_string(td0.jac_mat[i][dir]) + " but d map_point = " + std::to_string(double(fd))); te.finish(); se.finish(); return; }
            for(int j = 0; j < 2; ++j)
            {
              LD fh = dj[i][j] / (12 * h);
              if(!(std::fabs(fh - LD(td0.hess_ten(i, j, dir))) <= LD(1e-8) * (1 + std::fabs(fh))))
              { c.fail(kp + " hess_ten", "cell " + std::to_string(k) + ": hess_ten(" + std::to_string(i) + "," + std::to_string(j) + "," + std::to_string(dir) + ")=" + std::to_string(td0.hess_ten(i, j, dir)) + " but d jac_mat = " + std::to_string(double(fh))); te.finish(); se.finish(); return; }
            }
          }
        }
        // inverse and determinant
        LD det = LD(td0.jac_mat[0][0]) * td0.jac_mat[1][1] - LD(td0.jac_mat[0][1]) * td0.jac_mat[1][0];
        c.check(std::fabs(LD(td0.jac_det) - std::fabs(det)) <= LD(1e-12) * (1 + std::fabs(det)), kp + " jac_det", "jac_det is not |det jac_mat|");
        for(int i = 0; i < 2; ++i) for(int j = 0; j < 2; ++j)
        {
          LD s = 0; for(int l = 0; l < 2; ++l) s += LD(td0.jac_inv[i][l]) * LD(td0.jac_mat[l][j]);
          c.check(std::fabs(s - (i == j ? 1 : 0)) <= LD(1e-12), kp + " jac_inv", "jac_inv * jac_mat is not the identity");
        }
        if(degree_ == 1)
        {
          se(sd, p);
          bool same = true;
          for(int i = 0; i < 2; ++i) { same = same && std::fabs(sd.img_point[i] - td0.img_point[i]) <= 1e-13 * 8; for(int j = 0; j < 2; ++j) same = same && std::fabs(sd.jac_mat[i][j] - td0.jac_mat[i][j]) <= 1e-13 * 8; }
          c.check(same, kp + " equals-standard", "degree 1 isoparametric trafo differs from the standard trafo");
        }
      }
      // (c) area
      for(size_t iq = 0; iq < q.pts.size(); ++iq)
      {
        typename IsoEval::DomainPointType p; p[0] = double(q.pts[iq][0]); p[1] = double(q.pts[iq][1]);
        te(td, p);
        area_feat += q.wts[iq] * LD(td.jac_det);
      }
      {
        // Green: area = 1/2 * closed integral (x dy - y dx); counter-clockwise: e0 forward, e3 forward, e1 backward, e2 backward
        std::vector<LD> gx, gw, val, der;
        gauss_legendre_ld(n + 1, gx, gw);
        LD a = 0;
        const int order[4] = {0, 3, 1, 2}; const int sgn[4] = {1, 1, -1, -1};
        for(int s = 0; s < 4; ++s)
        {
          const auto& nd = enodes[(size_t)order[s]];
          for(size_t g = 0; g < gx.size(); ++g)
          {
            lagrange(n, gx[g], val, der);
            LD x = 0, y = 0, xd = 0, yd = 0;
            for(int i = 0; i <= n; ++i) { x += val[(size_t)i] * nd[(size_t)i][0]; y += val[(size_t)i] * nd[(size_t)i][1]; xd += der[(size_t)i] * nd[(size_t)i][0]; yd += der[(size_t)i] * nd[(size_t)i][1]; }
            a += LD(sgn[s]) * gw[g] * (x * yd - y * xd);
          }
        }
        a = std::fabs(a) / 2;
        c.count("iso_areas");
        c.check(std::fabs(area_feat - a) <= LD(1e-11) * (1 + a), kp + " area", [&]{ return "cell " + std::to_string(k) + ": integral of jac_det " + std::to_string(double(area_feat)) + " vs enclosed area " + std::to_string(double(a)); });
      }
      te.finish(); se.finish();
    }
    // ---- the edge (facet) evaluator of the isoparametric trafo: every edge in its own (global) orientation
    {
      typedef typename IsoTrafo::template Evaluator<Shape::Hypercube<1>, double>::Type EdgeEval;
      static constexpr TrafoTags etags = TrafoTags::dom_point | TrafoTags::img_point | TrafoTags::jac_mat | TrafoTags::jac_det | TrafoTags::hess_ten;
      typename EdgeEval::template ConfigTraits<etags>::EvalDataType ed;
      EdgeEval ee(trafo);
      for(Index e = 0; e < Index(md.edges.size()); ++e)
      {
        std::array<double, 2> pa = md.vtx[md.edges[e][0]], pb = md.vtx[md.edges[e][1]];
        const bool curved = on_circle(pa) && on_circle(pb);
        std::vector<std::array<LD, 2>> nd;
        for(int i = 0; i <= n; ++i)
        {
          LD al = LD(i) / LD(n);
          std::array<LD, 2> p{{LD(pa[0]) + al * (LD(pb[0]) - LD(pa[0])), LD(pa[1]) + al * (LD(pb[1]) - LD(pa[1]))}};
          if(curved && i > 0 && i < n) p = project(p);
          nd.push_back(p);
        }
        ee.prepare(e);
        std::vector<LD> val, der;
        for(int i = 0; i <= 8; ++i)
        {
          LD t = LD(-1) + LD(i) / LD(4);
          typename EdgeEval::DomainPointType p; p[0] = double(t);
          ee(ed, p);
          lagrange(n, t, val, der);
          LD x[2] = {0, 0}, dx[2] = {0, 0};
          for(int q = 0; q <= n; ++q) for(int j = 0; j < 2; ++j) { x[j] += val[(size_t)q] * nd[(size_t)q][(size_t)j]; dx[j] += der[(size_t)q] * nd[(size_t)q][(size_t)j]; }
          c.count("iso_edge_points");
          bool ok = true;
          for(int j = 0; j < 2; ++j) ok = ok && std::fabs(LD(ed.img_point[j]) - x[j]) <= LD(1e-12) * 8 && std::fabs(LD(ed.jac_mat[j][0]) - dx[j]) <= LD(1e-11) * 8;
          ok = ok && std::fabs(LD(ed.jac_det) - std::sqrt(dx[0] * dx[0] + dx[1] * dx[1])) <= LD(1e-11) * 8;
          if(!ok) { c.fail(kp + " edge-evaluator", "edge " + std::to_string(e) + " t=" + std::to_string(double(t)) + ": map/jacobian of the edge evaluator differ from the Lagrange interpolant of the (projected) edge nodes"); ee.finish(); return; }
        }
        ee.finish();
      }
    }
  }

  /// hexahedra without any chart: the isoparametric trafo of every degree is the trilinear standard trafo
  template<int degree_>
  void check_hexa_nochart(verif::Ctx& c, int gA, int gB, int geo)
  {
    typedef Shape::Hypercube<3> HS;
    typedef Geometry::ConformalMesh<HS, 3, double> HMesh;
    typedef Trafo::Isoparam::Mapping<HMesh, degree_> IsoTrafo;
    typedef Trafo::Standard::Mapping<HMesh> StdTrafo;
    typedef typename IsoTrafo::template Evaluator<HS, double>::Type IsoEval;
    typedef typename StdTrafo::template Evaluator<HS, double>::Type StdEval;
    static constexpr TrafoTags tags = TrafoTags::dom_point | TrafoTags::img_point | TrafoTags::jac_mat | TrafoTags::jac_inv | TrafoTags::jac_det | TrafoTags::hess_ten;
    MeshData<HS> md = make_two_cell<HS>(gA, gB, geo, Twist());
    DataFactory<HS> fac(md);
    HMesh mesh(fac);
    IsoTrafo it(mesh); StdTrafo st(mesh);
    IsoEval ie(it); StdEval se(st);
    typename IsoEval::template ConfigTraits<tags>::EvalDataType id;
    typename StdEval::template ConfigTraits<tags>::EvalDataType sd;
    const std::string kp = "isoparam" + std::to_string(degree_) + "/hexa";
    for(Index k = 0; k < 2; ++k)
    {
      ie.prepare(k); se.prepare(k);
      for(auto& xi : ref_lattice<HS>(4))
      {
        typename IsoEval::DomainPointType p; for(int j = 0; j < 3; ++j) p[j] = double(xi[(size_t)j]);
        ie(id, p); se(sd, p);
        c.count("iso_hexa_points");
        bool ok = std::fabs(id.jac_det - sd.jac_det) <= 1e-11 * (1 + std::fabs(sd.jac_det));
        for(int i = 0; i < 3; ++i)
        {
          ok = ok && std::fabs(id.img_point[i] - sd.img_point[i]) <= 1e-12 * 8;
          for(int j = 0; j < 3; ++j)
          {
            ok = ok && std::fabs(id.jac_mat[i][j] - sd.jac_mat[i][j]) <= 1e-11 * 8 && std::fabs(id.jac_inv[i][j] - sd.jac_inv[i][j]) <= 1e-10 * 8;
            for(int l = 0; l < 3; ++l) ok = ok && std::fabs(id.hess_ten(i, j, l) - sd.hess_ten(i, j, l)) <= 1e-10 * 8;
          }
        }
        if(!ok) { c.fail(kp + " equals-standard-without-charts", "cell " + std::to_string(k) + ": isoparametric trafo without charts differs from the trilinear standard trafo"); ie.finish(); se.finish(); return; }
      }
      ie.finish(); se.finish();
    }
  }
}

int main(int argc, char** argv)
{
  Runtime::ScopeGuard guard(argc, argv);
  verif::Spec spec;
  spec.property = "C15";
  spec.harness = "c15_isoparam";
  spec.rule = "cases = (1 or 2 quadrilaterals with an edge on a circle chart of radius 5, local numbering(s) from the 8 quad symmetries, edge orientation canonical/reversed); "
    "per case degrees 1,2,3: interpolation nodes of all edges (projected chord points on chart edges), jac_mat/hess_ten == differences of map_point/jac_mat on a 5x5 lattice, "
    "jac_det == |det|, jac_inv*jac_mat == I, integral of jac_det == area enclosed by the harness' own boundary curves (Green), degree 1 == standard trafo. Non-trivial: every case.";
  spec.bounds_quick = "1-cell: 8 numberings x 2 edge orientations; 2-cell: 64 pairs x 2";
  spec.bounds_thorough = "same (the space is small)";
  spec.assumptions = {
    "quadrilaterals with a circle chart (cell and edge evaluators); hexahedra only without charts (must equal the standard trafo); volume() of the isoparametric evaluators is an approximation by design (2x2 Gauss / arc length of a parabola) and is not compared; InverseMapping supports the standard trafo only",
    "the map is the tensor product Lagrange interpolant of its nodes; interior nodes are not checked individually (only through the derivative/area identities)"};
  return verif::run(spec, argc, argv, [&](verif::Ctx& c) {
    for(int ncells = 1; ncells <= 2; ++ncells)
      for(int gA = 0; gA < 8; ++gA)
        for(int gB = 0; gB < (ncells == 2 ? 8 : 1); ++gB)
          for(int rev = 0; rev < 2; ++rev)
          {
            if(!c.want()) continue;
            MeshData<ShapeType> md = make_data(ncells, gA, gB, rev != 0);
            c.desc([&]{ return md.desc; });
            DataFactory<ShapeType> fac(md);
            MeshType mesh(fac);
            // mesh part holding the edges whose two vertices lie on the circle
            std::vector<Index> cedges;
            for(Index e = 0; e < Index(md.edges.size()); ++e) if(on_circle(md.vtx[md.edges[e][0]]) && on_circle(md.vtx[md.edges[e][1]])) cedges.push_back(e);
            const Index num_ents[3] = {0, Index(cedges.size()), 0};
            PartType part(num_ents, false);
            for(Index i = 0; i < Index(cedges.size()); ++i) part.template get_target_set<1>()[i] = cedges[i];
            Geometry::Atlas::Circle<MeshType> chart(0.0, 0.0, double(radius));
            check_degree<1>(c, md, mesh, part, chart);
            check_degree<2>(c, md, mesh, part, chart);
            check_degree<3>(c, md, mesh, part, chart);
            c.check(cedges.size() == size_t(ncells), "isoparam/quad setup", "unexpected number of chart edges (machinery)");
            c.nontrivial(verif::Hash().pod(md.hash()).get());
            c.outcome("cells=" + std::to_string(ncells));
            c.count("cases");
          }
    // hexahedra without charts
    for(int geo : {1, 3})
      for(int g = 0; g < 48; g += 5)
      {
        if(!c.want()) continue;
        c.desc([&]{ return "iso hexa without charts gA=" + std::to_string(g) + " gB=" + std::to_string((7 * g + 3) % 48) + " geo=" + geo_name(geo); });
        check_hexa_nochart<1>(c, g, (7 * g + 3) % 48, geo);
        check_hexa_nochart<2>(c, g, (7 * g + 3) % 48, geo);
        check_hexa_nochart<3>(c, g, (7 * g + 3) % 48, geo);
        c.nontrivial(verif::Hash().pod(g).pod(geo).get());
        c.outcome("hexa");
        c.count("cases_hexa");
      }
  });
}
