// C03: the element-wise / reduction operations, written once for SparseMatrixCSR and SparseMatrixBCSR (traits class T).
#pragma once
#include <c03_common.hpp>
#include <algorithm>

namespace c03
{
  enum UOp { U_AXPY, U_SCALE, U_SCALE_ROWS, U_SCALE_COLS, U_FROB, U_RN2, U_RN2SQR, U_RN2SQR_S, U_LUMP, U_DIAG, U_MAXABS, U_MINABS, U_MAX, U_MIN, U_SHRINK, U_BANDW, U_RADIUS, U_COUNT };
  static const char* uname[U_COUNT] = {"axpy", "scale", "scale_rows", "scale_cols", "norm_frobenius", "row_norm2", "row_norm2sqr", "row_norm2sqr(scal)",
    "lump_rows", "extract_diag", "max_abs_element", "min_abs_element", "max_element", "min_element", "shrink", "bandwidth_row/column", "radius_row/column"};
  struct UCase { int op, var; };

  inline std::vector<UCase> ucases(bool with_shrink)
  {
    std::vector<UCase> v;
    for(int var = 0; var < 14; ++var) v.push_back({U_AXPY, var});       // alpha = var % 7, alias = var / 7
    for(int var = 0; var < 14; ++var) v.push_back({U_SCALE, var});
    for(int var = 0; var < 2; ++var) v.push_back({U_SCALE_ROWS, var});  // alias
    for(int var = 0; var < 2; ++var) v.push_back({U_SCALE_COLS, var});
    v.push_back({U_FROB, 0}); v.push_back({U_RN2, 0}); v.push_back({U_RN2SQR, 0}); v.push_back({U_RN2SQR_S, 0});
    v.push_back({U_LUMP, 0}); v.push_back({U_LUMP, 1});
    v.push_back({U_DIAG, 0});
    for(int op = U_MAXABS; op <= U_MIN; ++op) for(int zv = 0; zv < 2; ++zv) v.push_back({op, zv});
    if(with_shrink) for(int var = 0; var < 10; ++var) v.push_back({U_SHRINK, var});     // threshold = var % 5, zv = var / 5
    if(with_shrink) { v.push_back({U_BANDW, 0}); v.push_back({U_RADIUS, 0}); }            // CSR only: pattern reductions
    return v;
  }

  /// alphabet 3 of C03 ("extreme magnitudes"): the exact values with exponents cycling through denormal / huge / normal / tiny by position,
  /// used for the operations that select or compare by magnitude or only scale single entries (no sums of entries)
  inline void make_extreme(DenseRef& D, bool is_float)
  {
    const int e[4] = {is_float ? -130 : -1030, is_float ? 120 : 1000, 0, is_float ? -100 : -1000};
    for(int i = 0; i < D.m; ++i) for(int j = 0; j < D.n; ++j) if(D.has(i, j)) D.at(i, j) = ldexpl(aval(0, i, j), e[(i + 2 * j) % 4]);
  }
  inline bool alphabet_applies(int op, int alphabet)
  {
    if(alphabet != 3) return true;
    if(op == U_BANDW || op == U_RADIUS) return false;   // pattern only: one alphabet is enough
    return op == U_SCALE || op == U_SCALE_ROWS || op == U_SCALE_COLS || op == U_DIAG || (op >= U_MAXABS && op <= U_MIN) || op == U_SHRINK;
  }
  /// (alphabet, scenario) variants of the element-wise operations
  inline std::vector<Variant> uvariants(bool full)
  {
    std::vector<Variant> v = {{0, S_BASE}, {1, S_BASE}, {2, S_BASE}, {3, S_BASE}};
    if(full) for(int sc : {S_CLONE_DEEP, S_CLONE_SHALLOW, S_CLONE_WEAK, S_MOVE, S_CONVERT}) v.push_back({0, sc});
    else v.push_back({0, S_CLONE_WEAK});
    return v;
  }

  // ------------------------------------------------------------------------------------------ unary / element-wise operations
  // scenario (lesson 3): the operand(s) are derived objects (deep/shallow/weak clone, moved, index-type round trip) of source objects that
  // stay alive and must be unchanged; for the writing operations the target is a weak clone of a bystander that shares the layout arrays.
  // Every operation is invoked a second time on the same objects (lesson 2).
  template<typename T>
  void run_unary(verif::Ctx& c, const UCase& uc, const DenseRef& D0, int rep, int alphabet, const typename T::Aux& aux, int scenario = S_BASE)
  {
    typedef typename T::DT DT; typedef typename T::IT IT;
    typedef typename T::M M; typedef typename T::VL VL; typedef typename T::VR VR; typedef typename T::MO MO;
    const std::string key = std::string(T::prefix()) + uname[uc.op];
    const LD eps = LD(std::numeric_limits<DT>::epsilon());
    const LD nan = std::numeric_limits<LD>::quiet_NaN();
    const bool xact = alphabet_exact(alphabet);
    DenseRef D = D0;
    if(alphabet == 3) make_extreme(D, std::is_same<DT, float>::value);
    for(auto& v : D.a) v = LD(DT(v));
    const int m = D.m, n = D.n, nnz = D.nnz();
    // row major list of the pattern
    const std::vector<std::pair<int, int>> ent = T::entries(D, aux);
    auto zero_first = [&](DenseRef& d) { if(!ent.empty()) d.at(ent[0].first, ent[0].second) = LD(0); };
    // derived operands: sources are kept alive and re-hashed at the end
    std::vector<std::unique_ptr<M>> src; std::vector<uint64_t> src_hash;
    const int dk = derive_kind(scenario);
    auto operand = [&](const DenseRef& d) -> M {
      if(!dk) return T::build(d, rep, aux);
      src.emplace_back(new M(T::build(d, rep, aux))); src_hash.push_back(hash_of(*src.back()));
      return derive_matrix<M, MO>(*src.back(), dk); };
    // target of a writing operation: in the derived scenarios a weak clone of a bystander (shared layout arrays, own values)
    auto target = [&](const DenseRef& d) -> M {
      if(!dk) return T::build(d, rep, aux);
      src.emplace_back(new M(T::build(d, rep, aux))); src_hash.push_back(hash_of(*src.back()));
      return src.back()->clone(CloneMode::Weak); };
    auto sources_unchanged = [&]{
      for(size_t q = 0; q < src.size(); ++q) if(hash_of(*src[q]) != src_hash[q]) { c.fail(key + " source-of-derived-object-modified", "the object an operand was cloned/moved/converted from (or the bystander sharing the layout of the target) changed"); return; } };
    if(dk) c.count("derived_object_cases");

    switch(uc.op)
    {
    case U_AXPY: case U_SCALE:
    {
      const bool alias = uc.var >= 7; const Scalar& sc = scalars[uc.var % 7]; const LD alpha = LD(DT(sc.v));
      DenseRef DX(m, n), DY = D;
      for(auto& e : ent) DX.set(e.first, e.second, LD(DT(aval(alphabet, e.first + 4, e.second + 5))));
      if(uc.op == U_SCALE && !alias) for(auto& e : ent) DY.set(e.first, e.second, nan);
      M Y = target(DY); M Xm = operand(DX);
      const M& X = alias ? Y : Xm;
      const uint64_t hx = hash_of(Xm), sy = hash_structure(Y);
      const bool exact = xact && sc.dyadic;
      std::vector<LD> cur; for(auto& e : ent) cur.push_back(D.at(e.first, e.second));
      for(int pass = 0; pass < 2; ++pass)   // pass 1 = re-invocation on the result of pass 0
      {
        if(uc.op == U_AXPY) Y.axpy(X, DT(alpha)); else Y.scale(X, DT(alpha));
        if(pass) c.count("re_invocations");
        c.check(hash_structure(Y) == sy, key + " structure-modified", "layout of the result changed");
        c.check(hash_of(Xm) == hx, key + " x-modified", "operand x was modified");
        bool ok = true;
        for(size_t k = 0; k < ent.size() && ok; ++k)
        {
          const LD y = cur[k], x = alias ? y : DX.at(ent[k].first, ent[k].second);
          const LD expect = (uc.op == U_AXPY) ? y + alpha * x : alpha * x;
          ok = near<DT>(c, key + (alias ? " x==this" : "") + (pass ? " re-invocation" : ""), T::val(Y)[k], expect, exact, 8 * eps * (fabsl(y) + fabsl(alpha * x)), "entry " + std::to_string(k));
          cur[k] = LD(T::val(Y)[k]);
        }
        if(!ok) break;
      }
      break;
    }
    case U_SCALE_ROWS: case U_SCALE_COLS:
    {
      const bool alias = uc.var == 1; const bool rows = (uc.op == U_SCALE_ROWS);
      DenseRef DY = D; if(!alias) for(auto& e : ent) DY.set(e.first, e.second, nan);
      M Y = target(DY); M Xm = operand(D);
      const M& X = alias ? Y : Xm;
      std::vector<LD> sf; for(int i = 0; i < (rows ? m : n); ++i) sf.push_back(LD(DT(sval(alphabet, i))));
      VL sl = T::make_l(aux); VR sr = T::make_r(aux); if(rows) vfill(sl, sf); else vfill(sr, sf);
      const auto ssl = vflat(sl); const auto ssr = vflat(sr); const uint64_t hx = hash_of(Xm), sy = hash_structure(Y);
      std::vector<LD> cur; for(auto& e : ent) cur.push_back(D.at(e.first, e.second));
      for(int pass = 0; pass < 2; ++pass)
      {
        if(rows) Y.scale_rows(X, sl); else Y.scale_cols(X, sr);
        if(pass) c.count("re_invocations");
        c.check(hash_structure(Y) == sy, key + " structure-modified", "layout of the result changed");
        c.check(hash_of(Xm) == hx && same_bits(ssl, vflat(sl)) && same_bits(ssr, vflat(sr)), key + " operand-modified", "operand x or s was modified");
        bool ok = true;
        for(size_t k = 0; k < ent.size() && ok; ++k)
        {
          const LD x = alias ? cur[k] : D.at(ent[k].first, ent[k].second), f = sf[size_t(rows ? ent[k].first : ent[k].second)];
          ok = near<DT>(c, key + (alias ? " x==this" : "") + (pass ? " re-invocation" : ""), T::val(Y)[k], x * f, xact && !(alias && pass && alphabet == 3), 4 * eps * fabsl(x * f), "entry " + std::to_string(k));
          cur[k] = LD(T::val(Y)[k]);
        }
        if(!ok) break;
      }
      break;
    }
    case U_FROB:
    {
      M A = operand(D); const uint64_t h = hash_of(A);
      LD s = 0; for(auto& e : ent) s += D.at(e.first, e.second) * D.at(e.first, e.second);
      for(int pass = 0; pass < 2; ++pass)
      {
        const DT got = A.norm_frobenius();
        if(pass) c.count("re_invocations");
        if(!near<DT>(c, key + (pass ? " re-invocation" : ""), got, sqrtl(s), nnz == 0, LD(nnz + 4) * eps * sqrtl(s), "norm")) break;
      }
      c.check(hash_of(A) == h, key + " matrix-modified", "matrix was modified");
      break;
    }
    case U_RN2: case U_RN2SQR: case U_RN2SQR_S: case U_LUMP:
    {
      M A = operand(D); const uint64_t h = hash_of(A);
      VL r = T::make_l(aux); vfill(r, std::vector<LD>(size_t(m), nan));
      VR s = T::make_r(aux); std::vector<LD> sf; for(int j = 0; j < n; ++j) sf.push_back(LD(DT(sval(alphabet, j)))); vfill(s, sf);
      for(int pass = 0; pass < 2; ++pass)   // pass 1: into the vector that already holds the result
      {
        if(uc.op == U_RN2) A.row_norm2(r);
        else if(uc.op == U_RN2SQR) A.row_norm2sqr(r);
        else if(uc.op == U_RN2SQR_S) A.row_norm2sqr(r, s);
        else if(uc.var == 0) A.lump_rows(r);
        else r = A.lump_rows();
        if(pass) c.count("re_invocations");
        const auto rf = vflat(r);
        if(!c.check(rf.size() == size_t(m), key + " result-length", "result vector has the wrong length")) break;
        bool ok = true;
        for(int i = 0; i < m && ok; ++i)
        {
          LD e = 0, ae = 0;
          for(int j = 0; j < n; ++j) if(D.has(i, j))
          {
            const LD a = D.at(i, j);
            const LD t = (uc.op == U_LUMP) ? a : (uc.op == U_RN2SQR_S ? sf[size_t(j)] * a * a : a * a);
            e += t; ae += fabsl(t);
          }
          bool exact = xact;
          if(uc.op == U_RN2) { e = sqrtl(e); ae = e; exact = (D.row_len(i) == 0); }
          ok = near<DT>(c, key + (pass ? " re-invocation" : ""), rf[size_t(i)], e, exact, LD(D.row_len(i) + 4) * eps * ae, "row " + std::to_string(i));
        }
        if(!ok) break;
      }
      c.check(hash_of(A) == h, key + " matrix-modified", "matrix was modified");
      break;
    }
    case U_DIAG:
    {
      M A = operand(D); const uint64_t h = hash_of(A);
      const int nbr = T::block_rows(aux);
      for(int pass = 0; pass < 2; ++pass)
      {
        // pass 0: extract_diag() is the FIRST access of the fresh object (lesson 6); pass 1: after extract_diag_indices, into filled vectors
        VL d3 = A.extract_diag();
        DenseVector<IT, IT> idx = A.extract_diag_indices();
        if(pass) c.count("re_invocations");
        bool ok = c.check(idx.size() == Index(nbr), key + "_indices length", "wrong length");
        for(int I = 0; I < nbr && ok; ++I)
        {
          const Index expect = T::diag_index(D, aux, I);
          ok = c.check(Index(idx.elements()[I]) == expect, key + "_indices", [&]{ return "row " + std::to_string(I) + ": got " + std::to_string(idx.elements()[I]) + " expected " + std::to_string(expect); });
        }
        VL d1 = T::make_l(aux), d2 = T::make_l(aux); vfill(d1, std::vector<LD>(size_t(m), nan)); vfill(d2, std::vector<LD>(size_t(m), nan));
        if(ok) A.extract_diag(d1, idx);
        A.extract_diag(d2);
        const auto f1 = vflat(d1), f2 = vflat(d2), f3 = vflat(d3);
        c.check(f3.size() == size_t(m), key + " result-length", "wrong length");
        for(int i = 0; i < m && ok && f3.size() == size_t(m); ++i)
        {
          // a diagonal entry exists iff its (block) is stored; inside a stored block every entry is in the pattern
          const LD e = D.has(i, i) ? D.at(i, i) : LD(0);
          ok = near<DT>(c, key + "(diag,indices)", f1[size_t(i)], e, true, 0, "row " + std::to_string(i))
            && near<DT>(c, key + "(diag)", f2[size_t(i)], e, true, 0, "row " + std::to_string(i))
            && near<DT>(c, key + "()", f3[size_t(i)], e, true, 0, "row " + std::to_string(i));
        }
        if(!ok) break;
      }
      c.check(hash_of(A) == h, key + " matrix-modified", "matrix was modified");
      break;
    }
    case U_MAXABS: case U_MINABS: case U_MAX: case U_MIN:
    {
      if(uc.var == 1) zero_first(D);
      M A = operand(D); const uint64_t h = hash_of(A);
      LD e = 0; bool first = true;
      for(auto& en : ent)
      {
        const LD a = D.at(en.first, en.second);
        const LD t = (uc.op == U_MAXABS || uc.op == U_MINABS) ? fabsl(a) : a;
        if(first || ((uc.op == U_MAXABS || uc.op == U_MAX) ? t > e : t < e)) e = t;
        first = false;
      }
      for(int pass = 0; pass < 2; ++pass)
      {
        const DT got = (uc.op == U_MAXABS) ? A.max_abs_element() : (uc.op == U_MINABS) ? A.min_abs_element() : (uc.op == U_MAX) ? A.max_element() : A.min_element();
        if(pass) c.count("re_invocations");
        if(!near<DT>(c, key + (uc.var ? " stored-zero" : "") + (pass ? " re-invocation" : ""), got, e, true, 0, "value")) break;
      }
      c.check(hash_of(A) == h, key + " matrix-modified", "matrix was modified");
      break;
    }
    case U_SHRINK:
    if constexpr(T::has_shrink)
    {
      if(uc.var >= 5) zero_first(D);
      const int t = uc.var % 5;
      std::vector<LD> av; for(auto& en : ent) av.push_back(fabsl(D.at(en.first, en.second)));
      std::sort(av.begin(), av.end());
      LD thr = 0;
      if(av.empty()) thr = (t == 0) ? LD(0) : LD(1);
      else if(t == 1) { thr = av.back(); for(LD x : av) if(x > 0) { thr = x; break; } }
      else if(t == 2) thr = av[av.size() / 2];
      else if(t == 3) thr = av.back();
      else if(t == 4) thr = (alphabet == 3) ? av.back() * 2 : 2 * av.back() + 1;
      M A = operand(D);
      std::vector<std::pair<int, int>> keep; for(auto& en : ent) if(DT(fabsl(D.at(en.first, en.second))) >= DT(thr)) keep.push_back(en);
      const std::string k2 = key + (t == 0 ? " eps=0" : t == 4 ? " eps>max" : " eps=|entry|");
      for(int pass = 0; pass < 2; ++pass)   // shrink is idempotent: pass 1 shrinks the shrunk matrix again
      {
        if(pass && keep.empty()) break;     // an entry-free result cannot be shrunk again (recorded finding: entry-free operand shrink)
        A.shrink(DT(thr));
        if(pass) c.count("re_invocations");
        const std::string k3 = k2 + (pass ? " re-invocation" : "");
        bool ok = c.check(A.rows() == Index(m) && A.columns() == Index(n), k3 + " dimensions", "dimensions changed")
          && c.check(A.used_elements() == Index(keep.size()), k3 + " used_elements", [&]{ return "kept " + std::to_string(A.used_elements()) + " entries, expected " + std::to_string(keep.size()); });
        if(ok && !keep.empty())
        {
          ok = c.check(csr_valid(A), k3 + " invalid-layout", "row_ptr/col_ind of the shrunk matrix are not a valid CSR layout");
          for(size_t k = 0; k < keep.size() && ok; ++k)
          {
            ok = c.check(Index(A.col_ind()[k]) == Index(keep[k].second) && Index(A.row_ptr()[keep[k].first]) <= Index(k) && Index(k) < Index(A.row_ptr()[keep[k].first + 1]), k3 + " pattern", "wrong entry kept")
              && near<DT>(c, k3 + " value", A.val()[k], D.at(keep[k].first, keep[k].second), true, 0, "entry " + std::to_string(k));
          }
        }
        if(!ok) break;
      }
      // derived result (lesson 3): the shrunk matrix must behave like the dense matrix restricted to the kept entries
      if(!keep.empty())
      {
        VL lr = T::make_l(aux); vfill(lr, std::vector<LD>(size_t(m), nan)); A.lump_rows(lr);
        const auto lf = vflat(lr);
        for(int i = 0; i < m; ++i)
        {
          LD e = 0, ae = 0; for(auto& kp : keep) if(kp.first == i) { e += D.at(kp.first, kp.second); ae += fabsl(D.at(kp.first, kp.second)); }
          if(!near<DT>(c, k2 + " lump_rows-of-result", lf[size_t(i)], e, xact && alphabet != 3, LD(n + 4) * eps * ae, "row " + std::to_string(i))) break;
        }
      }
      break;
    }
    case U_BANDW: case U_RADIUS:
    if constexpr(T::has_shrink)
    {
      // pattern reductions: bandwidth = max over non-empty rows (columns) of last-first+1, radius = max distance of the first/last entry of a row (column)
      // to the diagonal; the reported index is the first row (column) that attains the maximum
      M A = operand(D); const uint64_t h = hash_of(A);
      auto ref = [&](bool cols, bool radius, Index& val, Index& idx) {
        val = 0; idx = 0;
        const int no = cols ? n : m, ni = cols ? m : n;
        for(int o = 0; o < no; ++o)
        {
          int first = -1, last = -1;
          for(int q = 0; q < ni; ++q) if(cols ? D.has(q, o) : D.has(o, q)) { if(first < 0) first = q; last = q; }
          if(first < 0) continue;
          const Index t = radius ? Index(std::max(std::abs(first - o), std::abs(last - o))) : Index(last - first + 1);
          if(t > val) { val = t; idx = Index(o); }
        } };
      for(int pass = 0; pass < 2; ++pass)
      {
        Index gv = 99, gi = 99, ev, ei;
        if(uc.op == U_BANDW) A.bandwidth_row(gv, gi); else A.radius_row(gv, gi);
        ref(false, uc.op == U_RADIUS, ev, ei);
        if(!c.check(gv == ev && gi == ei, key + " (row)", [&]{ return "got value " + std::to_string(gv) + " at " + std::to_string(gi) + ", expected " + std::to_string(ev) + " at " + std::to_string(ei); })) break;
        gv = 99; gi = 99;
        if(uc.op == U_BANDW) A.bandwidth_column(gv, gi); else A.radius_column(gv, gi);
        ref(true, uc.op == U_RADIUS, ev, ei);
        if(!c.check(gv == ev && gi == ei, key + " (column)", [&]{ return "got value " + std::to_string(gv) + " at " + std::to_string(gi) + ", expected " + std::to_string(ev) + " at " + std::to_string(ei); })) break;
        if(pass) c.count("re_invocations");
      }
      c.check(hash_of(A) == h, key + " matrix-modified", "matrix was modified");
      break;
    }
    default: break;
    }
    sources_unchanged();
  }
}
