// c13_real -- the rank body of C13 Tier 1 (c13_ops.hpp) compiled against the REAL <mpi.h> (variant rmpi, mpicxx) and
// started by mpirun; prints the bitwise digest of the results of all ranks. Used by harness c13_crossrun to bind the
// MPI model to a real MPI implementation. Not a verif harness of its own (no runner).
//   mpirun -n P c13_real.rmpi <block|star> <a> <b> <refine> <assign> <space> <bs> <op>
#include "c13_ops.hpp"
#ifdef MINIMPI
#error "c13_real must be compiled against a real MPI implementation"
#endif
using namespace c13;

template<typename Mesh_, int space_id_, int BS_>
void go(const Cfg& cf, int op, int rank, RankOut& out, std::string& err)
{
  World<Mesh_, space_id_, BS_> w;
  if(!w.build(cf)) { err = w.error; return; }
  rank_body(w, op, rank, out);
}
template<typename Mesh_>
void dispatch(const Cfg& cf, int op, int rank, RankOut& out, std::string& err)
{
  switch(cf.space * 2 + (cf.bs - 1))
  {
  case 0: go<Mesh_, sp_lagrange1, 1>(cf, op, rank, out, err); break;
  case 1: go<Mesh_, sp_lagrange1, 2>(cf, op, rank, out, err); break;
  case 2: go<Mesh_, sp_lagrange2, 1>(cf, op, rank, out, err); break;
  case 3: go<Mesh_, sp_lagrange2, 2>(cf, op, rank, out, err); break;
  case 4: go<Mesh_, sp_crouzeix, 1>(cf, op, rank, out, err); break;
  case 5: go<Mesh_, sp_crouzeix, 2>(cf, op, rank, out, err); break;
  case 6: go<Mesh_, sp_p0, 1>(cf, op, rank, out, err); break;
  case 7: go<Mesh_, sp_p0, 2>(cf, op, rank, out, err); break;
  default: err = "bad space/kind"; break;
  }
}

int main(int argc, char** argv)
{
  Runtime::ScopeGuard guard(argc, argv);
  if(argc < 9) { fprintf(stderr, "usage: c13_real <block|star> <a> <b> <refine> <assign> <space> <bs> <op> [renum]\n"); return 2; }
  int rank = 0, P = 1;
  MPI_Comm_rank(MPI_COMM_WORLD, &rank); MPI_Comm_size(MPI_COMM_WORLD, &P);
  Cfg cf;
  const std::string kind = argv[1];
  const int a = atoi(argv[2]), b = atoi(argv[3]);
  cf.refine = atoi(argv[4]);
  for(const char* p = argv[5]; *p; ++p) cf.assign.push_back(*p - '0');
  cf.space = atoi(argv[6]); cf.bs = atoi(argv[7]);
  const int op = atoi(argv[8]);
  if(argc > 9) cf.renum = atoi(argv[9]);
  cf.P = P;
  RankOut out; std::string err;
  if(kind == "block") { cf.mesh = vm::gen_block(2, a, b, 0); dispatch<Geometry::ConformalMesh<Shape::Hypercube<2>, 2, double>>(cf, op, rank, out, err); }
  else if(kind == "star") { cf.mesh = vm::gen_star(true, 2, a); dispatch<Geometry::ConformalMesh<Shape::Simplex<2>, 2, double>>(cf, op, rank, out, err); }
  else err = "unknown mesh kind";
  if(!err.empty() || !out.note.empty()) { fprintf(stderr, "c13_real rank %d: %s %s\n", rank, err.c_str(), out.note.c_str()); MPI_Abort(MPI_COMM_WORLD, 3); }
  // serialise: [n0 v0.. n5 v5.. ns s.. nm m..]
  std::vector<double> buf;
  for(int s = 0; s < RankOut::nvec; ++s) { buf.push_back(double(out.vec[s].size())); buf.insert(buf.end(), out.vec[s].begin(), out.vec[s].end()); }
  buf.push_back(double(out.scal.size())); buf.insert(buf.end(), out.scal.begin(), out.scal.end());
  buf.push_back(double(out.mat.size())); buf.insert(buf.end(), out.mat.begin(), out.mat.end());
  int n = int(buf.size());
  std::vector<int> cnt(size_t(P), 0), dsp(size_t(P), 0);
  MPI_Gather(&n, 1, MPI_INT, cnt.data(), 1, MPI_INT, 0, MPI_COMM_WORLD);
  int tot = 0; for(int r = 0; r < P; ++r) { dsp[size_t(r)] = tot; tot += cnt[size_t(r)]; }
  std::vector<double> all(size_t(rank == 0 ? tot : 1));
  MPI_Gatherv(buf.data(), n, MPI_DOUBLE, all.data(), cnt.data(), dsp.data(), MPI_DOUBLE, 0, MPI_COMM_WORLD);
  if(rank == 0)
  {
    std::vector<RankOut> outs(static_cast<size_t>(P));
    for(int r = 0; r < P; ++r)
    {
      const double* p = all.data() + dsp[size_t(r)];
      for(int s = 0; s < RankOut::nvec; ++s) { const size_t k = size_t(*p++); outs[size_t(r)].vec[s].assign(p, p + k); p += k; }
      { const size_t k = size_t(*p++); outs[size_t(r)].scal.assign(p, p + k); p += k; }
      { const size_t k = size_t(*p++); outs[size_t(r)].mat.assign(p, p + k); p += k; }
    }
    printf("C13REAL ranks=%d digest=%016llx\n", P, (unsigned long long)digest(outs));
    fflush(stdout);
  }
  return 0;
}
